#!/usr/bin/env bash
# sweep.sh <tier> <seeds...> : runs every registered check at the given tier and seeds,
# prints one line per run. For use with `vp run` (background sweeps).
tier="$1"; shift
ids=${SWEEP_IDS:-$(python3 -c "import json;print(' '.join(c['property_id'] for c in json.load(open('MANIFEST.json'))['checks']))")}
for seed in "$@"; do
  for id in $ids; do
    start=$(date +%s)
    out=$(VERIF_SEED=$seed timeout 3000 ./check $id $tier 2>&1); rc=$?
    echo "seed=$seed $id $tier exit=$rc $(( $(date +%s)-start ))s :: $(echo "$out" | grep -E "seed=$seed:" | tail -1)"
    echo "$out" | grep -E "^VIOLATION|signature=|KNOWN-FINDING|harness broken|observed too little" | cut -c1-260 | sort | uniq -c | head -8
  done
done
