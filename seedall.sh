#!/usr/bin/env bash
# seedall.sh [names...] : regression over the stored seeded changes: each is applied to a
# scratch worktree of /repo HEAD and its property's quick check must report a violation.
cd /verif
names=("$@"); if [ ${#names[@]} -eq 0 ]; then names=($(ls seeded)); fi
for n in "${names[@]}"; do
  id="${n%%-*}"
  if ! git -C /repo apply --check "/verif/seeded/$n/patch.diff" 2>/dev/null; then echo "$n: does not apply to HEAD (superseded)"; continue; fi
  out=$(./seedtest.sh "$id" "seeded/$n/patch.diff" "$id" 2>&1 | tail -1)
  if echo "$out" | grep -q "exit=2"; then echo "$n: check broken or does not build with this change (exit 2): $out"; elif echo "$out" | grep -q "exit=1"; then echo "$n: caught  $(echo "$out" | sed 's/.*sigs: *//' | cut -c1-110)"; else echo "$n: MISSED  $out"; fi
done
