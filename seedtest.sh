#!/usr/bin/env bash
# seedtest.sh <ID> <patch.diff> [check ids...]
# Applies a seeded change to /repo, runs the given checks' quick tier (default:
# the property's own check), records the verdicts, and ALWAYS reverts /repo.
set -u
ID="$1"; PATCH="$2"; shift 2
CHECKS=("$@"); [ ${#CHECKS[@]} -eq 0 ] && CHECKS=("$ID")
cd /repo || exit 2
if [ -n "$(git status --porcelain)" ]; then echo "/repo not clean"; exit 2; fi
if ! git apply --check "$PATCH" 2>/dev/null; then echo "patch does not apply to /repo HEAD"; exit 2; fi
git apply "$PATCH"
# evidence written while a seeded change is applied is not evidence about /repo
EVBAK=$(mktemp -d /tmp/seedtest-ev.XXXXXX); cp -a /verif/evidence/. "$EVBAK"/
trap 'cd /repo && git checkout -- . && git clean -fdq -- . >/dev/null 2>&1; cp -a "$EVBAK"/. /verif/evidence/; rm -rf "$EVBAK"' EXIT
for c in "${CHECKS[@]}"; do
  out=$(cd /verif && VERIF_SEED=${VERIF_SEED:-1} timeout 1500 ./check "$c" quick 2>&1); rc=$?
  nv=$(echo "$out" | grep -c '^VIOLATION')
  sigs=$(echo "$out" | grep 'signature=' | sed 's/.*signature=//' | sort | uniq -c | sort -rn | head -5 | tr '\n' ';')
  echo "seed=$ID check=$c exit=$rc violations=$nv sigs: $sigs"
done
