#!/usr/bin/env bash
# seedtest.sh <ID> <patch.diff> [check ids...]
# Runs the given checks' quick tier (default: the property's own check) against
# a scratch worktree of /repo's HEAD with the seeded change applied
# (VERIF_REPO, see ./check), so /repo itself is never touched and other runs
# are not disturbed. Equivalent to `git -C /repo apply <patch>; ./check ...;
# git -C /repo checkout -- .`. Evidence and replays of such runs go to the
# scratch .bin-alt-* directory (VERIF_OUT), never to /verif/evidence.
set -u
ID="$1"; PATCH="$(readlink -f "$2")"; shift 2
CHECKS=("$@"); [ ${#CHECKS[@]} -eq 0 ] && CHECKS=("$ID")
W=$(mktemp -d /tmp/seedtest-wt.XXXXXX); rmdir "$W"
git -C /repo worktree add -q --detach "$W" HEAD || exit 2
ALT=/verif/.bin-alt-$(echo "$W" | md5sum | cut -c1-8)
trap 'git -C /repo worktree remove --force "$W" >/dev/null 2>&1; [ -n "${SEEDTEST_KEEP:-}" ] && cp -a "$ALT/out" "$SEEDTEST_KEEP" 2>/dev/null; rm -rf "$ALT"' EXIT
if ! git -C "$W" apply "$PATCH"; then echo "patch does not apply to /repo HEAD"; exit 2; fi
for c in "${CHECKS[@]}"; do
  out=$(cd /verif && VERIF_REPO="$W" VERIF_SEED=${VERIF_SEED:-1} timeout 1800 ./check "$c" quick 2>&1); rc=$?
  nv=$(echo "$out" | grep -c '^VIOLATION')
  sigs=$(echo "$out" | grep 'signature=' | sed 's/.*signature=//' | sort | uniq -c | sort -rn | head -5 | tr '\n' ';')
  echo "seed=$ID check=$c exit=$rc violations=$nv sigs: $sigs"
  [ -n "${SEEDTEST_VERBOSE:-}" ] && echo "$out" | tail -${SEEDTEST_VERBOSE}
done
