#!/usr/bin/env bash
# seedround.sh <ID> <worktree> <dest> [checks...] : seedtest + seedverify for one delivered seed.
ID="$1"; W="$2"; DEST="$3"; shift 3
cd /verif
echo "### $DEST"
./seedtest.sh "$ID" "$W/SEED/patch.diff" "$@" | grep "^seed="
./seedverify.sh "$ID" "$W" "$DEST" 2>&1 | tail -2
