#!/usr/bin/env bash
# Runs the repository's own suites with the verif guard OFF and compares the
# passing set with /root/.vp/BASELINE.json's stable_pass list.
set -u
out=$(mktemp)
for m in . ./cache; do (cd /repo/$m && go test -json -vet=off -count=1 -timeout 25m ./... 2>/dev/null); done > "$out"
python3 - "$out" <<'PY'
import json,sys
base=set(json.load(open('/root/.vp/BASELINE.json'))['stable_pass'])
passed=set(); failed=set()
for l in open(sys.argv[1]):
    try: e=json.loads(l)
    except: continue
    if e.get('Test') and e.get('Action') in('pass','fail'):
        k=e['Package']+'::'+e['Test']
        (passed if e['Action']=='pass' else failed).add(k)
missing=sorted(base-passed)
print(f"baseline stable={len(base)} passed_now={len(passed)} failed_now={len(failed)} baseline_tests_not_passing={len(missing)}")
for m in missing: print("  NOT PASSING:",m)
sys.exit(1 if missing else 0)
PY
rc=$?; rm -f "$out"; exit $rc
