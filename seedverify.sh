#!/usr/bin/env bash
# seedverify.sh <ID> [worktree] [dest name] : independent confirmation, in the scratch worktree
# /tmp/seed-<ID>, that the seeded change compiles, leaves the existing suite
# unchanged, and that its demonstration fails with it and passes without it.
# Then stores patch + demo + meta under /verif/seeded/<ID>/.
set -u
ID="$1"; W="${2:-/tmp/seed-$ID}"; S="$W/SEED"; DEST="${3:-$ID}"
export GOPROXY=off GOFLAGS=-mod=mod
cd "$W" || exit 2
demo=$(python3 -c "import json;print(json.load(open('$S/meta.json'))['demo_cmd'])")
echo "== demo_cmd: $demo"
# state: change applied?
if git apply --check -R "$S/patch.diff" 2>/dev/null; then applied=1; else applied=0; git apply "$S/patch.diff" || { echo "cannot apply"; exit 2; }; fi
echo "== build with change"; (go build ./... && (cd cache && go build ./...)) || { echo "BUILD FAILS"; exit 1; }
echo "== demo WITH change (expect FAIL)"
bash -c "$demo" > /tmp/seedverify-$ID-with.log 2>&1; rcw=$?; tail -3 /tmp/seedverify-$ID-with.log
grep -qE '^(--- FAIL|FAIL|panic:)' /tmp/seedverify-$ID-with.log && rcw=1
git apply -R "$S/patch.diff"
echo "== demo WITHOUT change (expect PASS)"
bash -c "$demo" > /tmp/seedverify-$ID-without.log 2>&1; rco=$?; tail -3 /tmp/seedverify-$ID-without.log
grep -qE '^(--- FAIL|FAIL|panic:)' /tmp/seedverify-$ID-without.log && rco=1
git apply "$S/patch.diff"
echo "== existing suite WITH change"
# demo test files copied into package dirs are not part of the existing suite
mkdir -p /tmp/seedverify-$ID-demos
git status --porcelain | awk '/^\?\?/ {print $2}' | grep '_test.go$' | while read f; do mv "$f" /tmp/seedverify-$ID-demos/; done
mods="."; if grep -q '^diff --git a/cache/' "$S/patch.diff"; then mods="./cache"; fi
for m in $mods; do (cd $W/$m && go test -vet=off -count=1 ./... 2>&1 | grep -E "^(--- FAIL|FAIL|ok|panic)" ); done > /tmp/seedverify-$ID-suite.log
fails=$(grep -c '^--- FAIL' /tmp/seedverify-$ID-suite.log)
known='TestWorkManagerProgressTimeoutFailuresDontReset|TestHandleHeaders|TestNeutrinoSyncWithHeadersImport|TestNeutrinoImportThenP2PSync|TestNeutrinoSyncWithoutHeadersImport'
newfails=$(grep '^--- FAIL' /tmp/seedverify-$ID-suite.log | grep -Ev "$known" | wc -l)
# Timing-sensitive tests of untouched packages fail now and then on a loaded machine: a new
# failure only counts if the test fails again when run on its own (twice).
if [ $newfails -gt 0 ]; then
  still=0
  for t in $(grep '^--- FAIL' /tmp/seedverify-$ID-suite.log | grep -Ev "$known" | awk '{print $3}' | sort -u); do
    for m in $mods; do
      if ! (cd $W/$m && go test -vet=off -count=2 -run "^$t\$" ./... 2>&1 | grep -q '^--- FAIL'); then :; else still=$((still+1)); fi
    done
  done
  echo "new failures re-run on their own: $newfails -> $still"
  newfails=$still
fi
echo "demo_with_rc=$rcw demo_without_rc=$rco suite_fail_lines=$fails new_failures=$newfails"
if [ $rcw -ne 0 ] && [ $rco -eq 0 ] && [ $newfails -eq 0 ]; then
  mkdir -p /verif/seeded/$DEST && cp "$S/patch.diff" "$S/meta.json" /verif/seeded/$DEST/ && cp "$S"/demo* /verif/seeded/$DEST/ 2>/dev/null
  echo "CONFIRMED $ID -> /verif/seeded/$DEST"
else
  echo "NOT CONFIRMED $ID"
fi
