// l1dbg replays one L1 header session (seed, index) verbosely. Debug tool.
package main

import (
	"flag"
	"fmt"
	"os"

	"github.com/btcsuite/btclog"
	"github.com/lightninglabs/neutrino"

	"verif/internal/l1"
)

func main() {
	seed := flag.Int64("seed", 1, "run seed")
	idx := flag.Int("idx", 0, "session index")
	verbose := flag.Bool("v", false, "neutrino logs")
	flag.Parse()
	if *verbose {
		b := btclog.NewBackend(os.Stdout)
		l := b.Logger("NTRN")
		l.SetLevel(btclog.LevelDebug)
		neutrino.UseLogger(l)
	}
	plan := l1.PlanFromSeed(*seed, *idx)
	plan.Name = "dbg"
	s, err := l1.RunHeaderSession(plan, func(s *l1.Session, st *l1.StepObs) {
		fmt.Printf("STEP %s\n   pre=%d post=%d disc=%v panic=%q events=%d\n", s.Steps[len(s.Steps)-1], len(st.Pre)-1, len(st.Post)-1, st.Disc, st.Panic, len(st.Events))
		if len(st.Events) > 0 && len(st.Events) < 40 {
			for _, e := range st.Events {
				fmt.Printf("      ev connected=%v h=%d hash=%s still=%v\n", e.Connected, e.Height, e.Header.BlockHash().String()[:8], e.StillStored)
			}
			for h, hd := range st.Pre {
				fmt.Printf("      pre[%d]=%s\n", h, hd.BlockHash().String()[:8])
			}
		}
		for _, f := range l1.CheckC01(s, st) {
			fmt.Println("   C01:", f.Sig, f.What)
		}
		for _, f := range l1.CheckC02(s, st) {
			fmt.Println("   C02:", f.Sig, f.What)
		}
	}, func(s *l1.Session, st *l1.StepObs, err error) {
		fmt.Println("STORE ERR:", err, s.Steps[len(s.Steps)-1])
	})
	fmt.Println("end:", err)
	if s != nil {
		s.Close()
	}
}
