// C19: emitted chain events mirror exactly how the committed chain changed.
// Engine L1: the real block manager's notification channel is drained by the
// driver while each handler call runs (stores read at receipt), and compared
// with the store contents before/after every step; NotificationsSinceHeight
// is probed after every step.
package main

import (
	"fmt"
	"os"

	"time"

	"verif/internal/c19"
	"verif/internal/evid"
	"verif/internal/l1"
	"verif/internal/l2"
)

func main() {
	r := evid.New("C19", "exploration")
	// Scenario 0 is fixed (filter headers lagging, reorganisation above the
	// filter tip); the others are drawn, about half of them with such steps.
	nL2 := r.Pick(9, 451)
	// Family regwin (internal/c19/regwin.go): scenarios nL2.. of the same
	// child-process list; the first one is fixed, the others are drawn.
	nReg := r.Pick(14, 400)
	l2scen := func(seed int64, k int, res *l2.Result) {
		if k >= nL2 {
			defer c19.RegScratch(k)()
			plan := c19.RegPlanFromSeed(seed, k-nL2-1)
			if k == nL2 {
				plan = c19.RegFixedPlan()
			}
			res.Name = plan.Name
			c19.RunRegWin(plan, res)
			return
		}
		res.Name = fmt.Sprintf("c19-l2-%d", k)
		if k == 0 {
			res.Name = "c19-l2-fixed-lag-reorg"
			l2.RunSubs(l2.SubsFixedLagReorg(), res)
			return
		}
		l2.RunSubs(l2.SubsPlanWithLagFromSeed(seed, k-1), res)
	}
	if l2.IsChild() {
		l2.RunScenarios(r, nL2, 240*time.Second, l2scen)
	}
	r.Rule("the C01/C02 header sessions (reorganisations of every depth, incl. blocks whose filter headers were never committed) and the C03 filter sessions (tip and checkpointed filter batches with full/partial first intervals, reorgs between and inside rounds); per step: disconnected events == removed block headers highest-first with header/height/new-tip, received after the block store changed; connected events == newly committed filter headers in increasing height, each carrying the stored block header, received after the filter store held it; a model subscriber replaying the events ends with exactly the committed chain up to the filter tip; NotificationsSinceHeight(h) for h in {0, random, tip-1, tip, tip+1, tip+7} equals the committed blocks above h. distinct = (step kind class, #connected bucket, #disconnected bucket); non-trivial = at least one event was emitted or a backlog was non-empty")
	r.Assume("events are observed on the block manager's own unbuffered channel (the subscription manager on top of it is C11's subject)")
	bucket := func(n int) string {
		switch {
		case n == 0:
			return "0"
		case n == 1:
			return "1"
		case n <= 10:
			return "2-10"
		case n <= 999:
			return "11-999"
		}
		return ">=1000"
	}
	obs := func(s *l1.Session, st *l1.StepObs, class string) {
		nc, nd := 0, 0
		for _, e := range st.Events {
			if e.Connected {
				nc++
			} else {
				nd++
			}
		}
		r.Case(fmt.Sprintf("%s|%s|c%s|d%s", class, kind(st.Kind), bucket(nc), bucket(nd)), nc+nd > 0 || len(st.PostF) > 1)
		r.Count("events_connected", int64(nc))
		r.Count("events_disconnected", int64(nd))
		r.Count("steps", 1)
		r.Count("backlog_probes", 6)
		for _, f := range l1.CheckC19(s, st, true) {
			r.Violation(f.Sig+s.SigSuffix, f.What, map[string]any{"session_seed": s.Seed, "script_tail": tail(s.Steps, 40),
				"step": st.Index, "kind": st.Kind, "pre_block_tip": len(st.Pre) - 1, "post_block_tip": len(st.Post) - 1,
				"pre_filter_tip": len(st.PreF) - 1, "post_filter_tip": len(st.PostF) - 1, "events": len(st.Events)})
		}
	}
	// Development aid: L1_IOFAULT_ONLY=1 runs only family iofault; never set by
	// registered commands.
	devIO := os.Getenv("L1_IOFAULT_ONLY") != ""
	nHdr := r.Pick(60, 1200)
	if devIO {
		nHdr = 0
	}
	l1.RunMany(r.Seed, nHdr, l1.Callbacks{
		OnStep:     func(s *l1.Session, st *l1.StepObs) { obs(s, st, "hdr") },
		OnStoreErr: func(s *l1.Session, st *l1.StepObs, err error) { r.Inconclusive("store-unreadable (reported by C01)") },
		OnEnd: func(s *l1.Session, err error) {
			if err != nil {
				fmt.Fprintln(os.Stderr, "session error:", err)
				r.Inconclusive("session-error")
			}
			r.Count("sessions", 1)
			if s != nil {
				r.Count("mid_batch_backlog_probes", int64(s.MidProbes))
			}
		},
	})
	r.Rule("family twostage (checkpointed filter-header sync starting from a PARTIALLY STORED interval): stage 1 syncs a chain of PreLen blocks completely (filter tip = PreLen: 20-900, 1000+x, 2000+x, sometimes exactly on a checkpoint), stage 2 lets the honest chain end 1000-2500 blocks higher (sometimes forking 1-30 blocks below the stage-1 tip: committed blocks are disconnected first), syncs the block headers and continues the filter rounds, so the first checkpointed batch overlaps headers already stored; honest / lying / truncating / silent peers, growth and reorganisations mixed in; plus a few sessions of family truncbatch (peers answering a batched getcfheaders with a truncated batch). The first plans of each list are seed-independent (332 -> 1500; 1007 -> 3100; 600 forked by 5 -> 3050). Same per-step oracle: every connected event carries the header and the height of a newly committed block, in increasing height order, after the commitment is stored")
	filterCbs := l1.FilterCallbacks{
		OnStep: func(fs *l1.FilterSession, st *l1.StepObs) {
			class := "flt"
			if fs.Plan.PreLen > 0 {
				class = "flt2"
			}
			obs(fs.Session, st, class)
		},
		OnStoreErr: func(fs *l1.FilterSession, st *l1.StepObs, err error) {
			r.Inconclusive("store-unreadable (reported by C03)")
		},
		OnEnd: func(fs *l1.FilterSession, err error) {
			if err != nil {
				fmt.Fprintln(os.Stderr, "session error:", err)
				r.Inconclusive("session-error")
			}
			r.Count("sessions", 1)
			if fs != nil && fs.Session != nil {
				r.Count("mid_batch_backlog_probes", int64(fs.MidProbes))
			}
			if fs != nil && fs.Session != nil && len(fs.Steps) > 0 {
				r.Sample(map[string]any{"plan": fs.Plan, "script_tail": tail(fs.Steps, 6)})
			}
			if fs == nil || fs.Session == nil {
				return
			}
			if fs.Plan.PreLen > 0 {
				r.Count("twostage_sessions", 1)
				if fs.Stage2Lag >= 1000 && fs.Stage1Tip == fs.Plan.PreLen {
					r.Count("twostage_sessions_synced_then_at_least_one_interval_behind", 1)
				}
			}
			if fs.PartialCheckpointed > 0 {
				r.Count("checkpointed_rounds_starting_from_partially_stored_interval", int64(fs.PartialCheckpointed))
				r.Count("connected_events_in_those_rounds", int64(fs.PartialCheckpointedEvents))
				r.Mark("checkpointed-from-partial-interval|" + fs.Plan.Family)
			}
			if all, _ := fs.TruncatedServed(); all > 0 {
				r.Count("truncated_cfheaders_batches_served", int64(all))
			}
			if l1.TwoStageFixedIndex(fs.Plan) >= 0 {
				if fs.PartialCheckpointed == 0 {
					r.Inconclusive("twostage-fixed-plan-did-not-reach-a-checkpointed-round-from-a-partial-interval")
				} else {
					r.Count("twostage_fixed_plans_reaching_a_checkpointed_round_from_a_partial_interval", 1)
				}
			}
		},
	}
	if !devIO {
		l1.RunManyFilter(r.Seed, r.Pick(30, 400), r.Pick(12, 200), r.Pick(10, 120), filterCbs)
		l1.RunCatchUpFilter(r.Seed, r.Pick(2, 40), r.Pick(7, 160), filterCbs)
	}
	r.Rule("family iofault (ONE transient I/O error underneath the real stores: a flat-file Write / short write / Truncate / Sync / ReadAt / Stat / Seek or a database Update / View failing once, at a chosen call position, while one headers message is handled or one filter-header round runs) in sessions with block AND filter headers synced: growth, reorganisations with the filter tip above the fork point, an off-chain peer running into a hard-coded checkpoint (rollback to the previous one); afterwards the same branch is offered again, filter-header rounds run, and the chain grows and reorganises again. A panic of the client in the step of the fault is the death of the process: stores reopened through the constructors, fresh block manager, peers reconnect; the reference restarts from what the reopened stores hold. If the client carries on, the same oracle applies to that step and to every later one. The first plans are seed-independent (truncate of either file in a reorganisation rollback / in the checkpoint rollback; a read failing right after a filter-header batch was committed; a short header write; the failed write of the first header of a new branch)")
	ioCbs := filterCbs
	ioCbs.OnStep = func(fs *l1.FilterSession, st *l1.StepObs) { obs(fs.Session, st, "iof") }
	ioCbs.OnEnd = func(fs *l1.FilterSession, err error) {
		filterCbs.OnEnd(fs, err)
		if fs != nil {
			counts, marks, inc := l1.IOFaultEvidence(fs)
			for k, v := range counts {
				r.Count(k, v)
			}
			for _, m := range marks {
				r.Mark(m)
			}
			if inc != "" {
				r.Inconclusive(inc)
			}
		}
	}
	l1.RunIOFaultFilter(r.Seed, r.Pick(30, 500), ioCbs)
	if devIO {
		r.Finish(1)
	}
	// L2 part: real block subscriptions on the complete client (subscription
	// manager on top of the block manager) while the honest chain grows and
	// reorganises; each subscriber replays backlog + events and must hold the
	// committed chain at every quiescent point.
	r.Rule("family regwin (registration window; the REAL blockntfns.SubscriptionManager on top of the REAL block manager of engine L1, wired as ChainService wires it, in child processes next to the network-simulation scenarios): the notification source handed to the manager is the block manager behind a wrapper that, right after a backlog read (NotificationsSinceHeight) returned, lets the next chain change of the round start on the driver goroutine and waits (placement only) until it completed or, having reached a pause point rb.afterBlock / cf.afterWrite, evidently waits for the registering goroutine. Per round one primary subscriber registers from (filter tip - x | 0) while the chain is quiet and 0-2 secondaries from a height below every fork point of the round register while the change is under way; changes: extension, extension of block headers only (filter headers lag), reorganisation of depth 1-6 (shallower than / exactly as deep as / deeper than the backlog; reaching below the subscribed height; of uncommitted blocks only), rollback now and filter headers in a second change, two reorganisations in one registration. A failed Subscribe is retried from the same height. Oracle: the replay rule of the network-simulation part (l2.SubReplay) at the quiescent point after every round, for every live subscriber. The first session is seed-independent")
	l2.RunScenarios(r, nL2+nReg, 240*time.Second, l2scen)
	r.Finish(10)
}

func kind(k string) string {
	for _, p := range []string{"ext-after-bad", "ext-bad", "fork", "ext", "dup", "shuffled", "orphan", "inv", "donepeer", "cf.tip", "cf.checkpointed", "cf.resolve", "cf.getcheckpts"} {
		if len(k) >= len(p) && k[:len(p)] == p {
			return p
		}
	}
	return k
}

func tail(s []string, n int) []string {
	if len(s) > n {
		return s[len(s)-n:]
	}
	return s
}
