// C04: with one honest peer the client converges on the true best chain end
// to end. Engine L2: the complete real ChainService against scripted wire
// peers; one child process per scenario.
package main

import (
	"fmt"
	"time"

	"verif/internal/evid"
	"verif/internal/l2"
	"verif/internal/netsim"
)

func main() {
	r := evid.New("C04", "exploration")
	r.Rule("seeded network scenarios: 1 honest peer + 1-5 others drawn from {stale, lighter fork, chain with one invalid header (each rule), filter liar (omit-script / wrong-hash / unserved), silent, garbage bytes, flapping, no compact-filter service, no witness service, slow honest}, random connection order, chains of 30-430 blocks (at-tip filter sync) or 1000-2600 (checkpointed), 3 retarget presets, 0-2 header checkpoints; after initial sync the honest chain grows (announced by inv or headers) and reorganises. SAFETY at every sample (3 ms): the reported best block is a block of the generated tree on a fully valid chain. BOUNDED PROGRESS: the honest tip is reported within the deadline after each change; a miss is a violation only if the client's state was stable for the last third of the deadline, else inconclusive. END: stored chains re-validated, committed filter headers equal ground truth. distinct = peer-mix multiset x chain class x checkpoints x reorg; non-trivial = the client synced at least one block")
	r.Assume("client knobs QueryTimeout/ConnectionRetryInterval etc. (exported configuration variables) are shortened; the simulated peers implement the protocol subset of DESIGN appendix B")
	n := r.Pick(20, 1200)
	l2.Main(r, n, 420*time.Second, 8, scenario)
}

func scenario(seed int64, k int, res *l2.Result) {
	plan := l2.PlanFromSeed(seed, k)
	_ = k
	res.Name = fmt.Sprintf("c04-%d", k)
	res.Fingerprint = plan.Describe()
	b := l2.Build(plan)
	w := b.W
	defer w.Cleanup()
	admit := b.GateFirstPeer()
	if err := w.StartClient(nil, l2.ClientOpts{}); err != nil {
		res.Inconcl("client start failed: " + err.Error())
		return
	}
	admit()
	b.StartBackground()
	witness := func() any {
		return map[string]any{"plan": plan, "event_log_tail": w.Log.Tail(60), "last_sample": w.Sample()}
	}
	// Deadline from the protocol timers the scenario can force: a silent
	// peer chosen as sync peer costs one btcd stall timeout for getheaders
	// (3 x 30 s, checked every 15 s) before the client moves on.
	deadline := 45*time.Second + time.Duration(plan.SilentPeers())*110*time.Second
	phase := func(name string, tip int32, ok, stuck bool, last l2.Snapshot) bool {
		if ok {
			res.Count("phases_converged", 1)
			return true
		}
		if ll := b.LoneLiarBelieved(); stuck && ll != "" {
			res.Violate(evid.Sig("c04/lone-liar-believed", pathOf(plan)),
				fmt.Sprintf("%s: the honest tip (height %d) was not reported within %v and the client's state did not change during the last third of that time (last best height %d); %s", name, tip, deadline, last.BestHeight, ll), witness())
		} else if df := b.ForkDeeperThanOneHeadersMessage(); stuck && df != "" {
			res.Violate(evid.Sig("c04/fork-deeper-than-one-headers-message"),
				fmt.Sprintf("%s: the honest tip (height %d) was not reported within %v and the client's state did not change during the last third of that time (last best height %d); %s", name, tip, deadline, last.BestHeight, df), witness())
		} else if stuck {
			res.Violate(evid.Sig("c04/no-progress", name, stuckCause(b)),
				fmt.Sprintf("%s: the honest tip (height %d) was not reported within %v and the client's state did not change during the last third of that time (last best height %d, current=%v)",
					name, tip, deadline, last.BestHeight, last.Current), witness())
		} else {
			res.Inconcl("deadline missed while still progressing: " + name)
		}
		return false
	}

	ok, stuck, last, grown := b.AwaitHonest(deadline, 4*time.Second, plan.Announce)
	tip := b.Tip()
	res.Count("honest_growth_blocks", int64(grown))
	good := phase("initial-sync", tip.Height, ok, stuck, last)
	res.Nontrivial = last.BestHeight > 0 || ok
	if good && plan.HonestBlip {
		// Let the other peers get connected (and asked) first.
		l2.WaitFor(3*time.Second, func() bool { return int(w.Svc.ConnectedCount()) >= len(plan.Peers) })
		time.Sleep(50 * time.Millisecond)
		for _, hp := range b.Honest {
			hp.Disconnect()
		}
		time.Sleep(20 * time.Millisecond)
		res.Count("honest_blips", 1)
	}
	if good && plan.Extend > 0 {
		ext := w.G.Extend(tip, plan.Extend, 0)
		nt := ext[len(ext)-1]
		b.SetHonestTip(nt, plan.Announce)
		ok, stuck, last = b.AwaitTip(nt, deadline)
		good = phase("growth", nt.Height, ok, stuck, last)
		tip = nt
	}
	// Drip: single blocks announced one at a time with the chain at rest in
	// between; each must be reported (block AND filter header) before the
	// next one is revealed, so a wake-up lost between the header and the
	// filter-header machinery is not papered over by the next announcement.
	if good && k%2 == 1 {
		nDrip := 25
		if plan.SilentPeers() > 0 {
			nDrip = 4 // every filter-header round then waits for a silent peer's timeout
		}
		if plan.OldBelow > 0 {
			nDrip = 5 // widely spaced blocks: stay clear of the future-timestamp limit
		}
		for i := 0; i < nDrip && good; i++ {
			nt := w.G.Extend(tip, 1, 0)[0]
			b.SetHonestTip(nt, plan.Announce)
			ok, stuck, last = b.AwaitTip(nt, deadline)
			good = phase("drip", nt.Height, ok, stuck, last)
			tip = nt
			res.Count("drip_blocks", 1)
		}
	}
	if good && plan.ReorgDepth > 0 && int(tip.Height) > plan.ReorgDepth+1 {
		f := tip.Ancestor(tip.Height - int32(plan.ReorgDepth))
		br := w.G.Extend(f, plan.ReorgDepth+1, 0)
		nt := br[len(br)-1]
		// Only below the last header checkpoint is a reorg impossible by design.
		b.SetHonestTip(nt, plan.Announce)
		ok, stuck, last = b.AwaitTip(nt, deadline)
		if !reorgBelowCheckpoint(plan, f.Height) {
			good = phase("reorg", nt.Height, ok, stuck, last)
			// Back again: the branch the client just left is extended until it
			// is the better chain once more (peers serve its old blocks again,
			// followed by the new ones).
			if good && k%3 != 2 {
				back := w.G.Extend(tip, int(nt.Height-tip.Height)+1+int(plan.Seed&1), 0)
				nt2 := back[len(back)-1]
				if nt2.CumWork.Cmp(nt.CumWork) > 0 {
					b.SetHonestTip(nt2, plan.Announce)
					ok, stuck, last = b.AwaitTip(nt2, deadline)
					good = phase("reorg-return", nt2.Height, ok, stuck, last)
					res.Count("reorgs_back_to_an_abandoned_branch", 1)
				}
			}
		}
	}
	// Stability: with the honest chain at rest, a RESTARTED client (its
	// in-memory header window holds only the tip again) must keep reporting
	// the honest tip while the other peers push their own (lighter, stale,
	// invalid) chains at it.
	if good && k%2 == 0 {
		tip = b.Tip()
		b.StopBackground()
		if err := w.RestartClient(nil, l2.ClientOpts{}, 60*time.Second); err != nil {
			res.Inconcl("restart: " + err.Error())
		} else {
			l2.WaitFor(10*time.Second, func() bool {
				for _, hp := range b.Honest {
					if hp.Conn() != nil && !hp.Conn().Dead() {
						select {
						case <-hp.Ready:
							return w.SyncedTo(tip)
						default:
						}
					}
				}
				return false
			})
			if w.SyncedTo(tip) {
				pushed := b.PushSideChains()
				res.Count("side_chains_pushed_after_restart", int64(pushed))
				if v, n := b.WatchStable(tip, 1500*time.Millisecond); v != "" {
					res.Violate(evid.Sig("c04/left-honest-tip/after-restart", classify(plan)),
						"after a restart, with the honest chain at rest and the honest peer connected: "+v, witness())
				} else {
					res.Count("stability_samples", int64(n))
					// Growth after the restart: the in-memory header window
					// holds only the tip now, so the contextual checks
					// (retarget, median time) of the next headers must find
					// their ancestors in the store. Enough blocks to cross a
					// retarget boundary of every preset.
					ext := w.G.Extend(tip, 2*plan.Interval+3, 0)
					nt := ext[len(ext)-1]
					b.AnnounceExtension(ext)
					ok2, stuck2, last2 := b.AwaitTip(nt, deadline)
					if phase("growth-after-restart", nt.Height, ok2, stuck2, last2) {
						res.Count("blocks_adopted_after_restart", int64(len(ext)))
					}
				}
			} else {
				res.Inconcl("restarted client not at the honest tip before the stability phase")
			}
		}
		b.RestartBackground()
	}
	// Restart while the filter headers lag: the peers stop answering filter-
	// header requests, the honest chain grows (block headers follow, filter
	// headers cannot), the client is restarted on that data directory and the
	// peers answer again. With the honest chain at rest the client must still
	// get to the honest tip.
	if good && k%4 == 1 {
		tip = b.Tip()
		b.WithholdCF.Store(true)
		ext := w.G.Extend(tip, 3+int(plan.Seed%17), 0)
		nt := ext[len(ext)-1]
		b.SetHonestTip(nt, plan.Announce)
		lag := l2.WaitFor(20*time.Second, func() bool {
			_, h, err := w.Svc.BlockHeaders.ChainTip()
			return err == nil && int32(h) == nt.Height
		})
		_, fh, _ := w.Svc.RegFilterHeaders.ChainTip()
		b.StopBackground()
		if !lag || int32(fh) >= nt.Height {
			b.WithholdCF.Store(false)
			res.Count("lag_restart_skipped", 1)
		} else if err := w.RestartClient(nil, l2.ClientOpts{}, 60*time.Second); err != nil {
			b.WithholdCF.Store(false)
			res.Inconcl("restart: " + err.Error())
		} else {
			b.WithholdCF.Store(false)
			res.Count("restarts_with_lagging_filter_headers", 1)
			res.Count("filter_headers_behind_at_restart", int64(nt.Height)-int64(fh))
			ok3, stuck3, last3 := b.AwaitTip(nt, deadline)
			good = phase("restart-with-lagging-filter-headers", nt.Height, ok3, stuck3, last3)
		}
		b.RestartBackground()
	}
	b.StopBackground()
	res.Count("api_samples", b.Sampled.Load())
	res.Count("events_logged", w.Log.Len())
	if v := b.SafetyViolation(); v != "" {
		res.Violate(evid.Sig("c04/unsafe-best-block", classify(plan)), v, witness())
	}
	if good {
		if v := w.ValidateStored(true); v != "" {
			if ll := b.LoneLiarBelieved(); ll != "" {
				res.Violate(evid.Sig("c04/lone-liar-believed", pathOf(plan)), v+"; "+ll, witness())
			} else {
				res.Violate(evid.Sig("c04/end-state", classify(plan)), v, witness())
			}
		}
	}
	stopOK, _ := w.StopClient(60 * time.Second)
	if !stopOK {
		res.Inconcl("Stop did not return within 60s (C17's subject)")
	}
	res.Sample = map[string]any{"plan": plan, "log_events": w.Log.Len(), "converged": good}
}

func pathOf(p l2.Plan) string {
	if p.ChainLen >= 1000 {
		return "checkpointed"
	}
	return "at-tip"
}

func reorgBelowCheckpoint(p l2.Plan, fork int32) bool {
	for _, c := range p.Checkpoints {
		if fork < c {
			return true
		}
	}
	return false
}

// classify names the most hostile ingredient of a plan for signatures.
func classify(p l2.Plan) string {
	best := "honest-only"
	rank := map[string]int{l2.BLiar: 9, l2.BInvalidHdr: 8, l2.BLighter: 7, l2.BGarbage: 6, l2.BSilent: 5, l2.BFlap: 4, l2.BNoCF: 3, l2.BNoWitness: 3, l2.BStale: 2, l2.BTrickle: 1, l2.BHonest: 0}
	top := -1
	for _, pp := range p.Peers {
		if rank[pp.Kind] > top {
			top = rank[pp.Kind]
			best = pp.Kind
			if pp.Kind == l2.BLiar {
				best += ":" + pp.Lies[0].Kind
			}
		}
	}
	if p.ChainLen >= 1000 {
		best += "/checkpointed"
	}
	return best
}

// stuckCause derives a causal class for a stuck client from observations:
// which kind of peer the client last asked for headers (its sync peer), and
// where its header tip stands relative to the checkpoints and the honest tip.
func stuckCause(b *l2.Built) string {
	w := b.W
	kindOf := map[string]string{}
	for i, p := range w.Peers {
		kindOf[p.Addr] = b.Plan.Peers[i].Kind
	}
	syncKind := "none"
	var syncPeer *netsim.Peer
	evs := w.Log.Snapshot()
	for i := len(evs) - 1; i >= 0; i-- {
		if evs[i].Dir == "rx" && evs[i].Cmd == "getheaders" {
			syncKind = kindOf[evs[i].Peer]
			for _, p := range w.Peers {
				if p.Addr == evs[i].Peer {
					syncPeer = p
				}
			}
			break
		}
	}
	state := "hdr-unknown"
	if _, h, err := w.Svc.BlockHeaders.ChainTip(); err == nil {
		_, fh, _ := w.Svc.RegFilterHeaders.ChainTip()
		lastCP := int32(0)
		for _, c := range b.Plan.Checkpoints {
			if c > lastCP {
				lastCP = c
			}
		}
		switch {
		case int32(h) <= lastCP && lastCP > 0 && syncPeer != nil && syncPeer.Conn() != nil &&
			!syncPeer.Conn().Dead() && syncPeer.View.Tip().Height <= lastCP &&
			int32(h) == syncPeer.View.Tip().Height:
			// Independent of what kind of peer it is: the client has all the
			// headers its (still connected) sync peer can give, and they end
			// at or below the last checkpoint.
			return "sync-peer-chain-ends-at-or-below-last-checkpoint"
		case int32(h) <= lastCP && lastCP > 0:
			state = "hdr-not-past-last-checkpoint"
		case int32(h) >= b.Tip().Height:
			state = "hdr-at-honest-height"
			if fh < h {
				state += "/filters-behind"
			}
		default:
			state = "hdr-behind"
		}
	}
	return "last-getheaders-to=" + syncKind + "/" + state
}
