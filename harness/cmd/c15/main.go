// Check C15: accepted transactions are rebroadcast in dependency order until
// confirmed; calls never block indefinitely. Component part over
// pushtx.NewBroadcaster, then the L2 part: ChainService.SendTransaction
// against simulated peers (the verdict rule) and the end-to-end rebroadcast
// through the real client (internal/c15/l2.go).
package main

import (
	"encoding/json"
	"flag"
	"fmt"
	"os"
	"runtime"
	"sync"
	"sync/atomic"
	"time"

	"verif/internal/c15"
	"verif/internal/evid"
	"verif/internal/l2"
)

var (
	oneCase  = flag.Int("case", -1, "run only this case index and print its history")
	replay   = flag.String("replay", "", "re-run the schedule stored in a replay file")
	workers  = flag.Int("workers", 0, "parallel workers (default: number of CPUs)")
	watchdog = flag.Duration("watchdog", 30*time.Second, "watchdog before goroutine-dump classification")
	l2Case   = flag.Int("l2case", -1, "run only this L2 scenario in-process and print its result")
	l2Only   = flag.Bool("l2only", false, "skip the component part (development aid; the floor still applies)")
	busyOnly = flag.Bool("busyonly", false, "run only the busy-handler family of the component part (development aid; the floor still applies)")
	busyN    = flag.Int("busyn", 0, "number of busy-handler cases (default: by tier)")
)

type sample struct {
	Case        int           `json:"case"`
	Fingerprint string        `json:"fingerprint"`
	Spec        *c15.Spec     `json:"spec"`
	Stats       c15.Stats     `json:"stats"`
	Events      int           `json:"events"`
	Pending     int           `json:"calls_not_returned_at_end"`
	PostStop    int           `json:"post_stop_calls"`
	Holds       int           `json:"holds_engaged"`
	Findings    []c15.Finding `json:"findings,omitempty"`
}

type witness struct {
	Case    int         `json:"case"`
	Spec    *c15.Spec   `json:"spec"`
	Finding c15.Finding `json:"finding"`
	Log     []c15.Event `json:"log"`
	AllSigs []string    `json:"all_signatures_in_this_schedule"`
}

func main() {
	r := evid.New("C15", "exploration")
	if l2.IsChild() {
		// Scenario child of the L2 part: runs one scenario and exits.
		l2.RunScenarios(r, 0, 0, c15.L2Scenario)
	}
	if *l2Case >= 0 {
		res := &l2.Result{Scenario: *l2Case}
		c15.L2Scenario(r.Seed, *l2Case, res)
		b, _ := json.MarshalIndent(res, "", " ")
		fmt.Println(string(b))
		if len(res.Violations) > 0 {
			os.Exit(1)
		}
		return
	}
	r.Rule("Each case is one schedule against a real pushtx.Broadcaster: a DAG of 1-12 real wire.MsgTx " +
		"(shape classes single/chain/fanout/fanin/diamond/forest/random/multiedge), submitted in random order with scripted " +
		"callback outcomes (nil, each BroadcastError code, plain error, custom-mapped errors) for the initial broadcast and for every " +
		"later rebroadcast, interleaved with block events on an UNBUFFERED subscription channel, MarkAsConfirmed calls, rounds held open " +
		"inside the callback, the handler held inside an initial broadcast, interval ticks (tick subset) and Stop at scripted points, " +
		"followed by calls after Stop. Busy-handler family (cases from index c15.BusyBase on; three fixed scenarios, then seeded): 1-3 pending " +
		"transactions with dependencies among them, tick mode with an interval of 20-80 ms, NO block event, and for 20-40 intervals one or two callers keep " +
		"calling the broadcaster with unrelated things (Broadcast of transactions that are rejected / accepted, MarkAsConfirmed of unrelated / unknown hashes) " +
		"pausing interval/8..interval/2 between calls; judged by bounded progress: in a window in which the harness' own chain of >= 20 interval timers fired one " +
		"after the other, the handler answered >= that many unrelated calls in >= half of the timer slots, and no rebroadcast was running (goroutine dumps at both " +
		"ends, no callback in between), at least one rebroadcast containing every transaction that was pending throughout must have been started (zero = violation; " +
		"fewer than one per interval is not; preconditions not established = inconclusive). Fingerprint = (DAG shape class, #tx bucket, outcome mix, trigger kinds, stop timing, " +
		"confirmation timings). Non-trivial = at least one rebroadcast round was observed or at least one call was issued after Stop. || " +
		c15.L2Rule + " || " + c15.L2CoSubRule + " || " + c15.L2SeqRule)
	r.Assume("The harness' single mutex + sequence counter orders call/return events consistently with real time (call logged before, return after).")
	r.Assume("RebroadcastInterval of 10h never fires in block-event schedules; rounds there come from block events only.")
	r.Assume("Go goroutine ids are unique per process and runtime.Stack(all) lists every live goroutine with its creator.")
	r.Assume("A transaction rejected DURING a rebroadcast is neither required nor forbidden in later rounds (code keeps it; statement is silent).")
	r.Assume(c15.L2Assume)

	opt := c15.Options{Watchdog: *watchdog}

	if *replay != "" {
		b, err := os.ReadFile(*replay)
		if err != nil {
			fmt.Fprintln(os.Stderr, err)
			os.Exit(2)
		}
		var doc struct {
			Witness struct {
				Case int       `json:"case"`
				Spec *c15.Spec `json:"spec"`
			} `json:"witness"`
			Seed int64 `json:"seed"`
		}
		if err := json.Unmarshal(b, &doc); err != nil || doc.Witness.Spec == nil {
			fmt.Fprintln(os.Stderr, "replay file has no schedule:", err)
			os.Exit(2)
		}
		runOne(doc.Witness.Spec, opt)
		return
	}
	if *oneCase >= 0 {
		runOne(c15.GenAny(r.Seed, *oneCase), opt)
		return
	}

	n := r.Pick(300, 30000)
	nBusy := r.Pick(12, 200)
	if *busyN > 0 {
		nBusy = *busyN
	}
	if *l2Only {
		n, nBusy = 0, 0
	}
	if *busyOnly {
		n = 0
	}
	nw := *workers
	if nw <= 0 {
		nw = runtime.NumCPU()
	}
	results := make([]*c15.Result, n+nBusy)
	var wg sync.WaitGroup
	// The busy-handler cases mostly wait for timers: they run next to the
	// worker pool, at most 16 at a time.
	busySem := make(chan struct{}, 16)
	for j := 0; j < nBusy; j++ {
		wg.Add(1)
		go func(j int) {
			defer wg.Done()
			busySem <- struct{}{}
			results[n+j] = c15.Run(c15.GenBusy(r.Seed, j), opt)
			<-busySem
		}(j)
	}
	next := make(chan int)
	for w := 0; w < nw; w++ {
		wg.Add(1)
		go func() {
			defer wg.Done()
			for i := range next {
				results[i] = c15.Run(c15.Gen(r.Seed, i), opt)
			}
		}()
	}
	for i := 0; i < n; i++ {
		next <- i
	}
	close(next)
	wg.Wait()
	runWall := time.Since(start)

	c15.ResolvePending(results, opt.Watchdog, 2*time.Second)

	var pendingTotal int64
	tickSchedules, tickRounds := 0, 0
	busyJudged := 0
	var busyMargins [][2]int
	var worstMargin [2]int
	for i, res := range results {
		r.Case(res.Fingerprint, res.Nontrivial)
		st := res.Stats
		r.Count("rounds_observed", int64(st.Rounds))
		r.Count("callback_invocations_rebroadcast", int64(st.RoundCallbacks))
		r.Count("callback_invocations_initial", int64(st.InitialCallbacks))
		r.Count("dependency_pairs_checked", int64(st.DepPairs))
		r.Count("confirmations_markasconfirmed_returned", int64(st.Confirmations))
		r.Count("confirmations_reported_in_round", int64(st.RoundConfirmed))
		r.Count("post_stop_calls_exercised", int64(res.PostStopCalls))
		r.Count("block_events_accepted", int64(st.TrigsAccepted))
		r.Count("rounds_attributed_to_one_block_event", int64(st.TrigsAttributed))
		r.Count("rounds_with_several_candidate_events", int64(st.AmbiguousRounds))
		r.Count("rounds_tick_or_unattributed", int64(st.UnattributedRounds))
		r.Count("subset_checks", int64(st.SubsetChecked))
		r.Count("completeness_checks", int64(st.CompleteChecked))
		r.Count("broadcast_returns_checked", int64(st.BroadcastRets))
		r.Count("broadcast_returned_stopped", int64(st.StoppedRets))
		r.Count("holds_engaged", int64(res.HoldsEngaged))
		r.Count("idle_trigger_retries", int64(res.MissRetries))
		r.Count("slow_paths_barrier_plus_dump", int64(res.SlowPaths))
		r.Count("history_events", int64(len(res.Log)))
		r.Count("duplicate_tx_in_round", int64(st.DupInRound))
		pendingTotal += int64(len(res.Pending))
		if res.Spec.Busy != nil {
			r.Count("busy_schedules", 1)
			r.Count("busy_windows", int64(st.BusyWindows))
			r.Count("busy_windows_judged", int64(st.BusyJudged))
			r.Count("busy_window_interval_timers_fired", int64(st.BusyIntervals))
			r.Count("busy_window_rounds_started", int64(st.BusyRounds))
			r.Count("busy_window_unrelated_calls_answered", int64(st.BusyCalls))
			r.Count("busy_window_watched_transactions", int64(st.BusyWatched))
			r.Count("busy_window_rounds_with_every_watched_tx", int64(st.BusyRoundsWithWatched))
			busyJudged += st.BusyJudged
			for _, m := range st.BusyMargins {
				busyMargins = append(busyMargins, m)
				if worstMargin[1] == 0 || m[0]*worstMargin[1] < worstMargin[0]*m[1] {
					worstMargin = m
				}
			}
			if i-n < 3 {
				r.Mark("busy-fixed-" + fmt.Sprint(i-n) + "/" + res.Fingerprint)
			}
		}
		if res.Spec.Tick {
			r.Count("tick_schedules", 1)
			r.Count("tick_started_rounds_observed", int64(st.Rounds))
			tickSchedules++
			tickRounds += st.Rounds
		}
		if (i < 400 && i%67 == 0) || i == n {
			r.Sample(sample{Case: i, Fingerprint: res.Fingerprint, Spec: res.Spec, Stats: st,
				Events: len(res.Log), Pending: len(res.Pending), PostStop: res.PostStopCalls,
				Holds: res.HoldsEngaged, Findings: res.Findings})
		}
		for _, why := range res.Inconclusive {
			r.Inconclusive(why)
		}
		var sigs []string
		for _, f := range res.Findings {
			sigs = append(sigs, f.Sig)
		}
		seen := map[string]bool{}
		for _, f := range res.Findings {
			if seen[f.Sig] {
				continue
			}
			seen[f.Sig] = true
			caseNo := i
			if res.Spec.Busy != nil {
				caseNo = res.Spec.Case // usable with -case
			}
			r.Violation(f.Sig, fmt.Sprintf("case %d: %s", caseNo, f.What),
				witness{Case: caseNo, Spec: res.Spec, Finding: f, Log: res.Log, AllSigs: sigs})
		}
	}
	r.Count("calls_not_returned_at_schedule_end", pendingTotal)
	r.Count("goroutine_dumps_taken", c15.DumpsTaken.Load())
	r.Set("schedule_phase_wall_s", runWall.Seconds())
	r.Set("max_round_size", maxRound(results))
	floor := r.Pick(60, 300)
	if *busyOnly {
		floor = 1
	}
	if nBusy > 0 {
		r.Set("busy_windows_rounds_vs_timers", busyMargins)
		r.Set("busy_window_worst_rounds_vs_timers", worstMargin)
		fmt.Printf("C15 busy-handler family: %d windows judged, worst window %d rounds with every watched tx in %d intervals\n",
			busyJudged, worstMargin[0], worstMargin[1])
		if busyJudged == 0 {
			r.Broken(fmt.Sprintf("busy-handler family: none of %d windows could be judged", nBusy))
		}
	}

	// L2 part: one child process per scenario.
	l2Start := time.Now()
	var l2Evaluated, l2Replied, l2AllowedFailures, l2Rebroadcasts, l2CoJudged, l2CoDeep, l2Foreign, l2SeqJudged, l2SeqMust, l2SeqRebro atomic.Int64
	nL2 := r.Pick(19, 600)
	if *busyOnly {
		nL2 = 0
	}
	if nL2 > 0 {
		// Quick tier: the two reply-sequence scenarios mostly wait (reject
		// windows, BroadcastTimeout, settling before the block); they run next
		// to the pool of the other 17 instead of queueing behind it. The case
		// list is the same either way.
		nMain := nL2
		var side sync.WaitGroup
		cb := func(res *l2.Result) {
			l2Evaluated.Add(res.Counters["l2_calls_evaluated"])
			l2Replied.Add(res.Counters["l2_calls_with_replies"])
			l2AllowedFailures.Add(res.Counters["l2_allowed_failures"])
			l2Rebroadcasts.Add(res.Counters["l2_rebroadcast_seen_by_all_peers"])
			l2CoJudged.Add(res.Counters["l2_cosub_rebroadcast_judged"])
			l2CoDeep.Add(res.Counters["l2_cosub_cancel_with_21plus_unread"])
			l2Foreign.Add(res.Counters["l2_foreign_first_peers_judged"])
			l2SeqJudged.Add(res.Counters["l2_peers_rejecting_repeatedly_judged"])
			l2SeqMust.Add(res.Counters["l2_calls_repeated_rejects_failure_not_allowed"])
			l2SeqRebro.Add(res.Counters["l2_rebroadcast_seen_of_tx_a_peer_rejected_repeatedly"])
		}
		if nL2 == c15.L2SeqFixedK+2 {
			nMain = c15.L2SeqFixedK
			side.Add(1)
			go func() {
				defer side.Done()
				l2.RunScenarioList(r, []int{c15.L2SeqFixedK, c15.L2SeqFixedK + 1}, 2, 240*time.Second, cb)
			}()
		}
		l2.RunScenariosCB(r, nMain, 240*time.Second, c15.L2Scenario, cb)
		side.Wait()
	}
	r.Set("l2_phase_wall_s", time.Since(l2Start).Seconds())
	r.Set("l2_scenarios", nL2)
	if nL2 >= 12 {
		// A silently broken L2 harness must not pass: the part has to have
		// evaluated calls in which peers replied, seen at least one failure
		// the statement allows (the rejects reached the client), and seen a
		// rebroadcast arrive at every peer.
		switch {
		case l2Replied.Load() < int64(2*nL2):
			r.Broken(fmt.Sprintf("L2 part evaluated only %d calls with peer replies in %d scenarios", l2Replied.Load(), nL2))
		case l2AllowedFailures.Load() == 0:
			r.Broken("L2 part never observed a SendTransaction failure that the statement allows: the failure path is unobserved")
		case l2Rebroadcasts.Load() == 0:
			r.Broken("L2 part never observed a rebroadcast reaching every peer")
		case nL2 >= 16 && (l2CoJudged.Load() == 0 || l2CoDeep.Load() == 0):
			r.Broken(fmt.Sprintf("L2 co-subscriber family unobserved: %d scenarios judged, %d cancels with more unread notifications than the subscriber's channel buffers",
				l2CoJudged.Load(), l2CoDeep.Load()))
		case nL2 > c15.L2SeqFixedK+1 && (l2SeqJudged.Load() == 0 || l2SeqMust.Load() == 0):
			// (the rebroadcast of such a transaction is counted, not required
			// here: a change that makes those calls fail leaves none.)
			r.Broken(fmt.Sprintf("L2 reply-sequence family unobserved: %d peers that rejected repeatedly were judged, %d calls with such a peer in which a failure was not allowed",
				l2SeqJudged.Load(), l2SeqMust.Load()))
		}
	}
	if tickSchedules >= 5 && tickRounds == 0 {
		// Whether an interval tick "should have fired by now" is a
		// wall-clock question and therefore never a violation; but a run
		// in which no tick-started rebroadcast was seen at all has
		// observed nothing about that half of the statement.
		fmt.Printf("C15: %d tick schedules produced no tick-started rebroadcast at all: tick part unobserved\n", tickSchedules)
		floor = 1 << 30
	}
	r.Finish(floor)
}

var start = time.Now()

func maxRound(rs []*c15.Result) int {
	m := 0
	for _, r := range rs {
		if r.Stats.MaxRound > m {
			m = r.Stats.MaxRound
		}
	}
	return m
}

func runOne(sp *c15.Spec, opt c15.Options) {
	res := c15.Run(sp, opt)
	c15.ResolvePending([]*c15.Result{res}, opt.Watchdog, 2*time.Second)
	b, _ := json.MarshalIndent(sp, "", " ")
	fmt.Printf("%s\nfingerprint: %s\n", b, res.Fingerprint)
	for _, e := range res.Log {
		fmt.Printf("%4d %-12s op=%-3d tx=%-3d gid=%-6d init=%-5v out=%-10s res=%s\n",
			e.Seq, e.Kind, e.Op, e.Tx, e.Gid, e.Initial, e.Out, e.Res)
	}
	fmt.Printf("stats: %+v\nholds=%d postStop=%d pending=%d slow=%d\n", res.Stats, res.HoldsEngaged,
		res.PostStopCalls, len(res.Pending), res.SlowPaths)
	for _, w := range res.Inconclusive {
		fmt.Println("INCONCLUSIVE:", w)
	}
	for _, f := range res.Findings {
		fmt.Printf("FINDING %s\n   %s\n", f.Sig, f.What)
	}
	if len(res.Findings) > 0 {
		os.Exit(1)
	}
}
