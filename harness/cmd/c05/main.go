// C05: a compact filter is returned, cached or persisted only if it matches
// the committed filter header. Engine L2: the complete real ChainService,
// honestly synced to a 1100-2600 block chain, whose peers answer getcfilters
// from seeded mutation scripts; real GetCFilter calls in every batching mode;
// one child process per scenario. The scenario lives in internal/c05.
package main

import (
	"time"

	"verif/internal/c05"
	"verif/internal/evid"
	"verif/internal/l2"
)

func main() {
	r := evid.New("C05", "exploration")
	r.Rule("seeded L2 scenarios: chain of 1100-2600 blocks (classes: just above one batch, around 2000, 2005-2600), 1-3 peers honest for headers/cfheaders/cfcheckpt (client synced to the true chain; precondition: committed filter headers == ground truth), PersistToDisk on/off, default or 700-byte filter cache, optional background sender of unsolicited cfilter messages at random times, optional client restart on the same data directory. Per round each peer gets a mutation of its getcfilters answer {honest, shuffle, reverse, dup-all/some/target, omit-target/others/some, silence, wrong-type-all, extra (valid+corrupt filters of blocks before/after the range), corrupt at position {target,first,last,middle} by {bitflip, truncate, garbage, empty, extend, nchange, valid filter of neighbouring / distant block, right filter under hash outside / inside the range / foreign hash, wrong type byte} replacing the good entry or sent before/after it}, optionally shuffled/reversed; patterns all-same-adversary / one-honest mixture / different adversaries / honest. Calls: real ChainService.GetCFilter at block 1, 2, tip, tip-1, 999-1002, 1999-2002, tip-1001..tip-998, random, genesis, unknown hash; batching none / forward / reverse, MaxBatchSize {1-3, 5-60, 100-400, 999, >=1000, absent}, NumRetries {1,2,3,default}; sequential, repeated (cache path), 2-4 concurrent with overlapping ranges, after restart (database path). ORACLE 1: every returned filter f for height h satisfies MakeHeaderForFilter(f, committed[h-1]) == committed[h] (committed read from RegFilterHeaders at check time) and equals the generator's filter bytes; (nil,nil) is a violation. ORACLE 2: after every round every FilterCache entry, and after Stop (before closing the DB) every FilterDB entry (FetchFilter for every chain block + raw bucket key enumeration) verifies the same way and is keyed by the block it belongs to. ORACLE 3: a call returning a filter although no peer ever put a verifiable filter for that block on the wire (peer-side record) is a violation; failures despite a delivery are only counted. One evaluation = one scenario; distinct = call shapes (mutation kinds that actually answered, position class, batching class, boundary class, persist, concurrent, outcome) marked by scenarios whose all-honest baseline fetch succeeded; a scenario is non-trivial when at least one filter was fetched from the network under a non-honest answer")
	r.Assume("the simulated peers implement the protocol subset of DESIGN appendix B; client knobs QueryTimeout etc. are shortened (exported configuration); the per-call NumRetries option (public QueryOption) keeps forced worker timeouts affordable; the raw enumeration of the filter bucket uses the bucket names filter-store/regular of filterdb")
	n := r.Pick(14, 200)
	minDistinct := r.Pick(60, 600)
	l2.Main(r, n, 400*time.Second, minDistinct, c05.Scenario(r.Quick()))
}
