// C05: a compact filter is returned, cached or persisted only if it matches
// the committed filter header. Engine L2: the complete real ChainService,
// honestly synced to a 1100-2600 block chain, whose peers answer getcfilters
// from seeded mutation scripts; real GetCFilter calls in every batching mode;
// one child process per scenario. The scenario lives in internal/c05.
package main

import (
	"time"

	"verif/internal/c05"
	"verif/internal/evid"
	"verif/internal/l2"
)

func main() {
	r := evid.New("C05", "exploration")
	baseRule := ("seeded L2 scenarios: chain of 1100-2600 blocks (classes: just above one batch, around 2000, 2005-2600), 1-3 peers honest for headers/cfheaders/cfcheckpt (client synced to the true chain; precondition: committed filter headers == ground truth), PersistToDisk on/off, default or 700-byte filter cache, optional background sender of unsolicited cfilter messages at random times, optional client restart on the same data directory. Per round each peer gets a mutation of its getcfilters answer {honest, shuffle, reverse, dup-all/some/target, omit-target/others/some, silence, wrong-type-all, extra (valid+corrupt filters of blocks before/after the range), corrupt at position {target,first,last,middle} by {bitflip, truncate, garbage, empty, extend, nchange, valid filter of neighbouring / distant block, right filter under hash outside / inside the range / foreign hash, wrong type byte} replacing the good entry or sent before/after it}, optionally shuffled/reversed; patterns all-same-adversary / one-honest mixture / different adversaries / honest. Calls: real ChainService.GetCFilter at block 1, 2, tip, tip-1, 999-1002, 1999-2002, tip-1001..tip-998, random, genesis, unknown hash; batching none / forward / reverse, MaxBatchSize {1-3, 5-60, 100-400, 999, >=1000, absent}, NumRetries {1,2,3,default}; sequential, repeated (cache path), 2-4 concurrent with overlapping ranges, after restart (database path). ORACLE 1: every returned filter f for height h satisfies MakeHeaderForFilter(f, committed[h-1]) == committed[h] (committed read from RegFilterHeaders at check time) and equals the generator's filter bytes; (nil,nil) is a violation. ORACLE 2: after every round every FilterCache entry, and after Stop (before closing the DB) every FilterDB entry (FetchFilter for every chain block + raw bucket key enumeration) verifies the same way and is keyed by the block it belongs to. ORACLE 3: a call returning a filter although no peer ever put a verifiable filter for that block on the wire (peer-side record) is a violation; failures despite a delivery are only counted. One evaluation = one scenario; distinct = call shapes (mutation kinds that actually answered, position class, batching class, boundary class, persist, concurrent, outcome) marked by scenarios whose all-honest baseline fetch succeeded; a scenario is non-trivial when at least one filter was fetched from the network under a non-honest answer. RE-ORG FAMILY (same oracles; scenarios appended to the list: 2 seed-independent ones, then seeded ones on chains of 90-250 / 300-800 / 998-1003 blocks with 2-6 phases each; plus one phase woven in after a random round of every mutation scenario that has neither the ≈30 s call nor the lag phase): a phase = the honest chain grows by 0-3 fresh blocks (announced, adopted), 0-2 rounds fetch filters at/near the tip (unbatched / reverse / forward batches, honest or completing mutations; a fresh block's filter can only come from the network), then the last 1-6 blocks are replaced by a heavier branch of equal or greater height (normal or fast pace; announced by connecting headers or inv by every peer; the scenario waits until BestBlock reports the new tip, i.e. block AND filter headers of the new branch are committed, and checks them against ground truth), then 1-4 rounds call GetCFilter for blocks of the new branch, the first mostly with exactly the shape (height, batching, cap) of the last call before the re-org, under answers {honest; stale-branch = the valid filters of the REPLACED blocks at the same heights under the new blocks' hashes, for the whole range or only the target, alone or next to the good entry; one honest peer among stale ones; any of the mutations above}, optionally followed by the same call under honest answers; several phases in a row, with or without fetches in between, on a fresh or a restarted client. Cache and database entries keyed by blocks of the CURRENT committed chain must verify against the committed headers; entries keyed by replaced blocks (verified when their block was committed) are only compared with that block's true filter; keys that never were a chain block are foreign. LAG FAMILY (scenarios appended after the re-org family: 2 seed-independent ones, then seeded ones on chains of 70-250 / 300-800 / 997-1002 blocks; the lag phase of every fourth mutation scenario draws its answers from the same kinds): in 1-3 steps the peers' chain grows by 1-2 blocks, or its last 1-4 blocks (blocks without committed filter header first, then committed ones, whose filter headers are rolled back with them) are replaced by a heavier branch, while every peer serves the new block headers and WITHHOLDS their filter headers, so the client's block-header tip is 1-5 blocks above its filter-header tip (checked: block tip = the new tip, filter tip unchanged); then GetCFilter is called for the 1st..Lth block above the filter-header tip, unbatched / reverse batch (cap >= distance, reaching down into the committed part; uncapped) / forward batch, while the peers answer {honestly = the block's true filter; lag-push = true filters of all uncommitted blocks pushed along; lag-shift = the entry naming height x carries the GENUINE filter of block x-j with j = distance of the target to the filter-header tip (the filter of the last block that has a committed header) / j = 1 / j = lag / 1 < j < distance / j > distance, applied to the target only, to every uncommitted block or to the whole range (reverse batch moved down by j), replacing the true entry or sent before/after it, optionally with the push, shuffled or reversed; the block asked for is named in every answer}; every peer the same answer, different ones, one honest peer among them (two tries). ORACLE (unchanged): a GetCFilter for a block whose filter header is not committed (read from RegFilterHeaders after the call) must fail; no FilterCache entry (checked after every call) and no FilterDB entry (after Stop) may be keyed by a current-chain block above the committed filter-header tip; entries for the blocks below it must verify against the committed headers as always")
	r.Assume("the simulated peers implement the protocol subset of DESIGN appendix B; client knobs QueryTimeout etc. are shortened (exported configuration); the per-call NumRetries option (public QueryOption) keeps forced worker timeouts affordable; the raw enumeration of the filter bucket uses the bucket names filter-store/regular of filterdb")
	n := r.Pick(14, 200)
	// The re-org family: c05.NumFixedReorg seed-independent scenarios first,
	// then seeded ones.
	nReorg := c05.NumFixedReorg + r.Pick(4, 60)
	// The lag family: c05.NumFixedLag seed-independent scenarios, then seeded ones.
	nLag := c05.NumFixedLag + r.Pick(4, 50)
	// The header-reset family: c05.NumFixedReset seed-independent scenarios, then seeded ones.
	nReset := c05.NumFixedReset + r.Pick(5, 40)
	// The in-flight re-org family: c05.NumFixedInflight seed-independent scenarios, then seeded ones.
	nInflight := c05.NumFixedInflight + r.Pick(3, 24)
	minDistinct := r.Pick(60, 600)
	resetRule := ("HEADER-RESET FAMILY (scenarios appended after the lag family: 1 seed-independent one, then seeded ones; same oracle in kind): " +
		"the committed filter headers CHANGE underneath filters persisted earlier. Generation 1 (PersistToDisk, default or 700-byte cache): " +
		"the client's ONLY peer is a consistent filter liar (false filter hash + matching false filter for one block L: an output script " +
		"left out / an element added; L in the middle, at block 1-2, at tip-1 or the tip of a 90-250 block chain), so its false filter " +
		"headers are committed from L on (the listed lone-liar finding, not judged here); 3-7 GetCFilter calls (L as target or inside a " +
		"batch, first or later, or not at all; blocks above / below; unbatched, forward, reverse, capped 1-52 or uncapped; repeats) are " +
		"judged against the headers committed THEN; the batch writer drains; Stop; every database entry is read. Generation 2: restart on " +
		"the same directory with Config.AssertFilterHeader{a, the TRUE filter header at a} and 1-2 honest peers only; a = L / between L " +
		"and the tip / the tip (the stored header differs: the client throws its filter header store away, observed as filter tip 0 " +
		"between NewChainService and Start, and re-syncs; precondition: committed == ground truth), a < L (assertion holds, nothing " +
		"reset) or a above the stored tip (nothing to compare); 4-8 GetCFilter calls for L (mostly first), for blocks persisted in " +
		"generation 1 (database hits: the memory cache is empty after a restart) and for others (network; batches may fetch L anew). " +
		"ORACLE: every filter returned (source cache / db / net decided by probing cache and database before the call and counting " +
		"getcfilters on the wire during it), every cache entry after every call, and after Stop every database entry FetchFilter still " +
		"serves satisfies MakeHeaderForFilter(f, committed[h-1]) == committed[h] with committed read from RegFilterHeaders at that time. " +
		"Fixed scenario 0: chain 150, omit-script lie at L = 60, generation 1 fetches 60 (network, cache), batches around it, 100 and the " +
		"tip; generation 2 asserts height 100 and asks for 60 unbatched first. A scenario is non-trivial when generation 2 served a " +
		"database hit of a generation-1 filter while the liar's headers had been committed.")
	resourceRule := ("RESOURCE monitor (all families; aimed at the lag family, whose unbatched / forward calls reach up to 4 blocks above " +
		"the filter-header tip): the peak resident memory of every scenario's client process, as accounted by the kernel " +
		"(rusage of the child), must stay below 2500 MiB (a scenario needs 100-300 MiB). A call the client cannot serve must " +
		"FAIL (statement); a client that touches gigabytes on the way is killed or thrashes wherever memory is limited, and " +
		"then the call neither fails nor returns. The largest peak seen is reported as peak_child_rss_mib.")
	inflightRule := ("IN-FLIGHT RE-ORG FAMILY (scenarios appended after the header-reset family: 1 seed-independent one, then seeded ones; " +
		"same oracle): the committed chain is re-organised WHILE a GetCFilter network fetch is outstanding. Chain of 90-250 blocks, 1-3 " +
		"peers, PersistToDisk on/off; one GetCFilter (unbatched for a block that gets replaced / reverse batch down from such a block / " +
		"forward batch from below or inside the replaced range into it) whose getcfilters request every peer HOLDS (no answer); the " +
		"last 1-4 blocks are replaced by a heavier branch announced by every peer; the scenario waits until BestBlock reports the new " +
		"tip (block AND filter headers of the new branch committed, checked against ground truth; counted as reorgs_adopted_while_" +
		"answers_held); then every held request is answered, each peer in its role {relabel = the NEW chain's genuine filters under the " +
		"OLD blocks' hashes, position-wise; old = the old blocks' true filters under the old hashes (what was asked); new = the new " +
		"blocks' filters under the new hashes; relabel+old / old+relabel = both entries per position}; retries are answered at once in " +
		"the same role. ORACLE: a filter returned for old block X must verify (MakeHeaderForFilter(f, c[h-1]) == c[h]) against the " +
		"filter headers committed for X: those read when the call began (X was on the committed chain) or, if X is still at its height " +
		"in the block header store, those read after the call; a filter that verifies against neither is a violation. Every cache " +
		"entry after the call and every database entry after Stop is judged as in the re-org family (current-chain keys against the " +
		"committed headers, keys of replaced blocks must hold that block's own filter). Then the same call again when it succeeded " +
		"(cache path) and a call for the block now committed at the target's height (must verify against the new committed headers). " +
		"Fixed scenario 0: chain 109, forward batch of 10 from block 100 (heights 100-109), blocks 107-109 replaced by 4 new ones, two " +
		"peers (one relabels, one answers what was asked), PersistToDisk. A scenario is non-trivial when the held answers were released " +
		"after the re-org completed and before the call returned.")
	// Rule REPLACES the text: one call with everything.
	r.Rule(baseRule + ". " + resetRule + ". " + inflightRule + ". " + resourceRule)
	l2.RSSLimitMB = 2500
	l2.RunScenarios(r, n+nReorg+nLag+nReset+nInflight, 400*time.Second, c05.ScenariosAllInflight(r.Quick(), n, nReorg, nLag, nReset))
	r.Set("peak_child_rss_mib", l2.PeakChildRSSMB())
	r.Finish(minDistinct)
}
