// C08: a crash at any point leaves the header stores recoverable and un-torn.
// Crash runner: seeded scripts of appends / rollbacks / reorganisation-shaped
// composites on the real headerfs stores; every crash point of every
// primitive (before/after each flat-file write and truncate, five torn
// lengths inside each write, after each index commit) yields a crash image
// (in-process: copy of the data directory at that instant; child mode: real
// SIGKILL at that point; thorough: SIGKILL at random instants) that is opened
// afresh and checked against the model states before/after the primitive.
//
// Second family: the REAL chainimport import (files of PoW-valid generated
// chains, made by internal/c14) runs against the real stores with the same
// crash hooks; every crash point the hooks announce during Import yields an
// image, which must recover to a durable-step boundary of the import, hold
// only headers of the file, and let the SAME import be re-run to completion.
//
// "Syncing resumes": on every crash image of both families the real block
// manager is constructed on the reopened stores and handed one valid next
// header, which must become the new block tip.
package main

import (
	"bytes"
	"flag"
	"fmt"
	"math/rand"
	"os"
	"os/exec"
	"path/filepath"
	"runtime"
	"strings"
	"sync"
	"syscall"
	"time"

	"github.com/btcsuite/btcd/chaincfg/v2"

	"verif/internal/c08"
	"verif/internal/c14"
	"verif/internal/evid"
)

var (
	childSeed = flag.Int64("child-script", -1, "child mode: script seed")
	childOps  = flag.Int("child-ops", 0, "child mode: number of ops")
	childKill = flag.Int("child-kill", -1, "child mode: SIGKILL self at this crash point (-1: run to the end, parent kills)")
	childDir  = flag.String("child-dir", "", "child mode: data directory")

	childImpDir    = flag.String("child-import-dir", "", "import child mode: prepared data directory (stores pre-filled, import files written)")
	childImpPreset = flag.Int("child-import-preset", 0, "import child mode: chain parameter preset")
	childImpBatch  = flag.Int("child-import-batch", 0, "import child mode: write batch size")
)

func params() *chaincfg.Params { p := chaincfg.RegressionNetParams; return &p }

func scratch() string {
	if s := os.Getenv("VERIF_SCRATCH"); s != "" {
		return s
	}
	d, _ := os.MkdirTemp("", "verif-c08-")
	return d
}

func child() {
	r, err := c08.NewRunner(*childDir, params(), *childSeed)
	if err != nil {
		fmt.Fprintln(os.Stderr, "child:", err)
		os.Exit(3)
	}
	r.KillAt = *childKill
	prog, _ := os.OpenFile(filepath.Join(*childDir, "progress"), os.O_CREATE|os.O_WRONLY|os.O_APPEND|os.O_SYNC, 0o644)
	for i, op := range c08.GenScript(*childSeed, *childOps) {
		fmt.Fprintf(prog, "b%d\n", i)
		if _, _, err := r.Exec(i, op); err != nil {
			fmt.Fprintln(os.Stderr, "child exec:", err)
			os.Exit(4)
		}
		fmt.Fprintf(prog, "e%d\n", i)
	}
	os.Exit(0)
}

// importChild runs the real import in a directory the parent prepared, with
// the crash hooks installed, and SIGKILLs itself at crash point -child-kill.
func importChild(seed int64) {
	prep := &c08.ImportPrep{Dir: *childImpDir, Params: c14.WorldParams(seed, *childImpPreset),
		BPath: filepath.Join(*childImpDir, "import-block-headers.bin"),
		FPath: filepath.Join(*childImpDir, "import-filter-headers.bin"), Batch: *childImpBatch}
	_, _, err, pan := c08.RunImportCrashing(prep, *childKill, "", nil)
	if err != nil || pan != "" {
		fmt.Fprintln(os.Stderr, "import child:", err, pan)
		os.Exit(4)
	}
	os.Exit(0)
}

type pointRec struct {
	op            c08.Op
	pt            c08.Point
	before, after *c08.Model
}

func main() {
	r := evid.New("C08", "fault_enumeration")
	if *childSeed >= 0 {
		child()
		return
	}
	if *childImpDir != "" {
		importChild(r.Seed)
		return
	}
	r.Rule("FAMILY 1: seeded scripts (appends of 1-220 block headers, filter-header batches shaped like writeCFHeadersMsg, single and multi-header rollbacks, reorganisation composites = per block [filter rollback, block rollback], first new header alone, rest as batch) on the real stores sharing one bbolt DB; for EVERY primitive EVERY crash point is taken: before/after each flat-file write, torn at 1 byte / record-1 / one record of a longer batch / record+1 / total-1, after each file truncate, after each index commit; each crash image is opened like a restarting client and must (1) open, (2) hold exactly the entries from before or after the primitive in each store, (3) have whole-record files agreeing with the tips, (4) have by-hash lookups agreeing and no stale entries, (5) keep filter tip <= block tip, (6) let the REAL block manager be constructed on the reopened stores and commit one valid next header handed to its headers handler (tip advances by exactly that header), (7) accept appends that land at the right heights. " +
		"FAMILY 2: seeded clean header imports (PoW-valid generated chains under 3 parameter presets; start height 0 / effective tip+1 / inside agreeing content; length 5-400; write batch size 1, 2, 7, a divisor, the length; stores pre-filled to block tip 0..120 with the block store ahead of the filter store by 0,1,2,3,5) run through the REAL chainimport import on the real stores with the same crash hooks; EVERY crash point announced during Import is taken; each image must pass (1)-(5) with 'before/after' = the states around the interrupted store call of the importer (so each store holds the pre-import content plus a prefix of the file ending at a durable-step boundary), hold above the prior content only the file's headers, let the block manager be constructed on the crash state, and then RE-RUNNING the same import on the recovered stores must succeed and yield exactly the complete final state, from which (6) and (7) must hold; one image in 4 (seeded) additionally gets (6)-(7) on a second copy of the crash state itself. " +
		"distinct = (family, primitive / store-call kind @ composite, crash-point class) plus one mark per import shape; non-trivial = every image (each is a distinct on-disk state)")
	r.Assume("process death model: completed write/truncate syscalls persist, bbolt's own commit is atomic (exercised by the random-instant kills, not enumerated); power-loss reordering is out of reach")
	r.Assume("scripts obey the callers' contract: filter headers only for stored blocks; on rollback the filter store is rolled back before the block store")
	r.Assume("import family: only imports that the importer accepts and completes without a crash are crashed (refusals and invalid files are C14's subject); a failed store write needs a fault, not a crash, and is C14's subject too")
	r.Assume("block manager restart: a never-connected btcd peer stands in for the sender of the one header; the block manager's clock is a fixed instant derived from the chain (tip + 1 h for scripts, the generated chains' reference clock for imports), never the wall clock")

	root := scratch()
	t0 := time.Now()
	phase := func(name string) { // evidence only; no verdict depends on it
		r.Set("wall_s_until_"+name, float64(int(time.Since(t0).Seconds()*10))/10)
	}
	tmpl := filepath.Join(root, "c08-template")
	_ = os.RemoveAll(tmpl)
	_ = os.MkdirAll(tmpl, 0o755)
	db, b, f, err := c08.OpenDir(tmpl, params())
	if err != nil {
		fmt.Fprintln(os.Stderr, "template:", err)
		os.Exit(2)
	}
	c08.CloseAll(db, b, f)

	// Measured (16 cores shared with other jobs, load 15-25): quick 80-95 s,
	// thorough (280 scripts / 92 imports) 12 min; thorough counts set for <= 25 min.
	nScripts, nOps := r.Pick(30, 380), r.Pick(24, 40)
	nKill := r.Pick(64, 2000)
	nRandom := r.Pick(0, 500)
	// 2 fixed cases + 20 (quick) seeded ones = every (preset, batch class) pair.
	nImports, maxBatches := r.Pick(22, 122), r.Pick(12, 20)
	nKillImp := r.Pick(24, 400)
	const keepImportRecs = 40 // SIGKILL cases are drawn from the first imports
	// Every import image gets: block manager constructed on the crash state,
	// the import re-run, block manager restarted (one header) on the result.
	// One image in bmCrashStateOneIn (by image index, seeded order) also gets
	// the one-header restart on a second copy of the crash state itself.
	const bmCrashStateOneIn = 4
	bmStats := &c08.BMStats{}
	bmOpts := &c08.BMOpts{} // scripts: regtest parameters, mined next header, clock = tip + 1 h

	var mu sync.Mutex
	pointsByScript := map[int64][]pointRec{}
	workers := min(runtime.NumCPU(), 16)
	var wg sync.WaitGroup

	// Image checks of both families run on one pool; the families' producers
	// (script runs, import runs) only capture images and hand them over.
	checks := make(chan func(), workers)
	var cwg sync.WaitGroup
	for w := 0; w < workers; w++ {
		cwg.Add(1)
		go func() {
			defer cwg.Done()
			for f := range checks {
				f()
			}
		}()
	}

	// ---- Family 0: the very first start on an empty directory -------------
	{
		tm, err := c08.NewRunner(func() string {
			d := filepath.Join(root, "c08-genesis-model")
			_ = os.RemoveAll(d)
			_ = c08.CopyDir(tmpl, d)
			return d
		}(), params(), 1)
		if err != nil {
			r.Inconclusive("genesis model: " + err.Error())
		} else {
			genesis := tm.Model
			tm.Close()
			dir := filepath.Join(root, "c08-create")
			_ = os.RemoveAll(dir)
			_ = os.MkdirAll(dir, 0o755)
			nimg := 0
			err := c08.CreationPoints(dir, params(), func(pt c08.Point) {
				img := filepath.Join(root, fmt.Sprintf("c08-create-img-%d", nimg))
				nimg++
				if err := c08.CopyDir(dir, img); err != nil {
					r.Inconclusive("image copy: " + err.Error())
					return
				}
				op := c08.Op{Kind: "create"}
				seed := int64(7700 + nimg)
				checks <- func() {
					fs, inc := (&c08.ImageCheck{Dir: img, Params: params(), Before: genesis, After: genesis,
						Rng: rand.New(rand.NewSource(seed)),
						Sig: c08.ScriptSig(op, pt), Ctx: "crash at " + pt.Name + " during the first start on an empty directory (point " + fmt.Sprint(nimg) + ")",
						BM: bmOpts, Stats: bmStats}).Run()
					_ = os.RemoveAll(img)
					if inc != "" {
						r.Inconclusive(inc)
					}
					r.Case("create|"+pt.Class+"|"+fmt.Sprint(seed), true)
					r.Count("crash_images_checked", 1)
					r.Count("creation_images_checked", 1)
					for _, fd := range fs {
						r.Violation(fd.Sig, fd.What, map[string]any{"point": pt.Name, "family": "first start on an empty directory"})
					}
				}
			})
			if err != nil {
				r.Violation(evid.Sig("c08/operation-failed", "create"), "the first start on an empty directory failed without any fault: "+err.Error(), nil)
			}
			_ = os.RemoveAll(dir)
		}
	}

	// ---- Family 1: scripts of store primitives ----------------------------
	jobs := make(chan int)
	for w := 0; w < min(workers, 6); w++ {
		wg.Add(1)
		go func(w int) {
			defer wg.Done()
			for si := range jobs {
				seed := r.Seed*100003 + int64(si)
				dir := filepath.Join(root, fmt.Sprintf("c08-run-%d", si))
				img := filepath.Join(root, fmt.Sprintf("c08-img-%d", si))
				_ = os.RemoveAll(dir)
				if err := c08.CopyDir(tmpl, dir); err != nil {
					r.Inconclusive("copy template: " + err.Error())
					continue
				}
				run, err := c08.NewRunner(dir, params(), seed)
				if err != nil {
					r.Inconclusive("open: " + err.Error())
					continue
				}
				script := c08.GenScript(seed, nOps)
				var recs []pointRec
				var cur struct {
					op     c08.Op
					before *c08.Model
					pts    []c08.Point
					imgs   []string
				}
				nimg := 0
				run.OnPoint = func(p c08.Point) {
					// Capture the image now; it is checked once the primitive
					// has returned and its after-state is known.
					d := fmt.Sprintf("%s-%d", img, nimg)
					nimg++
					if err := c08.CopyDir(dir, d); err != nil {
						r.Inconclusive("image copy: " + err.Error())
						return
					}
					cur.pts = append(cur.pts, p)
					cur.imgs = append(cur.imgs, d)
				}
				for i, op := range script {
					cur.op, cur.pts, cur.imgs = op, nil, nil
					before, after, err := run.Exec(i, op)
					if err != nil {
						r.Violation(evid.Sig("c08/operation-failed", op.Kind), fmt.Sprintf("script op %d %v failed without any fault: %v", i, op, err), map[string]any{"script_seed": seed, "script": fmt.Sprint(script)})
						for _, d := range cur.imgs {
							_ = os.RemoveAll(d)
						}
						break
					}
					for k, p := range cur.pts {
						imgDir, rngSeed := cur.imgs[k], (seed^0x5151)*4099+int64(len(recs))
						checks <- func() {
							fs, inc := (&c08.ImageCheck{Dir: imgDir, Params: params(), Before: before, After: after,
								Rng: rand.New(rand.NewSource(rngSeed)),
								Sig: c08.ScriptSig(op, p), Ctx: c08.ScriptCtx(op, p), BM: bmOpts, Stats: bmStats}).Run()
							_ = os.RemoveAll(imgDir)
							if inc != "" {
								r.Inconclusive(inc)
							}
							r.Case(op.Kind+tag(op)+"|"+p.Class, true)
							r.Count("crash_images_checked", 1)
							r.Count("points_"+strings.SplitN(p.Class, "/", 2)[0], 1)
							for _, fd := range fs {
								r.Violation(fd.Sig, fd.What, map[string]any{"script_seed": seed, "ops": nOps, "op_index": i, "op": op.String(),
									"point": p.Name, "script": fmt.Sprint(script), "before_tips": [2]int{len(before.Blocks) - 1, len(before.Filters) - 1},
									"after_tips": [2]int{len(after.Blocks) - 1, len(after.Filters) - 1}})
							}
						}
						recs = append(recs, pointRec{op, p, before, after})
					}
					r.Count("primitives_"+op.Kind, 1)
				}
				run.Close()
				_ = os.RemoveAll(dir)
				mu.Lock()
				pointsByScript[seed] = recs
				mu.Unlock()
				r.Count("scripts", 1)
				if si < 3 {
					r.Sample(map[string]any{"script_seed": seed, "script": fmt.Sprint(script), "crash_points": len(recs)})
				}
			}
		}(w)
	}
	wg.Add(1)
	go func() {
		defer wg.Done()
		for si := 0; si < nScripts; si++ {
			jobs <- si
		}
		close(jobs)
	}()

	// ---- Family 2: the real header import under crashes -------------------
	worlds := make([]*c14.World, c14.NumPresets())
	{
		errs := make([]error, len(worlds))
		var wwg sync.WaitGroup
		for p := range worlds {
			wwg.Add(1)
			go func(p int) {
				defer wwg.Done()
				worlds[p], errs[p] = c14.NewWorld(r.Seed, p, root)
			}(p)
		}
		wwg.Wait()
		for _, err := range errs {
			if err != nil {
				fmt.Fprintln(os.Stderr, "C08 import worlds:", err)
				r.Broken("import worlds: " + err.Error())
				r.Finish(12)
			}
		}
	}
	type impRec struct {
		op            c08.Op
		pt            c08.Point
		before, after *c08.Model
	}
	type imgJob struct {
		prep *c08.ImportPrep
		rec  impRec
		img  string
		seed int64
		done *sync.WaitGroup
	}
	impRecs := map[int][]impRec{}
	impSpecs := map[int]c14.Spec{}
	ist := &c08.ImportStats{}
	reportImp := func(kind string, prep *c08.ImportPrep, rec impRec, fs []c08.Finding, inc string, extra map[string]any) {
		if inc != "" {
			r.Inconclusive(inc)
		}
		for _, fd := range fs {
			w := map[string]any{"import_case": prep.Spec, "params": prep.World.Name(), "store_call_index": rec.pt.Op,
				"store_call": rec.op.String(), "point": rec.pt.Name,
				"before_tips": [2]int{len(rec.before.Blocks) - 1, len(rec.before.Filters) - 1},
				"after_tips":  [2]int{len(rec.after.Blocks) - 1, len(rec.after.Filters) - 1},
				"reproduce":   fmt.Sprintf("VERIF_SEED=%d ./check C08 %s  (import case %d)", r.Seed, r.Tier, prep.Spec.Idx)}
			for k, v := range extra {
				w[k] = v
			}
			r.Violation(fd.Sig, kind+fd.What, w)
		}
	}
	checkImp := func(j imgJob) {
		rng := rand.New(rand.NewSource(j.seed))
		fs, inc := c08.CheckImportImage(j.prep, j.rec.op, j.rec.before, j.rec.after, j.rec.pt, j.img, rng, bmStats, j.seed%bmCrashStateOneIn == 0, ist)
		_ = os.RemoveAll(j.img)
		r.Case(c08.ImportFingerprint(j.rec.op, j.rec.pt), true)
		r.Count("import_crash_images_checked", 1)
		r.Count("import_points_"+strings.SplitN(j.rec.pt.Class, "/", 2)[0], 1)
		reportImp("", j.prep, j.rec, fs, inc, nil)
		j.done.Done()
	}
	// Producers: a few imports at a time, each pausing inside the importer's
	// store call while its images are handed to the checkers.
	idxs := make(chan int)
	for w := 0; w < min(workers, 4); w++ {
		wg.Add(1)
		go func() {
			defer wg.Done()
			for idx := range idxs {
				sp := c08.GenImportSpec(r.Seed, idx, maxBatches)
				world := worlds[sp.Preset%len(worlds)]
				dir := filepath.Join(root, fmt.Sprintf("c08-imp-%d", idx))
				prep, err := c08.PrepareImport(world, sp, dir)
				if err != nil {
					r.Inconclusive("import prepare: " + strings.SplitN(err.Error(), ":", 2)[0])
					fmt.Fprintf(os.Stderr, "C08 import case %d: prepare: %v\n", idx, err)
					_ = os.RemoveAll(dir)
					continue
				}
				var recs []impRec
				var pending sync.WaitGroup // the import files in dir are needed until every image is checked
				nimg := 0
				steps, points, ierr, pan := c08.RunImportCrashing(prep, -1, filepath.Join(root, fmt.Sprintf("c08-impimg-%d", idx)), func(st *c08.ImportStep) {
					r.Count("import_store_calls_"+st.Op.Kind+tag(st.Op), 1)
					if st.Note != "" {
						r.Inconclusive("import step outside the file: " + st.Note)
					}
					for k, p := range st.Points {
						rec := impRec{st.Op, p, st.Before, st.After}
						if idx < keepImportRecs {
							recs = append(recs, rec)
						}
						pending.Add(1)
						j := imgJob{prep, rec, st.Images[k], r.Seed*7_000_003 + int64(idx)*100_003 + int64(nimg), &pending}
						checks <- func() { checkImp(j) }
						nimg++
					}
				})
				switch {
				case pan != "":
					r.Inconclusive("uninterrupted import panicked")
					fmt.Fprintf(os.Stderr, "C08 import case %d %+v: uninterrupted import panicked: %s\n", idx, prep.Spec, pan)
				case ierr != nil:
					// Not a crash-recovery observation: C14's subject.
					r.Inconclusive("uninterrupted import refused a clean file")
					fmt.Fprintf(os.Stderr, "C08 import case %d %+v: uninterrupted import failed: %v\n", idx, prep.Spec, ierr)
				default:
					if db, b, f, err := c08.OpenDir(dir, prep.Params); err != nil {
						r.Inconclusive("stores do not reopen after the uninterrupted import")
					} else {
						got, err := c08.ReadModel(b, f)
						c08.CloseAll(db, b, f)
						if err != nil || len(got.Blocks) != len(prep.Final.Blocks) || len(got.Filters) != len(prep.Final.Filters) {
							r.Inconclusive("uninterrupted import did not reach the expected final state")
							fmt.Fprintf(os.Stderr, "C08 import case %d %+v: final state unexpected (err=%v)\n", idx, prep.Spec, err)
						}
					}
					r.Count("import_cases", 1)
					r.Count("import_store_calls", int64(steps))
					r.Count("import_crash_points", int64(points))
					r.Mark("import-shape|" + c08.ImportShape(&prep.Spec))
				}
				mu.Lock()
				if idx < keepImportRecs {
					impRecs[idx] = recs
					impSpecs[idx] = prep.Spec
				}
				mu.Unlock()
				if idx < 3 {
					r.Sample(map[string]any{"import_case": prep.Spec, "params": world.Name(), "store_calls": steps, "crash_points": points})
				}
				pending.Wait()
				_ = os.RemoveAll(dir)
			}
		}()
	}
	for idx := 0; idx < nImports; idx++ {
		idxs <- idx
	}
	close(idxs)
	wg.Wait()
	close(checks)
	cwg.Wait()

	phase("1_scripts_and_imports_done")
	r.Exhaustive(true)
	r.Set("exhaustive_scope", "every crash point of every primitive of every generated script and every crash point announced during every generated import (in-process images); SIGKILL cases are a sample of the same points")

	// Real SIGKILL at enumerated points: the child runs the same script and
	// kills itself at point k; the parent opens what is left.
	exe, _ := os.Executable()
	type kcase struct {
		seed int64
		k    int
	}
	var kcases []kcase
	kseen := map[kcase]bool{}
	krng := rand.New(rand.NewSource(r.Seed ^ 0x6b696c6c))
	var seeds []int64
	for si := 0; si < nScripts; si++ {
		seeds = append(seeds, r.Seed*100003+int64(si))
	}
	for i := 0; i < nKill; i++ {
		s := seeds[krng.Intn(len(seeds))]
		if n := len(pointsByScript[s]); n > 0 {
			// (duplicates would share a directory name: drop them)
			if kc := (kcase{s, krng.Intn(n)}); !kseen[kc] {
				kseen[kc] = true
				kcases = append(kcases, kc)
			}
		}
	}
	kjobs := make(chan kcase)
	for w := 0; w < workers; w++ {
		wg.Add(1)
		go func(w int) {
			defer wg.Done()
			rng := rand.New(rand.NewSource(int64(w) + 77))
			for kc := range kjobs {
				dir := filepath.Join(root, fmt.Sprintf("c08-kill-%d-%d", kc.seed, kc.k))
				_ = os.RemoveAll(dir)
				if err := c08.CopyDir(tmpl, dir); err != nil {
					r.Inconclusive("copy template")
					continue
				}
				cmd := exec.Command(exe, "-tier", r.Tier, "-seed", fmt.Sprint(r.Seed), "-child-script", fmt.Sprint(kc.seed),
					"-child-ops", fmt.Sprint(nOps), "-child-kill", fmt.Sprint(kc.k), "-child-dir", dir)
				var errb bytes.Buffer
				cmd.Stderr = &errb
				err := cmd.Run()
				ws, _ := cmd.ProcessState.Sys().(syscall.WaitStatus)
				if err == nil || !ws.Signaled() || ws.Signal() != syscall.SIGKILL {
					r.Inconclusive("kill child did not die by SIGKILL")
					fmt.Fprintf(os.Stderr, "kill child %v: err=%v stderr=%s\n", kc, err, errb.String())
					_ = os.RemoveAll(dir)
					continue
				}
				rec := pointsByScript[kc.seed][kc.k]
				fs, inc := (&c08.ImageCheck{Dir: dir, Params: params(), Before: rec.before, After: rec.after, Rng: rng,
					Sig: c08.ScriptSig(rec.op, rec.pt), Ctx: c08.ScriptCtx(rec.op, rec.pt), BM: bmOpts, Stats: bmStats}).Run()
				if inc != "" {
					r.Inconclusive(inc)
				}
				r.Case("sigkill|"+rec.op.Kind+tag(rec.op)+"|"+rec.pt.Class, true)
				r.Count("sigkill_cases", 1)
				for _, fd := range fs {
					r.Violation(fd.Sig, "[real SIGKILL] "+fd.What, map[string]any{"script_seed": kc.seed, "kill_point": kc.k, "op": rec.op.String(), "point": rec.pt.Name})
				}
				_ = os.RemoveAll(dir)
			}
		}(w)
	}
	for _, kc := range kcases {
		kjobs <- kc
	}
	close(kjobs)
	wg.Wait()

	phase("2_script_sigkills_done")

	// Real SIGKILL inside an import: the parent prepares the directory
	// (pre-filled stores, import files), the child runs the real import with
	// the hooks installed and kills itself at point k.
	type ikcase struct{ idx, k int }
	var ikcases []ikcase
	ikseen := map[ikcase]bool{}
	ikrng := rand.New(rand.NewSource(r.Seed ^ 0x696d706b))
	for i := 0; i < nKillImp; i++ {
		idx := ikrng.Intn(min(nImports, keepImportRecs))
		if n := len(impRecs[idx]); n > 0 {
			kc := ikcase{idx, ikrng.Intn(n)}
			if !ikseen[kc] {
				ikseen[kc] = true
				ikcases = append(ikcases, kc)
			}
		}
	}
	ikjobs := make(chan ikcase)
	for w := 0; w < workers; w++ {
		wg.Add(1)
		go func(w int) {
			defer wg.Done()
			for kc := range ikjobs {
				sp := impSpecs[kc.idx]
				world := worlds[sp.Preset%len(worlds)]
				dir := filepath.Join(root, fmt.Sprintf("c08-impkill-%d-%d", kc.idx, kc.k))
				prep, err := c08.PrepareImport(world, sp, dir)
				if err != nil {
					r.Inconclusive("import prepare (kill case)")
					_ = os.RemoveAll(dir)
					continue
				}
				cmd := exec.Command(exe, "-tier", r.Tier, "-seed", fmt.Sprint(r.Seed), "-child-import-dir", dir,
					"-child-import-preset", fmt.Sprint(sp.Preset), "-child-import-batch", fmt.Sprint(prep.Batch),
					"-child-kill", fmt.Sprint(kc.k))
				var errb bytes.Buffer
				cmd.Stderr = &errb
				err = cmd.Run()
				ws, _ := cmd.ProcessState.Sys().(syscall.WaitStatus)
				if err == nil || !ws.Signaled() || ws.Signal() != syscall.SIGKILL {
					r.Inconclusive("import kill child did not die by SIGKILL")
					fmt.Fprintf(os.Stderr, "import kill child %v: err=%v stderr=%s\n", kc, err, errb.String())
					_ = os.RemoveAll(dir)
					continue
				}
				rec := impRecs[kc.idx][kc.k]
				rng := rand.New(rand.NewSource(r.Seed*9_000_011 + int64(kc.idx)*100_003 + int64(kc.k)))
				fs, inc := c08.CheckImportImage(prep, rec.op, rec.before, rec.after, rec.pt, dir, rng, bmStats, kc.k%bmCrashStateOneIn == 0, ist)
				r.Case("sigkill|"+c08.ImportFingerprint(rec.op, rec.pt), true)
				r.Count("import_sigkill_cases", 1)
				reportImp("[real SIGKILL] ", prep, rec, fs, inc, map[string]any{"kill_point": kc.k})
				_ = os.RemoveAll(dir)
			}
		}(w)
	}
	for _, kc := range ikcases {
		ikjobs <- kc
	}
	close(ikjobs)
	wg.Wait()
	for _, w := range worlds {
		w.Remove()
	}
	phase("3_import_sigkills_done")

	// Random-instant kills from the parent (thorough): hits inside bbolt
	// commits and between any two instructions.
	if nRandom > 0 {
		rjobs := make(chan int)
		for w := 0; w < workers; w++ {
			wg.Add(1)
			go func(w int) {
				defer wg.Done()
				rng := rand.New(rand.NewSource(int64(w) + 991))
				for ri := range rjobs {
					seed := seeds[ri%len(seeds)]
					dir := filepath.Join(root, fmt.Sprintf("c08-rnd-%d", ri))
					_ = os.RemoveAll(dir)
					if err := c08.CopyDir(tmpl, dir); err != nil {
						continue
					}
					cmd := exec.Command(exe, "-tier", r.Tier, "-seed", fmt.Sprint(r.Seed), "-child-script", fmt.Sprint(seed),
						"-child-ops", fmt.Sprint(nOps), "-child-kill", "-1", "-child-dir", dir)
					if err := cmd.Start(); err != nil {
						continue
					}
					time.Sleep(time.Duration(60+rng.Intn(400)) * time.Millisecond)
					_ = cmd.Process.Kill()
					_ = cmd.Wait()
					// Which primitive was in flight?
					pb, _ := os.ReadFile(filepath.Join(dir, "progress"))
					lines := strings.Fields(string(pb))
					if len(lines) == 0 {
						r.Count("random_kills_before_first_op", 1)
						_ = os.RemoveAll(dir)
						continue
					}
					last := lines[len(lines)-1]
					var oi int
					fmt.Sscan(last[1:], &oi)
					// Model states around op oi from the enumeration records.
					var before, after *c08.Model
					var op c08.Op
					for _, rec := range pointsByScript[seed] {
						if rec.pt.Op == oi {
							before, after, op = rec.before, rec.after, rec.op
							break
						}
					}
					if before == nil {
						_ = os.RemoveAll(dir)
						continue
					}
					if last[0] == 'e' {
						before = after
					}
					rpt := c08.Point{Op: oi, Name: "random-instant", Class: "random-instant"}
					fs, inc := (&c08.ImageCheck{Dir: dir, Params: params(), Before: before, After: after, Rng: rng,
						Sig: c08.ScriptSig(op, rpt), Ctx: c08.ScriptCtx(op, rpt), BM: bmOpts, Stats: bmStats}).Run()
					if inc != "" {
						r.Inconclusive(inc)
					}
					r.Case("random|"+op.Kind+tag(op), true)
					r.Count("random_instant_kills", 1)
					for _, fd := range fs {
						r.Violation(fd.Sig, "[SIGKILL at a random instant] "+fd.What, map[string]any{"script_seed": seed, "progress_tail": lines[max(0, len(lines)-4):]})
					}
					_ = os.RemoveAll(dir)
				}
			}(w)
		}
		for ri := 0; ri < nRandom; ri++ {
			rjobs <- ri
		}
		close(rjobs)
		wg.Wait()
	}
	r.Set("import_check_worker_seconds", map[string]float64{"total": float64(ist.TTotal) / 1e9, "of_which_reimport": float64(ist.TReimport) / 1e9,
		"of_which_crash_state_block_manager_sample": float64(ist.TSecond) / 1e9})
	r.Count("import_reimports", ist.Reimports)
	r.Count("import_reimports_completed", ist.ReimportsOK)
	r.Count("import_headers_compared_with_file", ist.HeadersCompared)
	{
		c, h, t := bmStats.Snapshot()
		r.Count("bm_constructed", c)
		r.Count("bm_next_header_handled", h)
		r.Count("bm_tip_advanced", t)
		r.Count("bm_import_crash_state_restarts", ist.CrashStateBM)
		r.Set("bm_sample_one_in", map[string]int{"script_images_one_header_restart": 1, "import_images_construct_on_crash_state": 1,
			"import_images_one_header_restart_after_reimport": 1, "import_images_one_header_restart_on_crash_state": bmCrashStateOneIn})
	}
	_ = os.RemoveAll(tmpl)
	r.Finish(40)
}

func tag(op c08.Op) string {
	if op.Tag == "" {
		return ""
	}
	return "@" + op.Tag
}
