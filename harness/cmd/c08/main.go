// C08: a crash at any point leaves the header stores recoverable and un-torn.
// Crash runner: seeded scripts of appends / rollbacks / reorganisation-shaped
// composites on the real headerfs stores; every crash point of every
// primitive (before/after each flat-file write and truncate, five torn
// lengths inside each write, after each index commit) yields a crash image
// (in-process: copy of the data directory at that instant; child mode: real
// SIGKILL at that point; thorough: SIGKILL at random instants) that is opened
// afresh and checked against the model states before/after the primitive.
package main

import (
	"bytes"
	"flag"
	"fmt"
	"math/rand"
	"os"
	"os/exec"
	"path/filepath"
	"runtime"
	"strings"
	"sync"
	"syscall"
	"time"

	"github.com/btcsuite/btcd/chaincfg/v2"

	"verif/internal/c08"
	"verif/internal/evid"
)

var (
	childSeed = flag.Int64("child-script", -1, "child mode: script seed")
	childOps  = flag.Int("child-ops", 0, "child mode: number of ops")
	childKill = flag.Int("child-kill", -1, "child mode: SIGKILL self at this crash point (-1: run to the end, parent kills)")
	childDir  = flag.String("child-dir", "", "child mode: data directory")
)

func params() *chaincfg.Params { p := chaincfg.RegressionNetParams; return &p }

func scratch() string {
	if s := os.Getenv("VERIF_SCRATCH"); s != "" {
		return s
	}
	d, _ := os.MkdirTemp("", "verif-c08-")
	return d
}

func child() {
	r, err := c08.NewRunner(*childDir, params(), *childSeed)
	if err != nil {
		fmt.Fprintln(os.Stderr, "child:", err)
		os.Exit(3)
	}
	r.KillAt = *childKill
	prog, _ := os.OpenFile(filepath.Join(*childDir, "progress"), os.O_CREATE|os.O_WRONLY|os.O_APPEND|os.O_SYNC, 0o644)
	for i, op := range c08.GenScript(*childSeed, *childOps) {
		fmt.Fprintf(prog, "b%d\n", i)
		if _, _, err := r.Exec(i, op); err != nil {
			fmt.Fprintln(os.Stderr, "child exec:", err)
			os.Exit(4)
		}
		fmt.Fprintf(prog, "e%d\n", i)
	}
	os.Exit(0)
}

type pointRec struct {
	op            c08.Op
	pt            c08.Point
	before, after *c08.Model
}

func main() {
	r := evid.New("C08", "fault_enumeration")
	if *childSeed >= 0 {
		child()
		return
	}
	r.Rule("seeded scripts (appends of 1-220 block headers, filter-header batches shaped like writeCFHeadersMsg, single and multi-header rollbacks, reorganisation composites = per block [filter rollback, block rollback], first new header alone, rest as batch) on the real stores sharing one bbolt DB; for EVERY primitive EVERY crash point is taken: before/after each flat-file write, torn at 1 byte / record-1 / one record of a longer batch / record+1 / total-1, after each file truncate, after each index commit; each crash image is opened like a restarting client and must (1) open, (2) hold exactly the entries from before or after the primitive in each store, (3) have whole-record files agreeing with the tips, (4) have by-hash lookups agreeing and no stale entries, (5) keep filter tip <= block tip, (6) accept appends that land at the right heights. distinct = (primitive kind @ composite, crash-point class); non-trivial = every image (each is a distinct on-disk state)")
	r.Assume("process death model: completed write/truncate syscalls persist, bbolt's own commit is atomic (exercised by the random-instant kills, not enumerated); power-loss reordering is out of reach")
	r.Assume("scripts obey the callers' contract: filter headers only for stored blocks; on rollback the filter store is rolled back before the block store")

	root := scratch()
	tmpl := filepath.Join(root, "c08-template")
	_ = os.RemoveAll(tmpl)
	_ = os.MkdirAll(tmpl, 0o755)
	db, b, f, err := c08.OpenDir(tmpl, params())
	if err != nil {
		fmt.Fprintln(os.Stderr, "template:", err)
		os.Exit(2)
	}
	c08.CloseAll(db, b, f)

	nScripts, nOps := r.Pick(48, 800), r.Pick(24, 40)
	nKill := r.Pick(96, 3000)
	nRandom := r.Pick(0, 600)

	var mu sync.Mutex
	pointsByScript := map[int64][]pointRec{}
	workers := min(runtime.NumCPU(), 16)
	jobs := make(chan int)
	var wg sync.WaitGroup
	for w := 0; w < workers; w++ {
		wg.Add(1)
		go func(w int) {
			defer wg.Done()
			for si := range jobs {
				seed := r.Seed*100003 + int64(si)
				dir := filepath.Join(root, fmt.Sprintf("c08-run-%d", si))
				img := filepath.Join(root, fmt.Sprintf("c08-img-%d", si))
				_ = os.RemoveAll(dir)
				if err := c08.CopyDir(tmpl, dir); err != nil {
					r.Inconclusive("copy template: " + err.Error())
					continue
				}
				run, err := c08.NewRunner(dir, params(), seed)
				if err != nil {
					r.Inconclusive("open: " + err.Error())
					continue
				}
				script := c08.GenScript(seed, nOps)
				var recs []pointRec
				var cur struct {
					op     c08.Op
					before *c08.Model
					pts    []c08.Point
					imgs   []string
				}
				rng := rand.New(rand.NewSource(seed ^ 0x5151))
				nimg := 0
				run.OnPoint = func(p c08.Point) {
					// Capture the image now; it is checked once the primitive
					// has returned and its after-state is known.
					d := fmt.Sprintf("%s-%d", img, nimg)
					nimg++
					if err := c08.CopyDir(dir, d); err != nil {
						r.Inconclusive("image copy: " + err.Error())
						return
					}
					cur.pts = append(cur.pts, p)
					cur.imgs = append(cur.imgs, d)
				}
				for i, op := range script {
					cur.op, cur.pts, cur.imgs = op, nil, nil
					before, after, err := run.Exec(i, op)
					if err != nil {
						r.Violation(evid.Sig("c08/operation-failed", op.Kind), fmt.Sprintf("script op %d %v failed without any fault: %v", i, op, err), map[string]any{"script_seed": seed, "script": fmt.Sprint(script)})
						break
					}
					for k, p := range cur.pts {
						fs := c08.CheckImage(cur.imgs[k], params(), before, after, op, p, rng)
						_ = os.RemoveAll(cur.imgs[k])
						r.Case(op.Kind+tag(op)+"|"+p.Class, true)
						r.Count("crash_images_checked", 1)
						r.Count("points_"+strings.SplitN(p.Class, "/", 2)[0], 1)
						for _, fd := range fs {
							r.Violation(fd.Sig, fd.What, map[string]any{"script_seed": seed, "ops": nOps, "op_index": i, "op": op.String(),
								"point": p.Name, "script": fmt.Sprint(script), "before_tips": [2]int{len(before.Blocks) - 1, len(before.Filters) - 1},
								"after_tips": [2]int{len(after.Blocks) - 1, len(after.Filters) - 1}})
						}
						recs = append(recs, pointRec{op, p, before, after})
					}
					r.Count("primitives_"+op.Kind, 1)
				}
				run.Close()
				_ = os.RemoveAll(dir)
				mu.Lock()
				pointsByScript[seed] = recs
				mu.Unlock()
				r.Count("scripts", 1)
				if si < 3 {
					r.Sample(map[string]any{"script_seed": seed, "script": fmt.Sprint(script), "crash_points": len(recs)})
				}
			}
		}(w)
	}
	for si := 0; si < nScripts; si++ {
		jobs <- si
	}
	close(jobs)
	wg.Wait()
	r.Exhaustive(true)
	r.Set("exhaustive_scope", "every crash point of every primitive of every generated script (in-process images); SIGKILL cases are a sample of the same points")

	// Real SIGKILL at enumerated points: the child runs the same script and
	// kills itself at point k; the parent opens what is left.
	exe, _ := os.Executable()
	type kcase struct {
		seed int64
		k    int
	}
	var kcases []kcase
	krng := rand.New(rand.NewSource(r.Seed ^ 0x6b696c6c))
	var seeds []int64
	for si := 0; si < nScripts; si++ {
		seeds = append(seeds, r.Seed*100003+int64(si))
	}
	for i := 0; i < nKill; i++ {
		s := seeds[krng.Intn(len(seeds))]
		if n := len(pointsByScript[s]); n > 0 {
			kcases = append(kcases, kcase{s, krng.Intn(n)})
		}
	}
	kjobs := make(chan kcase)
	for w := 0; w < workers; w++ {
		wg.Add(1)
		go func(w int) {
			defer wg.Done()
			rng := rand.New(rand.NewSource(int64(w) + 77))
			for kc := range kjobs {
				dir := filepath.Join(root, fmt.Sprintf("c08-kill-%d-%d", kc.seed, kc.k))
				_ = os.RemoveAll(dir)
				if err := c08.CopyDir(tmpl, dir); err != nil {
					r.Inconclusive("copy template")
					continue
				}
				cmd := exec.Command(exe, "-tier", r.Tier, "-seed", fmt.Sprint(r.Seed), "-child-script", fmt.Sprint(kc.seed),
					"-child-ops", fmt.Sprint(nOps), "-child-kill", fmt.Sprint(kc.k), "-child-dir", dir)
				var errb bytes.Buffer
				cmd.Stderr = &errb
				err := cmd.Run()
				ws, _ := cmd.ProcessState.Sys().(syscall.WaitStatus)
				if err == nil || !ws.Signaled() || ws.Signal() != syscall.SIGKILL {
					r.Inconclusive("kill child did not die by SIGKILL")
					fmt.Fprintf(os.Stderr, "kill child %v: err=%v stderr=%s\n", kc, err, errb.String())
					_ = os.RemoveAll(dir)
					continue
				}
				rec := pointsByScript[kc.seed][kc.k]
				fs := c08.CheckImage(dir, params(), rec.before, rec.after, rec.op, rec.pt, rng)
				r.Case("sigkill|"+rec.op.Kind+tag(rec.op)+"|"+rec.pt.Class, true)
				r.Count("sigkill_cases", 1)
				for _, fd := range fs {
					r.Violation(fd.Sig, "[real SIGKILL] "+fd.What, map[string]any{"script_seed": kc.seed, "kill_point": kc.k, "op": rec.op.String(), "point": rec.pt.Name})
				}
				_ = os.RemoveAll(dir)
			}
		}(w)
	}
	for _, kc := range kcases {
		kjobs <- kc
	}
	close(kjobs)
	wg.Wait()

	// Random-instant kills from the parent (thorough): hits inside bbolt
	// commits and between any two instructions.
	if nRandom > 0 {
		rjobs := make(chan int)
		for w := 0; w < workers; w++ {
			wg.Add(1)
			go func(w int) {
				defer wg.Done()
				rng := rand.New(rand.NewSource(int64(w) + 991))
				for ri := range rjobs {
					seed := seeds[ri%len(seeds)]
					dir := filepath.Join(root, fmt.Sprintf("c08-rnd-%d", ri))
					_ = os.RemoveAll(dir)
					if err := c08.CopyDir(tmpl, dir); err != nil {
						continue
					}
					cmd := exec.Command(exe, "-tier", r.Tier, "-seed", fmt.Sprint(r.Seed), "-child-script", fmt.Sprint(seed),
						"-child-ops", fmt.Sprint(nOps), "-child-kill", "-1", "-child-dir", dir)
					if err := cmd.Start(); err != nil {
						continue
					}
					time.Sleep(time.Duration(60+rng.Intn(400)) * time.Millisecond)
					_ = cmd.Process.Kill()
					_ = cmd.Wait()
					// Which primitive was in flight?
					pb, _ := os.ReadFile(filepath.Join(dir, "progress"))
					lines := strings.Fields(string(pb))
					if len(lines) == 0 {
						r.Count("random_kills_before_first_op", 1)
						_ = os.RemoveAll(dir)
						continue
					}
					last := lines[len(lines)-1]
					var oi int
					fmt.Sscan(last[1:], &oi)
					// Model states around op oi from the enumeration records.
					var before, after *c08.Model
					var op c08.Op
					for _, rec := range pointsByScript[seed] {
						if rec.pt.Op == oi {
							before, after, op = rec.before, rec.after, rec.op
							break
						}
					}
					if before == nil {
						_ = os.RemoveAll(dir)
						continue
					}
					if last[0] == 'e' {
						before = after
					}
					fs := c08.CheckImage(dir, params(), before, after, op, c08.Point{Op: oi, Name: "random-instant", Class: "random-instant"}, rng)
					r.Case("random|"+op.Kind+tag(op), true)
					r.Count("random_instant_kills", 1)
					for _, fd := range fs {
						r.Violation(fd.Sig, "[SIGKILL at a random instant] "+fd.What, map[string]any{"script_seed": seed, "progress_tail": lines[max(0, len(lines)-4):]})
					}
					_ = os.RemoveAll(dir)
				}
			}(w)
		}
		for ri := 0; ri < nRandom; ri++ {
			rjobs <- ri
		}
		close(rjobs)
		wg.Wait()
	}
	_ = os.RemoveAll(tmpl)
	r.Finish(12)
}

func tag(op c08.Op) string {
	if op.Tag == "" {
		return ""
	}
	return "@" + op.Tag
}
