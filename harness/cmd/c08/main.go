// C08: a crash at any point leaves the header stores recoverable and un-torn.
// Crash runner: seeded scripts of appends / rollbacks / reorganisation-shaped
// composites on the real headerfs stores; every crash point of every
// primitive (before/after each flat-file write and truncate, five torn
// lengths inside each write, after each index commit) yields a crash image
// (in-process: copy of the data directory at that instant; child mode: real
// SIGKILL at that point; thorough: SIGKILL at random instants) that is opened
// afresh and checked against the model states before/after the primitive.
//
// Second family: the REAL chainimport import (files of PoW-valid generated
// chains, made by internal/c14) runs against the real stores with the same
// crash hooks; every crash point the hooks announce during Import yields an
// image, which must recover to a durable-step boundary of the import, hold
// only headers of the file, and let the SAME import be re-run to completion.
//
// Start-up family: neutrino.NewChainService itself (the complete client's
// start-up path, never started) runs on an empty directory with a database
// that announces every write transaction; every boundary, every torn length
// of the flat-file appends in between, and the restart on a crash image
// (second generation) are crash points; the restart is NewChainService again.
//
// Block-manager family (internal/c08/bmcrash.go): reorganisations, checkpoint
// mismatch rollbacks, header batches and filter-header batches are performed
// by the REAL block manager (handleHeadersMsg / rollBackToHeight /
// writeCFHeadersMsg) on stores opened with the same crash hooks; every durable
// step of both stores and every pause point of the client between them is a
// crash point.
//
// "Syncing resumes": on every crash image of both families the real block
// manager is constructed on the reopened stores and handed one valid next
// header, which must become the new block tip. Before that, on a QUIET chain:
// the real block manager is constructed AND STARTED on the reopened stores with
// one honest scripted peer that serves filter headers and announces no block;
// the filter-header chain must catch up with the block-header chain
// (internal/c08/resume.go). Fixed scripts (c08.FixedScripts) make "block
// headers 1..N written, filter headers 1..M<N written, crash" part of every run.
package main

import (
	"bytes"
	"flag"
	"fmt"
	"io"
	"math/rand"
	"os"
	"os/exec"
	"path/filepath"
	"runtime"
	"strings"
	"sync"
	"syscall"
	"time"

	"github.com/btcsuite/btcd/chaincfg/v2"

	"verif/internal/c08"
	"verif/internal/c14"
	"verif/internal/evid"
)

var (
	childSeed = flag.Int64("child-script", -1, "child mode: script seed")
	childKind = flag.Int("child-kind", 0, "child mode: script kind (c08.ScriptSeeded / ScriptFixed / ScriptLong)")
	childOps  = flag.Int("child-ops", 0, "child mode: number of ops")
	childKill = flag.Int("child-kill", -1, "child mode: SIGKILL self at this crash point (-1: run to the end, parent kills)")
	childDir  = flag.String("child-dir", "", "child mode: data directory")

	childStartDir  = flag.String("child-start-dir", "", "start-up child mode: data directory to start on (NewChainService), SIGKILL self at real crash point -child-kill")
	childStartScen = flag.Int("child-start-scen", 0, "start-up child mode: start-up scenario index (configuration)")

	childBM = flag.Int("child-bm", -1, "block-manager family child mode: scenario index; runs it in -child-dir and SIGKILLs itself at crash point -child-kill")

	childImpDir    = flag.String("child-import-dir", "", "import child mode: prepared data directory (stores pre-filled, import files written)")
	childImpPreset = flag.Int("child-import-preset", 0, "import child mode: chain parameter preset")
	childImpBatch  = flag.Int("child-import-batch", 0, "import child mode: write batch size")
)

func params() *chaincfg.Params { p := chaincfg.RegressionNetParams; return &p }

func scratch() string {
	if s := os.Getenv("VERIF_SCRATCH"); s != "" {
		return s
	}
	d, _ := os.MkdirTemp("", "verif-c08-")
	return d
}

func child() {
	r, err := c08.NewRunner(*childDir, params(), *childSeed)
	if err != nil {
		fmt.Fprintln(os.Stderr, "child:", err)
		os.Exit(3)
	}
	r.KillAt = *childKill
	prog, _ := os.OpenFile(filepath.Join(*childDir, "progress"), os.O_CREATE|os.O_WRONLY|os.O_APPEND|os.O_SYNC, 0o644)
	for i, op := range c08.ScriptFor(*childKind, *childSeed, *childOps) {
		fmt.Fprintf(prog, "b%d\n", i)
		if _, _, err := r.Exec(i, op); err != nil {
			fmt.Fprintln(os.Stderr, "child exec:", err)
			os.Exit(4)
		}
		fmt.Fprintf(prog, "e%d\n", i)
	}
	os.Exit(0)
}

// importChild runs the real import in a directory the parent prepared, with
// the crash hooks installed, and SIGKILLs itself at crash point -child-kill.
func importChild(seed int64) {
	prep := &c08.ImportPrep{Dir: *childImpDir, Params: c14.WorldParams(seed, *childImpPreset),
		BPath: filepath.Join(*childImpDir, "import-block-headers.bin"),
		FPath: filepath.Join(*childImpDir, "import-filter-headers.bin"), Batch: *childImpBatch}
	_, _, err, pan := c08.RunImportCrashing(prep, *childKill, "", nil)
	if err != nil || pan != "" {
		fmt.Fprintln(os.Stderr, "import child:", err, pan)
		os.Exit(4)
	}
	os.Exit(0)
}

// sjob is one script of family 1.
type sjob struct {
	kind  int // c08.ScriptSeeded / ScriptFixed / ScriptLong
	seed  int64
	nOps  int
	label string
}

type pointRec struct {
	op            c08.Op
	pt            c08.Point
	before, after *c08.Model
}

// supervise runs the whole check in a worker process (this program again) and
// passes its output and exit status on. The restart steps START real block
// managers: a panic of the client on one of their goroutines cannot be
// recovered and kills the process it happens in. The supervisor turns such a
// death into what it is, a violation ("on restart ... syncing resumes"),
// instead of a check that merely broke.
func supervise(r *evid.Run) {
	if os.Getenv("C08_WORKER") != "" {
		return
	}
	exe, err := os.Executable()
	if err != nil {
		return // run unsupervised
	}
	cmd := exec.Command(exe, os.Args[1:]...)
	cmd.Env = append(os.Environ(), "C08_WORKER=1")
	cmd.Stdout = os.Stdout
	tail := &tailWriter{max: 256 << 10}
	cmd.Stderr = io.MultiWriter(os.Stderr, tail)
	cmd.SysProcAttr = &syscall.SysProcAttr{Pdeathsig: syscall.SIGKILL}
	runtime.LockOSThread() // Pdeathsig is tied to the thread that forks
	err = cmd.Run()
	out := tail.String()
	i := strings.Index(out, "panic: ")
	if j := strings.Index(out, "fatal error: "); j >= 0 && (i < 0 || j < i) {
		i = j
	}
	if err == nil || i < 0 || !strings.Contains(out[i:], "\ngoroutine ") {
		if ee, ok := err.(*exec.ExitError); ok {
			os.Exit(ee.ExitCode())
		}
		if err != nil {
			fmt.Fprintln(os.Stderr, "C08 supervisor:", err)
			os.Exit(2)
		}
		os.Exit(0)
	}
	trace := out[i:]
	// Shape: the innermost client function of the crashing goroutine.
	fn := "unknown"
	for _, ln := range strings.Split(trace, "\n") {
		if k := strings.Index(ln, "github.com/lightninglabs/neutrino"); k == 0 {
			fn = strings.TrimPrefix(ln, "github.com/lightninglabs/neutrino")
			fn = strings.TrimLeft(fn, "./")
			if p := strings.LastIndex(fn, "("); p > 0 {
				fn = fn[:p]
			}
			break
		}
	}
	if len(trace) > 6000 {
		trace = trace[:6000]
	}
	r.Rule("the check's worker process died of a panic / fatal error of the client while crash images were being restarted")
	r.Case("process-crash", true)
	r.Violation(evid.Sig("c08/process-crash", fn), "the client panicked while a crash image was being restarted (started block manager / start-up / import re-run); first line: "+
		strings.SplitN(trace, "\n", 2)[0], map[string]any{"trace": trace,
		"reproduce": fmt.Sprintf("VERIF_SEED=%d ./check C08 %s", r.Seed, r.Tier)})
	r.Finish(0)
}

// tailWriter keeps the last max bytes written to it.
type tailWriter struct {
	mu  sync.Mutex
	max int
	b   []byte
}

func (t *tailWriter) Write(p []byte) (int, error) {
	t.mu.Lock()
	t.b = append(t.b, p...)
	if len(t.b) > 2*t.max {
		t.b = append([]byte(nil), t.b[len(t.b)-t.max:]...)
	}
	t.mu.Unlock()
	return len(p), nil
}

func (t *tailWriter) String() string { t.mu.Lock(); defer t.mu.Unlock(); return string(t.b) }

func main() {
	r := evid.New("C08", "fault_enumeration")
	if *childSeed >= 0 {
		child()
		return
	}
	if *childImpDir != "" {
		importChild(r.Seed)
		return
	}
	if *childBM >= 0 {
		out := c08.RunBMScenario(*childDir, c08.GenBMScenario(r.Seed, *childBM), *childKill, "", nil)
		fmt.Fprintf(os.Stderr, "bm child: not killed (%d points, err=%v failed=%q)\n", out.Points, out.Err, out.Failed)
		os.Exit(4)
	}
	if *childStartDir != "" {
		out := c08.RunStart(*childStartDir, c08.GenStartSpec(r.Seed, *childStartScen), *childKill, nil)
		fmt.Fprintf(os.Stderr, "start child: not killed (%d real points, err=%v panic=%q)\n", out.RealPoints, out.Err, out.Panic)
		os.Exit(4)
	}
	supervise(r)
	r.Rule("FAMILY 1: scripts = 3 FIXED ones whatever the seed (block headers 1..5 / filter headers 1..3, 4..5 / one more block / its filter header; the same shape above one filter checkpoint interval: block tip 1203 with the filter store brought to 300, 1100, 1160, then 1207; and a HUGE one: block tip 7 / filter tip 4, then ONE WriteHeaders call with 9000 block headers and ONE with 9003 filter headers), seeded HUGE ones (0-3 small seeded ops, ONE append of 2500 / 4100 / 5000 / 9000 / 13000 (+0..96) block headers in a single WriteHeaders call, as the headers import makes them, the filter store brought up in one huge batch / a small then a huge one / a huge one ending below the tip, 2 seeded ops; every index commit such a call makes through the database wrapper is a crash point of its own, their number is counted, not assumed, and the by-hash oracle looks up EVERY stored height), seeded LONG ones (block tip 1000-2600 first, filter store brought to a drawn height within the last checkpoint interval / anywhere / onto a checkpoint, then as the seeded scripts) and seeded scripts (appends of 1-220 block headers, filter-header batches shaped like writeCFHeadersMsg, single and multi-header rollbacks, reorganisation composites = per block [filter rollback, block rollback], first new header alone, rest as batch) on the real stores sharing one bbolt DB; for EVERY primitive EVERY crash point is taken: before/after each flat-file write, torn at 1 byte / record-1 / one record of a longer batch / record+1 / total-1, after each file truncate, after each index commit; each crash image is opened like a restarting client and must (1) open, (2) hold exactly the entries from before or after the primitive in each store, (3) have whole-record files agreeing with the tips, (4) have by-hash lookups agreeing and no stale entries, (5) keep filter tip <= block tip, (5b) FILTER-HEADER SYNC RESUMES ON A QUIET CHAIN: the REAL block manager is constructed on the reopened stores and STARTED (block handler and filter-header handler goroutines) with one honest scripted peer behind its all-peers query and its batch dispatcher that answers getcfheaders / getcfcheckpt for exactly the image's block chain from the ground truth (filter hash = fixed function of the block hash, header = dsha256(hash || previous header) from the stored genesis filter header; the scripts write exactly these) and announces NO block: at the handler's own quiescent point (it announces, on its goroutine, that it goes to sleep until new block headers arrive) the filter-header store must have reached the block tip and hold the ground truth at every height, the block store must be unchanged; going to sleep with the filter tip below the block tip while block headers are current is a violation (nothing but a block that is not coming wakes it), as is a filter tip that has not moved after 4 getcfheaders rounds to the honest peer; images with level tips are the control (must stay level); (6) let the REAL block manager be constructed on the reopened stores and commit one valid next header handed to its headers handler (tip advances by exactly that header), (7) accept appends that land at the right heights. " +
		"FAMILY 2: seeded clean header imports (PoW-valid generated chains under 3 parameter presets; start height 0 / effective tip+1 / inside agreeing content; length 5-400; write batch size 1, 2, 7, a divisor, the length; stores pre-filled to block tip 0..120 with the block store ahead of the filter store by 0,1,2,3,5) and HUGE imports (files of 2500-13100 PoW-valid headers of the no-retarget preset imported with the importer's DEFAULT write batch size (65536), 70000, the file length, or half the new heights: the importer hands each store ONE (or two) WriteHeaders calls with thousands of headers; case 0 is fixed whatever the seed: stores 6/4, file 5..6004, default batch size) run through the REAL chainimport import on the real stores with the same crash hooks; EVERY crash point announced during Import is taken; each image must pass (1)-(5) with 'before/after' = the states around the interrupted store call of the importer (so each store holds the pre-import content plus a prefix of the file ending at a durable-step boundary), hold above the prior content only the file's headers, let the block manager be constructed on the crash state, and then RE-RUNNING the same import on the recovered stores must succeed and yield exactly the complete final state, from which (6) and (7) must hold; one image in 4 (seeded) additionally gets (6)-(7) on a second copy of the crash state itself. " +
		"START-UP FAMILY: the start-up itself is crashed on the complete client's real start-up path: neutrino.NewChainService (never started, no peers) runs on an EMPTY data directory with a database wrapper that announces a crash point before and after EVERY write transaction it is asked for, whoever makes it (filter database, header indexes, ban store; their number and order are recorded from the run, not assumed); every flat-file append seen between two such points additionally yields the torn-length images (1 byte / record-1 / ...); the completed start is a point too; the RESTART on each image is NewChainService again with the plain database, and the image must pass (1)-(7) with before = after = {genesis header, genesis filter header} read from the service's own stores, plus the public API: BestBlock = the highest block both chains reach, GetBlockHash(0) = genesis. Scenario 0 is fixed (regtest, defaults); the others draw chain (regtest, simnet, testnet3, mainnet, signet, testnet4), PersistToDisk and a filter-header assertion that agrees / is above the tip; SECOND GENERATION: the restart on a crash image (all images of scenario 0, seeded picks elsewhere) is itself crashed at every one of its own points; real SIGKILL in a child at every point of scenario 0 and two points of each other scenario. In family 1 every second image (and in family 2 the second look at the crash state) is also restarted through NewChainService instead of the two store constructors. " +
		"BLOCK-MANAGER FAMILY: the multi-store operations are performed by the REAL block manager (newBlockManager on the real stores opened with the same crash hooks; messages handed synchronously to its own handlers), not scripted: REORGANISATIONS (a heavier branch through handleHeadersMsg -> rollBackToHeight -> first new header alone -> rest as batch; depth 1..6, fork point 0..8, filter tip level with the block tip / above / at / below the fork point, 0-2 already-stored headers in front of the branch), CHECKPOINT-MISMATCH ROLLBACKS (headers up to the next checkpoint height with another block there: rollBackToHeight(previous checkpoint or genesis) through both stores), HEADER BATCHES and FILTER-HEADER BATCHES (getUncheckpointedCFHeaders -> writeCFHeadersMsg against one honest scripted peer); 4 FIXED scenarios whatever the seed (depth-1 reorganisation with filter tip == block tip; depth-3 reorganisation with the filter tip one above the fork point, then the filter-header round; checkpoints 4/10, tips 8/8, mismatch at 10; headers 5 / round / 1 / round from genesis) and seeded ones (per 13: 9 reorganisations walking every depth and every filter-tip position, 2 checkpoint mismatches, 2 sync histories); EVERY mutating store call the block manager makes is one durable step (before/after = the store contents around that call), EVERY crash point inside it (index commit, file append with the torn lengths, truncate) and EVERY pause point of the client between the steps (rb.betweenStores, rb.afterBlock, hdr.reorg.afterRollback, hdr.beforeBatchWrite, cf.beforeWrite, cf.afterWrite; before = after) yields an image that must pass (1)-(7); an uninterrupted operation must not panic; real SIGKILL in a child at two points of each fixed scenario and seeded picks. " +
		"distinct = (family, primitive / store-call kind @ composite / start @ state / block-manager operation [start shape] store call, crash-point class incl. the maker of the interrupted write transaction) plus one mark per import shape, start-up configuration and (rolling-back operation, depth, filter-tip position); non-trivial = every image (each is a distinct on-disk state)")
	r.Assume("process death model: completed write/truncate syscalls persist, bbolt's own commit is atomic (exercised by the random-instant kills, not enumerated); power-loss reordering is out of reach")
	r.Assume("scripts obey the callers' contract: filter headers only for stored blocks; on rollback the filter store is rolled back before the block store")
	r.Assume("import family: only imports that the importer accepts and completes without a crash are crashed (refusals and invalid files are C14's subject); a failed store write needs a fault, not a crash, and is C14's subject too")
	r.Assume("start-up family: the store constructors open their flat files themselves, so a genesis append is observed as the growth of the file between two write-transaction boundaries (the torn images are that state with the file cut), and two file operations between the same two boundaries are not separated")
	r.Assume("filter-sync resume step: the honest peer exists as the responder of the block manager's two network functions (all-peers query, batch dispatcher) and as the 'a peer is connected' signal; it is never handed over as a sync candidate, so 'block headers are current' is decided by the fixed clock (tip + 1 h); the handler's quiescent point is the client's own pause point before its wait for new block headers (verif build tag), attributed to a block manager by the goroutine that called that manager's clock / network functions; stores pre-filled with arbitrary filter headers (import family) are served relative to what is stored, and skipped (counted) where a checkpointed fetch would have to re-derive them")
	r.Assume("block-manager family: a never-connected btcd peer stands in for the sender; the block manager is not started (its handlers are called one message at a time on the harness's goroutine, its notification channel is drained), so the pause points are attributed to a run by the goroutine that reaches them; the clock is one hour after the newest header involved; what an uninterrupted operation writes is taken from the store calls themselves and compared with the expected end state of that kind of operation (a difference is inconclusive here: C01/C02's subject); stores are pre-filled at store level without crash points")
	r.Assume("block manager restart: a never-connected btcd peer stands in for the sender of the one header; the block manager's clock is a fixed instant derived from the chain (tip + 1 h for scripts, the generated chains' reference clock for imports), never the wall clock")

	root := scratch()
	t0 := time.Now()
	phase := func(name string) { // evidence only; no verdict depends on it
		r.Set("wall_s_until_"+name, float64(int(time.Since(t0).Seconds()*10))/10)
	}
	tmpl := filepath.Join(root, "c08-template")
	_ = os.RemoveAll(tmpl)
	_ = os.MkdirAll(tmpl, 0o755)
	db, b, f, err := c08.OpenDir(tmpl, params())
	if err != nil {
		fmt.Fprintln(os.Stderr, "template:", err)
		os.Exit(2)
	}
	c08.CloseAll(db, b, f)

	// Measured (16 cores shared with other jobs, load 15-25): quick 80-95 s,
	// thorough (280 scripts / 92 imports) 12 min; thorough counts set for <= 25 min.
	nScripts, nOps := r.Pick(30, 380), r.Pick(24, 40)
	nKill := r.Pick(64, 2000)
	// Development aid (never set by registered commands): C08_ONLY=bm runs the
	// block-manager family alone.
	onlyBM := os.Getenv("C08_ONLY") == "bm"
	if onlyBM {
		nScripts, nKill = 0, 0
		r.Set("development_run_only_family", "bm")
	}
	nRandom := r.Pick(0, 500)
	// 2 fixed cases + 20 (quick) seeded ones = every (preset, batch class) pair.
	nImports, maxBatches := r.Pick(22, 122), r.Pick(12, 20)
	nKillImp := r.Pick(24, 400)
	if onlyBM {
		nImports, nKillImp = 0, 0
	}
	const keepImportRecs = 40 // SIGKILL cases are drawn from the first imports
	// Every import image gets: block manager constructed on the crash state,
	// the import re-run, block manager restarted (one header) on the result.
	// One image in bmCrashStateOneIn (by image index, seeded order) also gets
	// the one-header restart on a second copy of the crash state itself.
	const bmCrashStateOneIn = 4
	bmStats := &c08.BMStats{}
	bmOpts := &c08.BMOpts{} // scripts: regtest parameters, mined next header, clock = tip + 1 h

	var mu sync.Mutex
	pointsByScript := map[int64][]pointRec{}
	workers := min(runtime.NumCPU(), 16)
	var wg sync.WaitGroup

	// Image checks of both families run on one pool; the families' producers
	// (script runs, import runs) only capture images and hand them over.
	checks := make(chan func(), workers)
	var cwg sync.WaitGroup
	for w := 0; w < workers; w++ {
		cwg.Add(1)
		go func() {
			defer cwg.Done()
			for f := range checks {
				f()
			}
		}()
	}

	// ---- Family 0: the very first start on an empty directory -------------
	if !onlyBM {
		tm, err := c08.NewRunner(func() string {
			d := filepath.Join(root, "c08-genesis-model")
			_ = os.RemoveAll(d)
			_ = c08.CopyDir(tmpl, d)
			return d
		}(), params(), 1)
		if err != nil {
			r.Inconclusive("genesis model: " + err.Error())
		} else {
			genesis := tm.Model
			tm.Close()
			dir := filepath.Join(root, "c08-create")
			_ = os.RemoveAll(dir)
			_ = os.MkdirAll(dir, 0o755)
			nimg := 0
			err := c08.CreationPoints(dir, params(), func(pt c08.Point) {
				img := filepath.Join(root, fmt.Sprintf("c08-create-img-%d", nimg))
				nimg++
				if err := c08.CopyDir(dir, img); err != nil {
					r.Inconclusive("image copy: " + err.Error())
					return
				}
				op := c08.Op{Kind: "create"}
				seed := int64(7700 + nimg)
				checks <- func() {
					fs, inc := (&c08.ImageCheck{Dir: img, Params: params(), Before: genesis, After: genesis,
						Rng: rand.New(rand.NewSource(seed)),
						Sig: c08.ScriptSig(op, pt), Ctx: "crash at " + pt.Name + " during the first start on an empty directory (point " + fmt.Sprint(nimg) + ")",
						BM: bmOpts, Stats: bmStats}).Run()
					_ = os.RemoveAll(img)
					if inc != "" {
						r.Inconclusive(inc)
					}
					r.Case("create|"+pt.Class+"|"+fmt.Sprint(seed), true)
					r.Count("crash_images_checked", 1)
					r.Count("creation_images_checked", 1)
					for _, fd := range fs {
						r.Violation(fd.Sig, fd.What, map[string]any{"point": pt.Name, "family": "first start on an empty directory"})
					}
				}
			})
			if err != nil {
				r.Violation(evid.Sig("c08/operation-failed", "create"), "the first start on an empty directory failed without any fault: "+err.Error(), nil)
			}
			_ = os.RemoveAll(dir)
		}
	}

	// ---- Family 0b: the start-up itself, through the real start-up path -----
	// NewChainService (never Start, no peers) runs on an empty directory with a
	// database that announces every write transaction; every boundary it
	// announces during ONE clean start (their number is whatever the client
	// does, recorded, not assumed), every torn length of every flat-file
	// append seen between two boundaries, and the completed start are crash
	// points. The restart is NewChainService with the plain database. Second
	// generation: the restart on a crash image is itself crashed at every one
	// of ITS points.
	nStartScen := r.Pick(6, 18)       // scenario 0 is fixed, the others seeded
	startGen2PerScen := r.Pick(2, 40) // seeded picks of second-generation states per seeded scenario (scenario 0: all)
	if onlyBM {
		nStartScen = 0
	}
	type startJob struct {
		scen, gen int
		spec      *c08.StartSpec
		state     string // what the start runs on
		src       string // directory holding that state ("" = empty directory)
		from      string // for the witness: how the state came about
		// parentOK (second generation) delivers whether the state passed its
		// own restart check: a state that does not restart is the first
		// generation's finding and is not enumerated again.
		parentOK chan bool
	}
	var startMu sync.Mutex
	startReal := map[int][]c08.StartPoint{} // real crash points of each scenario's first start
	bmFor := func(sp *c08.StartSpec) *c08.BMOpts {
		if sp.Params.PowLimitBits == 0x207fffff { // a next header can be mined on the spot
			return bmOpts
		}
		return nil
	}
	runStartJob := func(j startJob) (subs []startJob) {
		model, err := c08.GenesisModel(j.spec.Params)
		if err != nil {
			r.Inconclusive("genesis model: " + err.Error())
			return nil
		}
		if j.parentOK != nil && !<-j.parentOK {
			_ = os.RemoveAll(j.src)
			r.Count("start_generation_2_states_skipped_parent_failed", 1)
			return nil
		}
		dir := filepath.Join(root, fmt.Sprintf("c08-start-%d-%d-%s", j.scen, j.gen, filepath.Base(j.src)))
		_ = os.RemoveAll(dir)
		_ = os.MkdirAll(dir, 0o755)
		if j.src != "" {
			if err := c08.CopyDir(j.src, dir); err != nil {
				r.Inconclusive("copy start state: " + err.Error())
				return nil
			}
			_ = os.RemoveAll(j.src)
		}
		pick := rand.New(rand.NewSource(r.Seed*31_000_003 + int64(j.scen)*1009))
		nimg := 0
		var reals []c08.StartPoint
		out := c08.RunStart(dir, j.spec, -1, func(sp *c08.StartPoint) {
			ord := nimg
			img := fmt.Sprintf("%s-img-%d", dir, ord)
			nimg++
			if err := c08.CopyDir(dir, img); err == nil {
				err = sp.ApplyCut(img)
			}
			if err != nil {
				r.Inconclusive("image copy: " + err.Error())
				return
			}
			if sp.Real >= 0 {
				reals = append(reals, *sp)
			}
			var verdict chan bool
			if j.gen == 1 {
				// Seeded scenarios: each point is drawn with a probability that
				// yields about startGen2PerScen states per scenario.
				if j.scen == 0 || pick.Intn(16) < startGen2PerScen {
					sub := img + "-gen2"
					if err := c08.CopyDir(img, sub); err == nil {
						verdict = make(chan bool, 1)
						subs = append(subs, startJob{scen: j.scen, gen: 2, spec: j.spec, state: "crashed-first-start", src: sub,
							from: "first start that died at " + sp.Name, parentOK: verdict})
					}
				}
			}
			pt, seed := sp.Point, r.Seed*5_000_011+int64(j.scen)*100_003+int64(j.gen)*10_007+int64(ord)
			ctx := fmt.Sprintf("crash at %s during a start (NewChainService, %v) on %s", pt.Name, j.spec, j.state)
			if j.from != "" {
				ctx += " (the state left by a " + j.from + ")"
			}
			checks <- func() {
				fs, inc := (&c08.ImageCheck{Dir: img, Params: j.spec.Params, Before: model, After: model,
					Rng: rand.New(rand.NewSource(seed)), Sig: c08.StartSig(j.state, pt), Ctx: ctx,
					BM: bmFor(j.spec), Stats: bmStats, Service: j.spec}).Run()
				_ = os.RemoveAll(img)
				if verdict != nil {
					verdict <- len(fs) == 0 && inc == ""
				}
				if inc != "" {
					r.Inconclusive(inc)
				}
				r.Case("start@"+j.state+"|"+pt.Class, true)
				r.Count("crash_images_checked", 1)
				r.Count("start_images_checked", 1)
				r.Count(fmt.Sprintf("start_images_generation_%d", j.gen), 1)
				if sp.Real < 0 {
					r.Count("start_images_torn_append", 1)
				}
				for _, fd := range fs {
					r.Violation(fd.Sig, fd.What, map[string]any{"family": "start-up through NewChainService", "scenario": j.scen, "config": j.spec.String(),
						"state": j.state, "state_from": j.from, "point": pt.Name, "write_tx_index": pt.Op,
						"reproduce": fmt.Sprintf("VERIF_SEED=%d ./check C08 %s  (start-up scenario %d)", r.Seed, r.Tier, j.scen)})
				}
			}
		})
		_ = os.RemoveAll(dir)
		switch {
		case out.TimedOut:
			r.Inconclusive("watchdog: an uninterrupted start-up did not return in 90 s")
		case out.Panic != "":
			r.Violation(evid.Sig("c08/operation-panics", "start@"+j.state), "NewChainService panicked without any fault: "+out.Panic, map[string]any{"config": j.spec.String()})
		case out.Err != nil:
			r.Violation(evid.Sig("c08/operation-failed", "start@"+j.state), "NewChainService failed without any fault: "+out.Err.Error(), map[string]any{"config": j.spec.String()})
		}
		r.Count("start_runs_enumerated", 1)
		r.Count("start_write_txs_observed", int64(len(out.WriteTxs)))
		r.Count("start_real_points", int64(out.RealPoints))
		r.Count("start_torn_points", int64(out.TornPoints))
		if j.gen == 1 {
			startMu.Lock()
			startReal[j.scen] = reals
			startMu.Unlock()
			r.Mark("start-shape|" + j.spec.String())
			if j.scen == 0 {
				r.Set("start_fixed_scenario_write_txs", out.WriteTxs)
				r.Sample(map[string]any{"start_scenario": 0, "config": j.spec.String(), "write_txs": out.WriteTxs,
					"real_points": out.RealPoints, "torn_points": out.TornPoints})
			}
		}
		return subs
	}
	wg.Add(1)
	go func() {
		defer wg.Done()
		gen := make([]startJob, 0, nStartScen)
		for i := 0; i < nStartScen; i++ {
			gen = append(gen, startJob{scen: i, gen: 1, spec: c08.GenStartSpec(r.Seed, i), state: "empty-directory"})
		}
		for len(gen) > 0 {
			var next []startJob
			var nmu sync.Mutex
			var pwg sync.WaitGroup
			q := make(chan startJob)
			for w := 0; w < min(workers, 4); w++ {
				pwg.Add(1)
				go func() {
					defer pwg.Done()
					for j := range q {
						subs := runStartJob(j)
						nmu.Lock()
						next = append(next, subs...)
						nmu.Unlock()
					}
				}()
			}
			for _, j := range gen {
				q <- j
			}
			close(q)
			pwg.Wait()
			gen = next
		}
	}()

	// ---- Family 1: scripts of store primitives ----------------------------
	// The restart on a crash image goes through the complete client's start-up
	// (NewChainService) for every second image (seeded), and through the two
	// store constructors called directly for the others.
	scriptRestart := func(k int64) *c08.StartSpec {
		if k&1 == 0 {
			return c08.PlainStartSpec(params())
		}
		return nil
	}
	// Script jobs: the fixed scripts first (whatever the seed), the seeded long
	// ones, then the seeded ones.
	nLong, nLongOps := r.Pick(1, 16), r.Pick(6, 16)
	var sjobs []sjob
	if onlyBM {
		nLong = 0
	}
	for i := 0; i < len(c08.FixedScripts) && !onlyBM; i++ {
		sjobs = append(sjobs, sjob{c08.ScriptFixed, c08.FixedScriptSeed0 + int64(i), 0, fmt.Sprintf("fixed-%d", i)})
	}
	// Seeded huge scripts (the fixed one is FixedScripts[2]): one append of
	// several thousand block headers each, the filter store brought up in huge
	// batches. They come first: their images are the largest.
	nHuge, nHugeOps := r.Pick(2, 14), 2
	if onlyBM {
		nHuge = 0
	}
	for i := 0; i < nHuge; i++ {
		sjobs = append(sjobs, sjob{c08.ScriptHuge, r.Seed*100003 + 70000 + int64(i), nHugeOps, fmt.Sprintf("huge-%d", i)})
	}
	for i := 0; i < nLong; i++ {
		sjobs = append(sjobs, sjob{c08.ScriptLong, r.Seed*100003 + 50000 + int64(i), nLongOps, fmt.Sprintf("long-%d", i)})
	}
	for si := 0; si < nScripts; si++ {
		sjobs = append(sjobs, sjob{c08.ScriptSeeded, r.Seed*100003 + int64(si), nOps, fmt.Sprint(si)})
	}
	jobs := make(chan int)
	for w := 0; w < min(workers, 6); w++ {
		wg.Add(1)
		go func(w int) {
			defer wg.Done()
			for si := range jobs {
				sj := sjobs[si]
				seed, nOps := sj.seed, sj.nOps
				dir := filepath.Join(root, "c08-run-"+sj.label)
				img := filepath.Join(root, "c08-img-"+sj.label)
				_ = os.RemoveAll(dir)
				if err := c08.CopyDir(tmpl, dir); err != nil {
					r.Inconclusive("copy template: " + err.Error())
					continue
				}
				run, err := c08.NewRunner(dir, params(), seed)
				if err != nil {
					r.Inconclusive("open: " + err.Error())
					continue
				}
				script := c08.ScriptFor(sj.kind, seed, nOps)
				var recs []pointRec
				var cur struct {
					op     c08.Op
					before *c08.Model
					pts    []c08.Point
					imgs   []string
				}
				nimg := 0
				run.OnPoint = func(p c08.Point) {
					// Capture the image now; it is checked once the primitive
					// has returned and its after-state is known.
					d := fmt.Sprintf("%s-%d", img, nimg)
					nimg++
					if err := c08.CopyDir(dir, d); err != nil {
						r.Inconclusive("image copy: " + err.Error())
						return
					}
					cur.pts = append(cur.pts, p)
					cur.imgs = append(cur.imgs, d)
				}
				for i, op := range script {
					cur.op, cur.pts, cur.imgs = op, nil, nil
					before, after, err := run.Exec(i, op)
					if err != nil {
						r.Violation(evid.Sig("c08/operation-failed", op.Kind), fmt.Sprintf("script op %d %v failed without any fault: %v", i, op, err), map[string]any{"script_seed": seed, "script": fmt.Sprint(script)})
						for _, d := range cur.imgs {
							_ = os.RemoveAll(d)
						}
						break
					}
					for k, p := range cur.pts {
						imgDir, rngSeed := cur.imgs[k], (seed^0x5151)*4099+int64(len(recs))
						checks <- func() {
							fs, inc := (&c08.ImageCheck{Dir: imgDir, Params: params(), Before: before, After: after,
								Rng: rand.New(rand.NewSource(rngSeed)),
								Sig: c08.ScriptSig(op, p), Ctx: c08.ScriptCtx(op, p), BM: bmOpts, Stats: bmStats, Service: scriptRestart(rngSeed)}).Run()
							_ = os.RemoveAll(imgDir)
							if inc != "" {
								r.Inconclusive(inc)
							}
							r.Case(op.Kind+tag(op)+"|"+p.Class, true)
							r.Count("crash_images_checked", 1)
							r.Count("points_"+strings.SplitN(p.Class, "/", 2)[0], 1)
							if op.Tag == "huge" {
								r.Count("huge_append_crash_images_checked", 1)
								r.Count("huge_append_points_"+strings.ReplaceAll(p.Class, "/", "_"), 1)
							}
							if sj.kind != c08.ScriptSeeded {
								r.Count("crash_images_of_fixed_and_long_scripts", 1)
							}
							for _, fd := range fs {
								r.Violation(fd.Sig, fd.What, map[string]any{"script_kind": sj.kind, "script_label": sj.label, "script_seed": seed, "ops": nOps, "op_index": i, "op": op.String(),
									"point": p.Name, "script": fmt.Sprint(script), "before_tips": [2]int{len(before.Blocks) - 1, len(before.Filters) - 1},
									"after_tips": [2]int{len(after.Blocks) - 1, len(after.Filters) - 1}})
							}
						}
						recs = append(recs, pointRec{op, p, before, after})
					}
					r.Count("primitives_"+op.Kind, 1)
					if op.Tag == "huge" {
						commits := 0
						for _, p := range cur.pts {
							if p.Class == "index-commit/after" {
								commits++
							}
						}
						r.Count("huge_appends_"+op.Kind, 1)
						r.Count("huge_append_headers_"+op.Kind, int64(op.N))
						r.Count("huge_append_index_commits_observed_"+op.Kind, int64(commits))
						r.Mark(fmt.Sprintf("huge-append|%s|thousands:%d|index-commits:%d", op.Kind, op.N/1000, commits))
					}
				}
				run.Close()
				_ = os.RemoveAll(dir)
				mu.Lock()
				pointsByScript[seed] = recs
				mu.Unlock()
				r.Count("scripts", 1)
				if sj.kind != c08.ScriptSeeded {
					r.Mark("script|" + sj.label[:strings.Index(sj.label, "-")])
				}
				if si < 3+len(c08.FixedScripts) {
					r.Sample(map[string]any{"script_seed": seed, "script": fmt.Sprint(script), "crash_points": len(recs)})
				}
			}
		}(w)
	}
	wg.Add(1)
	go func() {
		defer wg.Done()
		for si := range sjobs {
			jobs <- si
		}
		close(jobs)
	}()

	// ---- Family 2: the real header import under crashes -------------------
	nHugeImports := r.Pick(2, 10)
	if onlyBM {
		nHugeImports = 0
	}
	var longWorld *c14.World
	longWorldErr := make(chan error, 1)
	if nHugeImports > 0 {
		go func() {
			var err error
			longWorld, err = c14.NewLongWorld(r.Seed, 0, root, c08.HugeImportMaxHeight())
			longWorldErr <- err
		}()
	}
	worlds := make([]*c14.World, c14.NumPresets())
	{
		errs := make([]error, len(worlds))
		var wwg sync.WaitGroup
		for p := range worlds {
			wwg.Add(1)
			go func(p int) {
				defer wwg.Done()
				worlds[p], errs[p] = c14.NewWorld(r.Seed, p, root)
			}(p)
		}
		wwg.Wait()
		for _, err := range errs {
			if err != nil {
				fmt.Fprintln(os.Stderr, "C08 import worlds:", err)
				r.Broken("import worlds: " + err.Error())
				r.Finish(12)
			}
		}
	}
	// The huge import cases (files of several thousand headers, written by the
	// importer in ONE store call per store) are cut from a longer chain of the
	// no-retarget preset. Case 0 is fixed whatever the seed.
	if nHugeImports > 0 {
		if err := <-longWorldErr; err != nil {
			fmt.Fprintln(os.Stderr, "C08 long import world:", err)
			r.Broken("long import world: " + err.Error())
			r.Finish(12)
		}
	}
	phase("0_import_worlds_built")
	type impRec struct {
		op            c08.Op
		pt            c08.Point
		before, after *c08.Model
	}
	type imgJob struct {
		prep *c08.ImportPrep
		rec  impRec
		img  string
		seed int64
		done *sync.WaitGroup
	}
	impRecs := map[int][]impRec{}
	impSpecs := map[int]c14.Spec{}
	ist := &c08.ImportStats{}
	reportImp := func(kind string, prep *c08.ImportPrep, rec impRec, fs []c08.Finding, inc string, extra map[string]any) {
		if inc != "" {
			r.Inconclusive(inc)
		}
		for _, fd := range fs {
			w := map[string]any{"import_case": prep.Spec, "params": prep.World.Name(), "store_call_index": rec.pt.Op,
				"store_call": rec.op.String(), "point": rec.pt.Name,
				"before_tips": [2]int{len(rec.before.Blocks) - 1, len(rec.before.Filters) - 1},
				"after_tips":  [2]int{len(rec.after.Blocks) - 1, len(rec.after.Filters) - 1},
				"reproduce":   fmt.Sprintf("VERIF_SEED=%d ./check C08 %s  (import case %d)", r.Seed, r.Tier, prep.Spec.Idx)}
			for k, v := range extra {
				w[k] = v
			}
			r.Violation(fd.Sig, kind+fd.What, w)
		}
	}
	checkImp := func(j imgJob) {
		rng := rand.New(rand.NewSource(j.seed))
		fs, inc := c08.CheckImportImage(j.prep, j.rec.op, j.rec.before, j.rec.after, j.rec.pt, j.img, rng, bmStats, j.seed%bmCrashStateOneIn == 0, ist)
		_ = os.RemoveAll(j.img)
		r.Case(c08.ImportFingerprint(j.rec.op, j.rec.pt), true)
		r.Count("import_crash_images_checked", 1)
		r.Count("import_points_"+strings.SplitN(j.rec.pt.Class, "/", 2)[0], 1)
		reportImp("", j.prep, j.rec, fs, inc, nil)
		j.done.Done()
	}
	// Producers: a few imports at a time, each pausing inside the importer's
	// store call while its images are handed to the checkers.
	idxs := make(chan int)
	for w := 0; w < min(workers, 4); w++ {
		wg.Add(1)
		go func() {
			defer wg.Done()
			for idx := range idxs {
				var sp c14.Spec
				var world *c14.World
				huge := idx >= c08.HugeImportIdx0
				if huge {
					sp, world = c08.GenHugeImportSpec(r.Seed, idx-c08.HugeImportIdx0), longWorld
				} else {
					sp = c08.GenImportSpec(r.Seed, idx, maxBatches)
					world = worlds[sp.Preset%len(worlds)]
				}
				dir := filepath.Join(root, fmt.Sprintf("c08-imp-%d", idx))
				prep, err := c08.PrepareImport(world, sp, dir)
				if err != nil {
					r.Inconclusive("import prepare: " + strings.SplitN(err.Error(), ":", 2)[0])
					fmt.Fprintf(os.Stderr, "C08 import case %d: prepare: %v\n", idx, err)
					_ = os.RemoveAll(dir)
					continue
				}
				var recs []impRec
				var pending sync.WaitGroup // the import files in dir are needed until every image is checked
				nimg := 0
				steps, points, ierr, pan := c08.RunImportCrashing(prep, -1, filepath.Join(root, fmt.Sprintf("c08-impimg-%d", idx)), func(st *c08.ImportStep) {
					r.Count("import_store_calls_"+st.Op.Kind+tag(st.Op), 1)
					if st.Op.N >= 2000 {
						commits := 0
						for _, p := range st.Points {
							if p.Class == "index-commit/after" {
								commits++
							}
						}
						r.Count("import_huge_store_calls_"+st.Op.Kind, 1)
						r.Count("import_huge_store_call_headers_"+st.Op.Kind, int64(st.Op.N))
						r.Count("import_huge_store_call_index_commits_observed_"+st.Op.Kind, int64(commits))
						r.Count("import_huge_store_call_crash_images", int64(len(st.Points)))
						r.Mark(fmt.Sprintf("import-huge-call|%s|thousands:%d|index-commits:%d", st.Op.Kind, st.Op.N/1000, commits))
					}
					if st.Note != "" {
						r.Inconclusive("import step outside the file: " + st.Note)
					}
					for k, p := range st.Points {
						rec := impRec{st.Op, p, st.Before, st.After}
						if idx < keepImportRecs {
							recs = append(recs, rec)
						}
						pending.Add(1)
						j := imgJob{prep, rec, st.Images[k], r.Seed*7_000_003 + int64(idx)*100_003 + int64(nimg), &pending}
						checks <- func() { checkImp(j) }
						nimg++
					}
				})
				switch {
				case pan != "":
					r.Inconclusive("uninterrupted import panicked")
					fmt.Fprintf(os.Stderr, "C08 import case %d %+v: uninterrupted import panicked: %s\n", idx, prep.Spec, pan)
				case ierr != nil:
					// Not a crash-recovery observation: C14's subject.
					r.Inconclusive("uninterrupted import refused a clean file")
					fmt.Fprintf(os.Stderr, "C08 import case %d %+v: uninterrupted import failed: %v\n", idx, prep.Spec, ierr)
				default:
					if db, b, f, err := c08.OpenDir(dir, prep.Params); err != nil {
						r.Inconclusive("stores do not reopen after the uninterrupted import")
					} else {
						got, err := c08.ReadModel(b, f)
						c08.CloseAll(db, b, f)
						if err != nil || len(got.Blocks) != len(prep.Final.Blocks) || len(got.Filters) != len(prep.Final.Filters) {
							r.Inconclusive("uninterrupted import did not reach the expected final state")
							fmt.Fprintf(os.Stderr, "C08 import case %d %+v: final state unexpected (err=%v)\n", idx, prep.Spec, err)
						}
					}
					r.Count("import_cases", 1)
					if huge {
						r.Count("import_huge_cases", 1)
					}
					r.Count("import_store_calls", int64(steps))
					r.Count("import_crash_points", int64(points))
					r.Mark("import-shape|" + c08.ImportShape(&prep.Spec))
				}
				mu.Lock()
				if idx < keepImportRecs {
					impRecs[idx] = recs
					impSpecs[idx] = prep.Spec
				}
				mu.Unlock()
				if idx < 3 || idx == c08.HugeImportIdx0 {
					r.Sample(map[string]any{"import_case": prep.Spec, "params": world.Name(), "store_calls": steps, "crash_points": points})
				}
				pending.Wait()
				_ = os.RemoveAll(dir)
			}
		}()
	}
	// ---- Family 3: the real block manager's multi-store operations ----------
	// (internal/c08/bmcrash.go) Reorganisations, checkpoint-mismatch rollbacks,
	// header batches and filter-header batches are performed by the REAL block
	// manager on stores opened with the crash hooks; every durable step of both
	// stores and every pause point of the client in between is a crash point.
	nBM := c08.NumFixedBMScenarios() + r.Pick(13, 130)
	nKillBM := r.Pick(16, 200)
	type bmRec struct {
		st *c08.BMStep
		pt c08.Point
	}
	bmRecs := map[int][]bmRec{}
	checkBM := func(sc *c08.BMScenario, st *c08.BMStep, pt c08.Point, img string, seed int64, kill int) {
		var svc *c08.StartSpec
		if seed&1 == 0 {
			svc = c08.PlainStartSpec(sc.P)
		}
		fs, inc := (&c08.ImageCheck{Dir: img, Params: sc.P, Before: st.Before, After: st.After, Rng: rand.New(rand.NewSource(seed)),
			Sig: c08.BMSig(st, pt), Ctx: c08.BMCtx(sc, st, pt), BM: sc.Opts(), Stats: bmStats, Service: svc}).Run()
		_ = os.RemoveAll(img)
		if inc != "" {
			r.Inconclusive(inc)
		}
		pre := ""
		if kill >= 0 {
			pre = "[real SIGKILL] "
			r.Case("sigkill|"+c08.BMFingerprint(st, pt), true)
			r.Count("bmfamily_sigkill_cases", 1)
		} else {
			r.Case(c08.BMFingerprint(st, pt), true)
			r.Count("crash_images_checked", 1)
			r.Count("bmfamily_images_checked", 1)
			r.Count("bmfamily_points_"+strings.SplitN(pt.Class, "/", 2)[0], 1)
			if st.Op.Kind == "pause" {
				r.Count("bmfamily_"+strings.ReplaceAll(pt.Class, "/", "_"), 1)
			}
			if sc.Class == "fixed" {
				r.Count("bmfamily_images_of_fixed_scenarios", 1)
			}
		}
		for _, fd := range fs {
			w := map[string]any{"family": "real block manager under crashes", "scenario": sc.String(), "scenario_index": sc.Idx,
				"operation_index": st.OpIdx, "operation": st.BMOp.String(), "start_shape": st.Rel, "store_call": st.Op.String(), "point": pt.Name,
				"before_tips": [2]int{len(st.Before.Blocks) - 1, len(st.Before.Filters) - 1},
				"after_tips":  [2]int{len(st.After.Blocks) - 1, len(st.After.Filters) - 1},
				"reproduce":   fmt.Sprintf("VERIF_SEED=%d ./check C08 %s  (block-manager scenario %d)", r.Seed, r.Tier, sc.Idx)}
			if kill >= 0 {
				w["kill_point"] = kill
			}
			r.Violation(fd.Sig, pre+fd.What, w)
		}
	}
	bmIdxs := make(chan int)
	for w := 0; w < min(workers, 3); w++ {
		wg.Add(1)
		go func() {
			defer wg.Done()
			for idx := range bmIdxs {
				sc := c08.GenBMScenario(r.Seed, idx)
				dir := filepath.Join(root, fmt.Sprintf("c08-bm-%d", idx))
				_ = os.RemoveAll(dir)
				if err := c08.CopyDir(tmpl, dir); err != nil {
					r.Inconclusive("copy template: " + err.Error())
					continue
				}
				var recs []bmRec
				nimg := 0
				out := c08.RunBMScenario(dir, sc, -1, filepath.Join(root, fmt.Sprintf("c08-bmimg-%d", idx)), func(st *c08.BMStep) {
					if st.Op.Kind != "pause" {
						r.Count("bmfamily_store_calls_"+st.Op.Kind+"@"+st.BMOp.Kind, 1)
					}
					for k, p := range st.Points {
						recs = append(recs, bmRec{st, p})
						img, seed := st.Images[k], r.Seed*8_000_009+int64(idx)*100_003+int64(nimg)
						checks <- func() { checkBM(sc, st, p, img, seed, -1) }
						nimg++
					}
				})
				_ = os.RemoveAll(dir)
				switch {
				case out.Err != nil:
					r.Inconclusive("block-manager scenario: " + strings.SplitN(out.Err.Error(), ":", 2)[0])
					fmt.Fprintf(os.Stderr, "C08 block-manager scenario %d (%v): %v\n", idx, sc, out.Err)
				case out.FailedKind == "panics":
					r.Violation(evid.Sig("c08/operation-panics", "bm:"+sc.Ops[out.FailedOp].Kind), "the block manager panicked without any fault: "+out.Failed,
						map[string]any{"scenario": sc.String(), "scenario_index": idx})
				case out.FailedKind != "":
					// Not a crash-recovery observation (what an uninterrupted
					// operation does is C01/C02's subject).
					r.Inconclusive("block-manager scenario: an uninterrupted operation ended in an unexpected state")
					fmt.Fprintf(os.Stderr, "C08 block-manager scenario %d (%v): %s\n", idx, sc, out.Failed)
				default:
					r.Count("bmfamily_scenarios", 1)
					r.Count("bmfamily_operations", int64(len(sc.Ops)))
				}
				r.Count("bmfamily_store_calls", int64(out.Steps))
				r.Count("bmfamily_crash_points", int64(out.Points))
				for _, sh := range out.Shapes {
					r.Mark("bmfamily-shape|" + sh)
				}
				mu.Lock()
				bmRecs[idx] = recs
				mu.Unlock()
				if idx < c08.NumFixedBMScenarios() {
					r.Sample(map[string]any{"block_manager_scenario": sc.String(), "store_calls": out.Steps, "crash_points": out.Points})
				}
			}
		}()
	}
	wg.Add(1)
	go func() {
		defer wg.Done()
		for idx := 0; idx < nBM; idx++ {
			bmIdxs <- idx
		}
		close(bmIdxs)
	}()

	for i := 0; i < nHugeImports; i++ { // first: the longest jobs
		idxs <- c08.HugeImportIdx0 + i
	}
	for idx := 0; idx < nImports; idx++ {
		idxs <- idx
	}
	close(idxs)
	wg.Wait()
	close(checks)
	cwg.Wait()

	phase("1_scripts_and_imports_done")
	r.Exhaustive(true)
	r.Set("exhaustive_scope", "every crash point of every primitive of every generated script, every crash point announced during every generated import and every crash point and client pause point passed during every block-manager scenario (in-process images); SIGKILL cases are a sample of the same points")

	// Real SIGKILL at enumerated points: the child runs the same script and
	// kills itself at point k; the parent opens what is left.
	exe, _ := os.Executable()
	type kcase struct {
		sj sjob
		k  int
	}
	var kcases []kcase
	kseen := map[kcase]bool{}
	krng := rand.New(rand.NewSource(r.Seed ^ 0x6b696c6c))
	var seeds []sjob // the seeded scripts
	for _, sj := range sjobs {
		if sj.kind == c08.ScriptSeeded {
			seeds = append(seeds, sj)
		}
	}
	for i := 0; i < nKill && len(seeds) > 0; i++ {
		s := seeds[krng.Intn(len(seeds))]
		if n := len(pointsByScript[s.seed]); n > 0 {
			// (duplicates would share a directory name: drop them)
			if kc := (kcase{s, krng.Intn(n)}); !kseen[kc] {
				kseen[kc] = true
				kcases = append(kcases, kc)
			}
		}
	}
	// Two points of each fixed script and of each long script (their own PRNG:
	// the seeded picks above stay what they were).
	krng2 := rand.New(rand.NewSource(r.Seed ^ 0x6b696c6d))
	for _, sj := range sjobs {
		if n := len(pointsByScript[sj.seed]); sj.kind != c08.ScriptSeeded && n > 0 {
			for j := 0; j < 2; j++ {
				if kc := (kcase{sj, krng2.Intn(n)}); !kseen[kc] {
					kseen[kc] = true
					kcases = append(kcases, kc)
				}
			}
		}
	}
	kjobs := make(chan kcase)
	for w := 0; w < workers; w++ {
		wg.Add(1)
		go func(w int) {
			defer wg.Done()
			rng := rand.New(rand.NewSource(int64(w) + 77))
			for kc := range kjobs {
				dir := filepath.Join(root, fmt.Sprintf("c08-kill-%d-%d", kc.sj.seed, kc.k))
				_ = os.RemoveAll(dir)
				if err := c08.CopyDir(tmpl, dir); err != nil {
					r.Inconclusive("copy template")
					continue
				}
				cmd := exec.Command(exe, "-tier", r.Tier, "-seed", fmt.Sprint(r.Seed), "-child-script", fmt.Sprint(kc.sj.seed),
					"-child-kind", fmt.Sprint(kc.sj.kind), "-child-ops", fmt.Sprint(kc.sj.nOps), "-child-kill", fmt.Sprint(kc.k), "-child-dir", dir)
				var errb bytes.Buffer
				cmd.Stderr = &errb
				err := cmd.Run()
				ws, _ := cmd.ProcessState.Sys().(syscall.WaitStatus)
				if err == nil || !ws.Signaled() || ws.Signal() != syscall.SIGKILL {
					r.Inconclusive("kill child did not die by SIGKILL")
					fmt.Fprintf(os.Stderr, "kill child %v: err=%v stderr=%s\n", kc, err, errb.String())
					_ = os.RemoveAll(dir)
					continue
				}
				rec := pointsByScript[kc.sj.seed][kc.k]
				fs, inc := (&c08.ImageCheck{Dir: dir, Params: params(), Before: rec.before, After: rec.after, Rng: rng,
					Sig: c08.ScriptSig(rec.op, rec.pt), Ctx: c08.ScriptCtx(rec.op, rec.pt), BM: bmOpts, Stats: bmStats, Service: scriptRestart(int64(kc.k))}).Run()
				if inc != "" {
					r.Inconclusive(inc)
				}
				r.Case("sigkill|"+rec.op.Kind+tag(rec.op)+"|"+rec.pt.Class, true)
				r.Count("sigkill_cases", 1)
				for _, fd := range fs {
					r.Violation(fd.Sig, "[real SIGKILL] "+fd.What, map[string]any{"script_kind": kc.sj.kind, "script_label": kc.sj.label, "script_seed": kc.sj.seed, "kill_point": kc.k, "op": rec.op.String(), "point": rec.pt.Name})
				}
				_ = os.RemoveAll(dir)
			}
		}(w)
	}
	for _, kc := range kcases {
		kjobs <- kc
	}
	close(kjobs)
	wg.Wait()

	// Real SIGKILL inside a first start: the child runs NewChainService on an
	// empty directory and kills itself at real crash point k; the parent
	// restarts (NewChainService) on what is left. Scenario 0: every point; the
	// seeded scenarios: two points each.
	{
		type skcase struct{ scen, k int }
		var skcases []skcase
		skrng := rand.New(rand.NewSource(r.Seed ^ 0x73746b6c))
		for scen := 0; scen < nStartScen; scen++ {
			n := len(startReal[scen])
			switch {
			case n == 0:
			case scen == 0 || r.Tier != "quick" || n < 3:
				for k := 0; k < n; k++ {
					skcases = append(skcases, skcase{scen, k})
				}
			default:
				a := skrng.Intn(n)
				skcases = append(skcases, skcase{scen, a}, skcase{scen, (a + 1 + skrng.Intn(n-1)) % n})
			}
		}
		skjobs := make(chan skcase)
		for w := 0; w < workers; w++ {
			wg.Add(1)
			go func() {
				defer wg.Done()
				for kc := range skjobs {
					spec := c08.GenStartSpec(r.Seed, kc.scen)
					model, err := c08.GenesisModel(spec.Params)
					if err != nil {
						r.Inconclusive("genesis model: " + err.Error())
						continue
					}
					dir := filepath.Join(root, fmt.Sprintf("c08-startkill-%d-%d", kc.scen, kc.k))
					_ = os.RemoveAll(dir)
					_ = os.MkdirAll(dir, 0o755)
					cmd := exec.Command(exe, "-tier", r.Tier, "-seed", fmt.Sprint(r.Seed), "-child-start-dir", dir,
						"-child-start-scen", fmt.Sprint(kc.scen), "-child-kill", fmt.Sprint(kc.k))
					var errb bytes.Buffer
					cmd.Stderr = &errb
					err = cmd.Run()
					ws, _ := cmd.ProcessState.Sys().(syscall.WaitStatus)
					if err == nil || !ws.Signaled() || ws.Signal() != syscall.SIGKILL {
						r.Inconclusive("start kill child did not die by SIGKILL")
						fmt.Fprintf(os.Stderr, "start kill child %v: err=%v stderr=%s\n", kc, err, errb.String())
						_ = os.RemoveAll(dir)
						continue
					}
					pt := startReal[kc.scen][kc.k].Point
					ctx := fmt.Sprintf("crash at %s during a start (NewChainService, %v) on empty-directory", pt.Name, spec)
					fs, inc := (&c08.ImageCheck{Dir: dir, Params: spec.Params, Before: model, After: model,
						Rng: rand.New(rand.NewSource(r.Seed*6_000_011 + int64(kc.scen)*1009 + int64(kc.k))),
						Sig: c08.StartSig("empty-directory", pt), Ctx: ctx, BM: bmFor(spec), Stats: bmStats, Service: spec}).Run()
					if inc != "" {
						r.Inconclusive(inc)
					}
					r.Case("sigkill|start@empty-directory|"+pt.Class, true)
					r.Count("start_sigkill_cases", 1)
					for _, fd := range fs {
						r.Violation(fd.Sig, "[real SIGKILL] "+fd.What, map[string]any{"family": "start-up through NewChainService", "scenario": kc.scen,
							"config": spec.String(), "kill_point": kc.k, "point": pt.Name})
					}
					_ = os.RemoveAll(dir)
				}
			}()
		}
		for _, kc := range skcases {
			skjobs <- kc
		}
		close(skjobs)
		wg.Wait()
	}

	// Real SIGKILL inside an operation of the real block manager: the child runs
	// the same scenario and kills itself at point k. Two points of each fixed
	// scenario, seeded picks elsewhere.
	{
		type bkcase struct{ idx, k int }
		var bkcases []bkcase
		bkseen := map[bkcase]bool{}
		bkrng := rand.New(rand.NewSource(r.Seed ^ 0x626d6b6c))
		add := func(idx int) {
			if n := len(bmRecs[idx]); n > 0 {
				if kc := (bkcase{idx, bkrng.Intn(n)}); !bkseen[kc] {
					bkseen[kc] = true
					bkcases = append(bkcases, kc)
				}
			}
		}
		for idx := 0; idx < c08.NumFixedBMScenarios(); idx++ {
			add(idx)
			add(idx)
		}
		for i := 0; i < nKillBM; i++ {
			add(bkrng.Intn(nBM))
		}
		bkjobs := make(chan bkcase)
		for w := 0; w < workers; w++ {
			wg.Add(1)
			go func() {
				defer wg.Done()
				for kc := range bkjobs {
					dir := filepath.Join(root, fmt.Sprintf("c08-bmkill-%d-%d", kc.idx, kc.k))
					_ = os.RemoveAll(dir)
					if err := c08.CopyDir(tmpl, dir); err != nil {
						r.Inconclusive("copy template")
						continue
					}
					cmd := exec.Command(exe, "-tier", r.Tier, "-seed", fmt.Sprint(r.Seed), "-child-bm", fmt.Sprint(kc.idx),
						"-child-kill", fmt.Sprint(kc.k), "-child-dir", dir)
					var errb bytes.Buffer
					cmd.Stderr = &errb
					err := cmd.Run()
					ws, _ := cmd.ProcessState.Sys().(syscall.WaitStatus)
					if err == nil || !ws.Signaled() || ws.Signal() != syscall.SIGKILL {
						r.Inconclusive("block-manager kill child did not die by SIGKILL")
						fmt.Fprintf(os.Stderr, "bm kill child %v: err=%v stderr=%s\n", kc, err, errb.String())
						_ = os.RemoveAll(dir)
						continue
					}
					rec := bmRecs[kc.idx][kc.k]
					checkBM(c08.GenBMScenario(r.Seed, kc.idx), rec.st, rec.pt, dir, r.Seed*8_000_011+int64(kc.idx)*100_003+int64(kc.k), kc.k)
				}
			}()
		}
		for _, kc := range bkcases {
			bkjobs <- kc
		}
		close(bkjobs)
		wg.Wait()
	}

	phase("2_script_sigkills_done")

	// Real SIGKILL inside an import: the parent prepares the directory
	// (pre-filled stores, import files), the child runs the real import with
	// the hooks installed and kills itself at point k.
	type ikcase struct{ idx, k int }
	var ikcases []ikcase
	ikseen := map[ikcase]bool{}
	ikrng := rand.New(rand.NewSource(r.Seed ^ 0x696d706b))
	for i := 0; i < nKillImp; i++ {
		idx := ikrng.Intn(min(nImports, keepImportRecs))
		if n := len(impRecs[idx]); n > 0 {
			kc := ikcase{idx, ikrng.Intn(n)}
			if !ikseen[kc] {
				ikseen[kc] = true
				ikcases = append(ikcases, kc)
			}
		}
	}
	ikjobs := make(chan ikcase)
	for w := 0; w < workers; w++ {
		wg.Add(1)
		go func(w int) {
			defer wg.Done()
			for kc := range ikjobs {
				sp := impSpecs[kc.idx]
				world := worlds[sp.Preset%len(worlds)]
				dir := filepath.Join(root, fmt.Sprintf("c08-impkill-%d-%d", kc.idx, kc.k))
				prep, err := c08.PrepareImport(world, sp, dir)
				if err != nil {
					r.Inconclusive("import prepare (kill case)")
					_ = os.RemoveAll(dir)
					continue
				}
				cmd := exec.Command(exe, "-tier", r.Tier, "-seed", fmt.Sprint(r.Seed), "-child-import-dir", dir,
					"-child-import-preset", fmt.Sprint(sp.Preset), "-child-import-batch", fmt.Sprint(prep.Batch),
					"-child-kill", fmt.Sprint(kc.k))
				var errb bytes.Buffer
				cmd.Stderr = &errb
				err = cmd.Run()
				ws, _ := cmd.ProcessState.Sys().(syscall.WaitStatus)
				if err == nil || !ws.Signaled() || ws.Signal() != syscall.SIGKILL {
					r.Inconclusive("import kill child did not die by SIGKILL")
					fmt.Fprintf(os.Stderr, "import kill child %v: err=%v stderr=%s\n", kc, err, errb.String())
					_ = os.RemoveAll(dir)
					continue
				}
				rec := impRecs[kc.idx][kc.k]
				rng := rand.New(rand.NewSource(r.Seed*9_000_011 + int64(kc.idx)*100_003 + int64(kc.k)))
				fs, inc := c08.CheckImportImage(prep, rec.op, rec.before, rec.after, rec.pt, dir, rng, bmStats, kc.k%bmCrashStateOneIn == 0, ist)
				r.Case("sigkill|"+c08.ImportFingerprint(rec.op, rec.pt), true)
				r.Count("import_sigkill_cases", 1)
				reportImp("[real SIGKILL] ", prep, rec, fs, inc, map[string]any{"kill_point": kc.k})
				_ = os.RemoveAll(dir)
			}
		}(w)
	}
	for _, kc := range ikcases {
		ikjobs <- kc
	}
	close(ikjobs)
	wg.Wait()
	for _, w := range worlds {
		w.Remove()
	}
	if longWorld != nil {
		longWorld.Remove()
	}
	phase("3_import_sigkills_done")

	// Random-instant kills from the parent (thorough): hits inside bbolt
	// commits and between any two instructions.
	if nRandom > 0 {
		rjobs := make(chan int)
		for w := 0; w < workers; w++ {
			wg.Add(1)
			go func(w int) {
				defer wg.Done()
				rng := rand.New(rand.NewSource(int64(w) + 991))
				for ri := range rjobs {
					seed := seeds[ri%len(seeds)].seed
					dir := filepath.Join(root, fmt.Sprintf("c08-rnd-%d", ri))
					_ = os.RemoveAll(dir)
					if err := c08.CopyDir(tmpl, dir); err != nil {
						continue
					}
					cmd := exec.Command(exe, "-tier", r.Tier, "-seed", fmt.Sprint(r.Seed), "-child-script", fmt.Sprint(seed),
						"-child-ops", fmt.Sprint(nOps), "-child-kill", "-1", "-child-dir", dir)
					if err := cmd.Start(); err != nil {
						continue
					}
					time.Sleep(time.Duration(60+rng.Intn(400)) * time.Millisecond)
					_ = cmd.Process.Kill()
					_ = cmd.Wait()
					// Which primitive was in flight?
					pb, _ := os.ReadFile(filepath.Join(dir, "progress"))
					lines := strings.Fields(string(pb))
					if len(lines) == 0 {
						r.Count("random_kills_before_first_op", 1)
						_ = os.RemoveAll(dir)
						continue
					}
					last := lines[len(lines)-1]
					var oi int
					fmt.Sscan(last[1:], &oi)
					// Model states around op oi from the enumeration records.
					var before, after *c08.Model
					var op c08.Op
					for _, rec := range pointsByScript[seed] {
						if rec.pt.Op == oi {
							before, after, op = rec.before, rec.after, rec.op
							break
						}
					}
					if before == nil {
						_ = os.RemoveAll(dir)
						continue
					}
					if last[0] == 'e' {
						before = after
					}
					rpt := c08.Point{Op: oi, Name: "random-instant", Class: "random-instant"}
					fs, inc := (&c08.ImageCheck{Dir: dir, Params: params(), Before: before, After: after, Rng: rng,
						Sig: c08.ScriptSig(op, rpt), Ctx: c08.ScriptCtx(op, rpt), BM: bmOpts, Stats: bmStats}).Run()
					if inc != "" {
						r.Inconclusive(inc)
					}
					r.Case("random|"+op.Kind+tag(op), true)
					r.Count("random_instant_kills", 1)
					for _, fd := range fs {
						r.Violation(fd.Sig, "[SIGKILL at a random instant] "+fd.What, map[string]any{"script_seed": seed, "progress_tail": lines[max(0, len(lines)-4):]})
					}
					_ = os.RemoveAll(dir)
				}
			}(w)
		}
		for ri := 0; ri < nRandom; ri++ {
			rjobs <- ri
		}
		close(rjobs)
		wg.Wait()
	}
	c08.WaitPending() // background stop-and-close of the started block managers (their counters)
	r.Set("import_check_worker_seconds", map[string]float64{"total": float64(ist.TTotal) / 1e9, "of_which_reimport": float64(ist.TReimport) / 1e9,
		"of_which_crash_state_block_manager_sample": float64(ist.TSecond) / 1e9})
	r.Count("import_reimports", ist.Reimports)
	r.Count("import_reimports_completed", ist.ReimportsOK)
	r.Count("import_headers_compared_with_file", ist.HeadersCompared)
	{
		c, h, t := bmStats.Snapshot()
		r.Count("bm_constructed", c)
		r.Count("bm_next_header_handled", h)
		r.Count("bm_tip_advanced", t)
		r.Count("bm_import_crash_state_restarts", ist.CrashStateBM)
		r.Count("restarts_through_NewChainService", bmStats.Services())
		cs, ms := bmStats.Counters()
		for k, v := range cs {
			r.Count(k, v)
		}
		for k := range ms {
			r.Mark(k)
		}
		r.Set("resume_shapes_seen", ms)
		r.Set("bm_sample_one_in", map[string]int{"script_images_one_header_restart": 1, "import_images_construct_on_crash_state": 1,
			"import_images_one_header_restart_after_reimport": 1, "import_images_one_header_restart_on_crash_state": bmCrashStateOneIn})
	}
	_ = os.RemoveAll(tmpl)
	if onlyBM {
		r.Finish(1)
	}
	r.Finish(40)
}

func tag(op c08.Op) string {
	if op.Tag == "" {
		return ""
	}
	return "@" + op.Tag
}
