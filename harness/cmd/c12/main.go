// Command c12 is the runtime-monitoring check for property C12: every batch
// handed to the query work dispatcher gets exactly one verdict; success means
// every request was answered; unanswered requests are re-issued, better-ranked
// peers are preferred; ended batches never block later batches or shutdown.
//
// The parent process only supervises: all scenarios run in a child process so
// that a panic inside the dispatcher (its goroutines cannot be recovered from
// outside) is reported as a violation instead of killing the check.
//
// Two parts: (1) in-process scenarios that drive the dispatcher and the real
// workers with the harness's own query.Peer implementations, and (2) the L2
// family (internal/c12/l2.go): the complete client against wire-level peers,
// queries through GetBlock / GetCFilter while peers are disconnected locally in
// the middle of answering — that part puts the ServerPeer adaptor (the
// query.Peer the client really uses) under the dispatcher. Each L2 scenario is
// a process of its own (this binary with VERIF_CHILD_SCENARIO set).
package main

import (
	"bytes"
	"encoding/json"
	"flag"
	"fmt"
	"io"
	"os"
	"os/exec"
	"regexp"
	"sort"
	"strings"
	"sync"
	"time"

	"verif/internal/c12"
	"verif/internal/evid"
	"verif/internal/l2"
)

const ruleText = "scenario i is a pure function of (seed, i): 0-5 scripted peers (per-request outcomes answer / unrelated-then-answer / chatter (irrelevant messages every 50-300 ms for 8 s, never the answer; family chatter, scenario 0 of it fixed) / " +
	"partial-progress-then-answer / silence / silence-then-late-answer / progress-then-silence / disconnect mid-job / progress-then-disconnect; " +
	"connects, idle leaves, pre-disconnected delivery, same-address reconnect at logical trigger points), 1-4 batches of 0-7 requests with " +
	"NumRetries 1-3 / default / NoRetryMax, Timeout, ProgressTimeout, Cancel closed at a trigger, Encoding; kinds mixed, stopmid (Stop with " +
	"batches in flight), reconnect, nopeer, rank (constructed strict score difference); then a probe batch on a fresh peer and Stop. " +
	"Fingerprint = (kind, #peers taken by the dispatcher, #batches, option kinds, outcome kinds actually delivered, verdict kinds); " +
	"non-trivial = at least one non-probe batch produced a verdict" + c12.L2Rule

func main() {
	if l2.IsChild() {
		// Scenario process of the L2 family: runs one scenario against the
		// complete client and exits.
		r := evid.New("C12", "exploration")
		_, f := c12.L2All(r)
		l2.RunScenarios(r, 0, c12.L2ChildTimeout, f)
		return
	}
	child := false
	for _, a := range os.Args[1:] {
		if a == "-child" || a == "--child" {
			child = true
		}
	}
	if !child {
		supervise()
		return
	}
	runChild()
}

// supervise runs the check in a child process and turns a crash of that
// process into a violation.
func supervise() {
	self, err := os.Executable()
	if err != nil {
		fmt.Fprintln(os.Stderr, "c12: cannot find own executable:", err)
		os.Exit(2)
	}
	cmd := exec.Command(self, append(append([]string{}, os.Args[1:]...), "-child")...)
	cmd.Stdout = os.Stdout
	var tail tailBuf
	cmd.Stderr = io.MultiWriter(os.Stderr, &tail)
	cmd.Env = os.Environ()
	err = cmd.Run()
	if err == nil {
		os.Exit(0)
	}
	code := 2
	if ee, ok := err.(*exec.ExitError); ok {
		code = ee.ExitCode()
	}
	out := tail.String()
	if strings.Contains(out, "\npanic: ") || strings.HasPrefix(out, "panic: ") ||
		strings.Contains(out, "fatal error: ") {
		r := evid.New("C12", "exploration")
		r.Rule(ruleText)
		first := "unknown"
		if m := regexp.MustCompile(`(?m)^(panic: .*|fatal error: .*)$`).FindString(out); m != "" {
			first = m
		}
		frame := "unknown"
		if m := regexp.MustCompile(`neutrino/query\.((?:\(\*\w+\)\.)?[\w.]+)`).FindStringSubmatch(out); m != nil {
			frame = "query." + m[1]
		}
		r.Violation(evid.Sig("process-crash", frame),
			"the process running the real dispatcher crashed: "+first,
			map[string]any{"stderr_tail": out})
		r.Finish(0)
	}
	os.Exit(code)
}

type tailBuf struct {
	mu sync.Mutex
	b  bytes.Buffer
}

func (t *tailBuf) Write(p []byte) (int, error) {
	t.mu.Lock()
	defer t.mu.Unlock()
	t.b.Write(p)
	if t.b.Len() > 1<<18 {
		// keep the head: the panic message and first stacks come first
		t.b.Truncate(1 << 18)
	}
	return len(p), nil
}
func (t *tailBuf) String() string { t.mu.Lock(); defer t.mu.Unlock(); return t.b.String() }

func runChild() {
	_ = flag.Bool("child", true, "internal: run the scenarios in this process")
	only := flag.Int("only", -1, "run only the scenario with this index")
	repeat := flag.Int("repeat", 1, "with -only/-replay: run it this many times")
	replay := flag.String("replay", "", "re-run the scenario stored in a replay file")
	conc := flag.Int("conc", 0, "scenarios in flight (default 128 quick / 192 thorough)")
	noL2 := flag.Bool("nol2", false, "debug: skip the L2 family (complete client against wire peers)")
	l2Only := flag.Bool("l2only", false, "debug: run only the L2 family")
	idleOnly := flag.Bool("idleonly", false, "debug: run only the idle-stall family (in-process)")
	quietOnly := flag.Bool("quietonly", false, "debug: run only the quiet-reconnect family (in-process)")
	chatOnly := flag.Bool("chatonly", false, "debug: run only the chatter family (in-process)")
	l2K := flag.Int("l2k", -1, "debug: run this L2 scenario in this process and print its result")
	r := evid.New("C12", "exploration")
	r.Rule(ruleText)
	if *l2K >= 0 {
		c12.L2Debug(r.Seed, *l2K)
		return
	}
	c12.L2Describe(r)
	r.Assume("harness peers honour the query.Peer contract: QueueMessageWithEncoding never blocks, messages are delivered on the subscription channel, OnDisconnect is closed once; no two peers with one address are connected at the same time (a reconnect under the same address is offered only after the old instance's OnDisconnect was closed) — except in family quietreconn, where in a fifth of the reconnects the new object is announced a moment before the old, idle one (no request outstanding) reports its disconnect")
	r.Assume("connected-peer-never-used (family quietreconn) is judged from the recorded history alone, no clock: the batch was accepted with nothing else queued or in flight (every earlier batch had ended with success), the peer answers every request, was taken from the ConnectedPeers channel before the batch was submitted and was still connected when its verdict was read, the batch had more requests than there are other addresses ever handed to the dispatcher (its workers are keyed by address; each entry, dead or alive, takes at most one request before any result or timer is looked at), and (a) after a success / retry-limit verdict: not one request was sent to the peer in the whole scenario, or (b) after a timeout verdict, which cancels requests taken but not yet sent: the peer's messages had not even been subscribed to (a worker subscribes before it takes its first job) when the verdict was read; raised only if the batch ended with an error, was served only by a peer that connected after it was accepted, or had requests re-issued after worker timeouts")
	r.Assume("timers of the Go runtime never fire early (used only to EXCLUDE a timer as the cause of a timeout verdict)")
	r.Assume("NumRetries(n) means at most max(n,1) attempts per request, as implemented and as the package's own tests expect")
	r.Assume("violations that rest on absence of progress (request-not-reissued, probe-starved) are raised only after 30 s without any event in the scenario (the longest worker timeout a scenario can legitimately reach is 8 s: at most three scripted silences, 2 s doubling) and only if the scenario's own dispatcher goroutine (pprof label) is parked at one statement in two samples 2 s apart; Stop-blocked likewise")

	r.Assume("request-not-reissued/last-attempt=chatter (family chatter) is judged from the recorded history and harness timers only: a request stayed with a peer that sent messages its handler judged neither Finished nor Progressed (each after a harness timer of 50-300 ms, never the answer) while a responsive peer was connected with nothing outstanding, and the harness timers lying completely inside that stretch add up to at least 3 worker timeouts of the attempt (2 s, doubled per earlier timeout of the request); if the harness's own timers ran more than twice late the case is inconclusive")
	r.Assume("idle-timeout-verdict-missing is raised only (a) when no peer is connected, nothing happened in the scenario for 12 s, twenty harness timers of the batch's idle duration (<= 300 ms) fired one after the other in that silence, and the scenario's dispatcher goroutine is parked at one statement in two samples 2 s apart, or (b) from the history alone: a request was handed to a peer again after at least two complete worker timeouts (>= 2 s each, >= 20 idle timeouts in total) at connected peers that never answered, with no successful query of the batch in between; the watchdog alone is inconclusive")

	n := r.Pick(300, 40000)
	nIdle := r.Pick(24, 3000)
	nQuiet := r.Pick(27, 3000)
	nChat := r.Pick(6, 120)
	if *l2Only {
		n, nIdle, nQuiet, nChat = 0, 0, 0, 0
	}
	if *idleOnly {
		n, nQuiet, nChat, *noL2 = 0, 0, 0, true
	}
	if *quietOnly {
		n, nIdle, nChat, *noL2 = 0, 0, 0, true
	}
	if *chatOnly {
		n, nIdle, nQuiet, *noL2 = 0, 0, 0, true
	}
	scs := c12.Generate(r.Seed, n)
	scs = append(scs, c12.GenerateIdleStall(r.Seed, nIdle, n)...)
	scs = append(scs, c12.GenerateQuietReconnect(r.Seed, nQuiet, n+nIdle)...)
	scs = append(scs, c12.GenerateChatter(r.Seed, nChat, n+nIdle+nQuiet)...)
	width := r.Pick(128, 192)
	if *conc > 0 {
		width = *conc
	}

	if *replay != "" {
		b, err := os.ReadFile(*replay)
		if err != nil {
			fmt.Fprintln(os.Stderr, "replay:", err)
			os.Exit(2)
		}
		// A witness of the L2 family names its scenario by number.
		var l2doc struct {
			Seed    int64 `json:"seed"`
			Witness struct {
				Scenario json.RawMessage `json:"scenario"`
				Name     string          `json:"name"`
			} `json:"witness"`
		}
		if json.Unmarshal(b, &l2doc) == nil {
			var k int
			if json.Unmarshal(l2doc.Witness.Scenario, &k) == nil {
				// The quiet-reconnect mirror names its scenario itself (its
				// position in the list depends on the tier).
				var j int
				if n, _ := fmt.Sscanf(l2doc.Witness.Name, "c12-l2q-%d", &j); n == 1 {
					k = c12.L2QuietBase + j
				}
				for i := 0; i < max(*repeat, 1); i++ {
					c12.L2Replay(r, l2doc.Seed, k)
				}
				r.Finish(1)
			}
		}
		var doc struct {
			Witness struct {
				Scenario c12.Scenario `json:"scenario"`
			} `json:"witness"`
		}
		if err := json.Unmarshal(b, &doc); err != nil {
			fmt.Fprintln(os.Stderr, "replay:", err)
			os.Exit(2)
		}
		scs = nil
		for i := 0; i < max(*repeat, 1); i++ {
			scs = append(scs, doc.Witness.Scenario)
		}
	} else if *only >= 0 {
		if *only >= len(scs) {
			fmt.Fprintln(os.Stderr, "no such scenario")
			os.Exit(2)
		}
		one := scs[*only]
		scs = nil
		for i := 0; i < max(*repeat, 1); i++ {
			scs = append(scs, one)
		}
	}

	// The L2 family runs in scenario processes of its own, next to the
	// in-process scenarios below.
	var (
		l2Done  = make(chan struct{})
		l2mu    sync.Mutex
		l2Cases int
		l2Good  int
	)
	if *replay == "" && *only < 0 && !*noL2 {
		if os.Getenv("VERIF_SCRATCH") == "" {
			d, _ := os.MkdirTemp("", "verif-c12-")
			os.Setenv("VERIF_SCRATCH", d)
			defer os.RemoveAll(d)
		}
		go func() {
			defer close(l2Done)
			nL2, fL2 := c12.L2All(r)
			l2.RunScenariosCB(r, nL2, c12.L2ChildTimeout, fL2, func(res *l2.Result) {
				l2mu.Lock()
				l2Cases++
				if res.Nontrivial {
					l2Good++
				}
				l2mu.Unlock()
				for _, why := range res.Inconclusive {
					fmt.Fprintf(os.Stderr, "C12 L2 scenario %d (%.1fs) inconclusive: %s\n", res.Scenario, res.WallS, why)
				}
			})
		}()
	} else {
		close(l2Done)
	}

	var (
		wg      sync.WaitGroup
		sem     = make(chan struct{}, width)
		mu      sync.Mutex
		kinds   = map[string]int64{}
		vkinds  = map[string]int64{}
		totals  = map[string]int64{}
		longest time.Duration
	)
	// The idle-stall family is started first (its scenarios sit at the end of
	// the list so that -only keeps its meaning); order of starting only.
	first := func(k string) bool { return k == "idlestall" || k == "quietreconn" || k == "chatter" }
	sort.SliceStable(scs, func(i, j int) bool {
		return first(scs[i].Kind) && !first(scs[j].Kind)
	})
	for _, sc := range scs {
		sc := sc
		sem <- struct{}{}
		wg.Add(1)
		go func() {
			defer wg.Done()
			defer func() { <-sem }()
			t0 := time.Now()
			res := c12.Run(sc)
			d := time.Since(t0)
			r.Case(res.Fingerprint, res.Nontrivial)
			r.Sample(res.Sample)
			for _, v := range res.Violations {
				r.Violation(v.Sig, fmt.Sprintf("scenario %d (%s): %s", sc.ID, sc.Kind, v.What), v.Witness)
			}
			for _, why := range res.Inconclusive {
				r.Inconclusive(why)
			}
			mu.Lock()
			kinds[sc.Kind]++
			for k, v := range res.VerdictKinds {
				vkinds[k] += v
			}
			for k, v := range res.Counters {
				if strings.HasPrefix(k, "chatter_longest_") {
					totals[k] = max(totals[k], v)
					continue
				}
				totals[k] += v
			}
			if d > longest {
				longest = d
			}
			mu.Unlock()
		}()
	}
	wg.Wait()
	<-l2Done
	r.Count("l2_scenarios", int64(l2Cases))
	r.Count("l2_scenarios_nontrivial", int64(l2Good))

	for k, v := range totals {
		r.Count(k, v)
	}
	r.Set("scenario_kinds", kinds)
	r.Set("verdict_kinds_observed", vkinds)
	r.Set("scenarios_in_flight", width)
	r.Set("longest_scenario_s", longest.Seconds())
	ks := make([]string, 0, len(vkinds))
	for k := range vkinds {
		ks = append(ks, fmt.Sprintf("%s=%d", k, vkinds[k]))
	}
	sort.Strings(ks)
	fmt.Printf("C12 verdict kinds: %s; batches=%d handle_resp_calls=%d reissues=%d forced_timeouts=%d probes_ok=%d\n",
		strings.Join(ks, " "), totals["batches"], totals["handle_resp_calls"], totals["reissues_observed"],
		totals["forced_timeouts_scripted_and_delivered"], totals["probe_batches_completed"])
	fmt.Printf("C12 idle-stall family: scenarios=%d idle batches=%d; idle verdict after progress-then-stall: no-peer-connected=%d peers-silent=%d; by successes before the stall: none=%d one=%d many=%d\n",
		totals["idlestall_scenarios"], totals["idlestall_batches_with_idle_timeout"],
		totals["idlestall_progress_then_stall_judged_no_peer_connected"], totals["idlestall_progress_then_stall_judged_peers_silent"],
		totals["idlestall_timeout_verdicts_after_successes_none"], totals["idlestall_timeout_verdicts_after_successes_one"],
		totals["idlestall_timeout_verdicts_after_successes_many"])
	if *replay == "" && *only < 0 && nIdle > 0 && r.Violations() == 0 &&
		(totals["idlestall_progress_then_stall_judged_no_peer_connected"] == 0 ||
			totals["idlestall_progress_then_stall_judged_peers_silent"] == 0) {
		r.Inconclusive("idle-stall family: no batch was observed getting its idle verdict after progress followed by a stall")
	}
	fmt.Printf("C12 quiet-reconnect family: scenarios=%d same-address reconnects while idle=%d (announced before the old connection was reported gone=%d); batches=%d, served by a re-connected peer=%d, of those with it as the only responsive peer connected=%d; connected idle peer unused while others served=%d\n",
		totals["quietreconn_scenarios"], totals["quietreconn_same_address_reconnects_while_idle"],
		totals["quietreconn_reannounced_before_old_connection_reported_gone"], totals["quietreconn_batches"],
		totals["quietreconn_batches_served_by_reconnected_peer"],
		totals["quietreconn_batches_served_by_reconnected_peer_as_only_responsive_peer"],
		totals["quietreconn_connected_peer_unused_while_others_served"])
	if *replay == "" && *only < 0 && nQuiet > 0 && r.Violations() == 0 &&
		totals["quietreconn_batches_served_by_reconnected_peer_as_only_responsive_peer"] == 0 {
		r.Inconclusive("quiet-reconnect family: no batch was observed being served by a peer that had re-connected under its old address as the only responsive peer")
	}
	fmt.Printf("C12 chatter family: scenarios=%d requests at a talkative peer that never answers=%d (messages handled without progress=%d); re-issued to another peer=%d, to the same peer=%d; longest stretch with a responsive peer idle (harness-timer lower bound)=%d ms\n",
		totals["chatter_scenarios"], totals["chatter_requests_at_talkative_peer"],
		totals["chatter_messages_handled_without_progress"], totals["chatter_requests_reissued_to_another_peer"],
		totals["chatter_requests_reissued_to_the_talkative_peer"],
		totals["chatter_longest_stretch_request_at_talkative_peer_while_responsive_peer_idle_ms"])
	if *replay == "" && *only < 0 && nChat > 0 && r.Violations() == 0 &&
		totals["chatter_requests_reissued_after_talk_without_progress"] == 0 {
		r.Inconclusive("chatter family: no request was observed being re-issued after a peer talked without answering")
	}
	floor := r.Pick(40, 300)
	if *replay != "" || *only >= 0 {
		floor = 1
	}
	if *l2Only {
		floor = r.Pick(4, 40)
	}
	if *idleOnly {
		floor = r.Pick(10, 100)
	}
	if *quietOnly {
		floor = r.Pick(10, 100)
	}
	if *chatOnly {
		floor = 1
	}
	fmt.Printf("C12 L2 family: scenarios=%d non-trivial=%d\n", l2Cases, l2Good)
	r.Finish(floor)
}
