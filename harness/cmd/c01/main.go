// C01: the stored block-header chain is always fully valid, whatever peers
// send. Engine L1: real blockManager + real headerfs stores, seeded hostile
// header/inv/peer-event sessions, full store read-back and reference
// validation after every handled message.
package main

import (
	"fmt"
	"os"
	"time"

	"verif/internal/evid"
	"verif/internal/l1"
	"verif/internal/l2"
)

func main() {
	r := evid.New("C01", "exploration")
	nL2 := r.Pick(10, 300)
	if l2.IsChild() {
		l2.RunScenarios(r, nL2, 300*time.Second, l2.RunReported)
	}
	r.Rule("L2 part (complete client, what it REPORTS): initial sync behind a first peer that serves, a few headers per message, a valid fork / a chain with one invalid header / the honest chain, leaving the honest chain below one of 1-3 checkpoints, then growth and reorganisations; all the time a monitor calls GetBlockHash(h) -> GetBlockHeader -> GetBlockHeight for seeded heights (anywhere, near the tip, below checkpoints) and judges a sample when the header store held the same header at h and the same tip right before and after the calls: the three lookups must describe that chain; at every quiescent point the whole chain is read back through these lookups only and validated by the reference validator incl. checkpoints, and BestBlock must lie on it")
	r.Rule("seeded L1 sessions (20-120 messages: valid/invalid-in-one-rule/partially-valid/duplicate/shuffled/fork/orphan batches, inv, peer join/leave, clock jump) over generated block trees under 3 parameter presets with 0-3 checkpoints; after EVERY handled message the whole stored chain is re-read via the public store API and validated by an independent reference validator, and by-hash/by-height/tip/locator answers are cross-checked. distinct = (message kind class, sender role, checkpoint relation, changed/unchanged/disconnected, reorg depth bucket); non-trivial = the message changed the store or got the sender disconnected")
	r.Assume("btcd CompactToBig/BigToCompact/CalcWork/HashToBig are correct (pure arithmetic); reference validator cross-checked against btcd CheckBlockHeaderContext/Sanity in harness self-test")
	r.Assume("L1 drives the real handlers synchronously through the verif-tag export; network timing is out of scope here (see C04)")
	n := r.Pick(160, 3000)
	cbs := l1.Callbacks{
		OnStep: func(s *l1.Session, st *l1.StepObs) {
			fp, nt := l1.C02Fingerprint(s, st)
			r.Case(fp, nt)
			r.Count("messages_handled", 1)
			r.Count("headers_validated", int64(len(st.Post)))
			if st.Disc {
				r.Count("sender_disconnected", 1)
			}
			if st.Panic != "" {
				r.Violation(evid.Sig("c01/panic", st.Kind)+s.SigSuffix, "handler panicked: "+st.Panic, witness(s, st))
			}
			for _, f := range l1.CheckC01(s, st) {
				r.Violation(f.Sig+s.SigSuffix, f.What, witness(s, st))
			}
			if st.Index == 3 {
				r.Sample(map[string]any{"session_seed": s.Seed, "script_head": head(s.Steps, 12)})
			}
		},
		OnStoreErr: func(s *l1.Session, st *l1.StepObs, err error) {
			kind := "?"
			if st != nil {
				kind = st.Kind
			}
			r.Violation(evid.Sig("c01/store-unreadable", classOf(kind))+s.SigSuffix,
				fmt.Sprintf("store reads fail or disagree after step (%s): %v", kind, err), witness(s, st))
		},
		OnEnd: func(s *l1.Session, err error) {
			if err != nil {
				fmt.Fprintln(os.Stderr, "session error:", err)
				r.Inconclusive("session-error")
			}
			r.Count("sessions", 1)
		},
	}
	r.Rule("family iofault (ONE transient I/O error underneath the real stores: a flat-file Write / short write / Truncate / Sync / ReadAt / Stat / Seek or a database Update / View failing once, at a chosen call position, while one headers message is handled or one filter-header round runs) in sessions with block AND filter headers synced: growth, reorganisations with the filter tip above the fork point, an off-chain peer running into a hard-coded checkpoint (rollback to the previous one); afterwards the same branch is offered again, filter-header rounds run, and the chain grows and reorganises again. A panic of the client in the step of the fault is the death of the process: stores reopened through the constructors, fresh block manager, peers reconnect; the reference restarts from what the reopened stores hold. If the client carries on, the same oracle applies to that step and to every later one. The first plans are seed-independent (truncate of either file in a reorganisation rollback / in the checkpoint rollback; a read failing right after a filter-header batch was committed; a short header write; the failed write of the first header of a new branch)")
	nIO := r.Pick(30, 500)
	ioCbs := l1.FilterCallbacks{
		OnStep:     func(fs *l1.FilterSession, st *l1.StepObs) { cbs.OnStep(fs.Session, st) },
		OnStoreErr: func(fs *l1.FilterSession, st *l1.StepObs, err error) { cbs.OnStoreErr(fs.Session, st, err) },
		OnEnd: func(fs *l1.FilterSession, err error) {
			var s *l1.Session
			if fs != nil {
				s = fs.Session
			}
			cbs.OnEnd(s, err)
			counts, marks, inc := l1.IOFaultEvidence(fs)
			for k, v := range counts {
				r.Count(k, v)
			}
			for _, m := range marks {
				r.Mark(m)
			}
			if inc != "" {
				r.Inconclusive(inc)
			}
		},
	}
	// Development aid: L1_IOFAULT_ONLY=1 runs only this family; never set by
	// registered commands.
	if os.Getenv("L1_IOFAULT_ONLY") != "" {
		l1.RunIOFaultFilter(r.Seed, nIO, ioCbs)
		r.Finish(1)
	}
	l1.RunMany(r.Seed, n, cbs)
	l1.RunIOFaultFilter(r.Seed, nIO, ioCbs)
	// Wrap sessions: 12 000+ headers (the in-memory window is 10 000), forks
	// from below the window, heavier-but-shorter branches in the thorough tier.
	l1.RunWraps(r.Seed, r.Pick(2, 8), !r.Quick(), cbs)
	l2.RunScenarios(r, nL2, 300*time.Second, l2.RunReported)
	r.Finish(25)
}

func classOf(k string) string {
	for _, p := range []string{"ext-after-bad", "ext-bad", "fork", "ext", "dup", "shuffled", "orphan", "inv", "donepeer"} {
		if len(k) >= len(p) && k[:len(p)] == p {
			return p
		}
	}
	return k
}

func head(s []string, n int) []string {
	if len(s) > n {
		return s[:n]
	}
	return s
}

func witness(s *l1.Session, st *l1.StepObs) any {
	w := map[string]any{"session_seed": s.Seed, "script": s.Steps}
	if st != nil {
		w["step"] = st.Index
		w["kind"] = st.Kind
		w["desc"] = st.Desc
		w["pre_tip"] = len(st.Pre) - 1
		w["post_tip"] = len(st.Post) - 1
		w["sender_sync"] = st.IsSync
		w["client_current"] = st.Current
	}
	cps := []int32{}
	for _, c := range s.G.P.Checkpoints {
		cps = append(cps, c.Height)
	}
	w["checkpoints"] = cps
	return w
}
