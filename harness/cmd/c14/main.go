// Command c14 is the runtime-monitoring check for property C14: "header
// import leaves the stores equal to the file, or consistent on failure".
//
// It pre-fills real headerfs block and filter header stores (one shared bbolt
// database) to chosen heights, writes import files in chainimport's file
// format for every relation of start height, length, write batch size, overlap,
// corruption and injected store write failure, runs the real
// chainimport.NewHeadersImport(...).Import twice, and compares the complete
// contents of both stores before and after each call (and after reopening)
// with what the property allows. See internal/c14.
//
//	./check C14 quick|thorough
//	.bin/c14 -tier quick -seed 1 -only 17          # one case of the list, verbose
//	.bin/c14 -spec '{"preset":0,"store_block_tip":0,"store_filter_tip":0,"file_start":1,"file_len":2,"write_batch_size":2}'
package main

import (
	"verif/internal/c14"
	"verif/internal/evid"
)

func main() {
	r := evid.New("C14", "fault_enumeration")
	c14.Run(r)
}
