package main

import (
	"fmt"
	"sync"
	"sync/atomic"
	"time"

	"verif/internal/c16"
	"verif/internal/evid"
)

func stormDesc(i int) string {
	st := c16.GenStorm(caseRng("storm", i), i)
	sp := st.Spec
	return fmt.Sprintf("storm window %d (%s: %d writers x %d ops on %d keys, capacity %d, walks %s)",
		i, sp.Name, sp.Writers, sp.OpsPerWriter, sp.KeySpace, sp.Cap, sp.WalkKinds())
}

// stormWindow runs range-storm window i (in a child process): writers and
// walkers race freely on one cache; the record is judged by Storm.Judge.
func stormWindow(i int, out sink) {
	st := c16.GenStorm(caseRng("storm", i), i)
	sp := st.Spec
	var clock atomic.Int64
	var cbMu sync.Mutex
	var cbs []c16.StormCB
	var cb func(int, *c16.Val)
	if sp.Callback {
		cb = func(k int, v *c16.Val) {
			t := clock.Add(1)
			id := -1
			if v != nil {
				id = v.ID
			}
			cbMu.Lock()
			cbs = append(cbs, c16.StormCB{K: k, V: id, Tick: t})
			cbMu.Unlock()
		}
	}
	c := c16.NewCacheWith(sp.Cap, cb)
	for _, op := range st.Prefix {
		c16.Do(c, op, nil)
	}
	rec := &c16.StormRecord{Start: clock.Add(1), Ops: make([][]c16.StormOp, sp.Writers)}
	passes := make([][]c16.StormPass, len(sp.Walkers))
	total := sp.Writers + len(sp.Walkers)
	gids := make([]atomic.Uint64, total)
	fins := make([]atomic.Bool, total)
	var writersLeft atomic.Int64
	writersLeft.Store(int64(sp.Writers))
	startCh := make(chan struct{})
	var wg sync.WaitGroup
	for g := 0; g < total; g++ {
		g := g
		wg.Add(1)
		go func() {
			defer wg.Done()
			gids[g].Store(c16.Goid())
			<-startCh
			if g < sp.Writers {
				plan := st.Plans[g]
				ops := make([]c16.StormOp, 0, len(plan))
				for _, op := range plan {
					call := clock.Add(1)
					ret := c16.Do(c, op, nil)
					ops = append(ops, c16.StormOp{Op: op, Ret: ret, Call: call, Return: clock.Add(1)})
					if ret.Panic != "" {
						break
					}
				}
				rec.Ops[g] = ops
				writersLeft.Add(-1)
			} else {
				w := g - sp.Writers
				cyc := sp.Walkers[w]
				var ps []c16.StormPass
				for j := 0; j < sp.MaxPasses && (writersLeft.Load() > 0 || j < len(cyc)); j++ {
					wo := cyc[j%len(cyc)]
					op := c16.Op{Kind: wo.Kind, Limit: wo.Limit}
					call := clock.Add(1)
					ret := c16.Do(c, op, nil)
					ps = append(ps, c16.StormPass{Walker: w, Op: op, Ret: ret, Call: call, Return: clock.Add(1)})
					if ret.Panic != "" {
						break
					}
				}
				passes[w] = ps
			}
			fins[g].Store(true)
		}()
	}
	started := time.Now()
	witness := map[string]any{"engine": "stress/storm", "window": i, "spec": sp}
	fin, _ := guardedFor(40*c16.SoftWait, func() {
		close(startCh)
		wg.Wait()
		rec.Final = c16.Observe(c)
	})
	if !fin {
		pending.Add(&c16.Pending{Engine: "stress", Started: started, Sig: evid.Sig("stress-blocked"),
			What: "range-storm window (" + sp.Name + "): some goroutines never returned from their cache call", Witness: witness,
			Unfinished: func() []uint64 {
				var ids []uint64
				for g := range gids {
					if !fins[g].Load() {
						ids = append(ids, gids[g].Load())
					}
				}
				return ids
			}})
		out.Case("storm:blocked", true)
		return
	}
	for _, ps := range passes {
		rec.Passes = append(rec.Passes, ps...)
	}
	cbMu.Lock()
	rec.CBs = cbs
	cbMu.Unlock()
	findings, stats := st.Judge(rec)
	witness["quiescent_observation"] = clipObs(rec.Final)
	witness["passes"] = len(rec.Passes)
	witness["delete_callbacks"] = len(rec.CBs)
	panicked := false
	for _, f := range findings {
		if f.Rule == "storm-panic" {
			panicked = true
		}
		out.Violation(evid.Sig("storm", f.Rule, f.Shape), "range-storm window ("+sp.Name+"): "+f.Text, witness)
	}
	if inv, txt := rec.Final.Structural(sp.Cap, st.Sizes); inv != "" && !panicked {
		out.Violation(evid.Sig("stress-invariant", inv), "range-storm window ("+sp.Name+"): quiescent invariant broken: "+txt, witness)
	}
	for k, n := range stats.Passes {
		out.Count("storm_passes_"+k, n)
	}
	out.Count("storm_passes_overlapping_a_mutation", stats.PassesOverlapping)
	out.Count("storm_visits_judged", stats.Visits)
	out.Count("storm_early_stops", stats.EarlyStops)
	out.Count("storm_entries_resident_throughout", stats.ResidentThrough)
	out.Count("storm_values_with_a_gone_bound", stats.StaleBounded)
	out.Count("storm_point_results_judged", stats.PointHits)
	out.Count("storm_puts_that_evicted", stats.Evictions)
	out.Count("storm_writer_ops", stats.WriterOps)
	out.Count("storm_delete_callbacks", int64(len(rec.CBs)))
	out.Case(fmt.Sprintf("storm:%s:w=%d:walkers=%d:walks=%s:keys=%s:evicting=%v:cb=%v", sp.Name, sp.Writers, len(sp.Walkers), sp.WalkKinds(), sp.KeyClass(), sp.Evicting(), sp.Callback),
		stats.PassesOverlapping > 0)
	if i == 0 || i == len(c16.FixedStorms) {
		out.Sample(map[string]any{"engine": "stress/storm", "spec": sp, "passes": len(rec.Passes), "passes_overlapping_a_mutation": stats.PassesOverlapping, "visits": stats.Visits})
	}
}

// clipObs bounds the size of an observation inside a witness.
func clipObs(o c16.Obs) c16.Obs {
	const n = 64
	if len(o.FILO) > n {
		o.FILO = o.FILO[:n]
	}
	if len(o.FIFO) > n {
		o.FIFO = o.FIFO[:n]
	}
	if len(o.Index) > n {
		o.Index = o.Index[:n]
	}
	return o
}
