// Command c16 is the runtime-monitoring check for property C16: the LRU cache
// (cache/lru) never exceeds its capacity and behaves as one consistent map
// after any sequence of operations and under every interleaving of concurrent
// callers; a failed operation leaves it usable.
//
// Three engines drive the REAL cache and compare with a sequential reference
// LRU (internal/c16/ref.go):
//
//	(a) sequential random histories, every return value and the complete
//	    public view (Len, Size, RangeFILO, RangeFIFO, Range) after every op;
//	(b) exhaustive interleavings of 2 and 3 operations at the yield points of
//	    cache/lru (build tag verif), checked for linearizability and quiescent
//	    invariants;
//	(c) free-running stress windows checked with porcupine.
package main

import (
	"fmt"
	"hash/fnv"
	"math/rand"
	"os"
	"runtime"
	"runtime/pprof"
	"sort"
	"strings"
	"sync"
	"sync/atomic"
	"time"

	"github.com/anishathalye/porcupine"

	"verif/internal/c16"
	"verif/internal/evid"
)

var (
	r       *evid.Run
	pending c16.PendingList
)

func caseRng(engine string, i int) *rand.Rand {
	h := fnv.New64a()
	fmt.Fprintf(h, "%d/%s/%d", r.Seed, engine, i)
	return rand.New(rand.NewSource(int64(h.Sum64())))
}

func parallel(n, workers int, fn func(i int)) {
	var next atomic.Int64
	var wg sync.WaitGroup
	for w := 0; w < workers; w++ {
		wg.Add(1)
		go func() {
			defer wg.Done()
			for {
				i := int(next.Add(1)) - 1
				if i >= n {
					return
				}
				fn(i)
			}
		}()
	}
	wg.Wait()
}

// guarded runs fn on its own goroutine and waits SoftWait for it. It returns
// false if fn has not returned by then, together with a function that tells
// whether it is still running and its goroutine id.
func guarded(fn func()) (finished bool, unfinished func() []uint64) {
	return guardedFor(c16.SoftWait, fn)
}

func guardedFor(wait time.Duration, fn func()) (finished bool, unfinished func() []uint64) {
	var fin atomic.Bool
	var gid atomic.Uint64
	done := make(chan struct{})
	go func() {
		gid.Store(c16.Goid())
		fn()
		fin.Store(true)
		close(done)
	}()
	t := time.NewTimer(wait)
	defer t.Stop()
	select {
	case <-done:
		return true, nil
	case <-t.C:
		return false, func() []uint64 {
			if fin.Load() {
				return nil
			}
			return []uint64{gid.Load()}
		}
	}
}

func main() {
	r = evid.New("C16", "exploration")
	if fam := os.Getenv("C16_CHILD"); fam != "" {
		childMain(fam) // a child process of the free-running engines; never returns
	}
	r.Rule("Three engines on the real cache/lru.Cache[int,*Val] vs an independent sequential reference LRU. " +
		"(a) random sequential histories (put with sizes 0..capacity+3 incl. replacement with a different size, values whose Size() always errors, " +
		"values whose Size() errors once resident, get, LoadAndDelete, Delete, Range/RangeFILO/RangeFIFO with and without early stop, Len, Size); " +
		"after EVERY operation the return value and the full public view (Len, Size, RangeFILO, RangeFIFO, Range) are compared with the reference; " +
		"a history is one case, fingerprint = capacity class + set of (operation kind, situation) pairs it exercised, non-trivial if it evicted, replaced or failed at least once. " +
		"(b) for each (random sequential prefix, tuple of 2 or 3 operations relative to a hot key) EVERY interleaving of the operations' atomic segments " +
		"(delimited by the verif yield points of lru.go, all outside the mutex, and by visitor callbacks of walks) is enumerated depth-first by re-execution; " +
		"each schedule is checked for linearizability of the return values plus final quiescent observation against the reference (own search over <=6 serial orders, cross-checked with porcupine) " +
		"and for the quiescent invariants; one (prefix,tuple) is one case, fingerprint = tuple shape + hot-key position + prefix length, non-trivial if it had more than one schedule. " +
		"exhaustive=true refers ONLY to engine (b): per (prefix,tuple) the schedule space at yield-point granularity was enumerated completely; prefixes, tuples, engines (a) and (c) are samples. " +
		"(c) free-running windows of 3-8 goroutines x 2-4 operations on 2-3 hot keys (random Gosched at the yield points), history checked with porcupine (timeout => inconclusive), " +
		"quiescent invariants after each window, weak rule for overlapping walks; one window is one case, fingerprint = goroutine count + kinds present, non-trivial if two operations of different goroutines overlapped. " +
		"Engine (c) also has walk-hammer windows (RangeFIFO/RangeFILO/Range in a loop against writers relinking hot entries) and RANGE STORMS: windows in which walker goroutines call Range, RangeFIFO and RangeFILO (with and without early stop) over and over " +
		"while 1-4 writers run thousands of Put/Get/LoadAndDelete on a key space of 2..3000 keys (evicting or not); every call carries two ticks of a shared logical clock, every value is stored by exactly one Put, the delete callback stamps evictions; " +
		"oracle per pass: every visited pair was stored under that key by a successful Put called before the pass returned and was not provably gone (deleted, replaced, evicted by a call that had returned) before the pass was called; no key twice; early stop honoured; " +
		"entries resident during the whole window visited by every un-stopped pass; the same pair rules for Get/LoadAndDelete results; quiescent invariants at the end. " +
		"The first len(FixedStorms) storm windows are fixed scenarios independent of the seed; fingerprint = scenario + writers + walk shapes + key-space class + evicting + callback, non-trivial if a pass overlapped a call that changed the cache. " +
		"ALL of engine (c) runs in child processes of this binary: a child killed by a Go runtime fatal error or an unrecovered panic of the cache is a process-crash violation (stderr = witness), a child killed by the watchdog is inconclusive. " +
		"Engine (b) additionally runs, for every tuple containing the unordered Range, a few RANDOM schedules in which the Range can be paused inside its visitor (not enumerable: the iteration order is not reproducible).")
	r.Assume("The reference LRU (internal/c16/ref.go) and porcupine v1.3.0 are correct; the two linearizability checkers are cross-checked on every schedule of engine (b).")
	r.Assume("Yield points sit outside c.mtx, so a parked goroutine never holds the cache mutex; sync.Map operations are atomic segments of their own.")
	r.Assume("Nominal size of a value = the size it reported when inserted; values never change size, they can only start failing.")
	r.Assume("Where an operation needs the size of a resident value that can no longer be computed, the statement only requires the cache to stay usable: " +
		"the oracle accepts success, or failure with the state unchanged except for the replaced entry and/or an LRU suffix being gone.")
	r.Assume("A walk (Range*) overlapping writers is not required to be an atomic snapshot; only: no fabricated pair, and every entry resident and untouched throughout is visited exactly once and in order.")

	if pf := os.Getenv("C16_CPUPROFILE"); pf != "" {
		f, err := os.Create(pf)
		if err == nil {
			_ = pprof.StartCPUProfile(f)
			defer pprof.StopCPUProfile()
		}
	}
	// Development switches (not used by ./check): C16_ONLY=seq|sched|stress
	// runs one engine, C16_CPUPROFILE=<file> writes a CPU profile.
	if only := os.Getenv("C16_ONLY"); only != "" {
		r.Set("dev_only_engine", only)
	}
	r.Count("porcupine_unknown", 0)
	start := time.Now()
	if os.Getenv("C16_ONLY") == "" || os.Getenv("C16_ONLY") == "seq" {
		engineSeq()
	}
	tSeq := time.Since(start)
	if os.Getenv("C16_ONLY") == "" || os.Getenv("C16_ONLY") == "sched" {
		engineSched()
	}
	tSched := time.Since(start) - tSeq
	if os.Getenv("C16_ONLY") == "" || os.Getenv("C16_ONLY") == "stress" {
		engineStress()
	}
	tStress := time.Since(start) - tSeq - tSched
	r.Set("wall_seconds_by_engine", map[string]float64{"sequential": tSeq.Seconds(), "schedules": tSched.Seconds(), "stress": tStress.Seconds()})

	// Deferred watchdog verdicts (of engines (a) and (b); the children judge their own).
	judgePending(r)

	yp := map[string]int64{}
	c16.YieldCalls.Range(func(k, v any) bool { yp[k.(string)] = v.(*atomic.Int64).Load(); return true })
	for k, v := range childYield.m {
		yp[k] += v
	}
	r.Set("yield_point_hits", yp)
	r.Count("delete_callback_calls", c16.CallbackCalls.Load())
	pprof.StopCPUProfile()
	r.Finish(r.Pick(150, 400))
}

// judgePending classifies the executions that did not return within the soft
// wait of this process and reports them to out.
func judgePending(out sink) {
	out.Count("executions_that_did_not_return_within_soft_wait", int64(pending.Len()))
	for _, j := range pending.Judge(func(f string, a ...any) { fmt.Printf(f+"\n", a...) }) {
		switch j.Verdict {
		case "blocked":
			w := j.P.Witness
			w["goroutine_evidence"] = strings.Split(j.Evidence, "\n")
			w["argument"] = fmt.Sprintf("the cache is private to this execution; %.0fs after its start every goroutine of the execution still inside a cache call is parked acquiring the cache mutex, identically in two dumps %.0fs apart; all its other goroutines have returned or are parked at yield points outside the mutex, so nothing can ever release it",
				c16.WatchdogAfter.Seconds(), c16.DumpGap.Seconds())
			out.Count("blocked_forever_confirmed_by_goroutine_dumps", 1)
			out.Violation(j.P.Sig, j.P.What+" — blocked forever (mutex leaked)", w)
		case "completed-late":
			out.Inconclusive("execution-slower-than-soft-wait")
			if j.P.Engine == "sched" {
				// The schedules extending the abandoned one were not run.
				r.Exhaustive(false)
			}
		default:
			if j.P.Engine == "sched" {
				r.Exhaustive(false)
			}
			fmt.Fprintf(os.Stderr, "C16: watchdog fired but not provably blocked: %s\n%s\n", j.P.What, j.Evidence)
			out.Inconclusive("watchdog-fired-not-provably-blocked")
		}
	}
}

// ---------------------------------------------------------------------------
// engine (a)
// ---------------------------------------------------------------------------

type seqProgress struct {
	opIdx    atomic.Int64 // index of the op being executed
	phase    atomic.Int64 // 0 calling the op, 1 observing after it
	lastFail atomic.Value // string: "<kind>:<situation>" of the last op that returned an error
	cur      atomic.Value // string: "<kind>:<situation>" of the op being executed / observed after
}

func engineSeq() {
	n := r.Pick(2000, 50000)
	var opsBy sync.Map
	cnt := func(name string, d int64) {
		v, _ := opsBy.LoadOrStore(name, new(atomic.Int64))
		v.(*atomic.Int64).Add(d)
	}
	parallel(n, runtime.NumCPU(), func(i int) {
		cs := c16.GenSeq(caseRng("seq", i))
		var prog seqProgress
		prog.lastFail.Store("none")
		prog.cur.Store("none")
		feats := map[string]bool{}
		nontrivial := false
		var vio func()
		local := map[string]int64{}
		body := func() {
			c := c16.NewCache(cs.Cap, cs.Callback)
			st := c16.Ref{Cap: cs.Cap}
			sizes := c16.Sizes(nil, cs.Ops)
			for k, op := range cs.Ops {
				prog.opIdx.Store(int64(k))
				prog.phase.Store(0)
				sit := st.Situation(op)
				outs := st.Outcomes(op)
				prog.cur.Store(op.Kind + ":" + sit)
				got := c16.Do(c, op, nil)
				if got.Err || ((op.Kind == c16.KLad || op.Kind == c16.KDel) && sit == "poisoned" && !got.Found) {
					prog.lastFail.Store(op.Kind + ":" + sit)
				}
				prog.phase.Store(1)
				obs := c16.Observe(c)
				local["seq_ops_"+op.Kind]++
				feats[op.Kind+":"+sit] = true
				if op.Kind == c16.KPut && sit != "insert" || op.Kind == c16.KLad && sit == "poisoned" {
					nontrivial = true
				}
				if op.Kind == c16.KPut && got.Err {
					local["error_path_put_"+sit]++
				}
				if (op.Kind == c16.KLad || op.Kind == c16.KDel) && sit == "poisoned" {
					local["error_path_"+op.Kind+"_poisoned"]++
				}
				// Match against the acceptable outcomes.
				retOK, matched := false, -1
				for oi, o := range outs {
					ok := c16.EqualRet(op.Kind, o.Ret, got)
					if op.Kind == c16.KRange {
						ok = got.Panic == "" && st.MatchRange(op, got)
					}
					if ok {
						retOK = true
						if obs.Matches(o.Next) {
							matched = oi
							break
						}
					}
				}
				if matched >= 0 {
					st = outs[matched].Next
					continue
				}
				// Violation: build witness.
				acc := []map[string]any{}
				for _, o := range outs {
					acc = append(acc, map[string]any{"return": o.Ret.String(), "state_after": o.Next.String(), "note": o.Note})
				}
				w := map[string]any{
					"engine": "sequential", "capacity": cs.Cap, "delete_callback": cs.Callback,
					"ops_so_far": c16.OpsStrings(cs.Ops[:k+1]), "failing_op_index": k, "failing_op": op.String(),
					"situation": sit, "reference_state_before": st.String(), "observed_return": got.String(),
					"acceptable_outcomes": acc, "observed_after": obs,
				}
				var sig, what string
				switch {
				case got.Panic != "" || obs.Panic != "":
					sig = evid.Sig("seq-panic", op.Kind+":"+sit)
					what = fmt.Sprintf("sequential history: %s (%s) panicked: %s%s", op, sit, got.Panic, obs.Panic)
				case !retOK:
					sig = evid.Sig("seq-return", op.Kind+":"+sit)
					what = fmt.Sprintf("sequential history: %s on %s returned %s; reference: %s", op, st, got, acc[0]["return"])
				default:
					inv, txt := obs.Structural(cs.Cap, sizes)
					if inv == "" {
						inv, txt = "differs-from-reference", fmt.Sprintf("resident entries (most recent first) %v, Len=%d Size=%d; reference %s", obs.FILO, obs.Len, obs.Size, outs[0].Next)
					}
					sig = evid.Sig("seq-state", op.Kind+":"+sit, inv)
					what = fmt.Sprintf("sequential history: after %s (%s, returned %s) the cache is wrong: %s", op, sit, got, txt)
				}
				vio = func() { r.Violation(sig, what, w) }
				return
			}
		}
		started := time.Now()
		fin, unfinished := guarded(body)
		if !fin {
			k := int(prog.opIdx.Load())
			lf := prog.lastFail.Load().(string)
			blockedIn := cs.Ops[k].String()
			sigShape := "call-after=" + lf
			if prog.phase.Load() == 1 {
				blockedIn = "the observation (Len/Size/Range*) directly after " + blockedIn + " (" + prog.cur.Load().(string) + ")"
				sigShape = "observation-after=" + prog.cur.Load().(string)
			}
			pending.Add(&c16.Pending{
				Engine: "sequential", Started: started, Unfinished: unfinished,
				Sig:  evid.Sig("seq-blocked", sigShape),
				What: fmt.Sprintf("sequential history (single goroutine): %s does not return; last failed operation: %s", blockedIn, lf),
				Witness: map[string]any{"engine": "sequential", "capacity": cs.Cap, "delete_callback": cs.Callback,
					"ops_so_far": c16.OpsStrings(cs.Ops[:k+1]), "blocked_in": blockedIn, "last_failed_op": lf},
			})
			r.Case("seq:blocked:"+sigShape, true)
			return
		}
		if vio != nil {
			vio()
		}
		fl := make([]string, 0, len(feats))
		for f := range feats {
			fl = append(fl, f)
		}
		sort.Strings(fl)
		capClass := "cap<=3"
		if cs.Cap > 3 {
			capClass = "cap>3"
		}
		r.Case("seq:"+capClass+":"+strings.Join(fl, ","), nontrivial)
		if i < 2 {
			r.Sample(map[string]any{"engine": "sequential", "capacity": cs.Cap, "ops": c16.OpsStrings(cs.Ops)})
		}
		for k, v := range local {
			cnt(k, v)
		}
	})
	r.Count("seq_histories", int64(n))
	opsBy.Range(func(k, v any) bool { r.Count(k.(string), v.(*atomic.Int64).Load()); return true })
}

// ---------------------------------------------------------------------------
// engine (b)
// ---------------------------------------------------------------------------

func engineSched() {
	c16.InstallHook(false)
	defer c16.RemoveHook()

	type job struct {
		prefixIdx int
		kinds     []string
	}
	pairs := c16.Multisets(c16.PairKinds, 2)
	triples := c16.Multisets(c16.TripleKinds, 3)
	nPrefPairs := r.Pick(5, 50)
	nPrefTriples := r.Pick(2, 50)
	var jobs []job
	for p := 0; p < nPrefPairs; p++ {
		for _, k := range pairs {
			jobs = append(jobs, job{p, k})
		}
	}
	for p := 0; p < nPrefTriples; p++ {
		for _, k := range triples {
			jobs = append(jobs, job{p, k})
		}
	}
	const limit = 20000
	nRangeSamples := r.Pick(60, 120)
	var schedules, truncated, hungN, porcN, disagree, rangeSampled, rangePauses atomic.Int64
	var distinct sync.Map
	var distinctN atomic.Int64
	var opsBy [8]atomic.Int64
	kindIdx := map[string]int{c16.KPut: 0, c16.KGet: 1, c16.KLad: 2, c16.KLen: 3, c16.KSize: 4, c16.KFILO: 5, c16.KFIFO: 6, c16.KRange: 7}
	var errOps atomic.Int64

	// One scheduler, one OS-level processor: every step is a goroutine
	// hand-off, and cross-thread wake-ups would dominate the run time.
	defer runtime.GOMAXPROCS(runtime.GOMAXPROCS(1))
	parallel(len(jobs), 1, func(ji int) {
		j := jobs[ji]
		pre := c16.GenPrefix(caseRng("prefix", j.prefixIdx), j.prefixIdx)
		ops := pre.Instantiate(caseRng("tuple", ji), j.kinds)
		shape := c16.Shape(j.kinds)
		t := c16.Tuple{Cap: pre.Cap, Callback: pre.Callback, Prefix: pre.Ops, Ops: ops}
		sizes := c16.Sizes(nil, pre.Ops, ops)
		var nonWalk []int
		for i, o := range ops {
			if !o.IsWalk() {
				nonWalk = append(nonWalk, i)
			}
		}
		reported := map[string]bool{} // one report per signature per case
		jobStart := time.Now()
		defer func() {
			if d := time.Since(jobStart); d > 2*time.Second && os.Getenv("C16_DEBUG") != "" {
				fmt.Fprintf(os.Stderr, "C16: slow tuple %s prefix %d: %.1fs\n", shape, j.prefixIdx, d.Seconds())
			}
		}()
		judge := func(ex *c16.Exec) {
			schedules.Add(1)
			h := fnv.New64a()
			h.Write([]byte(shape + "#" + ex.TraceKey()))
			if _, dup := distinct.LoadOrStore(h.Sum64(), struct{}{}); !dup {
				distinctN.Add(1)
			}
			witness := func() map[string]any {
				return map[string]any{
					"engine": "schedules", "capacity": t.Cap, "delete_callback": t.Callback,
					"prefix": c16.OpsStrings(t.Prefix), "reference_state_after_prefix": pre.State.String(),
					"hot_key": pre.H, "tuple_shape": shape, "concurrent_ops": c16.OpsStrings(ops),
					"schedule": ex.Trace, "returns": retStrings(ops, ex.Rets), "quiescent_observation": ex.Obs,
				}
			}
			if ex.Hung != nil {
				hungN.Add(1)
				if !reported["hung"] { // keep one pending execution per case
					reported["hung"] = true
					ex.Hung.Sig = evid.Sig("sched-blocked", shape)
					ex.Hung.What = "schedule " + ex.TraceKey() + "of [" + strings.Join(c16.OpsStrings(ops), " || ") + "]: " + ex.Hung.What
					ex.Hung.Witness = witness()
					pending.Add(ex.Hung)
				}
				return
			}
			for i, o := range ops {
				opsBy[kindIdx[o.Kind]].Add(1)
				if o.Kind == c16.KPut && ex.Rets[i].Err {
					errOps.Add(1)
				}
			}
			report := func(sig, what string, extra map[string]any) {
				if reported[sig] {
					return
				}
				reported[sig] = true
				w := witness()
				for k, v := range extra {
					w[k] = v
				}
				r.Violation(sig, what, w)
			}
			for i := range ops {
				if ex.Rets[i].Panic != "" {
					report(evid.Sig("sched-panic", shape), fmt.Sprintf("%s panicked under schedule %s: %s", ops[i], ex.TraceKey(), ex.Rets[i].Panic), nil)
					return
				}
			}
			before := func(a, b int) bool { return ex.Last[a] < ex.First[b] }
			sr := c16.CheckSerial(pre.State, ops, ex.Rets, nonWalk, before, ex.Obs, false)
			inv, invTxt := ex.Obs.Structural(t.Cap, sizes)
			if inv != "" || !sr.RetOK || !sr.StateOK {
				sr = c16.CheckSerial(pre.State, ops, ex.Rets, nonWalk, before, ex.Obs, true)
			}
			desc := func() string {
				return fmt.Sprintf("after prefix (%s), [%s] under schedule %s", pre.State, strings.Join(c16.OpsStrings(ops), " || "), ex.TraceKey())
			}
			switch {
			case inv != "":
				report(evid.Sig("sched-invariant", inv, shape), desc()+": quiescent invariant broken: "+invTxt, map[string]any{"serial_orders": sr.Explanation})
			case !sr.RetOK:
				report(evid.Sig("sched-linearizability", shape), desc()+": the return values "+strings.Join(retStrings(ops, ex.Rets), "; ")+" match no serial order", map[string]any{"serial_orders": sr.Explanation})
			case !sr.StateOK:
				report(evid.Sig("sched-final-state", shape), desc()+fmt.Sprintf(": resident entries (most recent first) %v are not the final state of any serial order that explains the return values", ex.Obs.FILO), map[string]any{"serial_orders": sr.Explanation})
			}
			// Cross-check with porcupine.
			hist := make([]c16.TimedOp, 0, len(ops))
			for i, o := range ops {
				hist = append(hist, c16.TimedOp{Client: i, Op: o, Ret: ex.Rets[i], Call: int64(2 * ex.First[i]), Return: int64(2*ex.Last[i] + 1)})
			}
			pr := c16.Porcupine(pre.State, hist, &ex.Obs, 20*time.Second)
			porcN.Add(1)
			mine := sr.RetOK && sr.StateOK
			if pr == porcupine.Unknown {
				r.Count("porcupine_unknown", 1)
				r.Inconclusive("porcupine-timeout")
			} else if (pr == porcupine.Ok) != mine {
				disagree.Add(1)
				fmt.Fprintf(os.Stderr, "C16: CHECKER DISAGREEMENT porcupine=%s own=%v on %s\n", pr, mine, desc())
				r.Inconclusive("linearizability-checkers-disagree")
			}
			// Walks.
			for i, o := range ops {
				if !o.IsWalk() {
					continue
				}
				var others []c16.Op
				for k, x := range ops {
					if k != i {
						others = append(others, x)
					}
				}
				if rule, txt := c16.CheckWalkWeak(pre.State, others, ex.Obs, o, ex.Rets[i]); rule != "" {
					report(evid.Sig("sched-walk", rule, shape), desc()+": "+txt, nil)
				}
			}
		}
		count, complete := c16.Explore(t, limit, judge)
		// Tuples with the unordered Range: sampled schedules in which the Range
		// is paused inside its visitor too (see Tuple.PauseRange).
		hasRange := false
		for _, o := range ops {
			hasRange = hasRange || o.Kind == c16.KRange
		}
		if hasRange {
			srng := caseRng("range-pauses", ji)
			tr := t
			tr.PauseRange = true
			tr.Choose = func(_ int, en []int) int { return en[srng.Intn(len(en))] }
			for k := 0; k < nRangeSamples; k++ {
				ex := c16.RunSchedule(tr, nil)
				judge(ex)
				rangeSampled.Add(1)
				for _, st := range ex.Trace {
					if st.At == "walk.visit" && ops[st.Op].Kind == c16.KRange {
						rangePauses.Add(1)
					}
				}
			}
		}
		if !complete {
			truncated.Add(1)
			fmt.Fprintf(os.Stderr, "C16: tuple %s (prefix %d) not fully enumerated after %d schedules\n", shape, j.prefixIdx, count)
		}
		fp := fmt.Sprintf("sched:%s:h=%s:len=%d", shape, pre.HPos, len(pre.State.L))
		r.Case(fp, count > 1)
		if ji%97 == 0 {
			r.Sample(map[string]any{"engine": "schedules", "prefix": c16.OpsStrings(pre.Ops), "concurrent_ops": c16.OpsStrings(ops), "tuple_shape": shape, "schedules_enumerated": count})
		}
	})
	r.Count("tuples", int64(len(jobs)))
	r.Count("tuples_of_2", int64(nPrefPairs*len(pairs)))
	r.Count("tuples_of_3", int64(nPrefTriples*len(triples)))
	r.Count("tuple_shapes", int64(len(pairs)+len(triples)))
	r.Count("schedules_enumerated", schedules.Load()-rangeSampled.Load())
	r.Count("sched_sampled_schedules_pausing_inside_Range", rangeSampled.Load())
	r.Count("sched_pauses_inside_Range", rangePauses.Load())
	r.Count("distinct_interleavings", distinctN.Load())
	r.Count("tuples_not_fully_enumerated", truncated.Load())
	r.Count("schedules_that_did_not_return", hungN.Load())
	r.Count("porcupine_histories", porcN.Load())
	r.Count("checker_disagreements", disagree.Load())
	r.Count("sched_error_path_puts", errOps.Load())
	for k, i := range kindIdx {
		r.Count("sched_ops_"+k, opsBy[i].Load())
	}
	r.Exhaustive(truncated.Load() == 0)
}

func retStrings(ops []c16.Op, rets []c16.Ret) []string {
	s := make([]string, len(ops))
	for i := range ops {
		s[i] = fmt.Sprintf("%s -> %s", ops[i], rets[i])
	}
	return s
}

// ---------------------------------------------------------------------------
// engine (c)
// ---------------------------------------------------------------------------

// engineStress runs the three families of free-running windows, each in child
// processes of this binary (child.go).
func engineStress() {
	timeout := time.Duration(r.Pick(5, 25)) * time.Minute // watchdog of one child; a quick child needs seconds
	only := os.Getenv("C16_FAMILY")                       // development switch
	for _, f := range []struct {
		name string
		n    int
	}{{"stress", r.Pick(50, 2000)}, {"hammer", r.Pick(20, 300)}, {"storm", r.Pick(24, 400)}} {
		if only != "" && only != f.name {
			continue
		}
		runFamily(f.name, f.n, timeout)
		r.Count(f.name+"_windows", int64(f.n))
	}
	r.Count("storm_windows_fixed", int64(len(c16.FixedStorms)))
}

// stressWindow runs stress window i (in a child process).
func stressWindow(i int, out sink) {
	cnt := out.Count
	{
		w := c16.GenWindow(caseRng("stress", i))
		c := c16.NewCache(w.Cap, w.Callback)
		for _, op := range w.Prefix {
			c16.Do(c, op, nil)
		}
		var clock atomic.Int64
		groups := append([][]c16.Op{}, w.Clients...)
		if len(w.Walker) > 0 {
			groups = append(groups, w.Walker)
		}
		hist := make([][]c16.TimedOp, len(groups))
		gids := make([]atomic.Uint64, len(groups))
		fins := make([]atomic.Bool, len(groups))
		startCh := make(chan struct{})
		var wg sync.WaitGroup
		for g := range groups {
			g := g
			wg.Add(1)
			go func() {
				defer wg.Done()
				gids[g].Store(c16.Goid())
				<-startCh
				for _, op := range groups[g] {
					call := clock.Add(1)
					ret := c16.Do(c, op, runtime.Gosched)
					rt := clock.Add(1)
					hist[g] = append(hist[g], c16.TimedOp{Client: g, Op: op, Ret: ret, Call: call, Return: rt})
				}
				fins[g].Store(true)
			}()
		}
		started := time.Now()
		var obs c16.Obs
		fin, unf := guarded(func() {
			close(startCh)
			wg.Wait()
		})
		witness := func() map[string]any {
			hs := map[string]any{}
			for g := range groups {
				if fins[g].Load() {
					hs[fmt.Sprintf("goroutine_%d", g)] = timedStrings(hist[g])
				} else {
					hs[fmt.Sprintf("goroutine_%d", g)] = append([]string{"(did not finish) planned:"}, c16.OpsStrings(groups[g])...)
				}
			}
			return map[string]any{"engine": "stress", "capacity": w.Cap, "delete_callback": w.Callback,
				"prefix": c16.OpsStrings(w.Prefix), "reference_state_after_prefix": w.State.String(),
				"history_logical_call_return_times": hs, "quiescent_observation": obs}
		}
		addPending := func(what string, unfinished func() []uint64) {
			pending.Add(&c16.Pending{Engine: "stress", Started: started, Sig: evid.Sig("stress-blocked"),
				What: "stress window: " + what, Witness: witness(), Unfinished: unfinished})
			out.Case("stress:blocked", true)
		}
		if !fin {
			_ = unf
			addPending("some goroutines never returned from their cache call", func() []uint64 {
				var ids []uint64
				for g := range groups {
					if !fins[g].Load() {
						ids = append(ids, gids[g].Load())
					}
				}
				return ids
			})
			return
		}
		fin, unf = guarded(func() { obs = c16.Observe(c) })
		if !fin {
			addPending("all operations returned but the quiescent observation (Len/Size/Range*) does not return", unf)
			return
		}
		var all []c16.TimedOp
		kinds := map[string]bool{}
		for g := range groups {
			all = append(all, hist[g]...)
			for _, h := range hist[g] {
				kinds[h.Op.Kind] = true
				cnt("stress_ops_"+h.Op.Kind, 1)
				if h.Op.Kind == c16.KPut && h.Ret.Err {
					cnt("stress_error_path_puts", 1)
				}
			}
		}
		overlaps := 0
		for a := range all {
			for b := a + 1; b < len(all); b++ {
				if all[a].Client != all[b].Client && all[a].Call < all[b].Return && all[b].Call < all[a].Return {
					overlaps++
				}
			}
		}
		cnt("stress_overlapping_op_pairs", int64(overlaps))
		sizes := c16.Sizes(nil, w.Prefix)
		for _, g := range groups {
			sizes = c16.Sizes(sizes, g)
		}
		panicked := false
		for _, h := range all {
			if h.Ret.Panic != "" {
				panicked = true
				out.Violation(evid.Sig("stress-panic", h.Op.Kind), fmt.Sprintf("stress window: %s panicked: %s", h.Op, h.Ret.Panic), witness())
				break
			}
		}
		if inv, txt := obs.Structural(w.Cap, sizes); inv != "" && !panicked {
			out.Violation(evid.Sig("stress-invariant", inv), "stress window: quiescent invariant broken: "+txt, witness())
		} else if !panicked {
			res := c16.Porcupine(w.State, all, &obs, 10*time.Second)
			cnt("porcupine_histories", 1)
			switch res {
			case porcupine.Unknown:
				cnt("porcupine_unknown", 1)
				out.Inconclusive("porcupine-timeout")
			case porcupine.Illegal:
				res2 := c16.Porcupine(w.State, all, nil, 10*time.Second)
				cnt("porcupine_histories", 1)
				if res2 == porcupine.Illegal {
					out.Violation(evid.Sig("stress-linearizability"), "stress window: the recorded return values are not linearizable w.r.t. the reference LRU", witness())
				} else if res2 == porcupine.Ok {
					out.Violation(evid.Sig("stress-final-state"), fmt.Sprintf("stress window: return values are linearizable but no linearization ends in the observed resident entries %v", obs.FILO), witness())
				} else {
					cnt("porcupine_unknown", 1)
					out.Inconclusive("porcupine-timeout")
				}
			}
		}
		if !panicked {
			var others []c16.Op
			for _, cl := range w.Clients {
				others = append(others, cl...)
			}
			for _, h := range all {
				if !h.Op.IsWalk() {
					continue
				}
				if rule, txt := c16.CheckWalkWeak(w.State, others, obs, h.Op, h.Ret); rule != "" {
					out.Violation(evid.Sig("stress-walk", rule), "stress window: "+txt, witness())
					break
				}
			}
		}
		ks := make([]string, 0, len(kinds))
		for k := range kinds {
			ks = append(ks, k)
		}
		sort.Strings(ks)
		out.Case(fmt.Sprintf("stress:g=%d:walker=%v:kinds=%s", len(w.Clients), len(w.Walker) > 0, strings.Join(ks, ",")), overlaps > 0)
		if i == 0 {
			out.Sample(witness())
		}
	}
}

// hammer is the second half of engine (c): long windows in which writers
// relink the hot entries as fast as they can (replace, get, delete; never
// enough bytes to evict) while walkers iterate continuously. Two bystander
// entries are never touched, so EVERY walk must visit each of them exactly once
// and in their fixed order (the weak walk rule); the quiescent invariants are
// checked at the end. Histories are too long for a linearizability check.
func hammerWindow(i int, out sink) {
	cnt := out.Count
	{
		rng := caseRng("hammer", i)
		nWriters, nWalkers, perWriter := 2+rng.Intn(4), 1+rng.Intn(2), 200+rng.Intn(400)
		const capacity = 64
		withCb := rng.Intn(2) == 0
		c := c16.NewCache(capacity, withCb)
		id := 0
		sizes := map[int]uint64{}
		mk := func(sz uint64) *c16.Val { id++; sizes[id] = sz; return &c16.Val{ID: id, Sz: sz} }
		byFirst := rng.Intn(2) == 0
		stable := []c16.KV{}
		putBy := func() {
			for _, k := range []int{100, 101} {
				v := mk(1)
				c16.Do(c, c16.Op{Kind: c16.KPut, Key: k, Val: v}, nil)
				stable = append([]c16.KV{{K: k, V: v.ID}}, stable...) // most recent first
			}
		}
		if byFirst {
			putBy()
		}
		nhot := 2 + rng.Intn(3)
		for k := 0; k < nhot; k++ {
			c16.Do(c, c16.Op{Kind: c16.KPut, Key: k, Val: mk(uint64(1 + rng.Intn(4)))}, nil)
		}
		if !byFirst {
			putBy()
		}
		plans := make([][]c16.Op, nWriters)
		for w := range plans {
			for j := 0; j < perWriter; j++ {
				k := rng.Intn(nhot)
				switch x := rng.Intn(10); {
				case x < 4:
					plans[w] = append(plans[w], c16.Op{Kind: c16.KPut, Key: k, Val: mk(uint64(1 + rng.Intn(4)))})
				case x < 7:
					plans[w] = append(plans[w], c16.Op{Kind: c16.KGet, Key: k})
				default:
					plans[w] = append(plans[w], c16.Op{Kind: c16.KLad, Key: k})
				}
			}
		}
		walkKinds := []string{c16.KFIFO, c16.KFILO, c16.KRange}
		var writersLeft atomic.Int64
		writersLeft.Store(int64(nWriters))
		total := nWriters + nWalkers
		gids := make([]atomic.Uint64, total)
		fins := make([]atomic.Bool, total)
		var walks, panics atomic.Int64
		var badMu sync.Mutex
		var bad []string // first few weak-rule breaks: "rule\x00text"
		startCh := make(chan struct{})
		var wg sync.WaitGroup
		for g := 0; g < total; g++ {
			g := g
			wg.Add(1)
			go func() {
				defer wg.Done()
				gids[g].Store(c16.Goid())
				<-startCh
				if g < nWriters {
					for _, op := range plans[g] {
						if ret := c16.Do(c, op, nil); ret.Panic != "" {
							panics.Add(1)
							badMu.Lock()
							bad = append(bad, "panic\x00"+op.String()+" panicked: "+ret.Panic)
							badMu.Unlock()
							break
						}
					}
					writersLeft.Add(-1)
				} else {
					for j := 0; writersLeft.Load() > 0 || j < 2; j++ {
						op := c16.Op{Kind: walkKinds[(g+j)%len(walkKinds)]}
						ret := c16.Do(c, op, nil)
						walks.Add(1)
						rule, txt := "", ""
						if ret.Panic != "" {
							rule, txt = "panic", op.String()+" panicked: "+ret.Panic
						} else {
							rule, txt = checkStable(op, ret.Seq, stable)
						}
						if rule != "" {
							badMu.Lock()
							if len(bad) < 3 {
								bad = append(bad, rule+"\x00"+txt)
							}
							badMu.Unlock()
							if rule == "panic" {
								break
							}
						}
					}
				}
				fins[g].Store(true)
			}()
		}
		started := time.Now()
		spec := map[string]any{"engine": "stress/hammer", "capacity": capacity, "delete_callback": withCb, "writers": nWriters, "walkers": nWalkers,
			"ops_per_writer": perWriter, "hot_keys": nhot, "bystanders_most_recent_first": stable, "bystanders_inserted_first": byFirst}
		var obs c16.Obs
		fin, _ := guardedFor(20*c16.SoftWait, func() {
			close(startCh)
			wg.Wait()
			obs = c16.Observe(c)
		})
		if !fin {
			pending.Add(&c16.Pending{Engine: "stress", Started: started, Sig: evid.Sig("stress-blocked"),
				What: "walk-hammer window: some goroutines never returned from their cache call", Witness: spec,
				Unfinished: func() []uint64 {
					var ids []uint64
					for g := range gids {
						if !fins[g].Load() {
							ids = append(ids, gids[g].Load())
						}
					}
					return ids
				}})
			out.Case("hammer:blocked", true)
			return
		}
		cnt("hammer_walks_checked", walks.Load())
		cnt("hammer_writer_ops", int64(nWriters*perWriter))
		spec["quiescent_observation"] = obs
		for _, b := range bad {
			parts := strings.SplitN(b, "\x00", 2)
			out.Violation(evid.Sig("stress-walk", parts[0]), "walk-hammer window: "+parts[1], spec)
			break
		}
		if inv, txt := obs.Structural(capacity, sizes); inv != "" && panics.Load() == 0 {
			out.Violation(evid.Sig("stress-invariant", inv), "walk-hammer window: quiescent invariant broken: "+txt, spec)
		}
		out.Case(fmt.Sprintf("hammer:writers=%d:walkers=%d:hot=%d:byFirst=%v", nWriters, nWalkers, nhot, byFirst), walks.Load() > int64(2*nWalkers))
	}
}

// checkStable applies the weak walk rule to entries nobody ever touches.
func checkStable(op c16.Op, seq []c16.KV, stable []c16.KV) (string, string) {
	pos := map[c16.KV]int{}
	for i, s := range stable {
		pos[s] = i
	}
	seen := make([]int, len(stable))
	var order []int
	for _, kv := range seq {
		if p, ok := pos[kv]; ok {
			seen[p]++
			order = append(order, p)
		} else if kv.K >= 100 {
			return "walk-fabricated-pair", fmt.Sprintf("%s visited (k%d,v%d), which was never stored", op, kv.K, kv.V)
		}
	}
	for p, n := range seen {
		if n == 0 {
			return "walk-missed-stable-entry", fmt.Sprintf("%s visited %v and never visited (k%d,v%d), which is resident and untouched for the whole window", op, seq, stable[p].K, stable[p].V)
		}
		if n > 1 {
			return "walk-stable-entry-twice", fmt.Sprintf("%s visited (k%d,v%d) %d times although nothing ever touches it: %v", op, stable[p].K, stable[p].V, n, seq)
		}
	}
	for i := 1; i < len(order); i++ {
		if (op.Kind == c16.KFILO && order[i] < order[i-1]) || (op.Kind == c16.KFIFO && order[i] > order[i-1]) {
			return "walk-stable-order", fmt.Sprintf("%s visited untouched entries out of recency order: %v", op, seq)
		}
	}
	return "", ""
}

func timedStrings(h []c16.TimedOp) []string {
	s := make([]string, len(h))
	for i, t := range h {
		s[i] = fmt.Sprintf("[%d,%d] %s -> %s", t.Call, t.Return, t.Op, t.Ret)
	}
	return s
}
