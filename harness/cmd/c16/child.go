package main

// Process isolation of the free-running engines.
//
// The free-running windows (stress, hammer, storm) let goroutines race inside
// the cache for real. A defect there can end in a Go runtime `fatal error`
// (e.g. an unsynchronised map access), which cannot be recovered and kills the
// process. So those windows run in CHILD processes of this binary: the parent
// hands a child a family and a list of window numbers, the child streams one
// line per finished window (its cases, counters, violations, ...) and the
// parent folds them into the run. A child that dies with a crash report is a
// `process-crash/...` VIOLATION with its stderr as the witness; the windows
// that had not started are handed to a fresh child.

import (
	"bufio"
	"bytes"
	"encoding/json"
	"fmt"
	"os"
	"os/exec"
	"regexp"
	"sort"
	"strconv"
	"strings"
	"sync"
	"sync/atomic"
	"syscall"
	"time"

	"verif/internal/c16"
	"verif/internal/evid"
)

// sink is where an engine reports; *evid.Run in the parent, a recorder in a
// child.
type sink interface {
	Case(fingerprint string, nontrivial bool)
	Mark(fingerprint string)
	Count(name string, n int64)
	Violation(sig, what string, witness any)
	Inconclusive(why string)
	Sample(v any)
}

type event struct {
	T    string `json:"t"` // case | mark | violation | inconclusive | sample
	S    string `json:"s,omitempty"`
	B    bool   `json:"b,omitempty"`
	What string `json:"what,omitempty"`
	W    any    `json:"w,omitempty"`
}

// recSink records what one window reported.
type recSink struct {
	mu     sync.Mutex
	events []event
	counts map[string]int64
}

func (s *recSink) add(e event) { s.mu.Lock(); s.events = append(s.events, e); s.mu.Unlock() }

func (s *recSink) Case(fp string, nt bool) { s.add(event{T: "case", S: fp, B: nt}) }
func (s *recSink) Mark(fp string)          { s.add(event{T: "mark", S: fp}) }
func (s *recSink) Inconclusive(why string) { s.add(event{T: "inconclusive", S: why}) }
func (s *recSink) Sample(v any)            { s.add(event{T: "sample", W: v}) }
func (s *recSink) Violation(sig, what string, w any) {
	s.add(event{T: "violation", S: sig, What: what, W: w})
}
func (s *recSink) Count(name string, n int64) {
	s.mu.Lock()
	if s.counts == nil {
		s.counts = map[string]int64{}
	}
	s.counts[name] += n
	s.mu.Unlock()
}

// line is one line of the child's stdout after linePrefix.
type line struct {
	Kind   string           `json:"kind"` // start | result | done
	Idx    int              `json:"idx"`
	Desc   string           `json:"desc,omitempty"`
	Events []event          `json:"events,omitempty"`
	Counts map[string]int64 `json:"counts,omitempty"`
	Yield  map[string]int64 `json:"yield,omitempty"`
}

const linePrefix = "C16CHILD "

// family describes one kind of free-running window.
type family struct {
	name  string
	width int                   // windows of this family running at once inside a child
	run   func(i int, out sink) // runs window i
	desc  func(i int) string    // short description for crash witnesses
}

var families = map[string]*family{}

func init() {
	for _, f := range []*family{
		{name: "stress", width: 4, run: stressWindow, desc: func(i int) string { return fmt.Sprintf("stress window %d", i) }},
		{name: "hammer", width: 2, run: hammerWindow, desc: func(i int) string { return fmt.Sprintf("walk-hammer window %d", i) }},
		{name: "storm", width: 1, run: stormWindow, desc: stormDesc},
	} {
		families[f.name] = f
	}
}

// ---- child side -------------------------------------------------------------

var childOut struct {
	mu sync.Mutex
	w  *bufio.Writer
}

func emit(l line) {
	b, err := json.Marshal(l)
	if err != nil {
		b, _ = json.Marshal(line{Kind: l.Kind, Idx: l.Idx, Events: []event{{T: "inconclusive", S: "child: result not serialisable"}}})
	}
	childOut.mu.Lock()
	childOut.w.WriteString(linePrefix)
	childOut.w.Write(b)
	childOut.w.WriteByte('\n')
	childOut.w.Flush()
	childOut.mu.Unlock()
}

// childMain runs the windows named by C16_CHILD_CASES of family fam and exits.
func childMain(fam string) {
	f := families[fam]
	if f == nil {
		fmt.Fprintf(os.Stderr, "C16 child: unknown family %q\n", fam)
		os.Exit(2)
	}
	childOut.w = bufio.NewWriterSize(os.Stdout, 1<<16)
	var idxs []int
	for _, s := range strings.Split(os.Getenv("C16_CHILD_CASES"), ",") {
		if i, err := strconv.Atoi(s); err == nil {
			idxs = append(idxs, i)
		}
	}
	c16.InstallHook(true)
	parallel(len(idxs), f.width, func(j int) {
		i := idxs[j]
		emit(line{Kind: "start", Idx: i, Desc: f.desc(i)})
		s := &recSink{}
		f.run(i, s)
		emit(line{Kind: "result", Idx: i, Events: s.events, Counts: s.counts})
	})
	c16.RemoveHook()
	// Executions that did not return: judged here, where their goroutines live.
	tail := &recSink{}
	judgePending(tail)
	tail.Count("delete_callback_calls", c16.CallbackCalls.Load())
	yp := map[string]int64{}
	c16.YieldCalls.Range(func(k, v any) bool { yp[k.(string)] = v.(*atomic.Int64).Load(); return true })
	emit(line{Kind: "done", Idx: -1, Events: tail.events, Counts: tail.counts, Yield: yp})
	os.Exit(0)
}

// ---- parent side ------------------------------------------------------------

// childYield accumulates the yield-point hits of the children.
var childYield = struct {
	mu sync.Mutex
	m  map[string]int64
}{m: map[string]int64{}}

func fold(l line) {
	for _, e := range l.Events {
		switch e.T {
		case "case":
			r.Case(e.S, e.B)
		case "mark":
			r.Mark(e.S)
		case "inconclusive":
			r.Inconclusive(e.S)
		case "sample":
			r.Sample(e.W)
		case "violation":
			r.Violation(e.S, e.What, e.W)
		}
	}
	for k, v := range l.Counts {
		r.Count(k, v)
	}
	if len(l.Yield) > 0 {
		childYield.mu.Lock()
		for k, v := range l.Yield {
			childYield.m[k] += v
		}
		childYield.mu.Unlock()
	}
}

type childEnd struct {
	done     bool
	timedOut bool
	err      error
	stderr   string
	started  map[int]string // idx -> description
	finished map[int]bool
}

func spawnChild(fam string, idxs []int, timeout time.Duration) childEnd {
	end := childEnd{started: map[int]string{}, finished: map[int]bool{}}
	exe, err := os.Executable()
	if err != nil {
		end.err = err
		return end
	}
	strs := make([]string, len(idxs))
	for i, x := range idxs {
		strs[i] = strconv.Itoa(x)
	}
	cmd := exec.Command(exe, "-tier", r.Tier, "-seed", strconv.FormatInt(r.Seed, 10))
	cmd.Env = append(os.Environ(), "C16_CHILD="+fam, "C16_CHILD_CASES="+strings.Join(strs, ","))
	var errb bytes.Buffer
	cmd.Stderr = &errb
	stdout, err := cmd.StdoutPipe()
	if err != nil {
		end.err = err
		return end
	}
	if err := cmd.Start(); err != nil {
		end.err = err
		return end
	}
	readDone := make(chan struct{})
	go func() {
		defer close(readDone)
		rd := bufio.NewReaderSize(stdout, 1<<20)
		for {
			b, err := rd.ReadBytes('\n')
			if bytes.HasPrefix(b, []byte(linePrefix)) {
				var l line
				if json.Unmarshal(bytes.TrimSpace(b[len(linePrefix):]), &l) == nil {
					switch l.Kind {
					case "start":
						end.started[l.Idx] = l.Desc
					case "result":
						end.finished[l.Idx] = true
						fold(l)
					case "done":
						end.done = true
						fold(l)
					}
				}
			} else if len(bytes.TrimSpace(b)) > 0 {
				os.Stdout.Write(b) // progress lines of the child (watchdog notices)
			}
			if err != nil {
				return
			}
		}
	}()
	waitDone := make(chan error, 1)
	go func() { <-readDone; waitDone <- cmd.Wait() }()
	select {
	case end.err = <-waitDone:
	case <-time.After(timeout):
		end.timedOut = true
		_ = cmd.Process.Signal(syscall.SIGQUIT) // goroutine dump on stderr
		select {
		case end.err = <-waitDone:
		case <-time.After(15 * time.Second):
			_ = cmd.Process.Kill()
			end.err = <-waitDone
		}
	}
	end.stderr = errb.String()
	return end
}

var (
	crashLineRe = regexp.MustCompile(`(?m)^(fatal error|panic): (.*)$`)
	numRe       = regexp.MustCompile(`0x[0-9a-f]+|\d+`)
	typeArgRe   = regexp.MustCompile(`\[[^\]]*\]`)
)

// crashClass normalises a Go crash report into (message, first frame of the
// cache): no addresses, numbers or type arguments.
func crashClass(stderr string) (msg, frame string, ok bool) {
	m := crashLineRe.FindStringSubmatchIndex(stderr)
	if m == nil {
		return "", "", false
	}
	msg = stderr[m[2]:m[3]] + ": " + stderr[m[4]:m[5]]
	if i := strings.Index(msg, " [recovered]"); i > 0 {
		msg = msg[:i]
	}
	msg = numRe.ReplaceAllString(msg, "N")
	msg = strings.Join(strings.Fields(strings.Map(func(c rune) rune {
		switch {
		case c >= 'a' && c <= 'z', c >= 'A' && c <= 'Z', c >= '0' && c <= '9':
			return c
		}
		return ' '
	}, msg)), "-")
	if len(msg) > 80 {
		msg = msg[:80]
	}
	frame = "no-cache-frame"
	for _, ln := range strings.Split(stderr[m[0]:], "\n") {
		ln = strings.TrimSpace(ln)
		const pfx = "github.com/lightninglabs/neutrino/cache/"
		if strings.HasPrefix(ln, pfx) {
			ln = typeArgRe.ReplaceAllString(ln[len(pfx):], "")
			if j := strings.LastIndex(ln, "("); j > 0 && !strings.HasSuffix(ln[:j], ".") {
				ln = ln[:j]
			}
			frame = ln
			break
		}
	}
	return msg, frame, true
}

func clip(s string, n int) string {
	if len(s) > n {
		return s[:n/2] + "\n...\n" + s[len(s)-n/2:]
	}
	return s
}

// runFamily runs windows 0..n-1 of a family in child processes.
func runFamily(fam string, n int, timeout time.Duration) {
	remaining := make([]int, n)
	for i := range remaining {
		remaining[i] = i
	}
	const maxAbnormal = 3
	finishedTotal := 0
	for abnormal := 0; len(remaining) > 0; {
		end := spawnChild(fam, remaining, timeout)
		finishedTotal += len(end.finished)
		if end.done {
			remaining = nil
			break
		}
		abnormal++
		var inprog []string
		for i, d := range end.started {
			if !end.finished[i] {
				inprog = append(inprog, d)
			}
		}
		sort.Strings(inprog)
		msg, frame, crashed := crashClass(end.stderr)
		switch {
		case end.timedOut:
			r.Case(fam+":child-watchdog", false)
			r.Inconclusive("child-process-watchdog-fired")
			fmt.Fprintf(os.Stderr, "C16: %s child: watchdog (%v); in progress: %v; stderr tail:\n%s\n", fam, timeout, inprog, clip(end.stderr, 3000))
		case crashed:
			r.Case(fam+":process-crash:"+msg, true)
			r.Count("child_process_crashes", 1)
			r.Violation(evid.Sig("process-crash", msg, frame),
				fmt.Sprintf("the process running the %s windows died (%v): %s in %s; in progress: %s", fam, end.err, msg, frame, strings.Join(inprog, "; ")),
				map[string]any{"engine": fam, "windows_in_progress": inprog, "exit": fmt.Sprint(end.err), "stderr": clip(end.stderr, 12000)})
		default:
			r.Case(fam+":child-no-result", false)
			r.Inconclusive("child-process-ended-without-result")
			fmt.Fprintf(os.Stderr, "C16: %s child ended without result (%v); stderr tail:\n%s\n", fam, end.err, clip(end.stderr, 3000))
		}
		// Hand the windows that had not started to a fresh child.
		var rest []int
		for _, i := range remaining {
			if _, st := end.started[i]; !st {
				rest = append(rest, i)
			}
		}
		remaining = rest
		if abnormal >= maxAbnormal {
			break
		}
	}
	r.Count(fam+"_windows_not_run_after_child_failures", int64(len(remaining)))
	if finishedTotal == 0 && r.Violations() == 0 {
		r.Broken("no window of the " + fam + " family produced a result")
	}
}
