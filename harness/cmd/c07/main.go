// Command c07 is the runtime monitor for property C07: the block-header and
// filter-header stores of neutrino/headerfs behave like a plain append /
// rollback list, survive reopening, and a failed append leaves them unchanged.
//
// It drives both REAL stores (sharing one bbolt database, as neutrino opens
// them) with seeded histories and compares every read method against a plain
// slice model after every operation; a second part replays histories and
// injects every single file / database write fault position of every append
// and rollback.
package main

import (
	"flag"
	"fmt"
	"os"
	"path/filepath"
	"runtime"
	"runtime/debug"
	"runtime/pprof"
	"sync"
	"time"

	"verif/internal/c07"
	"verif/internal/evid"
)

type job struct {
	fault bool
	idx   int
}

func main() {
	onlyPlain := flag.Int("only-plain", -1, "run only plain history <index> (reproduction)")
	onlyFault := flag.Int("only-fault", -1, "run only fault history <index> (reproduction)")
	workers := flag.Int("workers", 0, "worker count (default: number of CPUs, max 16)")
	r := evid.New("C07", "fault_enumeration")

	// The live heap is tiny and 16 workers allocate per lookup: with the
	// default pacer the collector would run (and stop the world) thousands of
	// times per second. Collect by heap limit instead.
	if pf := os.Getenv("C07_PROF"); pf != "" {
		f, _ := os.Create(pf)
		pprof.StartCPUProfile(f)
		go func() { time.Sleep(40 * time.Second); pprof.StopCPUProfile(); f.Close() }()
	}
	debug.SetGCPercent(-1)
	debug.SetMemoryLimit(2 << 30)

	r.Rule("Part 1 (plain): seeded histories of 30-300 store calls over the real block-header and filter-header " +
		"stores sharing one bbolt DB: block/filter batch appends (size 0..500 by class small/medium/large), filter " +
		"single rollbacks, block rollbacks of 1..tip headers (RollbackBlockHeaders and RollbackLastBlock, bulk and " +
		"block-manager-interleaved style, incl. exactly to genesis), rollbacks past genesis, re-adding different or the " +
		"very same headers at rolled-back heights, reopen points; after EVERY call every read method of both stores is " +
		"compared with a plain slice model (complete read surface while hashes-ever+tip <= 1500, at every reopen, every " +
		"16th step and at the end; otherwise tip window + touched + sampled). Part 2 (fault): further histories are first " +
		"run cleanly to learn the File/DB call counts of every operation and then replayed with every single transient " +
		"fault position (4 write-fault kinds, seek, stat, truncate, sync on either flat file; 2 DB-commit fault kinds) " +
		"of every append and rollback tried before the operation's real execution; one evaluation = one plain history or " +
		"one fault attempt. Fingerprint: plain = class x length bucket x reopen bucket x flags(to-genesis, readd-same, " +
		"past-genesis); per step = op kind x size class x tip class x filter/block tip relation x previous op class; " +
		"fault attempt = op kind x size class x fault kind@target#index x file-descriptor state x tip class. " +
		"Non-trivial: a plain history with a non-empty append and a rollback; a fault attempt whose fault fired.")
	r.Assume("Caller contract the real callers obey (blockmanager.go, chainimport): block batches carry consecutive " +
		"heights tip+1..; filter headers are written only for heights already in the block store, the last element " +
		"carries the block hash (block-manager style) or all do (importer style); on a rollback the filter store is " +
		"rolled back first (newTip = PrevBlock of the block at the filter tip) and the block store afterwards, so the " +
		"filter tip never exceeds the block tip; FetchHeaderAncestors is asked with n <= height(stop).")
	r.Assume("One single transient fault per call (the k-th Write/Seek/Stat/Truncate/Sync of a flat file or the k-th " +
		"walletdb Update fails once). Faults inside the recovery path of an already failing append (double faults) are " +
		"not enumerated: no implementation can restore the file when the restoring truncate itself fails.")
	r.Assume("bbolt rolls an Update back completely when its closure returns an error; the harness File wrapper is a " +
		"transparent pass-through to the *os.File the store opened when no fault is armed; 'not found' = the read " +
		"returns any error. After a failed ROLLBACK the statement promises nothing: the state is only classified " +
		"(coverage), then the harness rewrites the flat files to their pre-call content.")

	nPlain := r.Pick(300, 5000)
	nFault := r.Pick(40, 600)

	scratch := os.Getenv("VERIF_SCRATCH")
	if scratch == "" {
		d, err := os.MkdirTemp("", "verif-c07-")
		if err != nil {
			fmt.Fprintln(os.Stderr, "scratch:", err)
			os.Exit(2)
		}
		scratch = d
	}
	root := filepath.Join(scratch, "c07")
	defer os.RemoveAll(root)
	env, err := c07.NewEnv(root)
	if err != nil {
		fmt.Fprintln(os.Stderr, "C07: cannot create template stores:", err)
		os.RemoveAll(root)
		os.Exit(2)
	}

	var jobs []job
	switch {
	case *onlyPlain >= 0:
		jobs = []job{{false, *onlyPlain}}
	case *onlyFault >= 0:
		jobs = []job{{true, *onlyFault % 1_000_000}}
	default:
		// Fault histories first: they are the long ones.
		for i := 0; i < nFault; i++ {
			jobs = append(jobs, job{true, i})
		}
		for i := 0; i < nPlain; i++ {
			jobs = append(jobs, job{false, i})
		}
	}

	nw := *workers
	if nw <= 0 {
		nw = min(runtime.NumCPU(), 16)
	}
	sink := c07.Sink{
		Violation: func(v c07.Violation) {
			r.Violation(evid.Sig(v.Rule, v.Shape), v.Rule+": "+v.What, v.Witness)
		},
		Inconclusive: r.Inconclusive,
		Case:         r.Case,
		Mark:         r.Mark,
	}
	ch := make(chan job)
	timing := os.Getenv("C07_TIMING") != "" // development aid: per-history wall time on stderr
	var wg sync.WaitGroup
	var mu sync.Mutex
	total := c07.Stats{}
	for w := 0; w < nw; w++ {
		wg.Add(1)
		go func(w int) {
			defer wg.Done()
			run := &c07.Runner{
				Env: env, Dir: filepath.Join(root, fmt.Sprintf("w%02d", w)),
				Stats: c07.Stats{}, Sink: sink, FullLimit: 1500,
			}
			for j := range ch {
				t0 := time.Now()
				if j.fault {
					runFault(r, run, env, j.idx)
				} else {
					runPlain(r, run, env, j.idx)
				}
				if timing {
					fmt.Fprintf(os.Stderr, "timing w%02d fault=%v idx=%d %.2fs\n", w, j.fault, j.idx, time.Since(t0).Seconds())
				}
			}
			mu.Lock()
			for k, v := range run.Stats {
				total[k] += v
			}
			mu.Unlock()
		}(w)
	}
	for _, j := range jobs {
		ch <- j
	}
	close(ch)
	wg.Wait()

	for k, v := range total {
		r.Count(k, v)
	}
	r.Set("plain_histories", nPlain)
	r.Set("fault_histories", nFault)
	os.RemoveAll(root)
	if *onlyPlain >= 0 || *onlyFault >= 0 {
		r.Finish(1)
	}
	// Floors: about half of what a quick / thorough run measures.
	r.Finish(r.Pick(400, 1200))
}

func lenBucket(n int) string {
	switch {
	case n < 100:
		return "30-99"
	case n < 200:
		return "100-199"
	}
	return "200+"
}

func describe(h *c07.History) (fp string, nontrivial bool, summary map[string]any) {
	kinds := map[string]int{}
	flags := map[string]bool{}
	nonEmptyAppend, rollback, maxBatch := false, false, 0
	for i := range h.Ops {
		op := &h.Ops[i]
		kinds[op.Kind]++
		if n := len(op.Blocks) + len(op.Filters); n > 0 {
			nonEmptyAppend = true
			maxBatch = max(maxBatch, n)
		}
		switch op.Kind {
		case c07.OpBR, c07.OpBRL, c07.OpFR:
			rollback = true
		case c07.OpBRX, c07.OpFRX:
			flags["past-genesis"] = true
		}
		if op.Note == "readd-same" {
			flags["readd-same"] = true
		}
		if len(op.Note) >= 10 && op.Note[:10] == "to-genesis" {
			flags["to-genesis"] = true
		}
	}
	ro := "ro0"
	switch n := kinds[c07.OpRO]; {
	case n >= 4:
		ro = "ro4+"
	case n >= 1:
		ro = "ro1-3"
	}
	fp = fmt.Sprintf("plain|%s|len=%s|%s|genesis=%v|readd=%v|past=%v", h.Class, lenBucket(len(h.Ops)), ro,
		flags["to-genesis"], flags["readd-same"], flags["past-genesis"])
	summary = map[string]any{
		"history_index": h.Index, "class": h.Class, "ops": len(h.Ops), "op_kinds": kinds,
		"max_batch": maxBatch, "to_genesis": flags["to-genesis"], "readd_same": flags["readd-same"],
	}
	var first []string
	for i := 0; i < len(h.Ops) && i < 25; i++ {
		op := &h.Ops[i]
		first = append(first, fmt.Sprintf("%s(%d)", op.Kind, len(op.Blocks)+len(op.Filters)+int(int32(op.N))))
	}
	summary["first_ops"] = first
	return fp, nonEmptyAppend && rollback, summary
}

func runPlain(r *evid.Run, run *c07.Runner, env *c07.Env, idx int) {
	h := c07.Generate(r.Seed, idx, env, false)
	fp, nontrivial, summary := describe(h)
	ok := run.RunPlain(h, nil)
	r.Case(fp, nontrivial)
	run.Stats.Add("plain_histories_completed", b2i(ok))
	if idx < 3 {
		summary["part"] = "plain"
		summary["completed_without_violation"] = ok
		r.Sample(summary)
	}
}

func runFault(r *evid.Run, run *c07.Runner, env *c07.Env, idx int) {
	// Fault histories live in their own index space and stay in the
	// small/medium batch classes: every attempt is followed by a complete
	// read comparison.
	h := c07.Generate(r.Seed, 1_000_000+idx, env, true)
	_, _, summary := describe(h)
	prof := &c07.Profile{}
	fp, nontrivial, _ := describe(h)
	okProfile := run.RunPlain(h, prof)
	r.Case(fp, nontrivial) // the profiling run is a complete plain history of its own
	if !okProfile {
		run.Stats.Add("fault_histories_profile_run_failed", 1)
		return
	}
	run.Stats.Add("fault_histories_profiled", 1)
	before := run.Stats["fault_attempts"]
	ok := run.RunFaults(h, prof)
	run.Stats.Add("fault_histories_completed", b2i(ok))
	if idx < 2 {
		summary["part"] = "fault"
		summary["fault_attempts"] = run.Stats["fault_attempts"] - before
		summary["completed_without_violation"] = ok
		r.Sample(summary)
	}
}

func b2i(b bool) int64 {
	if b {
		return 1
	}
	return 0
}
