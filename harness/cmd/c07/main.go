// Command c07 is the runtime monitor for property C07: the block-header and
// filter-header stores of neutrino/headerfs behave like a plain append /
// rollback list, survive reopening, and a failed append leaves them unchanged.
//
// It drives both REAL stores (sharing one bbolt database, as neutrino opens
// them) with seeded histories and compares every read method against a plain
// slice model after every operation; a second part replays histories and
// injects every single file / database write fault position of every append
// and rollback.
//
// Workers are child processes of this same binary (one history at a time
// each): btcd's wire (de)serialiser borrows scratch buffers from one
// process-wide channel and the stores deserialise a header on every read, so
// goroutine workers in one process spend most of their time contending on it.
// A child that dies (a panic of the code under test outside the guarded calls)
// costs one inconclusive history, not the run.
package main

import (
	"bufio"
	"encoding/json"
	"flag"
	"fmt"
	"io"
	"os"
	"os/exec"
	"path/filepath"
	"runtime"
	"strconv"
	"strings"
	"sync"
	"time"

	"verif/internal/c07"
	"verif/internal/evid"
)

type job struct {
	Fault bool
	Idx   int
	Torn  bool
	Conc  bool
	Two   bool
}

func (j job) String() string {
	if j.Two {
		return "W " + strconv.Itoa(j.Idx)
	}
	if j.Conc {
		return "C " + strconv.Itoa(j.Idx)
	}
	if j.Torn {
		return "T " + strconv.Itoa(j.Idx)
	}
	if j.Fault {
		return "F " + strconv.Itoa(j.Idx)
	}
	return "P " + strconv.Itoa(j.Idx)
}

type caseRec struct {
	FP         string `json:"fp"`
	Nontrivial bool   `json:"nt"`
}

// jobResult is what a child reports for one history (one JSON line).
type jobResult struct {
	Cases        []caseRec        `json:"cases"`
	Marks        map[string]int   `json:"marks"`
	Violations   []c07.Violation  `json:"violations"`
	Inconclusive []string         `json:"inconclusive"`
	Samples      []map[string]any `json:"samples"`
	Stats        map[string]int64 `json:"stats"`
	Seconds      float64          `json:"seconds"`
}

func main() {
	onlyPlain := flag.Int("only-plain", -1, "run only plain history <index> (reproduction)")
	onlyFault := flag.Int("only-fault", -1, "run only fault history <index> (reproduction)")
	onlyTorn := flag.Int("only-torn", -1, "run only torn (double-fault) history <index> (reproduction)")
	onlyConc := flag.Int("only-conc", -1, "run only concurrent-reader history <index> (reproduction)")
	onlyTwo := flag.Int("only-two", -1, "run only two-writers history <index> (reproduction)")
	workers := flag.Int("workers", 0, "worker processes (default: number of CPUs, max 16)")
	child := flag.String("child", "", "internal: run as worker with this working directory")
	template := flag.String("template", "", "internal: template directory for -child")
	r := evid.New("C07", "fault_enumeration")
	if *child != "" {
		childMain(r.Seed, *template, *child)
		return
	}

	r.Rule("Part 1 (plain): seeded histories of 30-300 store calls over the real block-header and filter-header " +
		"stores sharing one bbolt DB: block/filter batch appends (size 0..500 by class small/medium/large), filter " +
		"single rollbacks, block rollbacks of 1..tip headers (RollbackBlockHeaders and RollbackLastBlock, bulk and " +
		"block-manager-interleaved style, incl. exactly to genesis), rollbacks past genesis, re-adding different or the " +
		"very same headers at rolled-back heights, reopen points; after EVERY call every read method of both stores is " +
		"compared with a plain slice model (complete read surface while hashes-ever+tip <= 1500, at every reopen, every " +
		"16th step and at the end; otherwise tip window + touched + sampled). Part 2 (fault): further histories are first " +
		"run cleanly to learn the File/DB call counts of every operation and then replayed with every single transient " +
		"fault position (4 write-fault kinds, seek, stat, truncate, sync on either flat file; 2 DB-commit fault kinds) " +
		"of every append and rollback tried before the operation's real execution; one evaluation = one plain history or " +
		"one fault attempt. Fingerprint: plain = class x length bucket x reopen bucket x flags(to-genesis, readd-same, " +
		"past-genesis); per step = op kind x size class x tip class x filter/block tip relation x previous op class; " +
		"fault attempt = op kind x size class x fault kind@target#index x file-descriptor state x tip class. " +
		"Non-trivial: a plain history with a non-empty append and a rollback; a fault attempt whose fault fired.")
	r.Rule("Part 3 (torn / double fault): histories (4 fixed, seed-independent: block and filter store x {a fraction of one " +
		"record, whole records and a fraction}; the rest seeded: an ordinary prefix of 0-20 calls, then 1-3 episodes) in " +
		"which one append of batch size 1..60 on either store runs under a fault SEQUENCE inside the one call: its " +
		"flat-file write lets through only 1..rec-1 bytes / k whole records and a fraction / k whole records (or the " +
		"write succeeds and the index update fails), AND the clean-up truncate of the same call fails as well (once, " +
		"or every truncate of the call). The call must report failure. Nothing can remove the left-over bytes before " +
		"the next reopen, so until then the store is judged on everything that was acknowledged (tips, every height up " +
		"to the tips, every hash ever written, ancestors, locators equal the list from before the call); reads beyond " +
		"the tip of that store are left unjudged until the reopen only when at least one whole left-over record is in " +
		"the file. The stores are then closed and reopened: from there on the COMPLETE comparison with the list from " +
		"before the failed call applies again, after the reopen itself and after every one of the following calls " +
		"(retry of the same batch or a new batch on the same store, the other store, rollbacks first, rollback and " +
		"re-add, more reopens, further episodes), at the end and after a final reopen. One evaluation per double-fault " +
		"append (op x batch class x left-over class x fraction class x file-descriptor state x tip class x tip relation " +
		"x previous op) and per history; non-trivial when both faults fired and the call reported failure.")
	r.Rule("Part 4 (concurrent readers): histories (2 fixed: rounds of 'roll back 6, append 6 others, append filter " +
		"headers' on a chain of 40; batches and bulk rollbacks of 2100-2600 headers; the rest seeded, <= 60 writes, no " +
		"reopen) are applied by ONE writer goroutine while 3 reader goroutines keep calling every read method of both " +
		"stores (tips, by height, by hash, height-from-hash, both locators, ancestor ranges of both stores) on heights " +
		"and hashes around the moving tip, on rolled-back hashes and on hashes never written. Every call and return is " +
		"stamped from one atomic counter at the client boundary; porcupine (CheckOperationsVerbose, 60 s, timeout = " +
		"inconclusive) decides whether the recorded history is linearizable w.r.t. the plain list: model state = number " +
		"of writes applied, a read is legal in a state iff its answer is the list's answer in that state. One evaluation " +
		"per history (class x writes bucket x overlapping-reads bucket); non-trivial when at least one read overlapped a " +
		"write in time. On 'illegal' the reads whose answer no list state between their call and return gives are " +
		"written out as the witness.")
	r.Rule("Part 5 (two writers): histories (1 fixed, seed-independent, on one P: every hold shape once; the rest seeded, " +
		"GOMAXPROCS 1 / process default / 4 by index, no collection while an episode runs when on one P) made of ordinary " +
		"sequential calls (judged as in part 1) and 2-4 EPISODES in which the two stores of the one data directory are " +
		"written from two goroutines, each the only writer of its store: (hold) the first operation of one store - an " +
		"append of 1, 2, a few or up to 30 headers, or a rollback - is held inside one flat-file call (Seek/Write of an " +
		"append, ReadAt/Stat/Truncate of a rollback; before the call reaches the file or after it returned) while the OTHER " +
		"store completes 1-8 whole operations (appends of other byte lengths, rollbacks), each followed by reads of that " +
		"store; in 2 of 5 a reader of the held store is started meanwhile; then the held call is released and its " +
		"store carries on; (storm) both goroutines run 3-16 operations freely from a common start. Throughout an episode " +
		"the filter store stays at or below a floor height and the block store never rolls back below it (caller contract " +
		"kept under every interleaving). Oracle: the two stores are independent lists - every read made inside a " +
		"goroutine equals that store's own list at that point (tip, touched heights and beyond-tip BY CONTENT, touched " +
		"hashes), the reader overlapping the held write gets, per read, the list before or after that write (never " +
		"before again after after), and with both goroutines finished the COMPLETE comparison of part 1 runs (every " +
		"height by content, every hash ever written, ancestors, locators, tips), again at the end and after the final " +
		"reopen. One evaluation per episode (held op kind @ hold point x kinds passing x batch classes x passing count x " +
		"reader x GOMAXPROCS; storms: kinds x length x overlap bucket) and per history; an episode is non-trivial when " +
		"the other store completed its operations while the held call had not returned (storm: when stamped operation " +
		"intervals of the two stores intersect).")
	r.Assume("Caller contract the real callers obey (blockmanager.go, chainimport): block batches carry consecutive " +
		"heights tip+1..; filter headers are written only for heights already in the block store, the last element " +
		"carries the block hash (block-manager style) or all do (importer style); on a rollback the filter store is " +
		"rolled back first (newTip = PrevBlock of the block at the filter tip) and the block store afterwards, so the " +
		"filter tip never exceeds the block tip; FetchHeaderAncestors is asked with n <= height(stop).")
	r.Assume("Part 2: one single transient fault per call (the k-th Write/Seek/Stat/Truncate/Sync of a flat file or the " +
		"k-th walletdb Update fails once). Part 3: one double fault per call, of the one shape 'the append's write or " +
		"index update fails and the truncate that should undo it fails too'. No implementation can restore the file " +
		"when the restoring truncate itself fails, therefore no further write call is made on the stores between such " +
		"an append and the next reopen (reads only), and the left-over bytes themselves are never inspected: only the " +
		"answers of the read methods are. Other double faults are not enumerated.")
	r.Assume("bbolt rolls an Update back completely when its closure returns an error; the harness File wrapper is a " +
		"transparent pass-through to the *os.File the store opened when no fault is armed; the database is opened " +
		"with a persisted freelist (noFreelistSync=false, a tuning knob headerfs does not depend on); 'not found' = the " +
		"read returns any error. After a failed ROLLBACK the statement promises nothing: the state is only classified " +
		"(coverage), then the harness rewrites the flat files to their pre-call content.")

	nPlain := r.Pick(300, 5000)
	nFault := r.Pick(40, 600)
	nTorn := r.Pick(80, 1500)
	nConc := r.Pick(64, 1600)
	nTwo := r.Pick(56, 1400)

	scratch := os.Getenv("VERIF_SCRATCH")
	if scratch == "" {
		d, err := os.MkdirTemp("", "verif-c07-")
		if err != nil {
			fmt.Fprintln(os.Stderr, "scratch:", err)
			os.Exit(2)
		}
		scratch = d
		defer os.RemoveAll(d)
	}
	root := filepath.Join(scratch, "c07")
	env, err := c07.NewEnv(root)
	if err != nil {
		fmt.Fprintln(os.Stderr, "C07: cannot create template stores:", err)
		os.RemoveAll(root)
		os.Exit(2)
	}

	var jobs []job
	single := *onlyPlain >= 0 || *onlyFault >= 0 || *onlyTorn >= 0 || *onlyConc >= 0 || *onlyTwo >= 0
	switch {
	case *onlyTwo >= 0:
		jobs = []job{{Two: true, Idx: *onlyTwo}}
	case *onlyConc >= 0:
		jobs = []job{{Conc: true, Idx: *onlyConc}}
	case *onlyPlain >= 0:
		jobs = []job{{Idx: *onlyPlain}}
	case *onlyFault >= 0:
		jobs = []job{{Fault: true, Idx: *onlyFault % faultIndexBase}}
	case *onlyTorn >= 0:
		jobs = []job{{Torn: true, Idx: *onlyTorn}}
	default:
		// Fault histories first: they are the long ones.
		for i := 0; i < nFault; i++ {
			jobs = append(jobs, job{Fault: true, Idx: i})
		}
		for i := 0; i < nTorn; i++ {
			jobs = append(jobs, job{Torn: true, Idx: i})
		}
		for i := 0; i < nConc; i++ {
			jobs = append(jobs, job{Conc: true, Idx: i})
		}
		for i := 0; i < nTwo; i++ {
			jobs = append(jobs, job{Two: true, Idx: i})
		}
		for i := 0; i < nPlain; i++ {
			jobs = append(jobs, job{Idx: i})
		}
	}

	nw := *workers
	if nw <= 0 {
		nw = min(runtime.NumCPU(), 16)
	}
	nw = min(nw, len(jobs))
	timing := os.Getenv("C07_TIMING") != "" // development aid: per-history wall time on stderr
	ch := make(chan job)
	var wg sync.WaitGroup
	var mu sync.Mutex // guards samples: kept in job order so that the evidence is reproducible
	samples := map[string]map[string]any{}
	for w := 0; w < nw; w++ {
		wg.Add(1)
		go func(w int) {
			defer wg.Done()
			dir := filepath.Join(root, fmt.Sprintf("w%02d", w))
			var wk *worker
			for j := range ch {
				if wk == nil {
					if wk, err = startWorker(r, env.TemplateDir, dir); err != nil {
						r.Inconclusive("harness: cannot start worker process: " + err.Error())
						continue
					}
				}
				res, err := wk.run(j)
				if err != nil {
					// The child died or spoke garbage: this history
					// decides nothing; a fresh child takes the next.
					r.Inconclusive("worker process lost during a history: " + err.Error())
					fmt.Fprintf(os.Stderr, "C07: worker lost on job %s: %v\n", j, err)
					wk.kill()
					wk = nil
					continue
				}
				if timing {
					fmt.Fprintf(os.Stderr, "timing w%02d %s %.2fs\n", w, j, res.Seconds)
				}
				for _, c := range res.Cases {
					r.Case(c.FP, c.Nontrivial)
				}
				for fp, n := range res.Marks {
					for i := 0; i < n; i++ {
						r.Mark(fp)
					}
				}
				for _, v := range res.Violations {
					r.Violation(evid.Sig(v.Rule, v.Shape), v.Rule+": "+v.What, v.Witness)
				}
				for _, why := range res.Inconclusive {
					r.Inconclusive(why)
				}
				for k, v := range res.Stats {
					r.Count(k, v)
				}
				mu.Lock()
				for _, s := range res.Samples {
					samples[j.String()] = s
				}
				mu.Unlock()
			}
			if wk != nil {
				wk.stop()
			}
		}(w)
	}
	for _, j := range jobs {
		ch <- j
	}
	close(ch)
	wg.Wait()

	for _, k := range []string{"P 0", "P 1", "P 2", "F 0", "F 1", "T 0", "T 1", "T 4", "C 0", "C 1", "C 2", "W 0", "W 1"} {
		if s, ok := samples[k]; ok {
			r.Sample(s)
		}
	}
	r.Set("plain_histories", nPlain)
	r.Set("fault_histories", nFault)
	r.Set("torn_histories", nTorn)
	r.Set("concurrent_histories", nConc)
	r.Set("concurrent_histories_fixed", min(nConc, c07.FixedConc))
	r.Set("torn_histories_fixed", min(nTorn, c07.FixedTorn))
	r.Set("two_writer_histories", nTwo)
	r.Set("two_writer_histories_fixed", min(nTwo, c07.FixedTwo))
	r.Set("worker_processes", nw)
	os.RemoveAll(root)
	if single {
		r.Finish(1)
	}
	// Floors: about half of what a quick (~900) / thorough (~1060) run measures.
	r.Finish(r.Pick(400, 500))
}

// ---- parent side of a worker process

type worker struct {
	cmd *exec.Cmd
	in  io.WriteCloser
	out *bufio.Reader
}

func startWorker(r *evid.Run, templateDir, dir string) (*worker, error) {
	exe, err := os.Executable()
	if err != nil {
		return nil, err
	}
	cmd := exec.Command(exe, "-tier", r.Tier, "-seed", strconv.FormatInt(r.Seed, 10),
		"-child", dir, "-template", templateDir)
	cmd.Stderr = os.Stderr
	cmd.Env = append(os.Environ(), "GOMAXPROCS=2")
	in, err := cmd.StdinPipe()
	if err != nil {
		return nil, err
	}
	out, err := cmd.StdoutPipe()
	if err != nil {
		return nil, err
	}
	if err := cmd.Start(); err != nil {
		return nil, err
	}
	return &worker{cmd: cmd, in: in, out: bufio.NewReaderSize(out, 1<<20)}, nil
}

func (w *worker) run(j job) (*jobResult, error) {
	if _, err := fmt.Fprintln(w.in, j.String()); err != nil {
		return nil, err
	}
	line, err := w.out.ReadBytes('\n')
	if err != nil {
		return nil, fmt.Errorf("job %s: %w", j, err)
	}
	var res jobResult
	if err := json.Unmarshal(line, &res); err != nil {
		return nil, fmt.Errorf("job %s: bad result line: %w", j, err)
	}
	return &res, nil
}

func (w *worker) stop() { w.in.Close(); w.cmd.Wait() }
func (w *worker) kill() { w.in.Close(); w.cmd.Process.Kill(); w.cmd.Wait() }

// ---- child side

const faultIndexBase = 1_000_000 // fault histories live in their own index space

func childMain(seed int64, templateDir, dir string) {
	env, err := c07.UseEnv(templateDir)
	if err != nil {
		fmt.Fprintln(os.Stderr, "C07 worker:", err)
		os.Exit(2)
	}
	defer os.RemoveAll(dir)
	in := bufio.NewScanner(os.Stdin)
	out := bufio.NewWriter(os.Stdout)
	for in.Scan() {
		f := strings.Fields(in.Text())
		if len(f) != 2 {
			continue
		}
		idx, _ := strconv.Atoi(f[1])
		t0 := time.Now()
		res := &jobResult{Marks: map[string]int{}, Stats: map[string]int64{}}
		run := &c07.Runner{
			Env: env, Dir: dir, Stats: c07.Stats(res.Stats), FullLimit: 1500,
			Sink: c07.Sink{
				Violation:    func(v c07.Violation) { res.Violations = append(res.Violations, v) },
				Inconclusive: func(why string) { res.Inconclusive = append(res.Inconclusive, why) },
				Case:         func(fp string, nt bool) { res.Cases = append(res.Cases, caseRec{fp, nt}) },
				Mark:         func(fp string) { res.Marks[fp]++ },
			},
		}
		if f[0] == "C" {
			ok, summary := run.RunConcurrent(seed, idx, 3)
			run.Stats.Add("conc_histories_linearizable", b2i(ok))
			if summary != nil && idx < 3 {
				res.Samples = append(res.Samples, summary)
			}
		} else if f[0] == "W" {
			ok, summary := run.RunTwo(seed, idx)
			run.Stats.Add("two_histories_completed", b2i(ok))
			if summary != nil && idx < 2 {
				res.Samples = append(res.Samples, summary)
			}
		} else if f[0] == "T" {
			runTorn(res, run, seed, env, idx)
		} else if f[0] == "F" {
			runFault(res, run, seed, env, idx)
		} else {
			runPlain(res, run, seed, env, idx)
		}
		res.Seconds = time.Since(t0).Seconds()
		b, err := json.Marshal(res)
		if err != nil {
			b, _ = json.Marshal(&jobResult{Inconclusive: []string{"harness: result not serialisable: " + err.Error()}})
		}
		out.Write(b)
		out.WriteByte('\n')
		out.Flush()
	}
}

func lenBucket(n int) string {
	switch {
	case n < 100:
		return "30-99"
	case n < 200:
		return "100-199"
	}
	return "200+"
}

func describe(h *c07.History) (fp string, nontrivial bool, summary map[string]any) {
	kinds := map[string]int{}
	flags := map[string]bool{}
	nonEmptyAppend, rollback, maxBatch := false, false, 0
	for i := range h.Ops {
		op := &h.Ops[i]
		kinds[op.Kind]++
		if n := len(op.Blocks) + len(op.Filters); n > 0 {
			nonEmptyAppend = true
			maxBatch = max(maxBatch, n)
		}
		switch op.Kind {
		case c07.OpBR, c07.OpBRL, c07.OpFR:
			rollback = true
		case c07.OpBRX, c07.OpFRX:
			flags["past-genesis"] = true
		}
		if op.Note == "readd-same" {
			flags["readd-same"] = true
		}
		if strings.HasPrefix(op.Note, "to-genesis") {
			flags["to-genesis"] = true
		}
	}
	ro := "ro0"
	switch n := kinds[c07.OpRO]; {
	case n >= 4:
		ro = "ro4+"
	case n >= 1:
		ro = "ro1-3"
	}
	fp = fmt.Sprintf("plain|%s|len=%s|%s|genesis=%v|readd=%v|past=%v", h.Class, lenBucket(len(h.Ops)), ro,
		flags["to-genesis"], flags["readd-same"], flags["past-genesis"])
	summary = map[string]any{
		"history_index": h.Index, "class": h.Class, "ops": len(h.Ops), "op_kinds": kinds,
		"max_batch": maxBatch, "to_genesis": flags["to-genesis"], "readd_same": flags["readd-same"],
	}
	var first []string
	for i := 0; i < len(h.Ops) && i < 25; i++ {
		op := &h.Ops[i]
		first = append(first, fmt.Sprintf("%s(%d)", op.Kind, len(op.Blocks)+len(op.Filters)+int(int32(op.N))))
	}
	summary["first_ops"] = first
	return fp, nonEmptyAppend && rollback, summary
}

func runPlain(res *jobResult, run *c07.Runner, seed int64, env *c07.Env, idx int) {
	h := c07.Generate(seed, idx, env, false)
	fp, nontrivial, summary := describe(h)
	ok := run.RunPlain(h, nil)
	run.Sink.Case(fp, nontrivial)
	run.Stats.Add("plain_histories_completed", b2i(ok))
	if idx < 3 {
		summary["part"] = "plain"
		summary["completed_without_violation"] = ok
		res.Samples = append(res.Samples, summary)
	}
}

func runFault(res *jobResult, run *c07.Runner, seed int64, env *c07.Env, idx int) {
	// Fault histories stay in the small/medium batch classes: every attempt
	// is followed by a complete read comparison.
	h := c07.Generate(seed, faultIndexBase+idx, env, true)
	fp, nontrivial, summary := describe(h)
	prof := &c07.Profile{}
	okProfile := run.RunPlain(h, prof)
	run.Sink.Case(fp, nontrivial) // the profiling run is a complete plain history of its own
	if !okProfile {
		run.Stats.Add("fault_histories_profile_run_failed", 1)
		return
	}
	run.Stats.Add("fault_histories_profiled", 1)
	ok := run.RunFaults(h, prof)
	run.Stats.Add("fault_histories_completed", b2i(ok))
	if idx < 2 {
		summary["part"] = "fault"
		summary["fault_attempts"] = run.Stats["fault_attempts"]
		summary["completed_without_violation"] = ok
		res.Samples = append(res.Samples, summary)
	}
}

func runTorn(res *jobResult, run *c07.Runner, seed int64, env *c07.Env, idx int) {
	h := c07.GenerateTorn(seed, idx, env)
	_, _, summary := describe(h)
	torn, stores, classes := 0, map[string]bool{}, map[string]bool{}
	var ops []string
	for i := range h.Ops {
		op := &h.Ops[i]
		s := fmt.Sprintf("%s(%d)", op.Kind, len(op.Blocks)+len(op.Filters)+int(int32(op.N)))
		if t := op.Torn; t != nil {
			torn++
			stores[op.Kind] = true
			classes[t.Class] = true
			s += fmt.Sprintf("!double-fault[%s,%d bytes stay]", t.Class, t.Bytes)
		}
		ops = append(ops, s)
	}
	ok := run.RunTorn(h)
	// One evaluation per double-fault append (counted by the runner) and one
	// for the history as a whole.
	run.Sink.Case(fmt.Sprintf("torn-history|%s|episodes=%d|stores=%d|classes=%d|len=%s", h.Class, torn, len(stores),
		len(classes), tornLenBucket(len(h.Ops))), torn > 0)
	run.Stats.Add("torn_histories_completed", b2i(ok))
	if idx < 2 || idx == c07.FixedTorn {
		summary["part"] = "torn"
		summary["ops_written_out"] = ops
		summary["completed_without_violation"] = ok
		delete(summary, "first_ops")
		res.Samples = append(res.Samples, summary)
	}
}

func tornLenBucket(n int) string {
	switch {
	case n < 10:
		return "<10"
	case n < 25:
		return "10-24"
	}
	return "25+"
}

func b2i(b bool) int64 {
	if b {
		return 1
	}
	return 0
}
