// C03: committed filter headers track the header chain and resist false
// filter headers. Engine L1: the real block manager's filter-header machinery
// (getCheckpts, resolveConflict, getCheckpointedCFHeaders,
// getUncheckpointedCFHeaders, writeCFHeadersMsg, rollBackToHeight) over real
// stores, against scripted honest / lying / silent peers, with reorganisations
// between and (through pause points) inside the rounds.
package main

import (
	"fmt"
	"os"
	"strings"
	"time"

	"verif/internal/evid"
	"verif/internal/l1"
	"verif/internal/l2"
)

func main() {
	r := evid.New("C03", "exploration")
	nL2 := r.Pick(8, 300)
	l2scen := func(seed int64, k int, res *l2.Result) {
		res.Name = fmt.Sprintf("c03-l2-%d", k)
		l2.RunReorgSync(l2.ReorgSyncPlanFromSeed(seed, k), res)
	}
	if l2.IsChild() {
		l2.RunScenarios(r, nL2, 300*time.Second, l2scen)
	}
	r.Rule("seeded L1 filter sessions: generated chains with real blocks and BIP158 filters (20-320 blocks: at-tip path; 1000-3300: checkpointed path with partial first intervals), 1-5 peers with behaviours honest / lying at a height in cfheaders+filters (omit-script, wrong-hash, unserved = provable; extra-element = unprovable) / lying in checkpoints only / wrong prev header / wrong count / short or long checkpoint list / silent; honest-chain growth and reorganisations between rounds and, in the serial class, a reorganisation injected at the cf.beforeWrite / cf.afterWrite pause points, and injected hard-coded filter checkpoints (true and contradicting). After every block-manager call the committed filter chain is re-read and checked: not ahead of blocks, equals ground truth in provable sessions, otherwise derivable from served hashes, equals checkpoints, by-hash lookups agree, nothing survives for disconnected blocks; at the end liars banned / honest not banned. distinct = (session class, behaviours multiset, step kind, reorg presence, outcome); non-trivial = the step changed the filter store or banned a peer")
	r.Assume("ground-truth filters/headers come from btcd gcs/builder over generated blocks; scripted queryAllPeers/Dispatcher mimic the real ones' serial callback discipline (real ones are exercised by the network-simulation checks)")
	nTip, nCp, nHook := r.Pick(40, 1800), r.Pick(24, 900), r.Pick(12, 450)
	r.Rule("family multicp (sessions with two or three hard-coded filter-header checkpoints at 1000/2000/3000, chains of 2050-3250 blocks): liars whose checkpoint list is false at an OLDER hard-coded height and equal to the newest one it covers, either in the list only or with cfheaders chained consistently with the list; peer sets: the liar alone / every responding peer tells the same lie / liars next to honest (and silent) peers; the first plans are seed-independent. Same oracle, plus: every peer whose list, as handed to resolveConflict, differs from a hard-coded checkpoint is banned when that call returns. fingerprint additionally carries the family name")
	nMulti := r.Pick(9, 240)
	cbs := l1.FilterCallbacks{
		OnStep: func(fs *l1.FilterSession, st *l1.StepObs) {
			changed := len(st.PreF) != len(st.PostF)
			fp := fmt.Sprintf("%s|%s|chg=%v|reorgAt=%s|cps=%d", behaviours(fs), st.Kind, changed, fs.Plan.ReorgAt, len(fs.Plan.FilterCPs))
			if fs.Plan.Family != "" {
				fp += "|" + fs.Plan.Family
				if st.Kind == "cf.resolve" {
					fp += fmt.Sprintf("|contradicting-lists=%d", len(fs.ResolveOffenders))
				}
			}
			r.Case(fp, changed || len(fs.Bans) > 0)
			r.Count("steps", 1)
			r.Count("filter_headers_committed", int64(max(0, len(st.PostF)-len(st.PreF))))
			if st.Panic != "" {
				r.Violation(evid.Sig("c03/panic", st.Kind), "block manager panicked: "+st.Panic, witness(fs, st))
			}
			for _, f := range l1.CheckC03(fs, st, false) {
				r.Violation(f.Sig, f.What, witness(fs, st))
			}
		},
		OnStoreErr: func(fs *l1.FilterSession, st *l1.StepObs, err error) {
			r.Violation(evid.Sig("c03/store-unreadable", fs.Plan.ReorgAt), fmt.Sprintf("stores unreadable: %v", err), witness(fs, st))
		},
		OnEnd: func(fs *l1.FilterSession, err error) {
			r.Count("sessions", 1)
			if err != nil {
				fmt.Fprintln(os.Stderr, "session error:", err)
				r.Inconclusive("session-error")
				return
			}
			// Final full check on the end state.
			st := &l1.StepObs{Kind: "final"}
			var e1, e2 error
			st.Post, e1 = fs.ReadBlockChain()
			st.PostF, e2 = fs.ReadFilterChain()
			if e1 != nil || e2 != nil {
				return
			}
			st.Pre, st.PreF = st.Post, st.PostF
			for _, f := range l1.CheckC03(fs, st, true) {
				r.Violation(f.Sig, f.What, witness(fs, st))
			}
			if len(st.PostF) == len(st.Post) {
				r.Count("sessions_converged", 1)
			}
			r.Count("bans_observed", int64(len(fs.Bans)))
			r.Count("lists_contradicting_a_hardcoded_checkpoint", int64(fs.CPListsContradicting))
			r.Count("lists_false_at_older_checkpoint_only", int64(fs.CPListsOlderOnly))
			if fs.Plan.Family != "" {
				r.Count("multicp_sessions", 1)
				r.Count("sessions:"+fs.Plan.Family, 1)
			}
			r.Count("queryAllPeers_calls", int64(fs.Net.QueriesAll))
			r.Count("dispatcher_batches", int64(fs.Net.QueriesBatch))
			r.Sample(map[string]any{"plan": fs.Plan, "script_tail": tail(fs.Steps, 8), "bans": fs.Bans,
				"final_block_tip": len(st.Post) - 1, "final_filter_tip": len(st.PostF) - 1})
		},
	}
	// Development aid: C03_MULTICP_ONLY=1 runs only the multicp family (and
	// prints every session's script); never set by registered commands.
	devOnly := os.Getenv("C03_MULTICP_ONLY") != ""
	if devOnly {
		end := cbs.OnEnd
		cbs.OnEnd = func(fs *l1.FilterSession, err error) {
			if fs != nil {
				fmt.Fprintf(os.Stderr, "== %s %s cps=%v chain=%d bans=%v\n   %s\n", fs.Plan.Name, fs.Plan.Family, fs.Plan.FilterCPs, fs.Plan.ChainLen, fs.Bans, strings.Join(fs.Steps, "\n   "))
			}
			end(fs, err)
		}
		l1.RunMultiCPFilter(r.Seed, nMulti, cbs)
		r.Finish(1)
	}
	l1.RunManyFilter(r.Seed, nTip, nCp, nHook, cbs)
	l1.RunMultiCPFilter(r.Seed, nMulti, cbs)
	// L2 part: the REAL cfHandler loop (cached checkpoints, waits, retries),
	// real queryAllPeers and work manager, with a reorganisation arriving
	// while block headers are still syncing and filter headers are part-way.
	l2.RunScenarios(r, nL2, 300*time.Second, l2scen)
	r.Finish(15)
}

func behaviours(fs *l1.FilterSession) string {
	var parts []string
	for _, b := range fs.Plan.Behaviours {
		switch {
		case b.Silent:
			parts = append(parts, "silent")
		case len(b.Lies) == 0:
			parts = append(parts, "honest")
		default:
			parts = append(parts, b.Lies[0].Kind)
		}
	}
	// order-insensitive
	for i := range parts {
		for j := i + 1; j < len(parts); j++ {
			if parts[j] < parts[i] {
				parts[i], parts[j] = parts[j], parts[i]
			}
		}
	}
	return strings.Join(parts, ",")
}

func tail(s []string, n int) []string {
	if len(s) > n {
		return s[len(s)-n:]
	}
	return s
}

func witness(fs *l1.FilterSession, st *l1.StepObs) any {
	w := map[string]any{"plan": fs.Plan, "script": tail(fs.Steps, 60), "bans": fs.Bans}
	if st != nil {
		w["step_kind"] = st.Kind
		w["pre_block_tip"] = len(st.Pre) - 1
		w["post_block_tip"] = len(st.Post) - 1
		w["pre_filter_tip"] = len(st.PreF) - 1
		w["post_filter_tip"] = len(st.PostF) - 1
		w["events"] = len(st.Events)
	}
	return w
}
