// C03: committed filter headers track the header chain and resist false
// filter headers. Engine L1: the real block manager's filter-header machinery
// (getCheckpts, resolveConflict, getCheckpointedCFHeaders,
// getUncheckpointedCFHeaders, writeCFHeadersMsg, rollBackToHeight) over real
// stores, against scripted honest / lying / silent peers, with reorganisations
// between and (through pause points) inside the rounds.
package main

import (
	"fmt"
	"os"
	"strings"
	"sync"
	"time"

	"verif/internal/c03"
	"verif/internal/evid"
	"verif/internal/l1"
	"verif/internal/l2"
)

func main() {
	r := evid.New("C03", "exploration")
	nL2 := r.Pick(8, 300)
	// L2 family l2-blockfail (scenario indices nL2 .. nL2+nL2BF-1; the first
	// one is seed-independent): see internal/c03/l2blockfail.go.
	nL2BF := r.Pick(3, 60)
	l2scen := func(seed int64, k int, res *l2.Result) {
		if k >= nL2 {
			c03.L2BlockFail(seed, k-nL2, res)
			return
		}
		res.Name = fmt.Sprintf("c03-l2-%d", k)
		l2.RunReorgSync(l2.ReorgSyncPlanFromSeed(seed, k), res)
	}
	if l2.IsChild() {
		l2.RunScenarios(r, nL2+nL2BF, 300*time.Second, l2scen)
	}
	r.Rule("seeded L1 filter sessions: generated chains with real blocks and BIP158 filters (20-320 blocks: at-tip path; 1000-3300: checkpointed path with partial first intervals), 1-5 peers with behaviours honest / lying at a height in cfheaders+filters (omit-script, wrong-hash, unserved = provable; extra-element = unprovable) / lying in checkpoints only / wrong prev header / wrong count / short or long checkpoint list / silent; honest-chain growth and reorganisations between rounds and, in the serial class, a reorganisation injected at the cf.beforeWrite / cf.afterWrite pause points, and injected hard-coded filter checkpoints (true and contradicting). After every block-manager call the committed filter chain is re-read and checked: not ahead of blocks, equals ground truth in provable sessions, otherwise derivable from served hashes, equals checkpoints, by-hash lookups agree, nothing survives for disconnected blocks; at the end liars banned / honest not banned. distinct = (session class, behaviours multiset, step kind, reorg presence, outcome); non-trivial = the step changed the filter store or banned a peer")
	r.Assume("ground-truth filters/headers come from btcd gcs/builder over generated blocks; scripted queryAllPeers/Dispatcher mimic the real ones' serial callback discipline (real ones are exercised by the network-simulation checks)")
	nTip, nCp, nHook := r.Pick(40, 1800), r.Pick(24, 900), r.Pick(12, 450)
	r.Rule("family multicp (sessions with two or three hard-coded filter-header checkpoints at 1000/2000/3000, chains of 2050-3250 blocks): liars whose checkpoint list is false at an OLDER hard-coded height and equal to the newest one it covers, either in the list only or with cfheaders chained consistently with the list; peer sets: the liar alone / every responding peer tells the same lie / liars next to honest (and silent) peers; the first plans are seed-independent. Same oracle, plus: every peer whose list, as handed to resolveConflict, differs from a hard-coded checkpoint is banned when that call returns. fingerprint additionally carries the family name")
	nMulti := r.Pick(9, 240)
	r.Rule("family blockfail (scripted failures of the block download the client arbitrates a filter-header conflict with): a coalition of 1-4 peers serving one identical self-consistent false filter for a block (an output script omitted; sometimes an unprovable padded filter) next to 1-3 honest peers it mostly outnumbers (also ties and minorities), optionally a wrong-hash/unserved liar about the same block, a second disputed block or a silent peer; GetBlock fails the first 1-3 times per block / overall, or for the whole session; for every block, only for disputed blocks, or (control) only for undisputed ones; errors: query timeout, job canceled, no peer delivered; both conflict paths (at-tip; differing checkpoint lists on chains of 1000-2300 blocks); growth/reorganisations between rounds. The first plans are seed-independent (2 liars + 1 honest, at the tip, one failed download; the same between checkpoint lists; 3 liars + 1 honest and the block never arrives; two failed rounds with a fourth wrong-hash peer and growth). Same oracle; a session that ends behind while the scripted download failed in its last three rounds gets no verdict from the progress rule. fingerprint additionally carries the family name and the fault")
	nBF := r.Pick(16, 400)
	r.Rule("family truncbatch (truncated cfheaders batches on chains of 2000-4300 blocks): peers answering a getcfheaders with the requested stop hash, the right previous filter header and only the first N true filter hashes - N = one whole checkpoint interval of a two-interval request (the batch hashes up to the intermediate checkpoint) or an odd count (1, 999, 1001, 1500, random); the truncating peer alone / every peer truncating / truncating peers next to honest ones (sometimes with a provable liar or a silent peer); chains of 3000+ so that a further batch is written after the truncated answer. The first plans are seed-independent (lone; all peers with a further batch; two truncating + one honest; four odd truncations + one honest). Same oracle: a truncated batch says nothing false about any block, so with an honest peer present the ground truth is committed, the session does not end behind and no honest peer is banned; in every session the filter store stays readable up to the tip it names and no block-manager call panics (a panic in a step after which the stores cannot be read back is reported too)")
	r.Rule("family twostage (checkpointed sync starting from a partially stored interval): stage 1 syncs a chain of PreLen blocks completely (filter tip = PreLen: 20-900, 1000+x, 2000+x, sometimes exactly on a checkpoint), stage 2 lets the honest chain end 1000-2500 blocks higher (sometimes forking 1-30 blocks below the stage-1 tip), syncs the block headers and continues the filter rounds; honest peers, provable / other liars, truncating peers, silent peers, growth and reorganisations mixed in. The first plans are seed-independent (332 -> 1500 honest; 1007 -> 3100 with a provable liar; 600 forked by 5 -> 3050 with a truncating peer). Same oracle")
	nTrunc, nTwo := r.Pick(12, 300), r.Pick(7, 200)
	r.Rule("family iofault (ONE transient I/O error underneath the real stores: a flat-file Write / short write / Truncate / Sync / ReadAt / Stat / Seek or a database Update / View failing once, at a chosen call position, while one headers message is handled or one filter-header round runs) in sessions with block AND filter headers synced: growth, reorganisations with the filter tip above the fork point, an off-chain peer running into a hard-coded checkpoint (rollback to the previous one); afterwards the same branch is offered again, filter-header rounds run, and the chain grows and reorganises again. A panic of the client in the step of the fault is the death of the process: stores reopened through the constructors, fresh block manager, peers reconnect; the reference restarts from what the reopened stores hold. If the client carries on, the same oracle applies to that step and to every later one. The first plans are seed-independent (truncate of either file in a reorganisation rollback / in the checkpoint rollback; a read failing right after a filter-header batch was committed; a short header write; the failed write of the first header of a new branch)")
	nIO := r.Pick(30, 500)
	cbs := l1.FilterCallbacks{
		OnStep: func(fs *l1.FilterSession, st *l1.StepObs) {
			changed := len(st.PreF) != len(st.PostF)
			fp := fmt.Sprintf("%s|%s|chg=%v|reorgAt=%s|cps=%d", behaviours(fs), st.Kind, changed, fs.Plan.ReorgAt, len(fs.Plan.FilterCPs))
			if !fs.Plan.BlockFault.Off() {
				fp += fmt.Sprintf("|blockfault=%s|failed-in-step=%v", fs.Plan.BlockFault, blockFailedInStep(fs))
			}
			if st.Fault != "" {
				fp += fmt.Sprintf("|fault=%s|crash=%v", st.FaultShape, st.Crash != "")
			}
			if fs.Plan.Family != "" {
				fp += "|" + fs.Plan.Family
				if st.Kind == "cf.resolve" {
					fp += fmt.Sprintf("|contradicting-lists=%d", len(fs.ResolveOffenders))
				}
			}
			r.Case(fp, changed || len(fs.Bans) > 0)
			r.Count("steps", 1)
			r.Count("filter_headers_committed", int64(max(0, len(st.PostF)-len(st.PreF))))
			if st.Panic != "" {
				r.Violation(evid.Sig("c03/panic", st.Kind)+fs.SigSuffix, "block manager panicked: "+st.Panic, witness(fs, st))
			}
			for _, f := range l1.CheckC03(fs, st, false) {
				r.Violation(f.Sig+fs.SigSuffix, f.What, witness(fs, st))
			}
		},
		OnStoreErr: func(fs *l1.FilterSession, st *l1.StepObs, err error) {
			r.Violation(evid.Sig("c03/store-unreadable", fs.Plan.ReorgAt)+fs.SigSuffix, fmt.Sprintf("stores unreadable: %v", err), witness(fs, st))
			// The step that left the stores unreadable never reached OnStep:
			// a panic of the block manager in it is reported here.
			if fs.PanicKind != "" {
				r.Violation(evid.Sig("c03/panic", fs.PanicKind)+fs.SigSuffix, "block manager panicked: "+fs.PanicText, witness(fs, st))
			}
		},
		OnEnd: func(fs *l1.FilterSession, err error) {
			r.Count("sessions", 1)
			if err != nil {
				fmt.Fprintln(os.Stderr, "session error:", err)
				r.Inconclusive("session-error")
				return
			}
			// Final full check on the end state.
			st := &l1.StepObs{Kind: "final"}
			var e1, e2 error
			st.Post, e1 = fs.ReadBlockChain()
			st.PostF, e2 = fs.ReadFilterChain()
			if e1 != nil || e2 != nil {
				return
			}
			st.Pre, st.PreF = st.Post, st.PostF
			for _, f := range l1.CheckC03(fs, st, true) {
				r.Violation(f.Sig+fs.SigSuffix, f.What, witness(fs, st))
			}
			if len(st.PostF) == len(st.Post) {
				r.Count("sessions_converged", 1)
			}
			r.Count("bans_observed", int64(len(fs.Bans)))
			r.Count("lists_contradicting_a_hardcoded_checkpoint", int64(fs.CPListsContradicting))
			r.Count("lists_false_at_older_checkpoint_only", int64(fs.CPListsOlderOnly))
			if strings.HasPrefix(fs.Plan.Family, "multicp") && fs.Plan.BlockFault.Off() {
				r.Count("multicp_sessions", 1)
				r.Count("sessions:"+fs.Plan.Family, 1)
			}
			if strings.HasPrefix(fs.Plan.Family, "truncbatch") || strings.HasPrefix(fs.Plan.Family, "twostage") {
				countCatchUp(r, fs, len(st.PostF) < len(st.Post))
			}
			if !fs.Plan.BlockFault.Off() {
				countBlockFail(r, fs, len(st.PostF) < len(st.Post))
			}
			if strings.HasPrefix(fs.Plan.Family, "iofault") {
				countIOFault(r, fs)
			}
			if strings.HasPrefix(fs.Plan.ReorgAt, "store.read#") || strings.HasPrefix(fs.Plan.ReorgAt, "net.query#") {
				r.Count("boundary_sessions", 1)
				script := strings.Join(fs.Steps, "\n")
				if strings.Contains(script, "reorg injected at "+fs.Plan.ReorgAt) {
					r.Count("boundary_reorgs_injected", 1)
					r.Count("boundary_reorg_injected_at:"+fs.Plan.ReorgAt, 1)
					if strings.Contains(script, "ran to completion inside the window") {
						r.Count("boundary_reorgs_completed_inside_the_window", 1)
					}
				}
				if os.Getenv("C03_BOUNDARY_DEBUG") != "" {
					fmt.Fprintf(os.Stderr, "== %s reorgAt=%s chain=%d bans=%v\n   %s\n", fs.Plan.Name, fs.Plan.ReorgAt, fs.Plan.ChainLen, fs.Bans, strings.Join(fs.Steps, "\n   "))
				}
			}
			r.Count("queryAllPeers_calls", int64(fs.Net.QueriesAll))
			r.Count("dispatcher_batches", int64(fs.Net.QueriesBatch))
			r.Sample(map[string]any{"plan": fs.Plan, "script_tail": tail(fs.Steps, 8), "bans": fs.Bans,
				"final_block_tip": len(st.Post) - 1, "final_filter_tip": len(st.PostF) - 1})
		},
	}
	// Development aid: C03_MULTICP_ONLY=1 / C03_BLOCKFAIL_ONLY=1 run only that family (and
	// prints every session's script); never set by registered commands.
	devOnly := os.Getenv("C03_MULTICP_ONLY") != ""
	devBF := os.Getenv("C03_BLOCKFAIL_ONLY") != ""
	devCU := os.Getenv("C03_CATCHUP_ONLY") != ""
	devIO := os.Getenv("L1_IOFAULT_ONLY") != ""
	if devOnly || devBF || devCU || devIO {
		end := cbs.OnEnd
		cbs.OnEnd = func(fs *l1.FilterSession, err error) {
			if fs != nil {
				fmt.Fprintf(os.Stderr, "== %s %s cps=%v chain=%d bans=%v\n   %s\n", fs.Plan.Name, fs.Plan.Family, fs.Plan.FilterCPs, fs.Plan.ChainLen, fs.Bans, strings.Join(fs.Steps, "\n   "))
			}
			end(fs, err)
		}
		if devIO {
			l1.RunIOFaultFilter(r.Seed, nIO, cbs)
		} else if devCU {
			l1.RunCatchUpFilter(r.Seed, nTrunc, nTwo, cbs)
		} else if devBF {
			l1.RunBlockFailFilter(r.Seed, nBF, cbs)
		} else {
			l1.RunMultiCPFilter(r.Seed, nMulti, cbs)
		}
		r.Finish(1)
	}
	l1.RunManyFilter(r.Seed, nTip, nCp, nHook, cbs)
	l1.RunMultiCPFilter(r.Seed, nMulti, cbs)
	l1.RunBlockFailFilter(r.Seed, nBF, cbs)
	l1.RunCatchUpFilter(r.Seed, nTrunc, nTwo, cbs)
	l1.RunIOFaultFilter(r.Seed, nIO, cbs)
	// L2 part: the REAL cfHandler loop (cached checkpoints, waits, retries),
	// real queryAllPeers and work manager, with a reorganisation arriving
	// while block headers are still syncing and filter headers are part-way.
	r.Rule("L2 family l2-blockfail (complete client, wire-level peers): 2-3 peers serve one identical filter that omits an output script of a block (at-tip conflict), 1-2 peers are honest and outnumbered, every peer is connected before block headers are served, and every getdata naming the disputed block goes unanswered during the first 1-2 conflict rounds (QueryNumRetries=1: the client's block download gives up after one attempt), after which the block is served; oracle on the stores and the ban state: committed filter headers equal the ground truth, no honest peer banned, the liars banned once the disputed height is committed")
	l2.RunScenarios(r, nL2+nL2BF, 300*time.Second, l2scen)
	r.Finish(15)
}

// blockFailedInStep: did a scripted block-download failure occur since the
// previous step of this session was fingerprinted?
func blockFailedInStep(fs *l1.FilterSession) bool {
	n := fs.Net.BlockFaultCount()
	seenMu.Lock()
	defer seenMu.Unlock()
	prev := seenFaults[fs]
	seenFaults[fs] = n
	return n > prev
}

var (
	seenMu     sync.Mutex
	seenFaults = map[*l1.FilterSession]int{}
)

// countBlockFail records what a session of the blockfail family observed.
func countBlockFail(r *evid.Run, fs *l1.FilterSession, behind bool) {
	seenMu.Lock()
	delete(seenFaults, fs)
	seenMu.Unlock()
	r.Count("blockfail_sessions", 1)
	r.Count("sessions:"+fs.Plan.Family, 1)
	calls, failed, okAfterFail := 0, 0, 0
	failedAt := map[int32]bool{}
	for _, c := range fs.Net.BlockCalls {
		calls++
		switch {
		case c.Failed:
			failed++
			failedAt[c.Height] = true
		case failedAt[c.Height]:
			okAfterFail++
		}
	}
	r.Count("blockfail_block_downloads", int64(calls))
	r.Count("blockfail_block_downloads_failed", int64(failed))
	r.Count("blockfail_block_downloads_succeeding_after_a_failure", int64(okAfterFail))
	rounds := 0
	for _, n := range fs.RoundBlockFails {
		if n > 0 {
			rounds++
		}
	}
	r.Count("blockfail_rounds_with_failed_download", int64(rounds))
	if failed > 0 {
		r.Count("blockfail_sessions_with_failed_download", 1)
		path := "tip"
		if strings.Contains(strings.Join(fs.Steps, "\n"), "cf.resolve") {
			path = "checkpoint-lists"
		}
		liars, honest := 0, 0
		for _, b := range fs.Plan.Behaviours {
			switch {
			case b.Honest():
				honest++
			case len(b.Lies) > 0:
				liars++
			}
		}
		rel := "liars<=honest"
		if liars > honest {
			rel = "liars>honest"
		}
		r.Mark(fmt.Sprintf("blockfail|download-failed|%s|%s|behind-at-end=%v", path, rel, behind))
	}
	if behind && fs.BlockDownloadFailing() {
		r.Count("blockfail_sessions_behind_while_download_failing(no_progress_verdict)", 1)
	}
	// The seed-independent plans must reach the shape they are there for.
	if fs.Plan.Seed == l1.BlockFailPlanFromSeed(0, int(fs.Plan.Seed-880001)&3).Seed {
		if failed == 0 {
			r.Inconclusive("blockfail-fixed-plan-did-not-reach-a-failed-download")
		} else {
			r.Count("blockfail_fixed_plans_reaching_a_failed_download", 1)
		}
	}
}

// countIOFault records what a session of the iofault family observed.
func countIOFault(r *evid.Run, fs *l1.FilterSession) {
	fam := fs.Plan.Family
	if strings.HasPrefix(fam, "iofault/random") {
		fam = "iofault/random"
	}
	r.Count("sessions:"+fam, 1)
	counts, marks, inc := l1.IOFaultEvidence(fs)
	for k, v := range counts {
		r.Count(k, v)
	}
	for _, m := range marks {
		r.Mark(m)
	}
	if inc != "" {
		r.Inconclusive(inc)
	}
}

// countCatchUp records what a session of the truncbatch / twostage families
// observed, and that the seed-independent plans reached their shape.
func countCatchUp(r *evid.Run, fs *l1.FilterSession, behind bool) {
	r.Count("sessions:"+fs.Plan.Family, 1)
	all, whole := fs.TruncatedServed()
	honest := false
	for _, b := range fs.Plan.Behaviours {
		honest = honest || b.Honest()
	}
	if all > 0 {
		r.Count("truncated_cfheaders_batches_served", int64(all))
		r.Count("truncated_cfheaders_batches_served_whole_intervals", int64(whole))
		r.Count("sessions_with_truncated_batch_served", 1)
		if honest {
			r.Count("sessions_with_truncated_batch_served_next_to_honest_peer", 1)
		}
		r.Mark(fmt.Sprintf("truncated-batch-served|whole=%v|honest-present=%v|two-stage=%v|behind-at-end=%v", whole > 0, honest, fs.Plan.PreLen > 0, behind))
	}
	if strings.HasPrefix(fs.Plan.Family, "truncbatch") && l1.TruncFixedIndex(fs.Plan) >= 0 {
		if whole == 0 && l1.TruncFixedIndex(fs.Plan) != 3 || all == 0 {
			r.Inconclusive("truncbatch-fixed-plan-did-not-serve-a-truncated-batch")
		} else {
			r.Count("truncbatch_fixed_plans_serving_a_truncated_batch", 1)
		}
	}
	if fs.Plan.PreLen > 0 {
		r.Count("twostage_sessions", 1)
		if fs.Stage1Tip == fs.Plan.PreLen {
			r.Count("twostage_sessions_stage1_synced_to_its_tip", 1)
		}
		if fs.Stage2Lag >= 1000 {
			r.Count("twostage_sessions_stage2_starting_at_least_one_interval_behind", 1)
		}
	}
	if fs.PartialCheckpointed > 0 {
		r.Count("checkpointed_rounds_starting_from_partially_stored_interval", int64(fs.PartialCheckpointed))
		r.Count("connected_events_in_those_rounds", int64(fs.PartialCheckpointedEvents))
		r.Mark(fmt.Sprintf("checkpointed-from-partial-interval|%s", fs.Plan.Family))
	}
	if strings.HasPrefix(fs.Plan.Family, "twostage") && l1.TwoStageFixedIndex(fs.Plan) >= 0 {
		if fs.PartialCheckpointed == 0 {
			r.Inconclusive("twostage-fixed-plan-did-not-reach-a-checkpointed-round-from-a-partial-interval")
		} else {
			r.Count("twostage_fixed_plans_reaching_a_checkpointed_round_from_a_partial_interval", 1)
		}
	}
}

func behaviours(fs *l1.FilterSession) string {
	var parts []string
	for _, b := range fs.Plan.Behaviours {
		switch {
		case b.Silent:
			parts = append(parts, "silent")
		case len(b.Lies) == 0:
			parts = append(parts, "honest")
		default:
			parts = append(parts, b.Lies[0].Kind)
		}
	}
	// order-insensitive
	for i := range parts {
		for j := i + 1; j < len(parts); j++ {
			if parts[j] < parts[i] {
				parts[i], parts[j] = parts[j], parts[i]
			}
		}
	}
	return strings.Join(parts, ",")
}

func tail(s []string, n int) []string {
	if len(s) > n {
		return s[len(s)-n:]
	}
	return s
}

func witness(fs *l1.FilterSession, st *l1.StepObs) any {
	w := map[string]any{"plan": fs.Plan, "script": tail(fs.Steps, 60), "bans": fs.Bans}
	if st != nil {
		w["step_kind"] = st.Kind
		w["pre_block_tip"] = len(st.Pre) - 1
		w["post_block_tip"] = len(st.Post) - 1
		w["pre_filter_tip"] = len(st.PreF) - 1
		w["post_filter_tip"] = len(st.PostF) - 1
		w["events"] = len(st.Events)
	}
	return w
}
