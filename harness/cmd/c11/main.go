// Command c11 is the runtime-monitoring check for property C11: every block
// subscriber sees the backlog from its height followed by every chain event
// emitted after its registration, once, in order, however slowly it reads;
// subscribers do not disturb each other; after Cancel/Stop the channel is
// closed.
//
// The parent process only aggregates. Schedules run in child processes
// (this binary with -child) because a defect of this kind can surface as a
// panic on one of the manager's own goroutines ("send on closed channel"),
// which no recover() in the harness can catch, and because every schedule
// sets its own process-wide GOMAXPROCS.
package main

import (
	"bufio"
	"bytes"
	"encoding/json"
	"flag"
	"fmt"
	"io"
	"os"
	"os/exec"
	"regexp"
	"runtime"
	"strconv"
	"strings"
	"sync"
	"sync/atomic"
	"time"

	"verif/internal/c11"
	"verif/internal/c11l2"
	"verif/internal/evid"
	"verif/internal/l2"
)

var (
	fChild  = flag.Bool("child", false, "internal: run a shard of schedules and print results")
	fN      = flag.Int("n", 0, "internal: total number of schedules")
	fNG     = flag.Int("ng", 0, "internal: number of general-family schedules (the first ng indices)")
	fW      = flag.Int("w", 0, "internal: shard index")
	fWW     = flag.Int("W", 1, "internal: number of shards")
	fAfter  = flag.Int("after", -1, "internal: resume after this schedule index")
	fReplay = flag.String("replay", "", "replay file (or a schedule seed) to re-run many times")
	fWdMs   = flag.Int("watchdog-ms", 0, "override the 30 s watchdog (development only)")
	fL2Only = flag.Bool("c11-l2-only", false, "development: run only the client family (package c11l2)")
)

// schedSeed derives the seed of schedule i from the run seed (splitmix64).
// Bit 0 selects the family: the first ng indices are general schedules, the
// rest are stop-storm schedules.
func schedSeed(run int64, i, ng int) int64 {
	s := rawSeed(run, i) &^ 1
	if i >= ng {
		s |= 1
	}
	return s
}

func rawSeed(run int64, i int) int64 {
	z := uint64(run)*0x9E3779B97F4A7C15 + uint64(i+1)*0xBF58476D1CE4E5B9
	z ^= z >> 30
	z *= 0xBF58476D1CE4E5B9
	z ^= z >> 27
	z *= 0x94D049BB133111EB
	z ^= z >> 31
	return int64(z >> 1)
}

// isSample: the written-out samples are the first four general schedules and
// the first two storm schedules.
func isSample(i, ng int) bool { return i < 4 || (i >= ng && i < ng+2) }

func params() c11.Params {
	return c11.Params{SetProcs: true, WatchdogMs: *fWdMs}
}

type childLine struct {
	Index  int        `json:"index"`
	Result c11.Result `json:"result"`
}

// aggLine is the child's running aggregate of uneventful schedules.
type aggLine struct {
	Cases    map[string][2]int `json:"cases"` // fingerprint -> {non-trivial runs, trivial runs}
	Counters map[string]int64  `json:"counters"`
	Maxima   map[string]int64  `json:"maxima"`
	N        int               `json:"n"`
}

func newAggLine() *aggLine {
	return &aggLine{Cases: map[string][2]int{}, Counters: map[string]int64{}, Maxima: map[string]int64{}}
}

func (a *aggLine) add(res c11.Result) {
	c := a.Cases[res.Fingerprint]
	if res.Nontrivial {
		c[0]++
	} else {
		c[1]++
	}
	a.Cases[res.Fingerprint] = c
	for k, v := range res.Counters {
		if strings.HasSuffix(k, "_max") {
			if v > a.Maxima[k] {
				a.Maxima[k] = v
			}
			continue
		}
		a.Counters[k] += v
	}
	a.N++
}

func runChild(seed int64) {
	out := bufio.NewWriterSize(os.Stdout, 1<<16)
	ag := newAggLine()
	flush := func() {
		if ag.N == 0 {
			return
		}
		b, _ := json.Marshal(ag)
		out.WriteString("A ")
		out.Write(b)
		out.WriteString("\n")
		out.Flush()
		ag = newAggLine()
	}
	for i := *fW; i < *fN; i += *fWW {
		if i <= *fAfter {
			continue
		}
		fmt.Fprintf(out, "B %d\n", i)
		out.Flush()
		res := c11.RunSchedule(schedSeed(seed, i, *fNG), params())
		if !isSample(i, *fNG) && len(res.Violations) == 0 && len(res.Inconclusive) == 0 && !res.Poisoned {
			ag.add(res)
			if ag.N >= 250 {
				flush()
			}
			continue
		}
		b, err := json.Marshal(childLine{Index: i, Result: res})
		if err != nil {
			b, _ = json.Marshal(childLine{Index: i, Result: c11.Result{Seed: res.Seed,
				Fingerprint: res.Fingerprint, Inconclusive: []string{"result not serialisable: " + err.Error()}}})
		}
		out.WriteString("R ")
		out.Write(b)
		out.WriteString("\n")
		out.Flush()
		if res.Poisoned {
			// Goroutines of this schedule may be stuck; the parent restarts
			// a fresh process for the rest of the shard.
			flush()
			os.Exit(3)
		}
	}
	flush()
	os.Exit(0)
}

type tailBuf struct {
	mu sync.Mutex
	b  []byte
}

func (t *tailBuf) Write(p []byte) (int, error) {
	t.mu.Lock()
	t.b = append(t.b, p...)
	if len(t.b) > 64<<10 {
		t.b = t.b[len(t.b)-(48<<10):]
	}
	t.mu.Unlock()
	return len(p), nil
}

var (
	reNum = regexp.MustCompile(`0x[0-9a-f]+|\d+`)
	reFn  = regexp.MustCompile(`(?m)^(github\.com/(?:lightninglabs/neutrino/blockntfns|lightningnetwork/lnd/queue)\.[^\n]*)\([^()\n]*\)\s*$`)
)

// crashSig normalises a crash of the child: the panic message plus the first
// frame inside the code under test.
func crashSig(stderr string) (string, string) {
	msg := "exit-without-panic-message"
	for _, l := range strings.Split(stderr, "\n") {
		if strings.HasPrefix(l, "panic: ") || strings.HasPrefix(l, "fatal error: ") {
			msg = reNum.ReplaceAllString(strings.TrimSpace(l), "N")
			break
		}
	}
	frame := "no-blockntfns-frame"
	if i := strings.Index(stderr, msgAnchor(stderr)); i >= 0 {
		if m := reFn.FindStringSubmatch(stderr[i:]); m != nil {
			frame = m[1]
		}
	}
	msg = strings.ReplaceAll(msg, " ", "-")
	return "crash/" + msg + "/" + frame, msg
}

func msgAnchor(s string) string {
	for _, l := range strings.Split(s, "\n") {
		if strings.HasPrefix(l, "panic: ") || strings.HasPrefix(l, "fatal error: ") {
			return l
		}
	}
	return ""
}

type agg struct {
	r        *evid.Run
	abort    atomic.Bool // too many blocked schedules: stop everything
	poisoned atomic.Int32
	cmds     sync.Map // worker -> *exec.Cmd
	mu       sync.Mutex
	ndone    int
	ng       int
	maxima   map[string]int64
	counters map[string]int64
}

func (a *agg) take(cl childLine) {
	res := cl.Result
	a.r.Case(res.Fingerprint, res.Nontrivial)
	a.mu.Lock()
	a.ndone++
	for k, v := range res.Counters {
		if strings.HasSuffix(k, "_max") {
			if v > a.maxima[k] {
				a.maxima[k] = v
			}
			continue
		}
		a.counters[k] += v
	}
	a.mu.Unlock()
	if isSample(cl.Index, a.ng) {
		sc := c11.Derive(res.Seed, params())
		ops := sc.Ops
		if len(ops) > 60 {
			sc.Ops = ops[:60] + fmt.Sprintf("...(%d)", len(ops))
		}
		a.r.Sample(map[string]any{"index": cl.Index, "schedule": sc, "observed": res.Subs, "counters": res.Counters})
	}
	for _, v := range res.Violations {
		a.r.Violation(v.Sig, v.What, map[string]any{
			"schedule_index": cl.Index, "schedule_seed": res.Seed,
			"replay_hint": fmt.Sprintf("./check C11 quick -replay %d   (re-runs this schedule many times; interleavings vary)", res.Seed),
			"detail":      v.Witness,
		})
	}
	for _, s := range res.Inconclusive {
		if i := strings.Index(s, " ("); i > 0 {
			s = s[:i]
		}
		a.r.Inconclusive(s)
	}
}

func (a *agg) takeAgg(al aggLine) {
	for fp, c := range al.Cases {
		for i := 0; i < c[0]; i++ {
			a.r.Case(fp, true)
		}
		for i := 0; i < c[1]; i++ {
			a.r.Case(fp, false)
		}
	}
	a.mu.Lock()
	a.ndone += al.N
	for k, v := range al.Counters {
		a.counters[k] += v
	}
	for k, v := range al.Maxima {
		if v > a.maxima[k] {
			a.maxima[k] = v
		}
	}
	a.mu.Unlock()
}

func (a *agg) worker(w, W, n, ng int, wg *sync.WaitGroup) {
	defer wg.Done()
	after := -1
	for restarts := 0; ; restarts++ {
		if a.abort.Load() {
			return
		}
		args := []string{"-child", "-tier", a.r.Tier, "-seed", strconv.FormatInt(a.r.Seed, 10),
			"-n", strconv.Itoa(n), "-ng", strconv.Itoa(ng), "-w", strconv.Itoa(w), "-W", strconv.Itoa(W), "-after", strconv.Itoa(after),
			"-watchdog-ms", strconv.Itoa(*fWdMs)}
		cmd := exec.Command(os.Args[0], args...)
		var errb tailBuf
		cmd.Stderr = &errb
		stdout, err := cmd.StdoutPipe()
		if err != nil {
			a.r.Inconclusive("cannot start child: " + err.Error())
			return
		}
		if err := cmd.Start(); err != nil {
			a.r.Inconclusive("cannot start child: " + err.Error())
			return
		}
		a.cmds.Store(w, cmd)
		if a.abort.Load() {
			_ = cmd.Process.Kill()
		}
		rd := bufio.NewReaderSize(stdout, 1<<20)
		begun, finished := -1, -1
		for {
			line, err := rd.ReadBytes('\n')
			if len(line) > 2 {
				switch {
				case bytes.HasPrefix(line, []byte("B ")):
					begun, _ = strconv.Atoi(strings.TrimSpace(string(line[2:])))
				case bytes.HasPrefix(line, []byte("A ")):
					var al aggLine
					if jerr := json.Unmarshal(line[2:], &al); jerr != nil {
						a.r.Inconclusive("unparsable child aggregate")
					} else {
						a.takeAgg(al)
						finished = begun
					}
				case bytes.HasPrefix(line, []byte("R ")):
					var cl childLine
					if jerr := json.Unmarshal(line[2:], &cl); jerr != nil {
						a.r.Inconclusive("unparsable child result")
					} else {
						finished = cl.Index
						a.take(cl)
						if cl.Result.Poisoned && a.poisoned.Add(1) >= 3 && !a.abort.Swap(true) {
							// Each blocked schedule costs a full watchdog
							// period; three are enough to report.
							a.cmds.Range(func(_, c any) bool {
								_ = c.(*exec.Cmd).Process.Kill()
								return true
							})
						}
					}
				}
			}
			if err != nil {
				if err != io.EOF {
					a.r.Inconclusive("child pipe: " + err.Error())
				}
				break
			}
		}
		werr := cmd.Wait()
		if werr == nil || a.abort.Load() {
			return
		}
		if begun > finished {
			// The process died inside schedule `begun`.
			seed := schedSeed(a.r.Seed, begun, ng)
			sc := c11.Derive(seed, params())
			sig, msg := crashSig(string(errb.b))
			a.r.Case(sc.Fingerprint(), true)
			a.r.Violation(sig,
				fmt.Sprintf("the process running the manager died during a schedule: %s", msg),
				map[string]any{"schedule_index": begun, "schedule_seed": seed, "schedule": sc,
					"exit": werr.Error(), "stderr_tail": string(errb.b)})
			after = begun
		} else {
			// Exit 3 after a poisoned schedule (already reported), or some
			// other exit between schedules.
			if ee, ok := werr.(*exec.ExitError); !ok || ee.ExitCode() != 3 {
				a.r.Inconclusive("child exited abnormally between schedules: " + werr.Error())
			}
			after = finished
		}
		if restarts >= 8 {
			a.r.Inconclusive("shard abandoned after repeated child failures")
			return
		}
	}
}

func replay(r *evid.Run) {
	var seed int64
	if v, err := strconv.ParseInt(*fReplay, 10, 64); err == nil {
		seed = v
	} else {
		b, err := os.ReadFile(*fReplay)
		if err != nil {
			fmt.Fprintln(os.Stderr, err)
			os.Exit(2)
		}
		var doc struct {
			Witness struct {
				Seed int64 `json:"schedule_seed"`
			} `json:"witness"`
		}
		if err := json.Unmarshal(b, &doc); err != nil || doc.Witness.Seed == 0 {
			fmt.Fprintln(os.Stderr, "replay file has no witness.schedule_seed")
			os.Exit(2)
		}
		seed = doc.Witness.Seed
	}
	sc := c11.Derive(seed, params())
	b, _ := json.Marshal(sc)
	fmt.Printf("replaying schedule seed %d: %s\n", seed, b)
	// A schedule fixes the plan, not the interleaving: repeat it. Storm
	// schedules take about 1 ms, general ones a few ms.
	rounds := r.Pick(3000, 30000)
	if sc.Family == c11.FamStorm {
		rounds *= 10
	}
	hits := map[string]int{}
	for i := 0; i < rounds; i++ {
		res := c11.RunSchedule(seed, params())
		for _, v := range res.Violations {
			if hits[v.Sig] == 0 {
				w, _ := json.MarshalIndent(v.Witness, "", " ")
				fmt.Printf("round %d: %s\n  %s\n%s\n", i, v.Sig, v.What, w)
			}
			hits[v.Sig]++
		}
		if res.Poisoned {
			break
		}
	}
	fmt.Printf("replay: %d rounds, violations by signature: %v\n", rounds, hits)
	if len(hits) > 0 {
		os.Exit(1)
	}
	os.Exit(0)
}

func main() {
	r := evid.New("C11", "exploration")
	// Network-simulation part (package c11l2): subscriptions through the
	// complete client's public entry point. One child process per scenario.
	nL2 := r.Pick(16, 300)
	l2scen := func(seed int64, k int, res *l2.Result) {
		p := c11l2.FromSeed(seed, k)
		res.Name = fmt.Sprintf("c11-l2-%d", k)
		if p.Fixed != "" {
			res.Name += "-" + p.Fixed
		}
		c11l2.Run(p, res)
	}
	if l2.IsChild() {
		l2.RunScenarios(r, nL2, 300*time.Second, l2scen)
	}
	if *fChild {
		runChild(r.Seed)
		return
	}
	if *fReplay != "" {
		replay(r)
		return
	}
	r.Rule("One case = one schedule, a pure function of (run seed, index), run against a fresh real SubscriptionManager over the harness " +
		"NotificationSource (UNBUFFERED Notifications channel; backlog computed from the harness's own chain of handed-over events). " +
		"GENERAL family (first 400 / 20 000 indices): GOMAXPROCS in {1,2,4,16}; 0-60 preloaded blocks; 0-500 connect/disconnect events " +
		"(reorg bursts); 1-12 subscribers each with a start point (before emission / at hand-over k / at the instant Stop is called), a " +
		"height mode (0, tip, inside the chain, 1, above tip), a consumer kind (fast, gosched, slow, bursty, stalled = never reads until " +
		"released at the end, or never), a cancel timing (none, immediately, after N items read, at hand-over k from another goroutine, " +
		"after Stop; optionally two concurrent Cancel calls); Stop after quiescence, at hand-over k, or at once (optionally twice " +
		"concurrently). STORM family (the remaining 100 000 / 1 200 000 indices, about 1 ms each): 2-12 pre-registered prompt readers, " +
		"2-14 events emitted back to back, Stop called in the middle of the emission, 0-2 subscribers with a backlog arriving at that " +
		"instant. The source serialises 'event k handed over' and 'NotificationsSinceHeight(h) answered' into one order, which fixes every " +
		"subscription's registration point and hence its reference stream = backlog ++ events handed over afterwards. Fingerprint = family x " +
		"#subscribers x set of consumer kinds x set of cancel timings x stop timing x event-count bucket. Non-trivial = at least one " +
		"subscription registered and at least one notification was read by a subscriber. " +
		"CLIENT family (16 / 300 scenarios, one child process each, package c11l2): the complete real ChainService against scripted wire peers; " +
		"clients register through neutrino.RescanChainSource.Subscribe at seeded moments (idle; while / right after the chain grows; while / right after an " +
		"ordinary re-organisation; while block headers are ahead of filter headers the peers withhold; right after a re-organisation that removed some or all of " +
		"the block headers above the filter-header tip, or went through it, BEFORE any further block is connected; while a released filter-header batch of up to " +
		"160 (or the 1000-header batches of a checkpointed initial sync) is dispatched) with seeded best heights (0, 1, tip, just below the tip, as far below " +
		"the tip as the last re-organisation removed headers, uniform) and fast / slow / not-yet-reading consumers; some are cancelled. Judged whenever the client " +
		"reports the honest tip (filter headers released and caught up): each subscriber's stream must replay, from the committed chain up to its best height, to " +
		"exactly the committed chain up to the filter-header tip (no connected event skipping heights, none not building on what it holds, no disconnected " +
		"event for a held block below its tip), and must be consecutive connected blocks from best height + 1 followed by a suffix of what the first subscriber " +
		"(registered before any block was connected) was sent. The first three scenarios are independent of the seed (scenario 0: 40 blocks, 3 withheld " +
		"block headers replaced by a 4-block branch forking at the filter-header tip, then Subscribe(20/37/36/39/40/1), then release).")
	r.Assume("Go channel semantics: a receive that reports closed means no later send on that channel can succeed (it would panic, which the parent reports as a crash violation).")
	r.Assume("The manager calls NotificationsSinceHeight and receives from Notifications() on one goroutine (its handler); the harness source relies on this only to attribute registration points, and parks its emitter during the call so that the attribution is exact.")
	r.Assume("At most one NewSubscription call per distinct height value is in flight at a time (harness-imposed) so that a NotificationsSinceHeight(h) call can be attributed to its caller.")
	r.Assume("Interleavings are those the Go scheduler produces under varied GOMAXPROCS, yields and micro-sleeps; they are not enumerated.")
	r.Assume("Client family: the scripted peers and the generated chains are correct (they are shared with the other network-simulation checks); a connected event for a block a subscriber already holds (backlog overlapping the batch being dispatched) and a disconnected event for a block it never held (block header above the filter-header tip) are replayed as no-ops and only counted, as C19's replay oracle does; a verdict 'never delivered' is given only for a subscriber that is still below the committed tip 30 s after the client AND the first subscriber reached it.")

	failed, held, after := c11.MeasureErrorPath(50)
	r.Set("observation_error_path", map[string]any{
		"failed_subscribe_calls":                     failed,
		"goroutines_left_running_until_manager_stop": held,
		"goroutines_left_after_manager_stop":         after,
		"note":                                       "observation only, not asserted: the statement does not speak about goroutines of failed registrations",
	})

	// 400 / 20 000 schedules of the general family plus a large number of
	// very short stop-storm schedules (about 1 ms each).
	ng := r.Pick(400, 20000)
	n := ng + r.Pick(100000, 1200000)
	if *fL2Only {
		l2.RunScenarios(r, nL2, 300*time.Second, l2scen)
		r.Finish(1)
		return
	}
	W := runtime.NumCPU()
	if W > 16 {
		W = 16
	}
	if W > n {
		W = n
	}
	a := &agg{r: r, ng: ng, maxima: map[string]int64{}, counters: map[string]int64{}}
	// The client family mostly waits (peers withholding answers, the
	// client's retry periods): it runs alongside the schedule workers.
	l2done := make(chan struct{})
	go func() {
		defer close(l2done)
		l2.RunScenarios(r, nL2, 300*time.Second, l2scen)
	}()
	var wg sync.WaitGroup
	for w := 0; w < W; w++ {
		wg.Add(1)
		go a.worker(w, W, n, ng, &wg)
	}
	wg.Wait()
	<-l2done
	for k, v := range a.counters {
		r.Count(k, v)
	}
	for k, v := range a.maxima {
		r.Count(k, v)
	}
	if a.abort.Load() {
		r.Set("aborted_early", "three schedules ended in a watchdog verdict; the remaining schedules were not run")
	}
	r.Count("schedules_completed", int64(a.ndone))
	if a.ndone < n {
		r.Count("schedules_not_run_or_lost", int64(n-a.ndone))
	}
	r.Finish(r.Pick(150, 2000))
}
