// Command c13 is the runtime-monitoring check for property C13: "bans are
// exact, durable and enforced".
//
// Store half (internal/c13 store.go ...): the real banman.Store over a real
// bbolt database is driven with seeded ban / unban / status / reopen
// sequences over many spellings of IPv4 and IPv6 addresses, and every Status
// answer is compared with a reference model keyed by the canonical network
// prefix.
//
// Enforcement half (internal/c13 enf*.go, engine L2): the complete real
// ChainService against scripted wire peers — peers without the required
// service bits, provable filter-header / filter-checkpoint liars, an
// invalid-block server, and honest-class peers as negative control — with an
// oracle over the ban store, IsBanned and the per-address connection
// timeline ("the client does not keep a connection to a banned address").
//
// Both halves report into one evidence file (enforcement counters carry the
// prefix enf_); the run only counts when BOTH halves observed enough.
//
//	c13 -tier quick|thorough -seed N
//	c13 -c13-enf-only            only the enforcement half
//	c13 -c13-enf-k K             scenario K of the enforcement half, in-process, result printed
//	c13 -c13-seq N | -c13-timed-only   store-half reproduction (enforcement half skipped)
package main

import (
	"fmt"

	"verif/internal/c13"
	"verif/internal/evid"
)

func main() {
	r := evid.New("C13", "exploration")

	// A scenario child of the enforcement half runs its scenario and exits.
	c13.EnforcementChild(r)

	floor := 0
	if !c13.EnforcementOnly() {
		c13.StorePart(r)
		floor += c13.StoreMinDistinct
	}
	if !c13.StoreOnly() {
		t := c13.EnforcementPart(r)
		if ok, why := t.EnforcementFloorMet(); !ok {
			// The store half alone reaches thousands of shapes: make sure a
			// silent enforcement half cannot hide behind it.
			fmt.Println("C13: " + why)
			r.Inconclusive(why)
			floor = 1 << 30
		} else {
			// Enforcement fingerprints all start with "enf/" (disjoint from
			// the store half's), so this floor needs both halves.
			floor += t.Distinct
		}
	}
	r.Finish(floor)
}
