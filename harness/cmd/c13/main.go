// Command c13 is the runtime-monitoring check for property C13: "bans are
// exact, durable and enforced".
//
// Store half (internal/c13): the real banman.Store over a real bbolt database
// is driven with seeded ban / unban / status / reopen sequences over many
// spellings of IPv4 and IPv6 addresses, and every Status answer is compared
// with a reference model keyed by the canonical network prefix.
//
// Enforcement half (network simulation): added later into this same program.
package main

import (
	"verif/internal/c13"
	"verif/internal/evid"
)

func main() {
	r := evid.New("C13", "exploration")

	c13.StorePart(r)

	// enforcementPart(r) — added later: peers banned + disconnected in the
	// network simulation. It reports into the same Run; raise the floor
	// below by its own minimum when it lands.

	r.Finish(c13.StoreMinDistinct)
}
