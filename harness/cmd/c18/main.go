// C18: concurrent use of the client is free of data races.
//
// The workloads of the other checks — the network simulations (C03 L2, C04,
// C05, C06, C13 enforcement, C17) with extra goroutines hammering every public
// getter, and the concurrent component drivers (C09 C10 C11 C12 C15 C16) — are
// rebuilt with the Go race detector (`go build -race -tags verif`) and run
// with GORACE="halt_on_error=0 log_path=…". This program collects the report
// blocks from the per-process log files, keeps those with a frame of
// github.com/lightninglabs/neutrino in either stack, and deduplicates them by
// the pair of first neutrino frames. Their own verdicts are not C18's
// business; only the race reports are.
package main

import (
	"encoding/json"
	"fmt"
	"os"
	"os/exec"
	"path/filepath"
	"regexp"
	"sort"
	"strings"
	"sync"
	"time"

	"verif/internal/c18"
	"verif/internal/evid"
	"verif/internal/l2"
)

// utxoBase is the scenario number of the first utxo-stop scenario.
const utxoBase = 1000

type unit struct {
	id     string
	scale  string // VERIF_SCALE for this workload under -race
	tier   string
	hammer bool
}

func main() {
	r := evid.New("C18", "other")
	// The late-answer family (internal/c18) runs in this program itself, which
	// ./check builds with -race: one child process per scenario. Scenarios
	// 0..LateFixed-1 are fixed, the rest seeded.
	nLate := r.Pick(6, 40)
	// The utxo-stop family (internal/c18/utxostop.go) runs the same way; its
	// scenarios are numbered from utxoBase.
	nUtxo := r.Pick(5, 40)
	if l2.IsChild() {
		l2.RunScenarios(r, nLate, 300*time.Second, func(seed int64, k int, res *l2.Result) {
			if k >= utxoBase {
				c18.UtxoStopScenario(seed, k-utxoBase, res)
				return
			}
			c18.LateAnswerScenario(seed, k, res)
		})
	}
	root := evid.Root()
	scratch := os.Getenv("VERIF_SCRATCH")
	if scratch == "" {
		scratch, _ = os.MkdirTemp("", "verif-c18-")
	}
	logDir := filepath.Join(scratch, "race-logs")
	_ = os.MkdirAll(logDir, 0o755)
	binDir := filepath.Join(root, ".bin")
	if b := os.Getenv("VERIF_BIN"); b != "" {
		binDir = b
	}

	// The late-answer scenarios mostly wait on the client's 2 s query worker
	// timeout: they run next to the borrowed workloads (and their builds), on a
	// pool of their own. Their race reports go to race-logs/late.<pid>.
	lateDone := make(chan struct{})
	lateStart := time.Now()
	var lateWall time.Duration
	// (Inherited by the scenario children; the borrowed workloads below are
	// given their own GORACE, which overrides this one.)
	_ = os.Setenv("GORACE", "halt_on_error=0 history_size=4 log_path="+filepath.Join(logDir, "late"))
	go func() {
		defer close(lateDone)
		only := os.Getenv("VERIF_C18_UNITS")
		if only != "" && only != "late" && only != "late0" && only != "utxo" {
			return
		}
		ks := make([]int, nLate)
		for i := range ks {
			ks[i] = i
		}
		if only == "late0" {
			ks = ks[:1]
		}
		if only == "utxo" {
			ks = nil
		}
		if only == "" || only == "utxo" {
			for i := 0; i < nUtxo; i++ {
				ks = append(ks, utxoBase+i)
			}
		}
		l2.RunScenarioList(r, ks, 8, 300*time.Second, nil)
		lateWall = time.Since(lateStart)
	}()

	quick := r.Quick()
	units := []unit{
		{"c04", pick(quick, "0.65", "1"), "quick", true}, // 13 scenarios: includes the fixed ones up to 12 (sync peer dropping while current)
		{"c03", pick(quick, "0.25", "1"), "quick", false},
		{"c09", pick(quick, "0.4", "0.2"), pick(quick, "quick", "thorough"), false},
		{"c10", pick(quick, "0.5", "0.25"), pick(quick, "quick", "thorough"), false},
		{"c11", pick(quick, "0.1", "0.05"), pick(quick, "quick", "thorough"), false},
		{"c12", pick(quick, "0.5", "0.25"), pick(quick, "quick", "thorough"), false},
		{"c15", pick(quick, "1", "0.25"), pick(quick, "quick", "thorough"), false},
		{"c16", pick(quick, "0.15", "0.05"), pick(quick, "quick", "thorough"), false},
	}
	for _, opt := range []unit{
		{"c05", pick(quick, "0.5", "0.25"), pick(quick, "quick", "thorough"), true},
		{"c06", pick(quick, "0.5", "0.25"), pick(quick, "quick", "thorough"), true},
		{"c17", pick(quick, "0.5", "0.2"), pick(quick, "quick", "thorough"), true},
		{"c13", pick(quick, "0.5", "0.25"), "quick", true},
	} {
		// Only workloads of checks that are registered in MANIFEST.json.
		if registered(root, opt.id) {
			units = append(units, opt)
		}
	}

	// Development aid: VERIF_C18_UNITS=late (late0) runs the late-answer family
	// (its first fixed scenario) alone, VERIF_C18_UNITS=c04,c06 only those
	// borrowed workloads. Registered commands never set it.
	if only := os.Getenv("VERIF_C18_UNITS"); only != "" {
		var keep []unit
		for _, u := range units {
			for _, id := range strings.Split(only, ",") {
				if id == u.id {
					keep = append(keep, u)
				}
			}
		}
		units = keep
	}

	// Build every workload with the race detector (the build cache makes the
	// instrumented dependencies a one-off cost).
	var built []unit
	for _, u := range units {
		args := []string{"build", "-race", "-tags", "verif", "-o", filepath.Join(binDir, "race-"+u.id), "./cmd/" + u.id}
		if mf := os.Getenv("VERIF_MODFILE"); mf != "" {
			args = append([]string{"build", "-modfile=" + mf}, args[1:]...)
		}
		cmd := exec.Command("go", args...)
		cmd.Dir = filepath.Join(root, "harness")
		cmd.Env = append(os.Environ(), "GOFLAGS=-mod=mod", "GOPROXY=off")
		if out, err := cmd.CombinedOutput(); err != nil {
			fmt.Fprintf(os.Stderr, "race build of %s failed: %v\n%s\n", u.id, err, out)
			r.Inconclusive("race build failed: " + u.id)
			continue
		}
		built = append(built, u)
	}
	if len(built) == 0 && os.Getenv("VERIF_C18_UNITS") == "" {
		fmt.Println("C18: no workload could be built with -race")
		os.Exit(2)
	}

	// Run them: the L2 programs are mostly waiting on protocol timers, the
	// component drivers are CPU bound; two at a time keeps a 16-core box busy
	// without starving the timers.
	type res struct {
		u    unit
		wall time.Duration
		err  error
		tail string
	}
	results := make([]res, len(built))
	sem := make(chan struct{}, 2)
	var wg sync.WaitGroup
	for i, u := range built {
		wg.Add(1)
		go func(i int, u unit) {
			defer wg.Done()
			sem <- struct{}{}
			defer func() { <-sem }()
			t0 := time.Now()
			sub := filepath.Join(scratch, "race-run-"+u.id)
			_ = os.MkdirAll(sub, 0o755)
			cmd := exec.Command(filepath.Join(binDir, "race-"+u.id), "-tier", u.tier, "-seed", fmt.Sprint(r.Seed))
			cmd.Env = append(os.Environ(),
				"GORACE=halt_on_error=0 log_path="+filepath.Join(logDir, u.id),
				"VERIF_SCALE="+u.scale,
				"VERIF_SCRATCH="+sub,
				// The workloads write their evidence/replays elsewhere: C18 must
				// not overwrite the other properties' evidence files.
				"VERIF_ROOT="+filepath.Join(scratch, "race-root-"+u.id),
				"VERIF_OUT=",
			)
			if u.hammer {
				cmd.Env = append(cmd.Env, "VERIF_HAMMER=1")
			}
			_ = os.MkdirAll(filepath.Join(scratch, "race-root-"+u.id), 0o755)
			// Known findings must be visible to the workload so that it behaves as usual.
			if b, err := os.ReadFile(filepath.Join(root, "KNOWN_FINDINGS.json")); err == nil {
				_ = os.WriteFile(filepath.Join(scratch, "race-root-"+u.id, "KNOWN_FINDINGS.json"), b, 0o644)
			}
			out, err := cmd.CombinedOutput()
			tail := string(out)
			if len(tail) > 600 {
				tail = tail[len(tail)-600:]
			}
			results[i] = res{u, time.Since(t0), err, tail}
			_ = os.RemoveAll(sub)
		}(i, u)
	}
	wg.Wait()
	unitsWall := time.Since(lateStart)
	<-lateDone
	r.Count("wall_s_borrowed_workloads", int64(unitsWall.Seconds()))
	r.Count("wall_s_late_answer_family", int64(lateWall.Seconds()))

	// Collect the reports.
	files, _ := filepath.Glob(filepath.Join(logDir, "*"))
	type report struct {
		unit string
		text string
		sig  string
		kind string // neutrino | third-party | harness
	}
	var reports []report
	for _, f := range files {
		b, err := os.ReadFile(f)
		if err != nil {
			continue
		}
		unitID := strings.SplitN(filepath.Base(f), ".", 2)[0]
		for _, blk := range strings.Split(string(b), "==================") {
			if !strings.Contains(blk, "WARNING: DATA RACE") {
				continue
			}
			sig, kind := classify(blk)
			reports = append(reports, report{unitID, blk, sig, kind})
		}
	}
	bySig := map[string][]report{}
	harness, third := 0, 0
	for _, rp := range reports {
		switch rp.kind {
		case "neutrino":
			bySig[rp.sig] = append(bySig[rp.sig], rp)
		case "harness":
			harness++
		default:
			third++
		}
	}
	sigs := make([]string, 0, len(bySig))
	for s := range bySig {
		sigs = append(sigs, s)
	}
	sort.Strings(sigs)
	for _, s := range sigs {
		rp := bySig[s][0]
		r.Violation("c18/data-race/"+s, fmt.Sprintf("the race detector reported %d data race(s) with this pair of client frames (first seen in workload %s)", len(bySig[s]), rp.unit),
			map[string]any{"workload": rp.unit, "report": rp.text, "occurrences": len(bySig[s])})
	}

	// Evidence.
	procs := 0
	for _, rs := range results {
		fp := "race-run|" + rs.u.id
		ok := rs.err == nil
		r.Case(fp, true)
		r.Count("workload_wall_s_"+rs.u.id, int64(rs.wall.Seconds()))
		if !ok {
			r.Count("workloads_with_nonzero_exit", 1)
			// The borrowed workload's own verdict (about ITS property, under the
			// race detector's slowdown) is not C18's: it is shown for the record,
			// reworded so that it cannot be read as a verdict line of this check.
			// The property's own check decides it.
			tail := strings.ReplaceAll(rs.tail, "VIOLATION property=", "borrowed-workload verdict (not C18's, decided by that property's own check): property=")
			tail = strings.ReplaceAll(tail, "KNOWN-FINDING: property=", "borrowed-workload known finding: property=")
			fmt.Fprintf(os.Stderr, "race workload %s exited with %v; tail:\n%s\n", rs.u.id, rs.err, tail)
		}
		procs++
	}
	r.Count("race_instrumented_workloads", int64(procs))
	r.Count("race_log_files", int64(len(files)))
	r.Count("reports_total", int64(len(reports)))
	r.Count("reports_with_client_frames", int64(len(reports)-harness-third))
	r.Count("reports_distinct_after_dedup", int64(len(sigs)))
	r.Count("reports_third_party_only", int64(third))
	r.Count("reports_harness_only", int64(harness))
	var names []string
	for _, u := range built {
		names = append(names, u.id+"@"+u.tier+"x"+u.scale)
	}
	r.Set("explanation", "Go race detector (happens-before) over the race-instrumented workloads "+strings.Join(names, ", ")+
		", and over the late-answer scenarios of this program itself (built with -race by ./check)"+
		"; the borrowed L2 workloads additionally run 9 goroutines calling BestBlock, IsCurrent, GetBlockHash/Header/Height, Peers, ConnectedCount, NetTotals, IsBanned, BanPeer/UnbanPeer, GetCFilter, GetBlock, Subscribe/Cancel in a loop. A report counts when either stack has a github.com/lightninglabs/neutrino frame; reports are deduplicated by the pair of first client frames. Sound for what it reports, silent about paths and interleavings not executed.")
	r.Rule("each race-instrumented borrowed workload run is one evaluation (fingerprint race-run|<id>). LATE-ANSWER family (internal/c18; scenarios 0-2 fixed, the rest seeded; 6 quick / 40 thorough, one race-instrumented child process each, run next to the borrowed workloads): the complete ChainService syncs a generated chain from 2-4 simulated peers and then makes rounds of concurrent GetBlock (default and base encoding) / GetCFilter (single, OptimisticBatch, OptimisticReverseBatch with MaxBatchSize) calls for blocks not fetched before; a director keyed by REQUEST makes whichever peer is asked first for a request the plan marks late hold its answer for 2.3-3 s (past the 2 s query worker timeout, so the work manager hands the request to another peer; a batched answer may send a prefix at once) and then send it, and makes the peer asked next answer at that moment plus a seeded offset of -60..+60 ms, so that the answer of the peer the client gave up on arrives just before, with, or just after the answer to the retried request, several times per scenario; requests not marked late are answered after 0.1-0.35 s so that the calls of a round spread over all workers. Chains above 2000 blocks do the same to the checkpointed getcfheaders requests of the filter-header sync. Fixed scenarios: 0 = GetBlock only (4 peers, 5 rounds, 10 late answers), 1 = GetCFilter single/forward/reverse late next to GetBlock calls (3 peers), 2 = late cfheaders during sync of 2100 blocks, then mixed rounds (2 peers). Fingerprints late-answer|<plan>|peers|kinds|orders and marks late-answer|<call kind>|late-answer-{before,after}-retry-answer come from the event log (the held answer was sent after the client had asked another peer); non-trivial = at least one such late answer. The family has no oracle of its own: its race reports are collected like those of every other workload (workload id 'late'). UTXO-STOP family (internal/c18/utxostop.go; scenarios 0-1 fixed, the rest seeded; 5 quick / 40 thorough, race-instrumented children of this program as well): the real UtxoScanner over a generated chain, 1-3 goroutines inside Enqueue and 0-2 readers waiting in Result when Stop is called, with the batch manager idle, inside a scan (held in a fetch), or parked at the client's pause point right after it unlocked the scanner mutex (the one place it leaves from without taking the mutex again); the first enqueuer is parked by a SLEEP (no happens-before edge from the harness) at the pause point past Enqueue's quit check, mutex held, so that Stop's walk over the queue happens while that Enqueue is inside its critical section; fingerprint utxo-stop|<where the batch manager is>|enq<n>|readers<m>, non-trivial = the enqueuer was parked before Stop was called and everything returned")
	r.Sample(map[string]any{"workloads": names, "race_log_files": len(files), "reports": len(reports)})
	r.Set("borrowed_workloads", names) // (the sample slots may be taken by the late-answer scenarios)
	r.Assume("checkptr is enabled by -race as well; reports entirely inside harness code mean a broken harness (exit 2), reports entirely inside third-party packages are counted but not charged to the client")
	if harness > 0 {
		for _, rp := range reports {
			if rp.kind == "harness" {
				fmt.Fprintf(os.Stderr, "HARNESS-ONLY RACE (workload %s):\n%s\n", rp.unit, rp.text)
				break
			}
		}
		fmt.Println("C18: data race entirely inside harness code: the harness is broken")
		r.Broken("a data race report entirely inside harness code")
	}
	_ = os.RemoveAll(logDir)
	r.Finish(2)
}

// registered reports whether MANIFEST.json lists a check for the id.
func registered(root, id string) bool {
	b, err := os.ReadFile(filepath.Join(root, "MANIFEST.json"))
	if err != nil {
		return false
	}
	var m struct {
		Checks []struct {
			PropertyID string `json:"property_id"`
		} `json:"checks"`
	}
	if json.Unmarshal(b, &m) != nil {
		return false
	}
	for _, c := range m.Checks {
		if strings.EqualFold(c.PropertyID, id) {
			return true
		}
	}
	return false
}

func pick(quick bool, q, t string) string {
	if quick {
		return q
	}
	return t
}

var frameRe = regexp.MustCompile(`(?m)^  (\S+)\(`)

// classify returns a dedup signature and the kind of a race report block.
func classify(blk string) (string, string) {
	// Split into the stacks of the report (separated by blank lines).
	parts := strings.Split(blk, "\n\n")
	var firsts []string
	client, harness, other := false, false, false
	for _, p := range parts {
		if !strings.Contains(p, "by goroutine") && !strings.Contains(p, "by main goroutine") {
			continue
		}
		if strings.Contains(p, "created at:") {
			continue
		}
		first := ""
		for _, m := range frameRe.FindAllStringSubmatch(p, -1) {
			fn := m[1]
			switch {
			case strings.HasPrefix(fn, "github.com/lightninglabs/neutrino"):
				client = true
				if first == "" {
					first = strings.TrimPrefix(fn, "github.com/lightninglabs/neutrino")
				}
			case strings.HasPrefix(fn, "verif/") || strings.HasPrefix(fn, "main."):
				harness = true
			default:
				other = true
			}
		}
		if first == "" {
			first = "-"
		}
		firsts = append(firsts, first)
	}
	sort.Strings(firsts)
	sig := strings.Join(firsts, "|")
	switch {
	case client:
		return sig, "neutrino"
	case harness && !other:
		return sig, "harness"
	case harness:
		return sig, "harness"
	default:
		return sig, "third-party"
	}
}
