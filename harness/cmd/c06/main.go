// C06: a block is returned only if it is the requested, internally valid
// block. Engine L2: the complete real ChainService against scripted wire
// peers whose answers to getdata(block) are rewritten; one child process per
// scenario. The scenario itself lives in internal/c06.
package main

import (
	"time"

	"verif/internal/c06"
	"verif/internal/evid"
	"verif/internal/l2"
)

func main() {
	r := evid.New("C06", "exploration")
	r.Rule("seeded scenarios: a chain of 60-300 generated blocks (1-9 transactions, with and without witness data, BIP141 commitment when any), 1-4 peers honest for everything except getdata(block); the real client syncs, then GetBlock is called 8-20 times per scenario: height 1, tip, random blocks, sequentially and 2-4 concurrently (different and same hashes), repeated (cache path, also with a 2.5 kB cache that evicts), with and without Encoding(BaseEncoding), with default and explicit NumRetries, for a hash without header. Answers are rewritten from a labelled vocabulary (honest, twice, other(+mutated) block next to the honest one, full witness block for a non-witness request | other block, mutated other block, nothing, notfound | raw garbage, truncated block message | requested header with: output value/script changed, tx added/removed/duplicated(CVE-2012-2459)/reordered, all witnesses stripped, all but coinbase stripped, witness bit flipped, coinbase nonce changed, commitment altered, non-witness re-encoding, witness added, header only | invalid+honest from one peer in both orders). 'director' scenarios answer the successive requests of a call from a per-call stream whichever peer the client picks (ban kinds are assigned round-robin over scenarios so the quick tier covers all of them); 'per-peer' scenarios (every 4th) give each peer a fixed personality and use as many concurrent calls as peers. Every message is labelled from the BYTES sent (decoded as the client decodes them) by byte comparison with the generator's block; btcd's CheckBlockSanity/ValidateWitnessCommitment are run on the harness side only to cross-check labels. ORACLE: (1) a returned block's witness serialisation equals the generator's block for that hash (non-witness serialisation for BaseEncoding calls) and something valid had been sent for it; (2) every BlockCache entry likewise under its inv key; (3) from the ban store reopened after Stop: a peer whose answer to an active call carried the requested header but not the block is banned with reason InvalidBlock, a peer that never sent such a block carries no InvalidBlock ban, IsBanned agrees with the store, banned addresses end with no open connection and never complete a new handshake; (4) every job that was handed the true block by an untainted peer succeeded, and a sequential failing call used all its tries. BAN-HISTORY family (scenarios 0..5 quick / 0..399 thorough; 0 and 1 fixed): 1-3 offending hosts (some with a second simulated peer on another port of the same IP) and 1-2 honest hosts; a seeded sequence of steps: offence round (the named hosts answer their next block request with an invalid block of a kind of the vocabulary, while connected+1..2 concurrent GetBlock calls for different blocks hand every peer a request; repeated until the host was asked), UnbanPeer(host, permanent false|true, same or other port), restart of the client on the same data directory, honest rounds (also repeating an earlier hash). A reference model of the ban state per host (banned once a call returned during which the host sent an invalid block with the requested header; not banned once UnbanPeer returned) is compared at every quiescent checkpoint (after each offence round, unban, restart, at the end, and from the store reopened after Stop) with the ban store read next to the client and with IsBanned for every port of the host: (3') a host the model says is banned has an InvalidBlock record whatever its earlier history (ban, unban, restart), IsBanned agrees with the store, a banned host ends with no open connection and completes no handshake until UnbanPeer is called, a host that never offended carries no InvalidBlock ban; rules (1), (2) and 'a call handed the true block by a host that never misbehaved succeeds' apply to every call. distinct = scenario shape + per-call (answers seen x block has witness x encoding x #peers x mode x concurrency x outcome); non-trivial = at least one call returned")
	r.Assume("client knobs (exported variables) are shortened as in l2.init; the query worker timeouts (2 s doubling) are real; the simulated peers implement the protocol subset of DESIGN appendix B; the generator's blocks are the ground truth (cross-checked against btcd's validators on the harness side)")
	r.Assume("a non-witness (BaseEncoding) request answered with the honest witness-stripped encoding of a block that HAS witness data is labelled 'ambig': the client bans such a peer (the commitment cannot be validated) and the property text does not decide whether it should; neither ban nor no-ban nor success is asserted there, only counted")
	r.Assume("an invalid and a valid block sent back-to-back by the same peer reach the query worker in either order (one goroutine per message): there the ban is not required and a later failure is not counted against the client")
	r.Assume("the client hands received messages to its query workers asynchronously (one goroutine per message): a block sent as a bystander to one request can be consumed as the answer to the NEXT request to that peer. Bystander blocks are therefore drawn from blocks no call ever requests; and a failing call may have spent one try on a worker whose peer the client had just disconnected, so the retry-budget rule allows one unobserved try per peer the client had reason to drop")
	r.Assume("simulated peers answer inline (well inside the 2 s worker timeout); delayed answers, which a client may legitimately never look at, are not generated")
	r.Assume("ban-history scenarios: a ban is due once the call that received the invalid block has returned (the ban is written by the response handler before the query can go on); UnbanPeer's own obligations (record removed, host connected again) are preconditions of the next step, not asserted")
	n := r.Pick(16, 2000)
	// The ban-history family comes first in the case list: scenarios
	// 0..nBan-1 (0 and 1 are fixed, seed-independent), then the n scenarios
	// described first.
	nBan := r.Pick(6, 400)
	l2.Main(r, nBan+n, 300*time.Second, r.Pick(40, 300), func(seed int64, k int, res *l2.Result) {
		if k < nBan {
			c06.BanHistScenario(seed, k, res)
			return
		}
		c06.Scenario(seed, k-nBan, res)
	})
}
