// Command c09 is the runtime-monitoring check for property C09: "rescan
// callbacks form a consistent chain walk and miss no relevant tx".
//
// Component part (internal/c09): the real neutrino.Rescan over a harness
// ChainSource backed by a chaingen block tree and a real
// blockntfns.SubscriptionManager; seeded histories of growth, reorganisations,
// fetch failures and filter updates at every phase of the rescan; one ordered
// log judged by the reference walk. Family stale-rewind (internal/c09/stale.go):
// Update with Rewind (with / without DisableDisconnectedNtfns) applied while the
// block the caller holds is off the best chain (reorganisation not yet consumed
// by the rescan: notifications queued, racing, or during a walk by height).
// Family opaque-spend (internal/c09/opaque.go): watched outpoints spent through
// inputs from which the spent script cannot be recovered (empty / non-push-only
// / unparseable signature script, key-path-looking witness), met by the walk by
// height, by notification, after a rewind and across a reorganisation.
//
// L2 part (internal/c09/l2.go): the same oracle applied to the real client end
// to end: neutrino.NewRescan(&neutrino.RescanChainSource{svc}) on the complete
// ChainService against live simulated peers while the honest chain grows and
// reorganises, peers drop filter / block requests and Rescan.Update is issued;
// one child process per scenario. Family l2-persist (internal/c09/l2persist.go):
// the client runs with PersistToDisk, a first rescan fills the filter store
// through the batch writer, the filter cache is made cold (restart on the same
// data directory / tiny cache) and a second rescan (also rewound by an Update)
// over the same range is served from the persisted store. Family
// l2-stale-rewind (l2.go planStale): the stale-rewind shape on the complete
// client (rescan parked in a callback, peers reorganise, client adopts, Update
// with Rewind on offer when the callback returns).
package main

import (
	"verif/internal/c09"
	"verif/internal/evid"
	"verif/internal/l2"
)

func main() {
	r := evid.New("C09", "exploration")
	if l2.IsChild() {
		// Scenario child of the L2 part: runs one scenario and exits.
		l2.RunScenarios(r, 0, c09.L2ChildTimeout, c09.L2Dispatch(r))
	}

	c09.Component(r)

	c09.L2Run(r)

	r.Finish(c09.MinDistinct + c09.L2MinDistinct + c09.L2PersistMinDistinct)
}
