// Command c09 is the runtime-monitoring check for property C09: "rescan
// callbacks form a consistent chain walk and miss no relevant tx".
//
// Component part (internal/c09): the real neutrino.Rescan over a harness
// ChainSource backed by a chaingen block tree and a real
// blockntfns.SubscriptionManager; seeded histories of growth, reorganisations,
// fetch failures and filter updates at every phase of the rescan; one ordered
// log judged by the reference walk.
//
// L2 part (full simulated network): added later into this same program.
package main

import (
	"verif/internal/c09"
	"verif/internal/evid"
)

func main() {
	r := evid.New("C09", "exploration")

	c09.Component(r)

	// l2 part added later: NewRescan(&RescanChainSource{svc}) against live
	// simulated peers while the honest chain reorganises. It reports into
	// the same Run; raise the floor below by its own minimum when it lands.

	r.Finish(c09.MinDistinct)
}
