// l2dbg runs one C04-style scenario verbosely. Debug tool.
package main

import (
	"flag"
	"fmt"
	"os"
	"time"

	"github.com/btcsuite/btclog"
	"github.com/lightninglabs/neutrino"
	"github.com/lightninglabs/neutrino/query"

	"verif/internal/l2"
)

func main() {
	seed := flag.Int64("seed", 1, "")
	k := flag.Int("k", 0, "")
	verbose := flag.Bool("v", false, "")
	wait := flag.Duration("wait", 40*time.Second, "")
	flag.Parse()
	if *verbose {
		b := btclog.NewBackend(os.Stdout)
		l := b.Logger("NTRN")
		l.SetLevel(btclog.LevelDebug)
		neutrino.UseLogger(l)
		q := b.Logger("QURY")
		q.SetLevel(btclog.LevelDebug)
		query.UseLogger(q)
	}
	t0 := time.Now()
	plan := l2.PlanFromSeed(*seed, *k)
	fmt.Printf("plan: %+v\n", plan)
	b := l2.Build(plan)
	fmt.Println("built in", time.Since(t0))
	if err := b.W.StartClient(nil, l2.ClientOpts{}); err != nil {
		fmt.Println("start:", err)
		return
	}
	fmt.Println("client started at", time.Since(t0))
	b.StartBackground()
	ok, stuck, last := b.AwaitTip(b.Tip(), *wait)
	fmt.Println("await:", ok, stuck, last, "at", time.Since(t0))
	for _, l := range b.W.Log.Tail(80) {
		fmt.Println("  ", l)
	}
	b.StopBackground()
	fmt.Println("safety:", b.SafetyViolation())
	okStop, err := b.W.StopClient(30 * time.Second)
	fmt.Println("stop:", okStop, err)
	b.W.Cleanup()
}
