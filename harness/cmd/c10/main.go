// Command c10 is the runtime monitor for property C10: every GetUtxo request
// is answered exactly once with the true fate of its outpoint, whatever the
// arrival times of requests and blocks relative to the running batch scan,
// and no caller is left waiting.
package main

import (
	"flag"
	"fmt"
	"os"
	"runtime"
	"strings"
	"sync"

	"verif/internal/c10"
	"verif/internal/evid"
	"verif/internal/l2"
)

func main() {
	only := flag.Int("case", -1, "run only this case index (debugging)")
	from := flag.Int("from", -1, "run only the case indexes from this one on, without the L2 part (debugging; 300 = sweep family in the quick tier)")
	verbose := flag.Bool("v", false, "print each violating case")
	minimal := flag.Bool("minimal", false, "run only the hand-minimised witness schedules and print what they show")
	r := evid.New("C10", "exploration")
	if l2.IsChild() {
		// Scenario child of the L2 part: runs one scenario and exits.
		l2.RunScenarios(r, 0, c10.L2ChildTimeout, c10.L2Scenario)
	}
	r.Rule("component: a case = one request set (1-8 GetUtxo requests: outpoints spent later / never spent / created-and-spent " +
		"in one block / never created / out-of-range index / sibling outputs of one tx; start heights 0, 1, below " +
		"creation, creation, +1, between, spend, spend+1, after, tip, tip+1, far above) on a generated chain of " +
		"20-150 blocks served by a gated ChainSource to the real UtxoScanner; the schedule parks the scanner inside " +
		"chosen BestBlock/GetBlockHash/GetCFilter/GetBlock calls and there enqueues requests, raises the best height, " +
		"fails the call or calls Stop. Fingerprint of a request = (start relation to creation/spend/tip, outpoint kind, " +
		"arrival point relative to the batch, duplicate kind, fault that fired, answer kind); a case counts under its " +
		"focus request, other requests are marked; non-trivial = the scanner made at least one chain callback and the " +
		"case was decided. Sweep family (appended to the case list; the first cases are seed-independent, on a chain with a constant seed): " +
		"the served chain gets blocks that spend 2-4 outpoints nothing else spends in SEPARATE transactions in seeded order, interleaved with the block's " +
		"own transactions (two or more outputs of one funding transaction swept by different transactions, outputs of earlier sweeping transactions swept " +
		"again, a funding transaction or new watched outputs created in the same block); a case asks about the outpoints one such block spends (sometimes " +
		"all but one) with 0-3 duplicate requests per outpoint (same / lower / higher start height, the sweep block as start block), all queued before the " +
		"scanner starts (one batch), or joining the running batch at / just below their start height, or arriving for a later batch (idle, end-of-batch " +
		"check, while the sweep block is being fetched), plus requests for outputs the sweep block creates, unrelated requests, the sweep block being the " +
		"tip or arriving during / after the batch, and rarely a fault; same oracle; fingerprint op-kind = swept-<first|mid|last>-of-<n>-edup<number of " +
		"duplicate requests for outpoints spent by earlier transactions of the block>" + c10.L2Rule)
	c10.L2Describe(r)
	r.Assume("chaingen blocks/filters are a faithful chain (cross-checked against btcd by the generator's own tests)")
	r.Assume("btcd gcs filter matching has no false negatives for the script of a spent output")
	r.Assume("the reference RefUtxo (linear scan of blocks start..E) is the meaning of the property statement; E ranges over the best heights visible between enqueue and delivery")
	r.Assume("goroutine dumps print the receiver pointer of (*UtxoScanner).batchManager (used only for the lost-request verdict)")

	if *minimal {
		ci := c10.BuildChain(0, r.Seed*1009, 24)
		for _, cs := range c10.MinimalCases(ci) {
			o := c10.RunCase(cs, ci)
			fmt.Printf("minimal case %d (%s): callbacks=%v batches=%d\n", cs.Index, cs.PlanOp, o.Calls, o.Batches)
			for _, q := range o.Reqs {
				fmt.Printf("   request %s start=%d tip=%d: first=%v second=%v unanswered=%q acceptable=%v\n",
					q.Spec.OpStr[:10], q.Spec.Start, q.TipAtEnq, q.First, q.Second, q.Unanswered, q.Expected)
			}
			for _, v := range o.Violations {
				fmt.Printf("   VIOLATED %s: %s\n", v.Sig, v.What)
			}
			if o.Inconclusive != "" {
				fmt.Printf("   inconclusive: %s\n", o.Inconclusive)
			}
		}
		return
	}
	n := r.Pick(300, 30000)
	nChains := r.Pick(12, 36)
	nSweep := r.Pick(110, 6000) // random sweep cases, after the fixed ones
	nSweepChains := r.Pick(6, 18)

	// Chain pool: pure function of the seed.
	pool := make([]*c10.ChainInfo, nChains)
	var wg sync.WaitGroup
	sem := make(chan struct{}, runtime.NumCPU())
	for i := 0; i < nChains; i++ {
		wg.Add(1)
		go func(i int) {
			defer wg.Done()
			sem <- struct{}{}
			defer func() { <-sem }()
			tip := 20 + (i*130)/(nChains-1)
			pool[i] = c10.BuildChain(i, r.Seed*1009+int64(i), tip)
		}(i)
	}
	// Sweep family: its own chains (pure function of the seed) and the chain
	// of the seed-independent scenarios.
	sweepPool := make([]*c10.ChainInfo, nSweepChains)
	for i := 0; i < nSweepChains; i++ {
		wg.Add(1)
		go func(i int) {
			defer wg.Done()
			sem <- struct{}{}
			defer func() { <-sem }()
			tip := 24 + (i*96)/(nSweepChains-1)
			sweepPool[i] = c10.BuildSweepChain(i, r.Seed*1009+7777+int64(i), tip)
		}(i)
	}
	var fixedChain *c10.ChainInfo
	wg.Add(1)
	go func() {
		defer wg.Done()
		fixedChain = c10.BuildSweepChain(0, c10.FixedSweepChainSeed, c10.FixedSweepChainTip)
	}()
	wg.Wait()
	fixedSweep := c10.FixedSweepCases(fixedChain, n)
	var sweepBlocks, sweepSib int
	for _, ci := range append([]*c10.ChainInfo{fixedChain}, sweepPool...) {
		sweepBlocks += len(ci.Sweeps)
		for _, g := range ci.Sweeps {
			if g.Siblings {
				sweepSib++
			}
		}
	}
	r.Count("sweep_chains", int64(nSweepChains+1))
	r.Count("sweep_blocks_in_chains", int64(sweepBlocks))
	r.Count("sweep_blocks_sweeping_sibling_outputs", int64(sweepSib))
	var blocks, spentLater, sameBlock, never int
	for _, ci := range pool {
		blocks += len(ci.Blocks)
		spentLater += len(ci.SpentLater)
		sameBlock += len(ci.SameBlock)
		never += len(ci.NeverSpent)
	}
	r.Count("chains", int64(nChains))
	r.Count("chain_blocks", int64(blocks))
	r.Count("pool_outpoints_spent_later", int64(spentLater))
	r.Count("pool_outpoints_spent_in_creating_block", int64(sameBlock))
	r.Count("pool_outpoints_never_spent", int64(never))

	workers := runtime.NumCPU()
	if workers > 16 {
		workers = 16
	}
	idx := make(chan int)
	var ww sync.WaitGroup
	for w := 0; w < workers; w++ {
		ww.Add(1)
		go func() {
			defer ww.Done()
			for i := range idx {
				switch {
				case i < n:
					cs := c10.GenCase(r.Seed, i, pool)
					report(r, c10.RunCase(cs, pool[cs.Chain]), *verbose)
				case i < n+len(fixedSweep):
					report(r, c10.RunCase(fixedSweep[i-n], fixedChain), *verbose)
				default:
					cs := c10.GenSweepCase(r.Seed, i-n-len(fixedSweep), i, sweepPool)
					report(r, c10.RunCase(cs, sweepPool[cs.Chain]), *verbose)
				}
			}
		}()
	}
	for i := 0; i < n+len(fixedSweep)+nSweep; i++ {
		if *only >= 0 && i != *only || i < *from {
			continue
		}
		idx <- i
	}
	close(idx)
	ww.Wait()
	sweepMu.Lock()
	r.Set("sweep_samples", sweepSamples)
	sweepMu.Unlock()
	r.Count("duplicate_delivery_warnings_logged", c10.DuplicateDeliveries())
	floor := r.Pick(300, 2000)
	if *only >= 0 || *from >= 0 {
		floor = 1
	} else {
		// L2 part: ChainService.GetUtxo of the real client against live
		// simulated peers (internal/c10/l2.go), one child process per
		// scenario, reporting into the same run.
		c10.L2Run(r)
		floor += c10.L2MinDistinct
	}
	r.Finish(floor)
}

func report(r *evid.Run, o *c10.Outcome, verbose bool) {
	if o.Inconclusive != "" {
		r.Inconclusive(o.Inconclusive)
	}
	focusFP := ""
	for i, q := range o.Reqs {
		if !q.Enqueued {
			r.Count("requests_not_reached", 1)
			continue
		}
		r.Count("requests", 1)
		if q.Spec.Late {
			r.Count("requests_read_late", 1)
		}
		if q.Spec.Dup != "none" {
			r.Count("requests_dup_"+q.Spec.Dup, 1)
		}
		r.Count("progress_callbacks", q.Progress)
		kind := "unanswered"
		switch {
		case q.EnqueueErr != "":
			kind = "enqueue_refused"
		case q.Unanswered != "" && q.First == nil:
			kind = "unanswered_" + q.Unanswered
		case q.First != nil:
			kind = q.First.Kind
		}
		r.Count("answers_"+kind, 1)
		if q.Second != nil {
			r.Count("second_reads_returned", 1)
		}
		if i == 0 {
			focusFP = q.FP
		} else if o.Nontrivial {
			r.Mark(q.FP)
		}
	}
	if focusFP == "" {
		focusFP = "focus-not-enqueued"
	}
	r.Case(focusFP, o.Nontrivial)
	r.Count("gates_used", o.GatesUsed)
	r.Count("steps_at_idle", o.IdleSteps)
	r.Count("steps_forced", o.Forced)
	r.Count("batches_observed", o.Batches)
	for k, c := range o.Calls {
		r.Count("callbacks_"+c10.CBName[k], c)
	}
	r.Count("fault_"+o.Fault, 1)
	if sp := o.Spec.Sweep; sp != nil {
		reportSweep(r, o, sp)
	} else {
		r.Sample(compact(o))
	}
	seen := map[string]bool{}
	for _, v := range o.Violations {
		if seen[v.Sig] {
			continue
		}
		seen[v.Sig] = true
		if verbose {
			fmt.Fprintf(os.Stderr, "case %d: %s: %s\n", o.Spec.Index, v.Sig, v.What)
		}
		r.Violation(v.Sig, v.What, o)
	}
}

// reportSweep records what a case of the sweep family exercised.
func reportSweep(r *evid.Run, o *c10.Outcome, sp *c10.SweepPlan) {
	r.Count("sweep_cases", 1)
	if sp.Fixed != "" {
		r.Count("sweep_cases_fixed", 1)
		if o.Nontrivial {
			r.Mark("sweep-fixed:" + sp.Fixed)
		}
	}
	r.Count(fmt.Sprintf("sweep_cases_%d_watched_spends_in_one_block", sp.Watched), 1)
	r.Count("sweep_cases_mode_"+sp.Mode, 1)
	if sp.Siblings {
		r.Count("sweep_cases_block_sweeps_sibling_outputs", 1)
	}
	if sp.StartBlock {
		r.Count("sweep_cases_request_starts_at_sweep_block", 1)
	}
	if sp.MadeReqs > 0 {
		r.Count("sweep_cases_with_request_for_output_created_in_sweep_block", 1)
	}
	if sp.DupEarlier {
		r.Count("sweep_cases_duplicated_outpoint_spent_before_another_watched", 1)
	}
	// Measured: requests about the block's spends that were answered with a
	// spend in that block, per position of the spend among the watched ones;
	// and cases where a duplicated outpoint AND an outpoint spent by a later
	// transaction were both answered so with all of them queued before start.
	dupAnswered, laterAnswered, allPre := 0, 0, true
	for _, q := range o.Reqs {
		role := q.Spec.Role
		if role != "focus" && role != "sweep" && role != "sweep-dup" {
			continue
		}
		if !q.Enqueued {
			allPre = false
			continue
		}
		if q.Arrival != "pre-start" {
			allPre = false
		}
		if role == "sweep-dup" {
			r.Count("sweep_duplicate_requests", 1)
		} else {
			r.Count("sweep_main_requests", 1)
		}
		if q.First != nil && q.First.Kind == c10.KSpent && q.First.SpendHeight == uint32(sp.Height) {
			r.Count("sweep_answers_spent_in_sweep_block", 1)
			if role == "sweep-dup" {
				dupAnswered++
			}
			if !strings.HasPrefix(q.Spec.Shape, "swept-first") {
				laterAnswered++
				r.Count("sweep_answers_spent_by_a_later_tx_of_sweep_block", 1)
			}
		}
	}
	if sp.DupEarlier && dupAnswered > 0 && laterAnswered > 0 {
		r.Count("sweep_cases_dup_and_later_spend_both_reported", 1)
		if allPre {
			r.Count("sweep_cases_dup_and_later_spend_both_reported_one_batch", 1)
		}
	}
	s := compact(o).(map[string]any)
	s["sweep"] = sp
	sweepMu.Lock()
	if len(sweepSamples) < 3 && sp.Fixed != "" {
		sweepSamples = append(sweepSamples, s)
	}
	sweepMu.Unlock()
}

var (
	sweepMu      sync.Mutex
	sweepSamples []any
)

// compact keeps a sample small.
func compact(o *c10.Outcome) any {
	type rq struct {
		Outpoint string   `json:"outpoint"`
		Start    uint32   `json:"start"`
		Tip      [2]int32 `json:"tip_enqueue_answer"`
		FP       string   `json:"fingerprint"`
		Answer   string   `json:"answer"`
	}
	var rs []rq
	for _, q := range o.Reqs {
		a := ""
		if q.First != nil {
			a = q.First.String()
		}
		rs = append(rs, rq{q.Spec.OpStr, q.Spec.Start, [2]int32{q.TipAtEnq, q.TipAtAns}, q.FP, a})
	}
	return map[string]any{
		"case": o.Spec.Index, "chain_tip": o.Spec.Tip, "steps": o.Spec.Steps,
		"requests": rs, "callbacks": o.Calls, "batches": o.Batches,
	}
}
