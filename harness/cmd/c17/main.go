// C17: Stop always completes and releases every blocked caller. Engine L2: the
// complete real ChainService against scripted wire peers, one child process
// per scenario; Stop is called at a seed-chosen moment of a seed-chosen state.
package main

import (
	"encoding/json"
	"flag"
	"fmt"
	"os"
	"path/filepath"
	"sort"
	"strconv"
	"sync"
	"time"

	"github.com/btcsuite/btclog"
	"github.com/lightninglabs/neutrino"
	"github.com/lightninglabs/neutrino/query"

	"verif/internal/c17"
	"verif/internal/evid"
	"verif/internal/l2"
)

// apiRule describes the second part of the case list.
const apiRule = "PEER-STATE API FAMILY (scenarios after the main list): application goroutines call the public peer-state API of the complete client (ConnectedCount, Peers, PeerByAddr, AddedNodeInfo, OutboundGroupCount, ForAllPeers, ConnectedPeers, ConnectNode with connected / spare / never-seen addresses and with host names, RemoveNodeByAddr/ByID, DisconnectNodeByAddr/ByID, BanPeer, UnbanPeer, IsBanned) from shortly before Stop is called until it has returned, at a stop state of the main list (17 of them, rotated by seed). The harness supplies Config.NameResolver: the lookup of one designated call (ConnectNode(host) / ConnectNode(new address) / UnbanPeer(new address), permanent or not) is held INSIDE the client's peer handler when Stop is called and answers 0-400 ms after Stop was CALLED with a reachable peer / an unreachable address / an error / no address; other variants: callers only (6-16), or slow lookups (up to 2-31 ms each) without a gate. j=0 and j=1 are fixed (ConnectNode(\"some.host:18444\", permanent) resolving, Stop, answer 300 ms later; the same through UnbanPeer with 6 pollers); j=2 is one more fixed scenario of the main kind kept here so that the main list keeps its numbering (GetCFilter fetching and persisting filters without pause while Stop waits for a broadcast no peer reacts to). ORACLE: the one of the main list (Stop returns, counted from the release of what the harness holds; every call in flight, the callers and the designated call included, returns; a sweep of one call of every operation made after Stop returned returns; the directory reopens); nothing is asserted about the VALUES the peer-state calls return (their signatures carry no shutdown error)"

// extraRule describes the third part of the case list.
const extraRule = "THIRD LIST (scenarios after the API family). HOST NAMES AMONG THE PERMANENT PEERS, a dimension of every non-fixed scenario of all three lists (half of them, drawn from a generator of its own so that the rest of a plan is what it was): next to the reachable peers (IP literals) Config.ConnectPeers carries 0-2 host names the scripted Config.NameResolver answers with an error / an empty result on every lookup (before, while and after Stop runs), 0-1 name that resolves to a reachable peer the client is not otherwise configured with, 0-1 that does so only from the n-th lookup on (n in 1..1000: before Stop or never within the scenario), lookups taking 0-20 ms, names first or last in the list; the client retries a failing lookup every ConnectionRetryInterval (300 ms here). STOP WHILE A REBROADCAST IS BEING ANSWERED: a transaction was accepted earlier (pending in the broadcaster), 1-2 new blocks make the client announce it again, 1-5 peers hold that announcement; Stop is called; -1 (racing) / 0-800 ms after Stop was CALLED each peer reacts as planned: requests the transaction and rejects it 0-120 ms after it arrived with one of 10 reject messages (already confirmed x2, in the mempool x2, invalid x4, fee, unknown), takes it silently, or stays silent; what most peers say rotates over {confirmed, mempool, invalid, mixture, confirmed, fee}; BroadcastTimeout 2.5-5 s, QueryRejectTimeout 0.3-1 s, optionally one more SendTransaction pending. m=0 and m=1 are fixed: an idle synced client with the permanent peer \"never.resolves.sim:18444\" whose lookups always fail, Stop; transaction accepted, one block announced, Stop, 400 ms later every one of 3 peers requests the re-announced transaction and rejects it as already confirmed. ORACLE: the one of the main list, Stop's latency counted from the peers' reaction (held by the harness)"

// startRule describes the fourth part of the case list.
const startRule = "START-STATE FAMILY (scenarios after the third list; run on a pool of their own next to the other lists because a scenario of it that finds Stop blocked spends 40+36 s waiting): the application constructs the service (NewChainService on a fresh directory, one or two honest peers configured) and (a) never calls Start, or (b) configures Config.HeadersImport with a pair of files in chainimport's format cut from the honest chain that the importer must refuse before it writes anything (file of another network / truncated block-header file / file starting above the store tip / first header not connecting to the stored genesis / filter-header file missing / one header missing inside the file / filter source not configured), so that ChainService.Start returns the import error before any subsystem was started, or (c) starts it (Stop right after Start returned, or once synced); seed-chosen public calls are made before Stop (GetUtxo enqueued, a block subscription being registered and read, BestBlock, GetBlockHeader, GetBlock of the only known block, SendTransaction), PersistToDisk on/off; then Stop; then one call of every kind as in the main list, optionally Stop AGAIN and (where Start had been called) Start again; then the database is closed and the directory reopened, and in half of the scenarios a second client WITHOUT the import syncs the chain of 30-120 blocks from the honest peers and is stopped. s=0..3 are fixed (seed-independent): never started; Start failed on a file of another network; Start failed on a file that does not connect, PersistToDisk, reopen and sync; started and synced, Stop, Stop again, Start again. ORACLE: the one of the main list and nothing weaker: Stop returns (40 s watchdog, then the same goroutine-dump argument; the signature of a hang carries state=never-started | start-failed:<what made the import fail> | started); every call made before Stop and every call made after it returns (a repeated Stop and a Start after Stop report nothing by design: returning is the rule for them); the directory reopens with valid stores; the second client reaches the honest tip. Nothing is asserted about Start itself"

// pileRule describes the fifth part of the case list.
const pileRule = "PILE-UP FAMILY (scenarios after the start-state family, on a pool of their own): Stop while the CHECKPOINTED filter-header sync has many verified cfheaders answers outstanding at once and the one goroutine that writes them to the filter header store is not draining. A chain of 14,000-27,000 blocks (genesis older than 24 h, so the sync takes the work-manager path) is fetched in one round of 6-12 getcfheaders requests of up to 2 checkpoint intervals each (the last of 1 or 2) by 6-12 honest peers = query workers (0-2 of them 10-40 ms slower); every peer HOLDS the request it was given; the writer is taken out: parked at cf.beforeWrite inside the first write of the round (the answer it can write is let through alone), or kept behind the chain-change mutex by a reorganisation of depth 1-6 of the block header tip that is parked at rb.betweenStores / rb.afterBlock (k-th block; the answer the writer can write next is let through once the reorganisation is parked, and a goroutine dump shows the writer inside writeCFHeadersMsg); then ALL peers answer at once (further requests of the round are answered as they come), the harness reads from its event log that the answers of the round have gone out (all of them, or no further one for 400 ms) plus a grace of 20-150 ms, optionally starts callers (GetBlock / GetCFilter / subscription histories / a rescan, peers silent for filters / blocks / neither), and calls Stop; what it parked is released 30-400 ms after Stop was CALLED, or (one in four) 0-3 ms BEFORE Stop is called so that the writer drains while Stop runs. q=0 is fixed (seed-independent): 10 peers, 10 requests, writer parked at cf.beforeWrite, 9 answers released together, Stop, writer released 150 ms later; q>=1 rotate the place (shifted by the seed). Non-trivial only if at least 5 answers went out while the writer was inside a write (measured: counters pileup/*). ORACLE: the one of the main list and nothing else (Stop returns, counted from the release of what the harness holds, 40 s watchdog then the goroutine-dump argument whose signature names where Stop is parked and the frames it waits for; every caller returns; one call of every kind made afterwards returns; the directory reopens with valid stores and a second client reaches the honest tip)"

func main() {
	one := flag.Int("one", -1, "debug: run this scenario in-process and print its result")
	verbose := flag.Bool("v", false, "debug: client logs to stdout")
	r := evid.New("C17", "exploration")
	// Case list: scenarios 0..nMain-1 are the main list, nMain..nMain+nAPI-1
	// the peer-state API family (scenario j = k-nMain of c17.APIScenario), the
	// next the third list (scenario m = k-nMain-nAPI of c17.ExtraScenario), the
	// next the start-state family (scenario s = k-nMain-nAPI-nExtra of
	// c17.StartStateScenario), the rest the pile-up family (scenario q =
	// k-nMain-nAPI-nExtra-nStart of c17.PileScenario).
	nMain, nAPI, nExtra, nStart, nPile := r.Pick(36, 2500), r.Pick(11, 300), r.Pick(8, 240), r.Pick(8, 48), r.Pick(6, 60)
	scenario := func(seed int64, k int, res *l2.Result) {
		if k >= nMain+nAPI+nExtra+nStart {
			c17.PileScenario(seed, k-nMain-nAPI-nExtra-nStart, res)
			return
		}
		if k >= nMain+nAPI+nExtra {
			c17.StartStateScenario(seed, k-nMain-nAPI-nExtra, res)
			return
		}
		if k >= nMain+nAPI {
			c17.ExtraScenario(seed, k-nMain-nAPI, res)
			return
		}
		if k >= nMain {
			c17.APIScenario(seed, k-nMain, res)
			return
		}
		c17.Scenario(seed, k, res)
	}
	if *one >= 0 {
		debugOne(scenario, r.Seed, *one, *verbose)
		return
	}
	r.Rule("scenario k: k=0 and k=1 are fixed (a UTXO scan fetching its first block when no peer is connected / when the connected peers never answer getdata; then Stop); for k>=2 the stop state rotates over {idle, k-th headers message of the initial header sync, k-th cfheaders response of the checkpointed / tip filter-header sync, a goroutine of the client parked at each of the 7 pause points (3 of them inside a real reorganisation of depth 1-6 run by rollBackToHeight, 2 inside a filter-header write, 1 before a header batch write, 1 inside a block-subscription registration), GetBlock/GetCFilter pending at silent peers, a storm of 8-16 callers fetching blocks from 4-8 answering peers (workers hand in results while Stop runs), rescan in catch-up / retrying a block / current (each with a goroutine in WaitForShutdown and one in Update), running UTXO batch, broadcast in flight, rebroadcast in flight, block subscriptions with a blocked reader and with a non-reading one holding a backlog, all peers unresponsive, all peers never reading (connection buffers 256-4096 bytes, filled by getheaders the peers provoke), no peer connected}; seed-chosen: chain 50-2500 blocks, 3 retarget presets, headers per message 100-2000, 1-8 peers from {honest, slow, silent, never-reading, flapping} (first one honest), which calls are in flight and how long they have been pending (0-7.8 s: first try / later tries of the query workers), delay between trigger and Stop (0-40 ms), when a parked point is released (30-120 ms after CALLING Stop), PersistToDisk. ORACLE (1) Stop returns; after a 40 s watchdog the verdict is 'violated' only if goroutine dumps taken every 3 s over 36 s show Stop and every goroutine running client code parked in identical frames, none runnable/new/ended, and not one network event; else inconclusive. (2) every call in flight returns within 15 s after Stop returned (otherwise the same dump argument; additionally 'spinning' = inside client code in every dump, goroutines moving, zero network events over 36 s after all subsystems are stopped), with an error or a correct result (nil block / nil filter / 'not found' for an existing output, each with nil error = violation); one call of every kind made AFTER Stop returned must return, with an error unless served from a cache. (3) database and both header stores reopen; block chain passes the reference validator; filter tip <= block tip; every committed filter header equals the ground truth; a second client on the directory reaches the honest tip (a miss is a violation only if its state was stable during the last third of 45 s). distinct = state x peer-kind multiset x behaviour switched on before Stop x in-flight call kinds x outcome; non-trivial = the intended state was reached (trigger fired / point parked / request seen by a peer) and Stop was called in it" + " " + apiRule + " " + extraRule + " " + startRule + " " + pileRule)
	r.Assume("exported client knobs are shortened as in l2.init (QueryTimeout 1.5 s, ...); simulated peers implement DESIGN appendix B and never lie; a parked pause point is the harness's doing: Stop may wait for it and its latency is measured from the release; identical stacks of all client goroutines in 13 dumps plus an empty network log over 36 s (the longest timer of the client is the query worker's 32 s) is taken as 'no progress'")
	n := nMain + nAPI + nExtra
	if os.Getenv("VERIF_SCRATCH") == "" {
		d, _ := os.MkdirTemp("", "verif-c17-")
		os.Setenv("VERIF_SCRATCH", d)
		defer os.RemoveAll(d)
	}
	if l2.IsChild() {
		l2.RunScenarios(r, n+nStart+nPile, 330*time.Second, scenario) // runs the scenario and exits
	}
	// The start-state family runs next to the other lists: its scenarios are
	// short, except that one which finds Stop blocked waits for the watchdog
	// and the dump argument (76 s, asleep).
	// Resource monitor of the scenario runner (see l2.RSSLimitMB): a client
	// process that touches gigabytes is where "the call has not returned N s
	// after Stop" comes from on a machine with less memory than this one.
	l2.RSSLimitMB = 2500
	var wg sync.WaitGroup
	wg.Add(1)
	go func() {
		defer wg.Done()
		ks := make([]int, nStart)
		for i := range ks {
			ks[i] = n + i
		}
		l2.RunScenarioList(r, ks, 16, 330*time.Second, nil)
	}()
	// The pile-up family as well: few scenarios, each with a long chain to
	// generate and sync before its few hundred milliseconds around Stop.
	wg.Add(1)
	go func() {
		defer wg.Done()
		ks := make([]int, nPile)
		for i := range ks {
			ks[i] = n + nStart + i
		}
		l2.RunScenarioList(r, ks, 8, 330*time.Second, nil)
	}()
	l2.RunScenarios(r, n, 330*time.Second, scenario)
	wg.Wait()
	latencies(r)
	r.Set("peak_child_rss_mib", l2.PeakChildRSSMB())
	r.Finish(r.Pick(20, 150))
}

// latencies aggregates the per-scenario Stop latencies the children left in
// the scratch directory (evidence only).
func latencies(r *evid.Run) {
	dir := filepath.Join(os.Getenv("VERIF_SCRATCH"), "c17-lat")
	ents, _ := os.ReadDir(dir)
	var us []int64
	for _, e := range ents {
		b, err := os.ReadFile(filepath.Join(dir, e.Name()))
		if err != nil {
			continue
		}
		v, err := strconv.ParseInt(string(b), 10, 64)
		if err == nil {
			us = append(us, v)
		}
	}
	_ = os.RemoveAll(dir)
	if len(us) == 0 {
		return
	}
	sort.Slice(us, func(i, j int) bool { return us[i] < us[j] })
	pct := func(p float64) int64 {
		i := int(p * float64(len(us)-1))
		return (us[i] + 999) / 1000
	}
	r.Count("stop_latency_ms_p50", pct(0.50))
	r.Count("stop_latency_ms_p90", pct(0.90))
	r.Count("stop_latency_ms_p99", pct(0.99))
	r.Count("stop_latency_ms_max", (us[len(us)-1]+999)/1000)
	r.Count("stop_latency_samples", int64(len(us)))
}

func debugOne(scenario l2.ScenarioFunc, seed int64, k int, verbose bool) {
	if verbose {
		b := btclog.NewBackend(os.Stdout)
		l := b.Logger("NTRN")
		l.SetLevel(btclog.LevelDebug)
		neutrino.UseLogger(l)
		q := b.Logger("QURY")
		q.SetLevel(btclog.LevelDebug)
		query.UseLogger(q)
	}
	res := &l2.Result{Scenario: k}
	t0 := time.Now()
	scenario(seed, k, res)
	res.WallS = time.Since(t0).Seconds()
	b, _ := json.MarshalIndent(res, "", " ")
	fmt.Println(string(b))
}
