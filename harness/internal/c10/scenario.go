package c10

import (
	"math"
	"math/rand"
	"strings"

	"github.com/btcsuite/btcd/wire/v2"
)

// ReqSpec is one planned GetUtxo request.
type ReqSpec struct {
	Op     wire.OutPoint `json:"-"`
	OpStr  string        `json:"outpoint"`
	Script []byte        `json:"-"`
	Start  uint32        `json:"start"`
	OpKind string        `json:"op_kind"` // spent-later|never-spent|same-block|foreign|oor-index
	Dup    string        `json:"dup"`     // none|same-start|lower-start|higher-start|sibling
	DupOf  int           `json:"dup_of"`  // request index, -1
	Late   bool          `json:"late"`    // Result is first called only after the scanner went quiet
	Role   string        `json:"role"`    // focus|carrier|extra|dup|sibling|sweep|sweep-dup|sweep-made
	// Shape (sweep family): position of the outpoint's spend among the
	// watched spends of its block and how many duplicate requests exist for
	// outpoints spent by earlier transactions; part of violation signatures.
	Shape string `json:"shape,omitempty"`
}

// Action kinds.
const (
	AEnqueue = "enqueue"
	AExtend  = "extend"
	AStop    = "stop"
	AFail    = "fail" // the gated callback returns an injected error
)

// Action is executed by the driver while the scanner is parked in a gate (or
// directly for pre/idle steps).
type Action struct {
	Kind string `json:"kind"`
	Req  int    `json:"req,omitempty"`
	To   int32  `json:"to,omitempty"`
}

// Trigger kinds.
const (
	TPre    = "pre"    // before scanner.Start
	TCall   = "call"   // the N-th call (1-based) of callback CB in this case
	THeight = "height" // the first call of callback CB concerning height Height
	TIdle   = "idle"   // when every request enqueued so far has been answered
)

// Trigger says where in the scanner's run a step happens.
type Trigger struct {
	Kind   string `json:"kind"`
	CB     int    `json:"cb,omitempty"`
	N      int    `json:"n,omitempty"`
	Height int32  `json:"height,omitempty"`
}

// Step is a trigger plus the actions run there.
type Step struct {
	Trig Trigger  `json:"trigger"`
	Acts []Action `json:"actions"`
}

// CaseSpec is one request set with its schedule. It is a pure function of
// (seed, index, chain pool).
type CaseSpec struct {
	Index int       `json:"index"`
	Seed  int64     `json:"seed"`
	Chain int       `json:"chain"`
	Tip   int32     `json:"chain_tip"`
	V0    int32     `json:"visible_at_start"`
	Reqs  []ReqSpec `json:"requests"`
	Steps []Step    `json:"steps"`
	// Planned shape of the focus request (informative; fingerprints use the
	// relations measured at run time).
	PlanOp, PlanStart, PlanArrival, PlanDup, PlanFault string
	// Sweep is set for cases of the sweep family (sweep.go).
	Sweep *SweepPlan `json:"sweep,omitempty"`
}

var (
	opKinds   = []string{"spent-later", "never-spent", "same-block", "foreign", "oor-index", "double-spent", "sibling-set"}
	startRels = []string{"zero", "one", "lt-create", "create", "create+1", "between",
		"spend", "spend+1", "gt-spend", "tip", "tip+1", "far"}
	arrivals = []string{"pre", "best-start", "hash-equal", "hash-one-above", "hash-below",
		"hash-far-above", "block-equal", "filter-equal", "best-end", "idle",
		"ext+hash-equal", "ext+hash-one-above"}
	dups   = []string{"none", "none", "none", "same-start", "same-start", "lower-start", "lower-start", "higher-start", "higher-start"}
	faults = []string{"none", "none", "none", "none", "none", "none",
		"fail-hash", "fail-filter", "fail-block", "fail-best", "stop", "stop"}
)

type gen struct {
	rng *rand.Rand
	ci  *ChainInfo
	cs  *CaseSpec
}

func (g *gen) randForeign() (wire.OutPoint, []byte) {
	var op wire.OutPoint
	g.rng.Read(op.Hash[:])
	op.Index = uint32(g.rng.Intn(3))
	s := make([]byte, 22)
	g.rng.Read(s)
	s[0], s[1] = 0x00, 20
	return op, s
}

// pickOp chooses an outpoint of the given kind (falls back to never-spent /
// foreign when the chain has none of that kind).
func (g *gen) pickOp(kind string) (wire.OutPoint, []byte, string) {
	ci := g.ci
	switch kind {
	case "spent-later":
		if op, ok := pick(g.rng, ci.SpentLater); ok {
			return op, ci.ScriptOf(op), kind
		}
	case "same-block":
		if op, ok := pick(g.rng, ci.SameBlock); ok {
			return op, ci.ScriptOf(op), kind
		}
	case "double-spent":
		if op, ok := pick(g.rng, ci.DoubleSpent); ok {
			return op, ci.ScriptOf(op), kind
		}
		if op, ok := pick(g.rng, ci.SpentLater); ok {
			return op, ci.ScriptOf(op), "spent-later"
		}
	case "oor-index":
		if op, ok := pick(g.rng, append(append([]wire.OutPoint{}, ci.NeverSpent...), ci.SpentLater...)); ok {
			l := ci.Created[op.Hash]
			script := ci.Blocks[l.Height].Transactions[l.TxIdx].TxOut[0].PkScript
			op.Index = uint32(l.NOut + g.rng.Intn(3))
			return op, script, kind
		}
	case "sibling-set":
		if th, ok := pick(g.rng, ci.MultiOut); ok {
			op := wire.OutPoint{Hash: th, Index: 0}
			k := "never-spent"
			if sl, ok := ci.Spent[op]; ok {
				k = "spent-later"
				if sl.Height == ci.Created[th].Height {
					k = "same-block"
				}
			}
			return op, ci.ScriptOf(op), k
		}
	case "foreign":
		op, s := g.randForeign()
		return op, s, kind
	}
	if op, ok := pick(g.rng, ci.NeverSpent); ok {
		return op, ci.ScriptOf(op), "never-spent"
	}
	op, s := g.randForeign()
	return op, s, "foreign"
}

// startFor resolves a start-height relation for op given the visible tip v
// planned at enqueue time.
func (g *gen) startFor(op wire.OutPoint, rel string, v int32) uint32 {
	c, s := int64(-1), int64(-1)
	if l, ok := g.ci.Created[op.Hash]; ok {
		c = int64(l.Height)
	}
	if l, ok := g.ci.Spent[op]; ok {
		s = int64(l.Height)
	}
	if c < 0 {
		c = int64(g.rng.Intn(int(v) + 1))
	}
	r := int64(0)
	switch rel {
	case "zero":
		r = 0
	case "one":
		r = 1
	case "lt-create":
		if c > 0 {
			r = int64(g.rng.Intn(int(c)))
		}
	case "create":
		r = c
	case "create+1":
		r = c + 1
	case "between":
		if s-c >= 2 {
			r = c + 1 + int64(g.rng.Intn(int(s-c-1)))
		} else {
			r = c + 1
		}
	case "spend":
		if s >= 0 {
			r = s
		} else {
			r = c
		}
	case "spend+1":
		if s >= 0 {
			r = s + 1
		} else {
			r = c + 2
		}
	case "gt-spend":
		if s >= 0 {
			r = s + 2 + int64(g.rng.Intn(6))
		} else {
			r = c + 3 + int64(g.rng.Intn(6))
		}
	case "tip":
		r = int64(v)
	case "tip+1":
		r = int64(v) + 1
	case "far":
		switch g.rng.Intn(4) {
		case 0:
			r = math.MaxUint32
		case 1:
			r = int64(g.ci.Len()) + 1 + int64(g.rng.Intn(1000))
		default:
			r = int64(v) + 2 + int64(g.rng.Intn(40))
		}
	}
	if r < 0 {
		r = 0
	}
	return uint32(r)
}

func (g *gen) addReq(r ReqSpec) int {
	r.OpStr = r.Op.String()
	g.cs.Reqs = append(g.cs.Reqs, r)
	return len(g.cs.Reqs) - 1
}

// GenCase builds case number idx. pool must be the same for equal seeds.
func GenCase(seed int64, idx int, pool []*ChainInfo) *CaseSpec {
	rng := rand.New(rand.NewSource(seed*1_000_003 + int64(idx)*7919 + 17))
	ci := pool[rng.Intn(len(pool))]
	L := ci.Len()
	cs := &CaseSpec{Index: idx, Seed: seed, Chain: ci.ID, Tip: L}
	g := &gen{rng: rng, ci: ci, cs: cs}

	// Shape of the focus request: every value of each dimension is reached
	// by the index; the combination is filled in by the rng.
	cs.PlanOp = opKinds[idx%len(opKinds)]
	cs.PlanStart = startRels[(idx/len(opKinds))%len(startRels)]
	cs.PlanArrival = arrivals[rng.Intn(len(arrivals))]
	cs.PlanDup = dups[rng.Intn(len(dups))]
	cs.PlanFault = faults[rng.Intn(len(faults))]
	extJoin := strings.HasPrefix(cs.PlanArrival, "ext+")

	// Visible prefix at start and up to two later extensions.
	v0 := L
	switch rng.Intn(3) {
	case 0:
		v0 = L/3 + int32(rng.Intn(int(L-L/3)+1))
	case 1:
		v0 = L - int32(rng.Intn(4))
	}
	if v0 < 3 {
		v0 = 3
	}
	if v0 > L {
		v0 = L
	}
	if extJoin && v0 > L-4 {
		v0 = L/2 + int32(rng.Intn(int(L/4)+1))
	}
	// Tip-relevant family: the batch's END block is the one that creates or
	// spends the focus outpoint, the focus starts exactly there and joins
	// while the batch is already working on that block.
	var forced *wire.OutPoint
	if idx%9 == 4 && !extJoin {
		if op, ok := pick(rng, ci.SpentLater); ok {
			h := ci.Spent[op].Height
			if rng.Intn(2) == 0 {
				h = ci.Created[op.Hash].Height
			}
			if h >= 3 && h <= L {
				v0 = h
				op := op
				forced = &op
				cs.PlanOp, cs.PlanStart = "spent-later", "tip"
				cs.PlanArrival = []string{"block-equal", "filter-equal", "block-equal"}[rng.Intn(3)]
				cs.PlanFault = "none"
			}
		}
	}
	// Stale-tip family: the batch re-reads the tip at its end and gets H; the
	// block H+1 that creates or spends the focus outpoint arrives, and the
	// focus (start H+1) is enqueued, right after that read and before the
	// scanner looks at its queue again.
	staleTip := int32(-1)
	if idx%9 == 7 && !extJoin && forced == nil {
		if op, ok := pick(rng, ci.SpentLater); ok {
			h := ci.Spent[op].Height
			if rng.Intn(2) == 0 {
				h = ci.Created[op.Hash].Height
			}
			if h >= 4 && h <= L {
				v0, staleTip = h-1, h
				op := op
				forced = &op
				cs.PlanOp, cs.PlanStart, cs.PlanArrival, cs.PlanFault = "spent-later", "tip+1", "best-post-stale", "none"
			}
		}
	}
	cs.V0 = v0
	var exts []int32
	for v := v0; v < L && len(exts) < 2 && (rng.Intn(3) > 0 || extJoin && len(exts) == 0); {
		v += 1 + int32(rng.Intn(int(L-v)))
		exts = append(exts, v)
	}

	// Duplicates with different start heights matter most where the initial
	// output is what gets reported: aim half of them there.
	if (cs.PlanDup == "lower-start" || cs.PlanDup == "higher-start") && rng.Intn(2) == 0 {
		cs.PlanStart = "create"
		switch cs.PlanOp {
		case "foreign", "oor-index", "same-block":
			cs.PlanOp = []string{"never-spent", "spent-later"}[rng.Intn(2)]
		}
	}

	// The focus is enqueued when the visible tip is v0 (extensions are
	// attached to later or unrelated gates, see below; the measured relation
	// is what enters the fingerprint).
	fop, fscript, fkind := g.pickOp(cs.PlanOp)
	if forced != nil {
		fop, fscript, fkind = *forced, ci.ScriptOf(*forced), "spent-later"
	}
	if extJoin && len(exts) > 0 {
		// The best height grows while the batch runs, THEN the focus joins
		// the batch: prefer an outpoint whose spend lies in the new blocks.
		var cand []wire.OutPoint
		for _, op := range ci.SpentLater {
			if s := ci.Spent[op].Height; s > v0 && s <= exts[0] && ci.Created[op.Hash].Height <= v0 {
				cand = append(cand, op)
			}
		}
		if op, ok := pick(rng, cand); ok {
			fop, fscript, fkind = op, ci.ScriptOf(op), "spent-later"
			switch cs.PlanStart {
			case "spend", "spend+1", "gt-spend", "tip+1", "far":
				cs.PlanStart = []string{"create", "between", "lt-create", "tip"}[rng.Intn(4)]
			}
		}
	}
	fstart := g.startFor(fop, cs.PlanStart, v0)
	late := func() bool { return rng.Intn(5) == 0 }
	focus := g.addReq(ReqSpec{Op: fop, Script: fscript, Start: fstart, OpKind: fkind,
		Dup: "none", DupOf: -1, Late: late(), Role: "focus"})

	// Gate for the focus, and a carrier request that makes a batch run
	// through that gate.
	var focusTrig Trigger
	gateH := int64(-1)
	clampH := func(h int64) int64 {
		if h < 0 {
			h = 0
		}
		if h > int64(v0) {
			h = int64(v0)
		}
		return h
	}
	switch cs.PlanArrival {
	case "pre":
		focusTrig = Trigger{Kind: TPre}
	case "idle":
		focusTrig = Trigger{Kind: TIdle}
	case "best-start":
		focusTrig = Trigger{Kind: TCall, CB: CBest, N: 1}
	case "best-end":
		focusTrig = Trigger{Kind: TCall, CB: CBest, N: 2}
	case "hash-equal", "ext+hash-equal":
		gateH = clampH(int64(fstart))
		focusTrig = Trigger{Kind: THeight, CB: CHash, Height: int32(gateH)}
	case "hash-one-above", "ext+hash-one-above":
		gateH = clampH(int64(fstart) - 1)
		focusTrig = Trigger{Kind: THeight, CB: CHash, Height: int32(gateH)}
	case "hash-below":
		gateH = clampH(int64(fstart) + 1 + int64(rng.Intn(3)))
		focusTrig = Trigger{Kind: THeight, CB: CHash, Height: int32(gateH)}
	case "hash-far-above":
		gateH = clampH(int64(fstart) - 2 - int64(rng.Intn(20)))
		focusTrig = Trigger{Kind: THeight, CB: CHash, Height: int32(gateH)}
	case "filter-equal":
		gateH = clampH(int64(fstart))
		focusTrig = Trigger{Kind: THeight, CB: CFilter, Height: int32(gateH)}
	case "block-equal":
		gateH = clampH(int64(fstart))
		focusTrig = Trigger{Kind: THeight, CB: CBlock, Height: int32(gateH)}
	case "best-post-stale":
		focusTrig = Trigger{Kind: TCall, CB: CBestPost, N: 2}
	}
	pre := Step{Trig: Trigger{Kind: TPre}}
	if focusTrig.Kind != TPre && focusTrig.Kind != TIdle {
		// Carrier: starts at or below the gate height so its batch passes it.
		cop, cscript, ckind := g.pickOp(opKinds[rng.Intn(6)])
		cstart := uint32(0)
		if gateH >= 0 {
			lo := gateH - int64(rng.Intn(16))
			if lo < 0 {
				lo = 0
			}
			cstart = uint32(lo + int64(rng.Intn(int(gateH-lo)+1)))
			if cs.PlanArrival == "block-equal" {
				cstart = uint32(gateH) // the block at a request's start height is always fetched
			}
		} else {
			cstart = uint32(rng.Intn(int(v0) + 1))
		}
		cidx := g.addReq(ReqSpec{Op: cop, Script: cscript, Start: cstart, OpKind: ckind,
			Dup: "none", DupOf: -1, Role: "carrier"})
		pre.Acts = append(pre.Acts, Action{Kind: AEnqueue, Req: cidx})
	}
	focusStep := Step{Trig: focusTrig, Acts: []Action{{Kind: AEnqueue, Req: focus}}}
	if staleTip >= 0 {
		focusStep.Acts = []Action{{Kind: AExtend, To: staleTip}, {Kind: AEnqueue, Req: focus}}
		exts = nil
	}
	if extJoin && len(exts) > 0 {
		focusStep.Acts = []Action{{Kind: AExtend, To: exts[0]}, {Kind: AEnqueue, Req: focus}}
		exts = exts[1:]
	}

	var later []Step // additional gate steps

	randTrig := func() Trigger {
		switch rng.Intn(6) {
		case 0:
			return Trigger{Kind: TIdle}
		case 1:
			return Trigger{Kind: TCall, CB: CBest, N: 1 + rng.Intn(4)}
		case 2:
			return Trigger{Kind: TCall, CB: CBlock, N: 1 + rng.Intn(4)}
		case 3:
			return Trigger{Kind: TCall, CB: CFilter, N: 1 + rng.Intn(int(v0)+1)}
		default:
			return Trigger{Kind: THeight, CB: CHash, Height: int32(rng.Intn(int(v0) + 1))}
		}
	}
	// place puts an enqueue of request ri somewhere relative to the focus.
	place := func(ri int, where int) {
		a := Action{Kind: AEnqueue, Req: ri}
		switch where {
		case 0: // together with the focus
			focusStep.Acts = append(focusStep.Acts, a)
		case 1: // before the scanner starts
			pre.Acts = append(pre.Acts, a)
		default:
			later = append(later, Step{Trig: randTrig(), Acts: []Action{a}})
		}
	}

	// Duplicate of the focus.
	if cs.PlanDup != "none" {
		ds := fstart
		switch cs.PlanDup {
		case "lower-start":
			if fstart > 0 {
				span := int(fstart)
				if span > 12 {
					span = 12
				}
				ds = fstart - 1 - uint32(rng.Intn(span))
			} else {
				ds = 1 + uint32(rng.Intn(5))
			}
		case "higher-start":
			span := 12
			if int64(fstart) < int64(v0) && int64(v0)-int64(fstart) < 12 {
				span = int(int64(v0) - int64(fstart))
			}
			ds = fstart + 1 + uint32(rng.Intn(span))
			if fstart > math.MaxUint32-20 {
				ds = fstart - 1
			}
		}
		di := g.addReq(ReqSpec{Op: fop, Script: fscript, Start: ds, OpKind: fkind,
			Dup: cs.PlanDup, DupOf: focus, Late: late(), Role: "dup"})
		w := rng.Intn(4)
		if w == 3 {
			w = 0
		}
		place(di, w)
	}

	// Sibling outputs of the focus transaction, requested together.
	if cs.PlanOp == "sibling-set" {
		if l, ok := ci.Created[fop.Hash]; ok {
			for oi := 1; oi < l.NOut && oi < 4; oi++ {
				op := wire.OutPoint{Hash: fop.Hash, Index: uint32(oi)}
				sc := ci.ScriptOf(op)
				if len(sc) > 0 && sc[0] == 0x6a {
					continue
				}
				k := "never-spent"
				if sl, ok := ci.Spent[op]; ok {
					k = "spent-later"
					if sl.Height == l.Height {
						k = "same-block"
					}
				}
				st := fstart
				if rng.Intn(4) == 0 {
					st = uint32(l.Height)
				}
				si := g.addReq(ReqSpec{Op: op, Script: sc, Start: st, OpKind: k,
					Dup: "sibling", DupOf: focus, Late: late(), Role: "sibling"})
				place(si, rng.Intn(3)/2) // mostly together with the focus
			}
		}
	}

	// Extra unrelated requests up to 8 in total.
	total := 1 + rng.Intn(8)
	for len(cs.Reqs) < total {
		op, sc, k := g.pickOp(opKinds[rng.Intn(6)])
		st := g.startFor(op, startRels[rng.Intn(len(startRels))], v0)
		ei := g.addReq(ReqSpec{Op: op, Script: sc, Start: st, OpKind: k,
			Dup: "none", DupOf: -1, Late: late(), Role: "extra"})
		place(ei, rng.Intn(4))
	}

	// Chain growth: each extension goes to a gate of its own.
	for _, to := range exts {
		var t Trigger
		switch rng.Intn(4) {
		case 0:
			t = Trigger{Kind: TCall, CB: CBest, N: 2 + rng.Intn(3)} // end-of-batch check
		case 1:
			t = Trigger{Kind: TIdle}
		default:
			t = randTrig()
		}
		later = append(later, Step{Trig: t, Acts: []Action{{Kind: AExtend, To: to}}})
	}

	// Fault.
	switch cs.PlanFault {
	case "fail-hash":
		later = append(later, Step{Trig: Trigger{Kind: TCall, CB: CHash, N: 1 + rng.Intn(12)},
			Acts: []Action{{Kind: AFail}}})
	case "fail-filter":
		later = append(later, Step{Trig: Trigger{Kind: TCall, CB: CFilter, N: 1 + rng.Intn(8)},
			Acts: []Action{{Kind: AFail}}})
	case "fail-block":
		later = append(later, Step{Trig: Trigger{Kind: TCall, CB: CBlock, N: 1 + rng.Intn(3)},
			Acts: []Action{{Kind: AFail}}})
	case "fail-best":
		later = append(later, Step{Trig: Trigger{Kind: TCall, CB: CBest, N: 1 + rng.Intn(4)},
			Acts: []Action{{Kind: AFail}}})
	case "stop":
		cb := rng.Intn(NumCB)
		n := 1 + rng.Intn(6)
		if cb == CHash || cb == CFilter {
			n = 1 + rng.Intn(20)
		}
		later = append(later, Step{Trig: Trigger{Kind: TCall, CB: cb, N: n},
			Acts: []Action{{Kind: AStop}}})
	}

	rng.Shuffle(len(later), func(i, j int) { later[i], later[j] = later[j], later[i] })
	if len(pre.Acts) > 0 {
		cs.Steps = append(cs.Steps, pre)
	}
	if focusTrig.Kind == TPre {
		if len(cs.Steps) == 0 {
			cs.Steps = append(cs.Steps, Step{Trig: Trigger{Kind: TPre}})
		}
		cs.Steps[0].Acts = append(cs.Steps[0].Acts, focusStep.Acts...)
	} else {
		cs.Steps = append(cs.Steps, focusStep)
	}
	cs.Steps = append(cs.Steps, later...)
	return cs
}
