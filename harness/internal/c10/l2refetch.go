package c10

// L2 family "l2-refetch": histories in which a block download of the complete
// client FAILS and the same block is needed again.
//
// A block B of the synced chain is chosen together with GetUtxo requests whose
// scan must download B (B is the request's start block, or B's filter matches
// the watched script because B spends / creates the outpoint). While EVERY
// peer refuses to deliver a valid B (silence, an unrelated block, notfound, a
// corrupted copy of B, a connection cut in the middle of the block message)
// the requests — and direct ChainService.GetBlock(B) calls, alone, first,
// second or together with the scan — are issued and fail after the client's
// own timeouts and retries (QueryNumRetries lowered to 1-2 while the fault is
// active: an exported configuration knob). Then the peers serve B honestly,
// the default retry count is restored and the SAME request is retried, alone
// or together with duplicates, another outpoint that needs B, a direct
// GetBlock(B) and unrelated requests.
//
// Oracle (the property statement): every call returns; an error is acceptable
// only while the harness kept B from every peer; every other answer — in
// particular every answer after the fault is gone — equals the reference over
// the chain prefix bounded by the client's best height around the call.
// "Never answered" is judged by leftParked (below), never by the watchdog
// alone.

import (
	"bytes"
	"errors"
	"fmt"
	"math/rand"
	"os"
	"sort"
	"strings"
	"sync"
	"time"

	"github.com/btcsuite/btcd/chainhash/v2"
	"github.com/btcsuite/btcd/txscript/v2"
	"github.com/btcsuite/btcd/wire/v2"
	"github.com/lightninglabs/neutrino"

	"verif/internal/chaingen"
	"verif/internal/l2"
	"verif/internal/netsim"
)

// L2Refetch is the family name.
const L2Refetch = "l2-refetch"

// Scenario counts of the family (interleaved with the older families by
// l2Split: every third scenario index is a refetch scenario).
const (
	L2RefetchQuick    = 6
	L2RefetchThorough = 75
)

// Watchdogs of the family. A doomed download lasts at most 2+4 s (two tries,
// a few batches in a row); a healthy download takes a few ms and the client bounds any single
// block query by 30 s.
const (
	rfDoomedWatchdog = 75 * time.Second
	rfAfterClearWait = 30 * time.Second
	rfRetryWatchdog  = 100 * time.Second
)

// l2Split maps a scenario index of the L2 part to (refetch family?, index
// within its own list). The older families keep their indexes 0,1,2,...
func l2Split(k int) (refetch bool, idx int) {
	if k%3 == 2 {
		return true, k / 3
	}
	return false, k - (k+1)/3
}

// Failure modes of the download.
const (
	rfSilence    = "silence"
	rfWrongBlock = "wrong-block"
	rfNotFound   = "notfound"
	rfCorrupt    = "corrupt-block"
	rfCutMidway  = "disconnect-mid-block"
)

type rfPlan struct {
	FailMode  string   // scenario-level label
	PeerModes []string // per peer
	Retries   int      // QueryNumRetries while the fault is active
	BKind     string   // how the primary request needs B
	BHeight   int32
	First     string // who downloads first in the doomed phase: scan | getblock-first | scan-first | together | getblock-only
	NDoomedGB int    // direct GetBlock calls in the doomed phase
	RetryGB   bool   // a direct GetBlock(B) among the retries
	RetryWho  string // same | same+dup | same+other | other-first
	Grow      bool   // reveal the growth blocks during the last wave

	b       *chaingen.Node
	primary *l2Req
}

// rfGB is one direct ChainService.GetBlock(B) call.
type rfGB struct {
	Phase    string `json:"phase"`
	Returned bool   `json:"returned"`
	Err      string `json:"err,omitempty"`
	SameHash bool   `json:"returned_block_is_B"`
}

// rfNeed describes one (outpoint, start) whose scan must download B.
type rfNeed struct {
	op     wire.OutPoint
	script []byte
	start  int64
	kind   string
}

// needsOf lists requests other than the primary one that need block B.
func (pl *l2Plan) needsOf(b *chaingen.Node, except wire.OutPoint) []rfNeed {
	c := pl.c
	var out []rfNeed
	for ti, tx := range b.Block.Transactions {
		th := tx.TxHash()
		if ti > 0 {
			for _, in := range tx.TxIn {
				op := in.PreviousOutPoint
				l, ok := c.created[op.Hash]
				if !ok || op == except || len(c.spent[op]) == 0 || c.spent[op][0] != b.Height || l.Height >= b.Height {
					continue
				}
				sc := c.scriptOf(op)
				if len(sc) == 0 {
					continue
				}
				st := int64(l.Height)
				if pl.rng.Intn(3) == 0 {
					st = int64(b.Height)
				}
				out = append(out, rfNeed{op, sc, st, "rf-spent-in-B"})
			}
		}
		for oi, o := range tx.TxOut {
			op := wire.OutPoint{Hash: th, Index: uint32(oi)}
			if op == except || len(o.PkScript) == 0 || o.PkScript[0] == txscript.OP_RETURN {
				continue
			}
			k := "rf-created-in-B"
			if ti == 0 {
				k = "rf-coinbase-of-B"
			}
			out = append(out, rfNeed{op, o.PkScript, int64(b.Height), k})
		}
	}
	var f wire.OutPoint
	pl.rng.Read(f.Hash[:])
	out = append(out, rfNeed{f, nil, int64(b.Height), "rf-foreign-at-B"})
	return out
}

func rfMakePlan(seed int64, idx int) (*l2Plan, *rfPlan) {
	rng := rand.New(rand.NewSource(seed*1_000_003 + int64(idx)*104729 + 2020))
	pl := &l2Plan{Seed: seed, K: idx, rng: rng, Family: L2Refetch}
	rf := &rfPlan{}
	pl.TrunkLen = 80 + rng.Intn(241)
	pl.Peers = 1 + rng.Intn(3)
	pl.Slow = pl.Peers > 1 && rng.Intn(4) == 0
	pl.Announce = []string{"inv", "headers"}[rng.Intn(2)]
	rf.FailMode = []string{rfSilence, rfSilence, rfWrongBlock, rfNotFound, rfCorrupt, rfCutMidway, rfCutMidway, "mixed"}[rng.Intn(8)]
	rf.Retries = []int{1, 1, 2, 2}[rng.Intn(4)]
	rf.BKind = []string{"spend-block", "spend-block", "tail-spend-block", "create-block", "start-block"}[rng.Intn(5)]
	rf.First = []string{"scan", "scan", "getblock-first", "scan-first", "together", "getblock-only"}[rng.Intn(6)]
	rf.RetryWho = []string{"same", "same+dup", "same+other", "other-first"}[rng.Intn(4)]
	rf.RetryGB = rng.Intn(2) == 0
	rf.Grow = rng.Intn(3) == 0
	if idx == 0 {
		// FIXED scenario: every peer is silent about B; the GetUtxo call whose
		// outpoint is spent in B fails; the peers turn honest; the same call is
		// retried alone, then another outpoint of B and a direct GetBlock.
		pl.Fixed = true
		pl.TrunkLen, pl.Peers, pl.Slow, pl.Announce = 120, 2, false, "headers"
		rf.FailMode, rf.Retries, rf.BKind, rf.First, rf.RetryWho, rf.RetryGB, rf.Grow = rfSilence, 2, "spend-block", "scan", "same", true, false
	}
	if rf.FailMode == rfCorrupt && pl.Peers < 2 {
		pl.Peers = 2 // the peer sending the corrupted block is banned: another one must remain
	}
	switch rf.First {
	case "scan":
		rf.NDoomedGB = 0
	case "getblock-only":
		rf.NDoomedGB = 1 + rng.Intn(2)
	default:
		rf.NDoomedGB = 1 + rng.Intn(2)
	}
	for i := 0; i < pl.Peers; i++ {
		m := rf.FailMode
		switch rf.FailMode {
		case "mixed":
			m = []string{rfSilence, rfWrongBlock, rfNotFound, rfCutMidway}[rng.Intn(4)]
		case rfCorrupt:
			if i > 0 {
				m = []string{rfSilence, rfWrongBlock}[rng.Intn(2)]
			}
		}
		rf.PeerModes = append(rf.PeerModes, m)
	}

	span := time.Duration(pl.TrunkLen+400) * 6 * time.Second
	if span < 2*time.Hour {
		span = 2 * time.Hour
	}
	w := l2.NewWorld(l2.Config{Seed: seed*1_000_003 + int64(idx) + 3_000_000, Preset: chaingen.PresetNoRetarget, SpacingSec: 4, GenesisAgo: span})
	pl.w = w
	pl.c = l2BuildChain(w, rng, pl.TrunkLen, 2+rng.Intn(3), 2+rng.Intn(3))
	c := pl.c

	// The primary request and its block B.
	firstSpend := func(op wire.OutPoint) int32 {
		if hs := c.spent[op]; len(hs) > 0 {
			return hs[0]
		}
		return -1
	}
	var op wire.OutPoint
	var kind string
	var start int64
	pickPrimary := func(bk string) bool {
		switch bk {
		case "spend-block", "tail-spend-block":
			src, k := c.spentLater, "spent-later"
			if bk == "tail-spend-block" {
				src, k = c.lateSpent, "late-spent"
			}
			o, found := pickOp(rng, src)
			if !found {
				return false
			}
			cr, sp := c.created[o.Hash].Height, firstSpend(o)
			if sp <= 0 || sp > c.tip0.Height {
				return false
			}
			cand := []int64{int64(cr), int64(cr), int64(sp), int64(cr) - 1 - int64(rng.Intn(4)), 0}
			if sp > cr+1 {
				cand = append(cand, int64(cr)+1+int64(rng.Intn(int(sp-cr-1))))
			}
			st := cand[rng.Intn(len(cand))]
			if pl.Fixed {
				st = int64(cr)
			}
			if st < 0 {
				st = 0
			}
			op, kind, start, rf.b = o, k, st, c.path[sp]
			return true
		case "create-block":
			src, k := c.spentLater, "spent-later"
			switch rng.Intn(3) {
			case 1:
				src, k = c.unspent, "never-spent"
			case 2:
				src, k = c.sameBlock, "same-block"
			}
			o, found := pickOp(rng, src)
			if !found {
				return false
			}
			cr := c.created[o.Hash].Height
			if cr <= 0 || cr > c.tip0.Height {
				return false
			}
			op, kind, start, rf.b = o, k, int64(cr), c.path[cr]
			return true
		}
		return false
	}
	ok := false
	if rf.BKind != "start-block" {
		for _, bk := range []string{rf.BKind, "spend-block", "create-block"} {
			if pickPrimary(bk) {
				rf.BKind, ok = bk, true
				break
			}
		}
	}
	if !ok {
		// start-block: the coinbase of a seed-chosen block, requested from
		// that block.
		rf.BKind = "start-block"
		h := 2 + int32(rng.Intn(int(c.tip0.Height)-2))
		rf.b = c.path[h]
		op = wire.OutPoint{Hash: rf.b.Block.Transactions[0].TxHash()}
		kind, start = "carrier", int64(h)
	}
	rf.BHeight = rf.b.Height
	script := c.scriptOf(op)

	// Wave 0: the doomed phase.
	if rf.First != "getblock-only" {
		rf.primary = pl.newReq(0, op, script, start, kind, "none")
		others := pl.needsOf(rf.b, op)
		for i, n := 0, rng.Intn(3); i < n && !pl.Fixed; i++ {
			if rng.Intn(2) == 0 {
				pl.newReq(0, op, script, start, kind, "same-start")
			} else {
				o := others[rng.Intn(len(others))]
				pl.newReq(0, o.op, o.script, o.start, o.kind, "none")
			}
		}
		if rng.Intn(3) == 0 && !pl.Fixed {
			pl.addRandomReq(0, rf.BHeight, false) // same batch, joins above B if its start is reached: fails with the batch or is scanned later
		}
	} else {
		// The download fails for an external GetBlock user only; the first
		// GetUtxo that needs B comes after the fault.
		rf.primary = &l2Req{Op: op, Script: script, Start: uint32(start), OpKind: kind}
		pl.waves = append(pl.waves, nil)
	}
	// Wave 1: the retry.
	others := pl.needsOf(rf.b, op)
	other := func(wave int) {
		o := others[rng.Intn(len(others))]
		pl.newReq(wave, o.op, o.script, o.start, o.kind, "other-needs-B")
	}
	same := func(wave int, dup string) { pl.newReq(wave, op, script, start, kind, dup) }
	switch rf.RetryWho {
	case "same":
		same(1, "retry-same")
	case "same+dup":
		same(1, "retry-same")
		same(1, "retry-same-dup")
		if rng.Intn(2) == 0 {
			pl.newReq(1, op, script, int64(rf.BHeight), kind, "retry-other-start")
		}
	case "same+other":
		same(1, "retry-same")
		other(1)
	case "other-first":
		other(1)
	}
	// Wave 2: after the recovery.
	if rf.RetryWho == "other-first" {
		same(2, "retry-same")
	} else {
		other(2)
	}
	if pl.Fixed {
		same(2, "retry-again")
	} else {
		for i, n := 0, rng.Intn(4); i < n; i++ {
			pl.addRandomReq(2, 0, rf.Grow)
		}
		if rng.Intn(2) == 0 {
			same(2, "retry-again")
		}
	}
	return pl, rf
}

// ---------------------------------------------------------------------------
// The fault.

type rfFault struct {
	mu      sync.Mutex
	target  chainhash.Hash
	active  bool
	modes   map[*netsim.Peer]string
	wrong   *wire.MsgBlock
	corrupt *wire.MsgBlock
	nFault  map[string]int
	faults  int
	honest  int // honest deliveries of B after the fault ended
	banned  map[*netsim.Peer]bool
	signal  chan struct{}
}

func (f *rfFault) mutate(p *netsim.Peer, req wire.Message, honest []wire.Message) []wire.Message {
	gd, ok := req.(*wire.MsgGetData)
	if !ok {
		return honest
	}
	hit := false
	for _, iv := range gd.InvList {
		if iv.Hash == f.target && (iv.Type == wire.InvTypeBlock || iv.Type == wire.InvTypeWitnessBlock) {
			hit = true
		}
	}
	if !hit {
		return honest
	}
	f.mu.Lock()
	defer f.mu.Unlock()
	if !f.active {
		f.honest++
		return honest
	}
	mode := f.modes[p]
	f.nFault[mode]++
	f.faults++
	p.Log.Add(p.Addr, "ev", "fault", mode+" getdata "+f.target.String()[:8])
	select {
	case f.signal <- struct{}{}:
	default:
	}
	switch mode {
	case rfWrongBlock:
		return []wire.Message{f.wrong}
	case rfNotFound:
		nf := wire.NewMsgNotFound()
		for _, iv := range gd.InvList {
			_ = nf.AddInvVect(iv)
		}
		return []wire.Message{nf}
	case rfCorrupt:
		f.banned[p] = true
		return []wire.Message{f.corrupt}
	case rfCutMidway:
		var buf bytes.Buffer
		for _, m := range honest {
			_, _ = wire.WriteMessageWithEncodingN(&buf, m, p.ProtoVer, p.Net, wire.WitnessEncoding)
		}
		b := buf.Bytes()
		p.SendRaw(b[:len(b)/2])
		p.Disconnect()
		return nil
	}
	return nil // silence
}

// end stops the fault and returns the event-log position of that moment: no
// fault happens after it.
func (f *rfFault) end(log *netsim.Log) int64 {
	f.mu.Lock()
	defer f.mu.Unlock()
	f.active = false
	return log.Len()
}

func (f *rfFault) stats() (faults, honest int, by map[string]int) {
	f.mu.Lock()
	defer f.mu.Unlock()
	by = map[string]int{}
	for k, v := range f.nFault {
		by[k] = v
	}
	return f.faults, f.honest, by
}

func (f *rfFault) isBanned(p *netsim.Peer) bool { f.mu.Lock(); defer f.mu.Unlock(); return f.banned[p] }

// ---------------------------------------------------------------------------
// Goroutine dumps.

type gor struct {
	id     string
	state  string
	frames []string // "function file:line", innermost first
}

func parseDump(d string) map[string]gor {
	out := map[string]gor{}
	for _, blk := range strings.Split(d, "\n\n") {
		m := reL2Go.FindStringSubmatch(blk)
		if m == nil {
			continue
		}
		g := gor{id: m[1], state: m[2]}
		lines := strings.Split(blk, "\n")
		for i := 1; i+1 < len(lines); i += 2 {
			fn := lines[i]
			if strings.HasPrefix(fn, "created by ") {
				break
			}
			if j := strings.LastIndex(fn, "("); j > 0 {
				fn = fn[:j]
			}
			loc := strings.TrimSpace(lines[i+1])
			if j := strings.Index(loc, " +0x"); j > 0 {
				loc = loc[:j]
			}
			g.frames = append(g.frames, fn+" "+loc)
		}
		out[g.id] = g
	}
	return out
}

func (g gor) has(needle string) bool {
	for _, f := range g.frames {
		if strings.Contains(f, needle) {
			return true
		}
	}
	return false
}

// innermostClientFrame names the innermost function of the client the
// goroutine is in, without package path and arguments.
func (g gor) innermostClientFrame() string {
	const pkg = "github.com/lightninglabs/neutrino"
	for _, f := range g.frames {
		fn := strings.SplitN(f, " ", 2)[0]
		if strings.HasPrefix(fn, pkg) {
			fn = strings.TrimPrefix(fn, pkg)
			fn = strings.TrimPrefix(fn, ".")
			fn = strings.TrimPrefix(fn, "/")
			return fn
		}
	}
	return "runtime"
}

func sameFrames(a, b gor) bool {
	if a.state != b.state && !(strings.HasPrefix(a.state, "select") && strings.HasPrefix(b.state, "select")) {
		return false
	}
	return strings.Join(a.frames, "\n") == strings.Join(b.frames, "\n")
}

// leftParked is the "never answered" judgement of the family, used when a call
// watchdog expired. since is the event-log position at which the peers became
// honest about B. It reports a violation only if ALL of the following hold:
//
//   - at least one peer is connected (handshake completed, connection alive)
//     at both dumps, and no peer owes the client an answer: every getdata /
//     getcfilters a peer received after since was followed by a message it sent;
//   - block B: every getdata for B received after since was answered with the
//     block message (count of "block B" sent >= count of getdata B received,
//     possibly both zero: the client never asked although the peers are idle);
//   - two goroutine dumps 2 s apart show the same GetUtxo callers (goroutine
//     ids) parked in GetUtxoRequest.Result with identical stacks, and every
//     goroutine of the scanner's batch manager in both dumps with an identical
//     stack (or none in both);
//   - the peers received no getdata / getcfilters between the dumps.
//
// parked names the innermost client function of the batch manager goroutine.
func (x *l2Run) leftParked(bHash chainhash.Hash, since int64) (violated bool, text, parked string) {
	livePeers := func() int {
		n := 0
		for _, p := range x.w.Peers {
			if x.peerLive(p) {
				n++
			}
		}
		return n
	}
	l1 := livePeers()
	s1 := x.served.Load()
	d1 := parseDump(l2AllStacks())
	time.Sleep(2 * time.Second)
	d2 := parseDump(l2AllStacks())
	s2 := x.served.Load()
	l2n := livePeers()

	callers := func(d map[string]gor) (ids []string) {
		for id, g := range d {
			if g.has("(*GetUtxoRequest).Result") {
				ids = append(ids, id)
			}
		}
		sort.Strings(ids)
		return
	}
	c1, c2 := callers(d1), callers(d2)
	sameCallers := len(c1) > 0 && strings.Join(c1, ",") == strings.Join(c2, ",")
	if sameCallers {
		for _, id := range c1 {
			if !sameFrames(d1[id], d2[id]) {
				sameCallers = false
			}
		}
	}
	bm := func(d map[string]gor) (ids []string) {
		for id, g := range d {
			if g.has("(*UtxoScanner).batchManager") {
				ids = append(ids, id)
			}
		}
		sort.Strings(ids)
		return
	}
	b1, b2 := bm(d1), bm(d2)
	sameBM := strings.Join(b1, ",") == strings.Join(b2, ",")
	parked = "batch-manager-exited"
	var bmDesc []string
	if sameBM {
		for _, id := range b1 {
			if !sameFrames(d1[id], d2[id]) {
				sameBM = false
			}
			parked = d1[id].innermostClientFrame()
			bmDesc = append(bmDesc, fmt.Sprintf("goroutine %s [%s] in %s", id, d1[id].state, parked))
		}
	}

	// The network side, from the event log.
	h8 := bHash.String()[:8]
	gdB, blkB := 0, 0
	owes := map[string]bool{}
	for _, e := range x.w.Log.Snapshot() {
		if e.Seq <= since {
			continue
		}
		switch {
		case e.Dir == "rx" && (e.Cmd == "getdata" || e.Cmd == "getcfilters"):
			owes[e.Peer] = true
			if e.Cmd == "getdata" && strings.HasSuffix(e.Note, h8) {
				gdB++
			}
		case e.Dir == "tx" && (e.Cmd == "block" || e.Cmd == "cfilter" || e.Cmd == "notfound"):
			owes[e.Peer] = false
			if e.Cmd == "block" && strings.HasPrefix(e.Note, h8) {
				blkB++
			}
		case e.Dir == "ev" && (e.Cmd == "closed" || e.Cmd == "disconnect"):
			owes[e.Peer] = false
		}
	}
	owing := 0
	for _, v := range owes {
		if v {
			owing++
		}
	}
	net := fmt.Sprintf("%d/%d peers connected at the two dumps, peers owing an answer: %d, since the peers are honest: %d getdata for the block received, %d times the block sent, peer requests %d->%d between the dumps",
		l1, l2n, owing, gdB, blkB, s1, s2)
	if sameCallers && sameBM && l1 > 0 && l2n > 0 && owing == 0 && blkB >= gdB && s1 == s2 {
		return true, fmt.Sprintf("%d GetUtxo callers parked in GetUtxoRequest.Result with identical stacks in two dumps 2 s apart; batch manager: %s; %s",
			len(c1), strings.Join(bmDesc, "; "), net), parked
	}
	return false, fmt.Sprintf("callers %v/%v (same=%v), batch manager %v/%v (same=%v); %s", c1, c2, sameCallers, b1, b2, sameBM, net), parked
}

// ---------------------------------------------------------------------------
// Execution.

type rfWitness struct {
	l2Witness
	Plan      map[string]any `json:"refetch_plan"`
	GetBlocks []*rfGB        `json:"direct_getblock_calls"`
}

// L2RefetchScenario runs scenario idx of the family (scenario index k of the L2
// part) in this (child) process.
func L2RefetchScenario(seed int64, idx, k int, res *l2.Result) {
	pl, rf := rfMakePlan(seed, idx)
	w, c := pl.w, pl.c
	defer w.Cleanup()
	res.Name = fmt.Sprintf("c10-l2-refetch-%d", idx)
	res.Fingerprint = L2Refetch + "|not-started"
	x := &l2Run{pl: pl, w: w, res: res, honest: c.tip0,
		drop: &l2Dropper{blk: map[chainhash.Hash]int{}, dropped: map[chainhash.Hash]int{}, signal: make(chan struct{}, 4)}}
	bad := rf.b.Block.Copy()
	bad.Transactions[len(bad.Transactions)-1].TxOut[0].Value++ // merkle root no longer matches the header
	f := &rfFault{target: rf.b.Hash, active: true, modes: map[*netsim.Peer]string{}, wrong: c.path[rf.BHeight-1].Block, corrupt: bad,
		nFault: map[string]int{}, banned: map[*netsim.Peer]bool{}, signal: make(chan struct{}, 8)}
	for i := 0; i < pl.Peers; i++ {
		p := w.AddPeer(c.tip0)
		if pl.Slow && i == pl.Peers-1 {
			p.Delay = time.Duration(10+pl.rng.Intn(25)) * time.Millisecond
		}
		f.modes[p] = rf.PeerModes[i]
		p.Mutate = f.mutate
		p.OnMsg = func(p *netsim.Peer, m wire.Message) bool {
			if cn := p.Conn(); cn != nil {
				x.live.Store(p, cn)
			}
			switch m.(type) {
			case *wire.MsgGetData, *wire.MsgGetCFilters:
				x.served.Add(1)
			}
			return false
		}
	}
	// Configuration: the client gives up on a query after rf.Retries+1 tries
	// (2 s, 4 s, 8 s) in this scenario.
	defRetries := neutrino.QueryNumRetries
	neutrino.QueryNumRetries = rf.Retries + 1 // set before the client starts (one scenario per process: never restored)
	_ = defRetries

	if err := w.StartClient(nil, l2.ClientOpts{}); err != nil {
		res.Inconcl("l2: client start failed")
		return
	}
	var viols []Violation
	add := func(sig, what string) { viols = append(viols, Violation{sig, what}) }
	stopped := false
	stopClient := func() {
		if stopped {
			return
		}
		stopped = true
		x.stopping.Store(true)
		d := 60 * time.Second
		if len(viols) > 0 {
			d = 10 * time.Second // callers were left waiting: Stop may well hang too (C17's subject)
		}
		ok, _ := w.StopClient(d)
		x.stopDone.Store(ok)
		if !ok {
			res.Inconcl("l2: Stop did not return (C17's subject)")
		}
	}
	defer stopClient()
	if !l2.WaitFor(60*time.Second, func() bool { return w.SyncedTo(c.tip0) }) {
		res.Inconcl("l2: initial sync not reached (C04's subject)")
		return
	}

	var incon string
	var gbs []*rfGB
	var gmu sync.Mutex
	getBlock := func(phase string) {
		g := &rfGB{Phase: phase}
		gmu.Lock()
		gbs = append(gbs, g)
		gmu.Unlock()
		x.wg.Add(1)
		go func() {
			defer x.wg.Done()
			blk, err := w.Svc.GetBlock(rf.b.Hash)
			gmu.Lock()
			defer gmu.Unlock()
			g.Returned = true
			if err != nil {
				g.Err = err.Error()
			} else if blk != nil {
				g.SameHash = *blk.Hash() == rf.b.Hash
			}
		}()
		x.tracef("direct GetBlock(B) issued (%s)", phase)
	}
	awaitFault := func() bool {
		select {
		case <-f.signal:
			return true
		case <-time.After(20 * time.Second):
			x.tracef("no getdata for B reached a peer within 20 s")
			return false
		}
	}
	since := int64(-1)
	endFault := func() {
		if since >= 0 {
			return
		}
		since = f.end(w.Log)
		// (QueryNumRetries is left alone while the client runs: it is a
		// package variable its goroutines read without synchronisation.)
		nf, _, _ := f.stats()
		x.tracef("the peers serve B honestly from now on (log position %d; %d refusals so far); QueryNumRetries stays %d", since, nf, rf.Retries+1)
	}
	// verdict after a watchdog expiry.
	parkedOrInconclusive := func(what string) {
		if v, text, parked := x.leftParked(rf.b.Hash, since); v {
			add("l2/left-waiting/"+what+"/"+L2Refetch+"/parked="+parked, what+": "+text)
		} else if incon == "" {
			incon = "call watchdog (" + what + "): not provably lost: " + text
		}
	}

	// Phase A: the doomed download.
	x.tracef("block B = height %d %s (%s), peers refuse it: %v, QueryNumRetries=%d", rf.BHeight, rf.b.Hash.String()[:8], rf.BKind, rf.PeerModes, rf.Retries)
	switch rf.First {
	case "scan":
		x.issue(pl.waves[0], "doomed")
	case "getblock-only":
		getBlock("doomed")
		for i := 1; i < rf.NDoomedGB; i++ {
			getBlock("doomed-dup")
		}
	case "getblock-first":
		getBlock("doomed")
		awaitFault()
		x.issue(pl.waves[0], "doomed-joined-other-fetch")
		for i := 1; i < rf.NDoomedGB; i++ {
			getBlock("doomed-dup")
		}
	case "scan-first":
		x.issue(pl.waves[0], "doomed")
		awaitFault()
		for i := 0; i < rf.NDoomedGB; i++ {
			getBlock("doomed-joined-scan-fetch")
		}
	case "together":
		x.issue(pl.waves[0], "doomed")
		for i := 0; i < rf.NDoomedGB; i++ {
			getBlock("doomed-together")
		}
	}
	ok := x.waitCalls(rfDoomedWatchdog)
	if !ok {
		// Not all doomed calls came back. End the fault, give the client the
		// time of every timer it may still have pending, then judge.
		x.tracef("doomed calls still out after %v", rfDoomedWatchdog)
		endFault()
		if ok = x.waitCalls(rfAfterClearWait); !ok {
			parkedOrInconclusive("while-download-failed")
		} else {
			x.tracef("the doomed calls returned only after the peers turned honest")
		}
	}
	faultsA, _, _ := f.stats()
	if ok {
		endFault()
		// The retry needs a connected peer (cut / banned connections come
		// back by themselves).
		want := 0
		for _, p := range w.Peers {
			if !f.isBanned(p) {
				want++
			}
		}
		l2.WaitFor(15*time.Second, func() bool {
			n := 0
			for _, p := range w.Peers {
				if x.peerLive(p) {
					n++
				}
			}
			return n >= want
		})
		live := 0
		for _, p := range w.Peers {
			if x.peerLive(p) {
				live++
			}
		}
		x.tracef("%d of %d peers connected before the retry", live, pl.Peers)
		if live == 0 {
			ok = false
			incon = "no peer connected after the fault: retry not attempted"
		}
	}
	// Phase B: the retry.
	if ok {
		x.issue(pl.waves[1], "retry-after-failed-download")
		if rf.RetryGB && !pl.Fixed {
			getBlock("retry-after-failed-download")
		}
		if ok = x.waitCalls(rfRetryWatchdog); !ok {
			parkedOrInconclusive("retry-after-failed-download")
		}
	}
	if ok && len(pl.waves) > 2 {
		x.issue(pl.waves[2], "after-recovery")
		if rf.RetryGB {
			getBlock("after-recovery")
		}
		if rf.Grow {
			x.reveal(len(c.growth), false)
		}
		if ok = x.waitCalls(rfRetryWatchdog); !ok {
			parkedOrInconclusive("after-recovery")
		}
	}
	stopClient()

	// Judgement.
	x.qmu.Lock()
	defer x.qmu.Unlock()
	gmu.Lock()
	defer gmu.Unlock()
	faults, honestServes, byMode := f.stats()
	evs := w.Log.Snapshot()
	lat := maxServeLatency(evs)
	// B never left a peer while the fault was active (harness self-check).
	h8 := rf.b.Hash.String()[:8]
	leaked := 0
	for _, e := range evs {
		if since >= 0 && e.Seq > since {
			break
		}
		if e.Dir == "tx" && e.Cmd == "block" && strings.HasPrefix(e.Note, h8) && rf.FailMode != rfCorrupt {
			leaked++
		}
	}
	if leaked > 0 && incon == "" {
		incon = "harness: B left a peer while the fault was active"
	}
	ansKinds := map[string]bool{}
	answered, doomedFailed, retriesCorrect, sameRetryCorrect := 0, 0, 0, 0
	for _, wave := range pl.waves {
		for _, q := range wave {
			if q.Phase == "" {
				continue
			}
			res.Count("l2_calls", 1)
			res.Count("l2_refetch_calls", 1)
			if !q.Returned {
				res.Count("l2_calls_not_returned", 1)
				q.FP = "l2|" + q.OpKind + "|" + q.Phase + "|dup=" + q.Dup + "|not-returned"
				continue
			}
			answered++
			q.StartRel = pl.startRel(q)
			q.Bounds = fmt.Sprintf("%d..%d", q.Lo, q.Hi)
			a := *q.Ans
			kind := a.Kind
			doomed := strings.HasPrefix(q.Phase, "doomed")
			switch {
			case a.Kind == KErr:
				switch {
				case errors.Is(q.raw, neutrino.ErrShuttingDown):
					kind = "err-shutdown"
					if !q.Stopping {
						add("l2/error/shutdown-without-stop", fmt.Sprintf("call %d answered ErrShuttingDown but the harness had not begun stopping the client", q.ID))
					}
				case q.Stopping:
					kind = "err-during-stop"
				case doomed && faultsA > 0 && leaked == 0:
					// No peer delivered a valid B while this call ran: the
					// scan could not complete.
					kind = "err-download-failed"
					doomedFailed++
				case lat > time.Second:
					kind = "err-slow-peer"
					if incon == "" {
						incon = fmt.Sprintf("a call failed (%s) and a simulated peer took %v to answer a request: oracle precondition not met", a.Err, lat)
					}
				default:
					kind = "err-other"
					add("l2/error/unexpected/"+L2Refetch+"/"+strings.SplitN(q.Phase, "-", 2)[0],
						fmt.Sprintf("call %d (%s %s start=%d, best %s, phase %s, dup=%s) failed with %q although every peer served every block and filter honestly since log position %d and the client was not stopped",
							q.ID, q.OpKind, q.OpStr, q.Start, q.Bounds, q.Phase, q.Dup, a.Err, since))
				}
			default:
				lo, hi := q.Lo, q.Hi
				if lo < 0 || hi < 0 {
					if incon == "" {
						incon = "BestBlock unreadable around a call"
					}
					break
				}
				acc := Acceptable(c.blocks, q.Op, q.Start, lo, hi)
				q.Expected = acc
				okAns := false
				for _, e := range acc {
					if e == a {
						okAns = true
					}
				}
				if !okAns {
					detail := "wrong-" + a.Kind
					if kindsOf(acc) != a.Kind {
						detail = "want-" + kindsOf(acc) + "-got-" + a.Kind
					}
					add("l2/answer/"+detail+"/"+q.OpKind+"/"+strings.SplitN(q.StartRel, ",", 2)[0],
						fmt.Sprintf("call %d (%s %s start=%d [%s], client best %d before / %d after, phase %s, dup=%s): got %s, reference allows %v",
							q.ID, q.OpKind, q.OpStr, q.Start, q.StartRel, lo, hi, q.Phase, q.Dup, a, acc))
				} else if !doomed {
					retriesCorrect++
					if strings.HasPrefix(q.Dup, "retry-") {
						sameRetryCorrect++
					}
				}
			}
			ansKinds[kind] = true
			res.Count("l2_answers_"+strings.ReplaceAll(kind, "-", "_"), 1)
			res.Count("l2_progress_callbacks", q.Progress)
			q.FP = "l2|" + q.OpKind + "|" + q.StartRel + "|" + q.Phase + "|dup=" + q.Dup + "|ans=" + kind
			res.Mark(q.FP)
		}
	}
	gbFailed, gbOK := 0, 0
	for _, g := range gbs {
		res.Count("l2_refetch_direct_getblock_calls", 1)
		switch {
		case !g.Returned:
			// Not a GetUtxo request: outside the property statement. Recorded.
			res.Count("l2_refetch_direct_getblock_not_returned", 1)
			res.Mark("l2|direct-getblock|" + g.Phase + "|not-returned")
		case g.Err != "":
			gbFailed++
			res.Mark("l2|direct-getblock|" + g.Phase + "|error")
			if !strings.HasPrefix(g.Phase, "doomed") && !x.stopping.Load() && lat <= time.Second {
				x.tracef("note: direct GetBlock(B) in phase %s failed with %q (not a GetUtxo request: recorded only)", g.Phase, g.Err)
				res.Count("l2_refetch_direct_getblock_failed_after_fault", 1)
			}
		default:
			gbOK++
			res.Mark("l2|direct-getblock|" + g.Phase + "|block")
			if !g.SameHash {
				res.Count("l2_refetch_direct_getblock_other_block", 1)
			}
		}
	}
	var aks []string
	for a := range ansKinds {
		aks = append(aks, a)
	}
	sort.Strings(aks)
	downloadFailed := doomedFailed > 0 || (rf.First == "getblock-only" && gbFailed > 0)
	res.Fingerprint = fmt.Sprintf("%s|peers=%d|fail=%s|tries=%d|B=%s|first=%s|retry=%s,gb=%v|grown=%d|failed=%v|answers=%s",
		L2Refetch, pl.Peers, rf.FailMode, rf.Retries, rf.BKind, rf.First, rf.RetryWho, rf.RetryGB, x.revealed, downloadFailed, strings.Join(aks, ","))
	res.Nontrivial = answered > 0 && faults > 0 && downloadFailed
	res.Count("l2_scenarios", 1)
	res.Count("l2_refetch_scenarios", 1)
	if downloadFailed {
		res.Count("l2_refetch_download_failed_scenarios", 1)
	}
	for m, n := range byMode {
		res.Count("l2_refetch_refusals_"+strings.ReplaceAll(m, "-", "_"), int64(n))
	}
	res.Count("l2_refetch_doomed_calls_answered_with_error", int64(doomedFailed))
	res.Count("l2_refetch_block_delivered_after_fault", int64(honestServes))
	res.Count("l2_refetch_answers_correct_after_fault", int64(retriesCorrect))
	res.Count("l2_refetch_same_request_retried_correct", int64(sameRetryCorrect))
	res.Count("l2_refetch_direct_getblock_failed", int64(gbFailed))
	res.Count("l2_refetch_direct_getblock_ok", int64(gbOK))
	res.Count("l2_growth_blocks_revealed", int64(x.revealed))
	res.Count("l2_peer_block_and_filter_requests", x.served.Load())
	res.Count("l2_net_events_logged", w.Log.Len())
	if incon != "" {
		res.Inconcl("l2: " + strings.SplitN(incon, ":", 2)[0])
	}
	wit := func() rfWitness {
		var rs []*l2Req
		for _, wave := range pl.waves {
			rs = append(rs, wave...)
		}
		x.tmu.Lock()
		tr := append([]string(nil), x.trace...)
		x.tmu.Unlock()
		return rfWitness{
			l2Witness: l2Witness{Scenario: k, Seed: seed, Trace: tr, Requests: rs, Net: w.Log.Tail(80),
				Setup: fmt.Sprintf("family=%s (index %d) trunk=%d tail..%d growth=%d peers=%d slow=%v announce=%s", L2Refetch, idx, pl.TrunkLen, c.tip0.Height, len(c.growth), pl.Peers, pl.Slow, pl.Announce)},
			Plan: map[string]any{"block_height": rf.BHeight, "block": rf.b.Hash.String(), "needs": rf.BKind, "peer_modes": rf.PeerModes, "tries": rf.Retries,
				"first": rf.First, "doomed_getblocks": rf.NDoomedGB, "retry": rf.RetryWho, "retry_getblock": rf.RetryGB, "grow": rf.Grow, "fixed": pl.Fixed},
			GetBlocks: gbs,
		}
	}
	seen := map[string]bool{}
	for _, v := range viols {
		if seen[v.Sig] {
			continue
		}
		seen[v.Sig] = true
		res.Violate(v.Sig, fmt.Sprintf("L2 scenario %d [%s]: %s", k, res.Fingerprint, v.What), wit())
	}
	if len(viols) == 0 && incon == "" {
		var rs []map[string]any
		for _, wave := range pl.waves {
			for _, q := range wave {
				if q.Ans != nil {
					rs = append(rs, map[string]any{"outpoint": q.OpStr, "kind": q.OpKind, "start": q.Start, "best": q.Bounds, "phase": q.Phase, "dup": q.Dup, "answer": q.Ans.String()})
				}
			}
		}
		if len(rs) > 8 {
			rs = rs[:8]
		}
		res.Sample = map[string]any{"l2_scenario": k, "fingerprint": res.Fingerprint, "block_height": rf.BHeight, "refusals": byMode,
			"block_delivered_after_fault": honestServes, "calls_first8": rs}
	}
	if os.Getenv("C10_L2_VERBOSE") != "" {
		ww := wit()
		fmt.Fprintf(os.Stderr, "scenario %d %s\n  %s\n  %v\n", k, res.Fingerprint, ww.Setup, ww.Plan)
		for _, t := range ww.Trace {
			fmt.Fprintln(os.Stderr, "   ", t)
		}
		for _, q := range ww.Requests {
			a := "-"
			if q.Ans != nil {
				a = q.Ans.String()
			}
			fmt.Fprintf(os.Stderr, "    call %2d wave %d %-16s %s start=%d [%s] best=%s phase=%s dup=%s -> %s (acceptable %v)\n",
				q.ID, q.Wave, q.OpKind, q.OpStr, q.Start, q.StartRel, q.Bounds, q.Phase, q.Dup, a, q.Expected)
		}
		for _, g := range gbs {
			fmt.Fprintf(os.Stderr, "    direct GetBlock %-28s returned=%v err=%q sameHash=%v\n", g.Phase, g.Returned, g.Err, g.SameHash)
		}
		fmt.Fprintf(os.Stderr, "  refusals=%v delivered-after=%d violations=%v inconclusive=%q max peer latency %v\n", byMode, honestServes, viols, incon, lat)
	}
}
