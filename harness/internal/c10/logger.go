package c10

import (
	"strings"
	"sync"
	"sync/atomic"

	"github.com/btcsuite/btcd/wire/v2"
	"github.com/btcsuite/btclog"
	"github.com/lightninglabs/neutrino"
)

// The scanner itself reports a second delivery to an already answered
// request through its logger ("duplicate getutxo result delivered ...",
// GetUtxoRequest.deliver). That line is the only place where a double answer
// is observable when the first answer has not been consumed yet, so the
// harness installs a logger that routes it to the cases watching the outpoint.

type dupRegistry struct {
	mu    sync.Mutex
	cases map[wire.OutPoint]map[*atomic.Int64]struct{}
	total atomic.Int64
}

var dupReg = &dupRegistry{cases: map[wire.OutPoint]map[*atomic.Int64]struct{}{}}

func (d *dupRegistry) register(op wire.OutPoint, c *atomic.Int64) {
	d.mu.Lock()
	m := d.cases[op]
	if m == nil {
		m = map[*atomic.Int64]struct{}{}
		d.cases[op] = m
	}
	m[c] = struct{}{}
	d.mu.Unlock()
}

func (d *dupRegistry) unregister(op wire.OutPoint, c *atomic.Int64) {
	d.mu.Lock()
	if m := d.cases[op]; m != nil {
		delete(m, c)
		if len(m) == 0 {
			delete(d.cases, op)
		}
	}
	d.mu.Unlock()
}

func (d *dupRegistry) hit(op wire.OutPoint) {
	d.total.Add(1)
	d.mu.Lock()
	for c := range d.cases[op] {
		c.Add(1)
	}
	d.mu.Unlock()
}

// DuplicateDeliveries is the process-wide number of duplicate-delivery
// warnings the scanner has logged.
func DuplicateDeliveries() int64 { return dupReg.total.Load() }

type capLogger struct{}

func (capLogger) Tracef(string, ...interface{})    {}
func (capLogger) Debugf(string, ...interface{})    {}
func (capLogger) Infof(string, ...interface{})     {}
func (capLogger) Errorf(string, ...interface{})    {}
func (capLogger) Criticalf(string, ...interface{}) {}
func (capLogger) Trace(...interface{})             {}
func (capLogger) Debug(...interface{})             {}
func (capLogger) Info(...interface{})              {}
func (capLogger) Warn(...interface{})              {}
func (capLogger) Error(...interface{})             {}
func (capLogger) Critical(...interface{})          {}
func (capLogger) Level() btclog.Level              { return btclog.LevelWarn }
func (capLogger) SetLevel(btclog.Level)            {}

func (capLogger) Warnf(format string, params ...interface{}) {
	if !strings.HasPrefix(format, "duplicate getutxo result delivered") {
		return
	}
	if len(params) > 0 {
		if op, ok := params[0].(wire.OutPoint); ok {
			dupReg.hit(op)
			return
		}
	}
	dupReg.total.Add(1)
}

var installOnce sync.Once

// InstallLogger routes neutrino's log through the capture logger (once).
func InstallLogger() { installOnce.Do(func() { neutrino.UseLogger(capLogger{}) }) }
