package c10

import (
	"errors"
	"fmt"
	"sync"
	"sync/atomic"

	"github.com/btcsuite/btcd/btcutil/v2"
	"github.com/btcsuite/btcd/btcutil/v2/gcs"
	"github.com/btcsuite/btcd/chaincfg/v2"
	"github.com/btcsuite/btcd/chainhash/v2"
	"github.com/btcsuite/btcd/wire/v2"
	"github.com/lightninglabs/neutrino"
	"github.com/lightninglabs/neutrino/blockntfns"
	"github.com/lightninglabs/neutrino/headerfs"
)

// Callback kinds of the scanner into the chain.
const (
	CBest   = iota // ChainSource.BestBlock  (UtxoScannerConfig.BestSnapshot)
	CHash          // getBlockHash           (UtxoScannerConfig.GetBlockHash)
	CFilter        // ChainSource.GetCFilter (via blockFilterMatches)
	CBlock         // ChainSource.GetBlock
	NumCB
	// CBestPost is a second gate inside BestBlock, passed AFTER the tip to be
	// returned was read: what happens there (blocks arriving, requests) is
	// not reflected in the returned value, as with the real chain service.
	CBestPost = NumCB
)

// CBName names callback kinds.
var CBName = [NumCB + 1]string{"best", "hash", "filter", "block", "best-post"}

// ErrBeyondTip is returned when the scanner asks for something above the
// visible best height (it never should).
var ErrBeyondTip = errors.New("c10: asked for a block above the visible tip")

// Source serves a prefix of one generated chain. Every callback first passes
// through Gate, which may park the calling (scanner) goroutine and may make
// the call fail.
type Source struct {
	ci *ChainInfo

	mu      sync.Mutex
	visible int32

	// Gate is invoked at the start of every callback with the kind and the
	// block height concerned (-1 for BestBlock). A non-nil error makes the
	// callback fail with it.
	Gate func(kind int, height int32) error
	// AfterBest is told the height every BestBlock call returned (or that
	// it failed); OnFail is told about injected failures of other kinds.
	AfterBest func(v int32, failed bool)
	OnFail    func(kind int)

	beyond atomic.Int64
}

// NewSource serves ci up to height visible.
func NewSource(ci *ChainInfo, visible int32) *Source {
	return &Source{ci: ci, visible: visible}
}

// Visible returns the current best height.
func (s *Source) Visible() int32 { s.mu.Lock(); defer s.mu.Unlock(); return s.visible }

// Extend raises the best height (never lowers it).
func (s *Source) Extend(to int32) int32 {
	s.mu.Lock()
	defer s.mu.Unlock()
	if to > s.ci.Len() {
		to = s.ci.Len()
	}
	if to > s.visible {
		s.visible = to
	}
	return s.visible
}

// BeyondTip counts requests above the visible tip.
func (s *Source) BeyondTip() int64 { return s.beyond.Load() }

func (s *Source) gate(kind int, h int32) error {
	if s.Gate == nil {
		return nil
	}
	err := s.Gate(kind, h)
	if err != nil {
		if kind == CBest && s.AfterBest != nil {
			s.AfterBest(0, true)
		} else if kind != CBest && s.OnFail != nil {
			s.OnFail(kind)
		}
	}
	return err
}

// ChainParams implements neutrino.ChainSource.
func (s *Source) ChainParams() chaincfg.Params { return *s.ci.Gen.P }

// BestBlock implements neutrino.ChainSource.
func (s *Source) BestBlock() (*headerfs.BlockStamp, error) {
	if err := s.gate(CBest, -1); err != nil {
		return nil, err
	}
	v := s.Visible()
	n := s.ci.Path[v]
	if s.Gate != nil {
		_ = s.Gate(CBestPost, v)
	}
	if s.AfterBest != nil {
		s.AfterBest(v, false)
	}
	return &headerfs.BlockStamp{Hash: n.Hash, Height: v, Timestamp: n.Hdr.Timestamp}, nil
}

// GetBlockHash is the scanner's height -> hash lookup.
func (s *Source) GetBlockHash(height int64) (*chainhash.Hash, error) {
	if err := s.gate(CHash, int32(height)); err != nil {
		return nil, err
	}
	if height < 0 || height > int64(s.Visible()) {
		s.beyond.Add(1)
		return nil, fmt.Errorf("%w: height %d", ErrBeyondTip, height)
	}
	h := s.ci.Path[height].Hash
	return &h, nil
}

func (s *Source) heightOf(hash chainhash.Hash) (int32, error) {
	h, ok := s.ci.ByHash[hash]
	if !ok || h > s.Visible() {
		s.beyond.Add(1)
		return -1, fmt.Errorf("%w: hash %v", ErrBeyondTip, hash)
	}
	return h, nil
}

// GetBlock implements neutrino.ChainSource.
func (s *Source) GetBlock(hash chainhash.Hash, _ ...neutrino.QueryOption) (*btcutil.Block, error) {
	h, herr := s.heightOf(hash)
	if err := s.gate(CBlock, h); err != nil {
		return nil, err
	}
	if herr != nil {
		return nil, herr
	}
	b := btcutil.NewBlock(s.ci.Blocks[h])
	b.SetHeight(h)
	return b, nil
}

// GetCFilter implements neutrino.ChainSource.
func (s *Source) GetCFilter(hash chainhash.Hash, ft wire.FilterType,
	_ ...neutrino.QueryOption) (*gcs.Filter, error) {

	h, herr := s.heightOf(hash)
	if err := s.gate(CFilter, h); err != nil {
		return nil, err
	}
	if herr != nil {
		return nil, herr
	}
	if ft != wire.GCSFilterRegular {
		return nil, fmt.Errorf("c10: unexpected filter type %v", ft)
	}
	return s.ci.Filters[h], nil
}

// The remaining ChainSource methods are not used by the scanner wiring.

func (s *Source) GetBlockHeaderByHeight(uint32) (*wire.BlockHeader, error) {
	panic("c10: GetBlockHeaderByHeight unused by the utxo scanner")
}
func (s *Source) GetBlockHeader(*chainhash.Hash) (*wire.BlockHeader, uint32, error) {
	panic("c10: GetBlockHeader unused by the utxo scanner")
}
func (s *Source) GetFilterHeaderByHeight(uint32) (*chainhash.Hash, error) {
	panic("c10: GetFilterHeaderByHeight unused by the utxo scanner")
}
func (s *Source) Subscribe(uint32) (*blockntfns.Subscription, error) {
	panic("c10: Subscribe unused by the utxo scanner")
}
func (s *Source) IsCurrent() bool { panic("c10: IsCurrent unused by the utxo scanner") }

var _ neutrino.ChainSource = (*Source)(nil)
