// Package c10 drives neutrino's UtxoScanner (the real code, wired like
// production through a ChainSource) over generated chains with gated chain
// callbacks, and judges every GetUtxo answer against a reference scan.
//
// It is a library so that a later race-detector program can import the same
// scenario driver (RunCase) that cmd/c10 uses.
package c10

import (
	"fmt"
	"math/rand"
	"time"

	"github.com/btcsuite/btcd/btcutil/v2/gcs"
	"github.com/btcsuite/btcd/btcutil/v2/gcs/builder"
	"github.com/btcsuite/btcd/chainhash/v2"
	"github.com/btcsuite/btcd/wire/v2"

	"verif/internal/chaingen"
)

// Loc locates a transaction (and for spends, the input) in the chain.
type Loc struct {
	Height int32
	TxIdx  int
	InIdx  int // spends only
	NOut   int // creations only
}

// ChainInfo is one generated chain plus read-only indexes used to PICK
// requests (the oracle does not use the indexes, it scans blocks).
type ChainInfo struct {
	ID      int
	Gen     *chaingen.Gen
	Path    []*chaingen.Node // height -> node, genesis first
	Blocks  []*wire.MsgBlock // what the Source serves (see addDoubleSpends)
	Filters []*gcs.Filter
	ByHash  map[chainhash.Hash]int32

	Created map[chainhash.Hash]Loc // txid -> creation
	Spent   map[wire.OutPoint]Loc  // outpoint -> spend

	SpentLater  []wire.OutPoint  // created at c, spent at s > c
	SameBlock   []wire.OutPoint  // created and spent in one block
	NeverSpent  []wire.OutPoint  // created, not spent on this chain
	DoubleSpent []wire.OutPoint  // spent-later outpoints given a second, later spend
	MultiOut    []chainhash.Hash // txids with >= 2 outputs (non-coinbase)

	// ExtraPrev holds, per height, the scripts spent by transactions added to
	// the served block after generation (needed to rebuild its filter).
	ExtraPrev map[int32][][]byte
	// Sweeps lists the blocks given several spends of distinct watched-able
	// outpoints in separate transactions (sweep.go; empty for plain chains).
	Sweeps []*SweepGroup
}

// Len is the tip height of the full chain.
func (c *ChainInfo) Len() int32 { return int32(len(c.Path) - 1) }

// BuildChain generates a chain of the given tip height from a seed.
func BuildChain(id int, seed int64, tip int) *ChainInfo {
	gt := time.Unix(1_600_000_000, 0)
	g := chaingen.NewGen(chaingen.Config{
		Seed: seed, Preset: chaingen.PresetNoRetarget,
		GenesisTime: gt, Now: gt.Add(400 * 24 * time.Hour), WithBlocks: true,
	})
	nodes := g.Extend(g.Genesis, tip, chaingen.PaceNormal)
	ci := &ChainInfo{
		ID: id, Gen: g, ByHash: map[chainhash.Hash]int32{},
		Created: map[chainhash.Hash]Loc{}, Spent: map[wire.OutPoint]Loc{},
	}
	ci.Path = append(ci.Path, g.Genesis)
	ci.Path = append(ci.Path, nodes...)
	for h, n := range ci.Path {
		if n.Height != int32(h) {
			panic("c10: path heights")
		}
		ci.Blocks = append(ci.Blocks, n.Block)
		ci.Filters = append(ci.Filters, n.Filter)
		ci.ByHash[n.Hash] = int32(h)
		for ti, tx := range n.Block.Transactions {
			ci.Created[tx.TxHash()] = Loc{Height: int32(h), TxIdx: ti, NOut: len(tx.TxOut)}
			if ti == 0 {
				continue
			}
			for ii, in := range tx.TxIn {
				ci.Spent[in.PreviousOutPoint] = Loc{Height: int32(h), TxIdx: ti, InIdx: ii}
			}
		}
	}
	// Classify outpoints in block order (deterministic).
	for _, blk := range ci.Blocks {
		for ti, tx := range blk.Transactions {
			th := tx.TxHash()
			cl := ci.Created[th]
			if ti > 0 && len(tx.TxOut) >= 2 {
				ci.MultiOut = append(ci.MultiOut, th)
			}
			for oi, o := range tx.TxOut {
				if len(o.PkScript) > 0 && o.PkScript[0] == 0x6a { // OP_RETURN
					continue
				}
				op := wire.OutPoint{Hash: th, Index: uint32(oi)}
				if sl, ok := ci.Spent[op]; ok {
					if sl.Height == cl.Height {
						ci.SameBlock = append(ci.SameBlock, op)
					} else {
						ci.SpentLater = append(ci.SpentLater, op)
					}
				} else {
					ci.NeverSpent = append(ci.NeverSpent, op)
				}
			}
		}
	}
	ci.addDoubleSpends(rand.New(rand.NewSource(seed ^ 0x5eed)))
	return ci
}

// addDoubleSpends makes the served chain contain, for some outpoints, a
// SECOND transaction spending them: appended to the block of the first spend
// (after it in block order) or to a later block. Such a chain is not
// consensus-valid, but the scanner is a light client that never checks that,
// and the property speaks of the EARLIEST spend. Headers (hashes) are kept;
// the affected blocks' served transactions and filters are rebuilt.
func (c *ChainInfo) addDoubleSpends(rng *rand.Rand) {
	extraScripts := map[int32][][]byte{}
	touched := map[int32]bool{}
	for _, op := range c.SpentLater {
		if rng.Intn(6) != 0 {
			continue
		}
		s := c.Spent[op].Height
		h := s
		if rng.Intn(2) == 0 && s < c.Len() {
			h = s + 1 + int32(rng.Intn(int(c.Len()-s)))
		}
		if !touched[h] {
			nb := *c.Blocks[h]
			nb.Transactions = append([]*wire.MsgTx(nil), c.Blocks[h].Transactions...)
			c.Blocks[h] = &nb
			touched[h] = true
		}
		tx := wire.NewMsgTx(2)
		in := wire.NewTxIn(&op, nil, nil)
		sig := make([]byte, 71)
		rng.Read(sig)
		pub := make([]byte, 33)
		rng.Read(pub)
		in.Witness = wire.TxWitness{sig, pub}
		// Sometimes put the conflicting input second.
		if rng.Intn(2) == 0 {
			var other wire.OutPoint
			rng.Read(other.Hash[:])
			tx.AddTxIn(wire.NewTxIn(&other, nil, nil))
		}
		tx.AddTxIn(in)
		out := make([]byte, 22)
		rng.Read(out)
		out[0], out[1] = 0x00, 20
		tx.AddTxOut(wire.NewTxOut(1000, out))
		tx.LockTime = 0x7fff0000 + uint32(len(c.DoubleSpent))
		c.Blocks[h].Transactions = append(c.Blocks[h].Transactions, tx)
		extraScripts[h] = append(extraScripts[h], c.ScriptOf(op))
		c.Created[tx.TxHash()] = Loc{Height: h, TxIdx: len(c.Blocks[h].Transactions) - 1, NOut: 1}
		c.DoubleSpent = append(c.DoubleSpent, op)
	}
	c.ExtraPrev = extraScripts
	for h := range touched {
		prev := append(append([][]byte(nil), c.Path[h].PrevScripts...), extraScripts[h]...)
		f, err := builder.BuildBasicFilter(c.Blocks[h], prev)
		if err != nil {
			panic(err)
		}
		c.Filters[h] = f
	}
}

// ScriptOf returns the pkScript of an existing outpoint (nil if unknown).
func (c *ChainInfo) ScriptOf(op wire.OutPoint) []byte {
	l, ok := c.Created[op.Hash]
	if !ok || int(op.Index) >= l.NOut {
		return nil
	}
	return c.Blocks[l.Height].Transactions[l.TxIdx].TxOut[op.Index].PkScript
}

// ---------------------------------------------------------------------------
// Reference: the fate of an outpoint on a chain prefix.

// Answer kinds.
const (
	KSpent  = "spent"
	KOutput = "output"
	KEmpty  = "empty"
	KErr    = "error"
	KBlank  = "blank-report" // non-nil report with neither spend nor output
)

// Ans is a normalised, comparable GetUtxo answer.
type Ans struct {
	Kind string `json:"kind"`
	// spent
	SpendTx     string `json:"spend_tx,omitempty"`
	SpendIn     uint32 `json:"spend_in,omitempty"`
	SpendHeight uint32 `json:"spend_height,omitempty"`
	// output
	Value      int64  `json:"value,omitempty"`
	Script     string `json:"script,omitempty"`
	BlockHash  string `json:"block_hash,omitempty"`
	BlockHt    uint32 `json:"block_height,omitempty"`
	BlockIndex uint32 `json:"block_index,omitempty"`
	// error
	Err string `json:"err,omitempty"`
}

func (a Ans) String() string {
	switch a.Kind {
	case KSpent:
		return fmt.Sprintf("spent(tx=%.8s in=%d h=%d)", a.SpendTx, a.SpendIn, a.SpendHeight)
	case KOutput:
		return fmt.Sprintf("output(v=%d h=%d idx=%d)", a.Value, a.BlockHt, a.BlockIndex)
	case KErr:
		return "error(" + a.Err + ")"
	}
	return a.Kind
}

// RefUtxo scans blocks[start..e] exactly as the property statement reads:
// the earliest block at height >= start with an input spending op gives
// (tx, input index, height) — within a block the first such input in block
// order; otherwise, if the block AT start creates op (txid matches, index in
// range), that output; otherwise empty. Heights above e do not exist.
func RefUtxo(blocks []*wire.MsgBlock, op wire.OutPoint, start uint32, e int32) Ans {
	for h := int64(start); h <= int64(e) && h < int64(len(blocks)); h++ {
		for _, tx := range blocks[h].Transactions {
			for ii, in := range tx.TxIn {
				if in.PreviousOutPoint == op {
					return Ans{Kind: KSpent, SpendTx: tx.TxHash().String(),
						SpendIn: uint32(ii), SpendHeight: uint32(h)}
				}
			}
		}
	}
	if int64(start) <= int64(e) && int64(start) < int64(len(blocks)) {
		blk := blocks[start]
		for ti, tx := range blk.Transactions {
			if tx.TxHash() != op.Hash {
				continue
			}
			if int(op.Index) < len(tx.TxOut) {
				o := tx.TxOut[op.Index]
				return Ans{Kind: KOutput, Value: o.Value,
					Script:    fmt.Sprintf("%x", o.PkScript),
					BlockHash: blk.BlockHash().String(), BlockHt: start,
					BlockIndex: uint32(ti)}
			}
			break
		}
	}
	return Ans{Kind: KEmpty}
}

// Acceptable returns the set of reference answers over every scan end E in
// [lo,hi]. As a function of E the reference changes only where E crosses the
// start height or the first spend height, so those E are evaluated.
func Acceptable(blocks []*wire.MsgBlock, op wire.OutPoint, start uint32, lo, hi int32) []Ans {
	if hi < lo {
		hi = lo
	}
	es := map[int32]bool{lo: true, hi: true}
	add := func(e int64) {
		if e >= int64(lo) && e <= int64(hi) {
			es[int32(e)] = true
		}
	}
	add(int64(start) - 1)
	add(int64(start))
	top := RefUtxo(blocks, op, start, hi)
	if top.Kind == KSpent {
		add(int64(top.SpendHeight) - 1)
		add(int64(top.SpendHeight))
	}
	var out []Ans
	seen := map[Ans]bool{}
	for e := range es {
		a := RefUtxo(blocks, op, start, e)
		if !seen[a] {
			seen[a] = true
			out = append(out, a)
		}
	}
	return out
}

// pick returns a random element (ok=false if empty).
func pick[T any](rng *rand.Rand, s []T) (T, bool) {
	var z T
	if len(s) == 0 {
		return z, false
	}
	return s[rng.Intn(len(s))], true
}
