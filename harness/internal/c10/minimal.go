package c10

import "github.com/btcsuite/btcd/wire/v2"

// MinimalCases returns small hand-written schedules on chain ci (needs a tip
// of at least 12): one per defect the monitor found on the pinned tree, each
// minimised to the fewest requests and steps that still show it. They are
// run by `c10 -minimal` and judged by the same oracle as generated cases.
func MinimalCases(ci *ChainInfo) []*CaseSpec {
	mk := func(idx int, name string, v0 int32, reqs []ReqSpec, steps []Step) *CaseSpec {
		for i := range reqs {
			reqs[i].OpStr = reqs[i].Op.String()
			reqs[i].DupOf = -1
			if reqs[i].Dup == "" {
				reqs[i].Dup = "none"
			}
		}
		return &CaseSpec{Index: idx, Chain: ci.ID, Tip: ci.Len(), V0: v0, Reqs: reqs, Steps: steps,
			PlanOp: name}
	}
	pre := func(reqs ...int) Step {
		s := Step{Trig: Trigger{Kind: TPre}}
		for _, r := range reqs {
			s.Acts = append(s.Acts, Action{Kind: AEnqueue, Req: r})
		}
		return s
	}
	// A never-spent output created below the tip, with room above it.
	var unspent wire.OutPoint
	var c int32 = -1
	for _, op := range ci.NeverSpent {
		if h := ci.Created[op.Hash].Height; h >= 2 && h+3 <= ci.Len() {
			unspent, c = op, h
			break
		}
	}
	if c < 0 {
		return nil
	}
	tip := ci.Len()
	one := func(start uint32) []ReqSpec {
		return []ReqSpec{{Op: unspent, Script: ci.ScriptOf(unspent), Start: start, OpKind: "never-spent", Role: "focus"}}
	}
	two := func(s1, s2 uint32) []ReqSpec {
		r := one(s1)
		r = append(r, ReqSpec{Op: unspent, Script: ci.ScriptOf(unspent), Start: s2, OpKind: "never-spent", Role: "dup"})
		return r
	}
	return []*CaseSpec{
		// 1. One request whose start height is one above the tip, static chain.
		mk(0, "start-above-tip", tip, one(uint32(tip)+1), []Step{pre(0)}),
		// 2. One request at its creation height; the fetch of that block fails once.
		mk(1, "fetch-failure-at-start-height", tip, one(uint32(c)),
			[]Step{pre(0), {Trig: Trigger{Kind: TCall, CB: CBlock, N: 1}, Acts: []Action{{Kind: AFail}}}}),
		// 3. Two requests for one unspent outpoint: start = creation height, and two above.
		mk(2, "same-outpoint-two-start-heights", tip, two(uint32(c), uint32(c)+2), []Step{pre(0, 1)}),
		// 4. Same, the second starting two BELOW the creation height.
		mk(3, "same-outpoint-lower-start", tip, two(uint32(c), uint32(c)-2), []Step{pre(0, 1)}),
		// 5. A plain request on a static chain, read by two callers.
		mk(4, "two-readers", tip, one(uint32(c)), []Step{pre(0)}),
	}
}
