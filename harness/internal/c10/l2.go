package c10

// L2 part of C10: the same reference (RefUtxo / Acceptable, chain.go) applied
// to ChainService.GetUtxo of the REAL client end to end: the complete
// ChainService (block manager, work manager, filter/block fetching, caches,
// the production UtxoScanner) synced to scripted wire-level peers
// (internal/netsim, internal/l2). Calls are issued concurrently, in waves,
// while the honest chain grows, peers drop chosen getdata / getcfilters
// requests (one peer: work-manager retry; every peer: the scan cannot
// complete) or the client is stopped.
//
// One child process per scenario (l2.RunScenarios); L2Scenario is the
// importable scenario function.

import (
	"errors"
	"fmt"
	"math/big"
	"math/rand"
	"os"
	"regexp"
	"runtime"
	"sort"
	"strings"
	"sync"
	"sync/atomic"
	"time"

	"github.com/btcsuite/btcd/blockchain"
	"github.com/btcsuite/btcd/btcutil/v2"
	"github.com/btcsuite/btcd/btcutil/v2/gcs/builder"
	"github.com/btcsuite/btcd/chainhash/v2"
	"github.com/btcsuite/btcd/txscript/v2"
	"github.com/btcsuite/btcd/wire/v2"
	"github.com/lightninglabs/neutrino"
	"github.com/lightninglabs/neutrino/headerfs"

	"verif/internal/chaingen"
	"verif/internal/evid"
	"verif/internal/l2"
	"verif/internal/netsim"
	"verif/internal/ref"
)

// Sizes of the L2 part (scenario counts, never durations).
const (
	L2QuickScenarios    = 12
	L2ThoroughScenarios = 150
	L2MinDistinct       = 30 // request shapes (marks) + scenario shapes, quick tier
	L2ChildTimeout      = 200 * time.Second
)

// L2Rule is appended to the program's rule text.
const L2Rule = " || L2: scenario k of seed s (one child process each) is a pure function plan(s,k): an l2.World with a chaingen chain of 80-400 blocks " +
	"plus 2-4 hand-built tail blocks (second spends of outpoints already spent below, first spends of outputs left unspent, two spends of one " +
	"outpoint in one block) and 2-5 growth blocks (more first/second spends) revealed later; 1-3 honest wire-level peers; the complete real " +
	"ChainService synced to the chain; then w.Svc.GetUtxo(WatchInputs, StartBlock) is called concurrently in waves for outpoints spent later / " +
	"never spent / spent only in the tail or in a growth block / spent twice / created and spent in one block / foreign / out-of-range index / " +
	"sibling outputs / sweep-set (the outpoints ONE hand-built block spends first in different transactions, asked about together with 0-2 duplicate calls each, " +
	"at least one duplicate for an outpoint not spent last; in l2-stall-join all of them join the one stalled batch), duplicates with equal and different start heights, with start heights 0, below, at and above creation, at and after the " +
	"spend, at the tip, above the tip. Families: l2-static, l2-growth (blocks revealed while the scans run), l2-stall-join (a dropped getdata " +
	"stalls the running batch; the chain grows and is adopted, then a second wave joins the running batch), l2-withheld (every peer refuses one " +
	"block: the scan cannot complete; afterwards the carrier request is retried), l2-stop (Stop while a batch is stalled), l2-mixed (growth + one peer dropping + duplicates), " +
	"l2-refetch (every third scenario index; index 0 of the family is FIXED: a block B and requests whose scan must download B (B spends / creates the outpoint or is the start block); " +
	"while EVERY peer refuses a valid B (silence, another block, notfound, a corrupted B, connection cut inside the block message) the requests and direct GetBlock(B) calls " +
	"(scan alone / GetBlock first / scan first / together / GetBlock only) fail after the client's timeouts with QueryNumRetries lowered to 1-2; then the peers serve B honestly, the default is restored and " +
	"the SAME request is retried, alone or with duplicates / another outpoint needing B / a direct GetBlock / unrelated requests / growth; a call still out after a watchdog (75+30 s doomed, 100 s retry) is a " +
	"violation only if peers are connected and owe nothing, every getdata for B since the peers are honest was answered with the block (or none was sent), and two goroutine dumps 2 s apart show the same callers " +
	"parked in GetUtxoRequest.Result and the batch manager in an identical stack with no peer request in between; else inconclusive). " +
	"Oracle per call: it returns; its SpendReport equals RefUtxo over the final chain for SOME prefix E between the client's best height read " +
	"before the call and after its return; an error only if the harness withheld a block from every peer " +
	"(the block stays refused by every peer until the query's own 30 s limit fails the scan; l2-refetch: until every call of the doomed phase returned) or began stopping the client. L2 fingerprint of a call = (outpoint kind, start relation, wave/phase, duplicate kind, answer kind), marked; " +
	"a scenario counts under (family, faults that fired, growth, answer kinds). Counters prefixed l2_."

// L2Describe adds the L2 part's assumptions.
func L2Describe(r *evid.Run) {
	r.Assume("L2: the simulated peers implement the protocol subset of DESIGN appendix B and serve the generator's blocks and ground-truth filters; " +
		"hand-built blocks (double spends) are internally consistent (merkle root, witness commitment, PoW, BIP158 filter) but not consensus-valid, " +
		"which a light client never checks")
	r.Assume("L2: the client's own BestBlock read before a call and after its return bound the chain prefix the answer may refer to (no reorganisations in these scenarios)")
}

// L2Run is the parent side of the L2 part: it runs the tier's scenarios (one
// child process each, 16-wide) and folds their results and a few written-out
// scenarios into r. The caller sets the rule text (L2Rule) and calls r.Finish.
func L2Run(r *evid.Run) {
	// Every third scenario index belongs to the l2-refetch family (l2Split).
	n := r.Pick(L2QuickScenarios+L2RefetchQuick, L2ThoroughScenarios+L2RefetchThorough)
	var mu sync.Mutex
	var samples []any
	families := map[string]int{}
	refetchSeen := 0
	l2.RunScenariosCB(r, n, L2ChildTimeout, L2Scenario, func(res *l2.Result) {
		mu.Lock()
		defer mu.Unlock()
		if res.Sample != nil && len(samples) < 4 {
			samples = append(samples, res.Sample)
		}
		fam := strings.SplitN(res.Fingerprint, "|", 2)[0]
		families[fam]++
		if fam == L2Refetch && res.Nontrivial {
			refetchSeen++
		}
	})
	mu.Lock()
	defer mu.Unlock()
	r.Set("l2_refetch_scenarios_with_failed_download_and_retry", refetchSeen)
	if refetchSeen == 0 {
		r.Inconclusive("l2: no l2-refetch scenario reached a failed block download followed by a retry")
	}
	r.Set("l2_samples", samples)
	r.Set("l2_scenarios_by_family", families)
}

// ---------------------------------------------------------------------------
// Chain: generator trunk + hand-built blocks.

type l2Chain struct {
	g      *chaingen.Gen
	rng    *rand.Rand
	ctr    uint32
	path   []*chaingen.Node // height -> node of the FINAL chain (trunk + tail + growth)
	blocks []*wire.MsgBlock
	tip0   *chaingen.Node   // tip the client is synced to first (trunk + tail)
	growth []*chaingen.Node // revealed later, in order

	created map[chainhash.Hash]Loc
	spent   map[wire.OutPoint][]int32 // heights of every spend, ascending

	spentLater []wire.OutPoint // trunk: created at c, spent at s > c
	sameBlock  []wire.OutPoint
	unspent    []wire.OutPoint // never spent on the final chain
	lateSpent  []wire.OutPoint // first spent in a tail block
	growSpent  []wire.OutPoint // first spent in a growth block
	twice      []wire.OutPoint // spent in the trunk and again in tail/growth
	twiceSame  []wire.OutPoint // first spent by two transactions of ONE hand-built block
	multiOut   []chainhash.Hash
}

func (c *l2Chain) scriptOf(op wire.OutPoint) []byte {
	l, ok := c.created[op.Hash]
	if !ok || int(op.Index) >= l.NOut {
		return nil
	}
	return c.blocks[l.Height].Transactions[l.TxIdx].TxOut[op.Index].PkScript
}

func (c *l2Chain) foreignScript() []byte {
	s := make([]byte, 22)
	c.rng.Read(s)
	s[0], s[1] = txscript.OP_0, 20
	return s
}

// spendTx builds a transaction spending op (random witness: a light client
// verifies no signatures), optionally with an unrelated first input.
func (c *l2Chain) spendTx(op wire.OutPoint) *wire.MsgTx {
	tx := wire.NewMsgTx(2)
	if c.rng.Intn(3) == 0 {
		var other wire.OutPoint
		c.rng.Read(other.Hash[:])
		in := wire.NewTxIn(&other, nil, nil)
		in.Witness = wire.TxWitness{make([]byte, 71), make([]byte, 33)}
		tx.AddTxIn(in)
	}
	in := wire.NewTxIn(&op, nil, nil)
	sig, pub := make([]byte, 71), make([]byte, 33)
	c.rng.Read(sig)
	c.rng.Read(pub)
	sig[0], pub[0] = 0x30, 0x02
	in.Witness = wire.TxWitness{sig, pub}
	tx.AddTxIn(in)
	tx.AddTxOut(wire.NewTxOut(1000+int64(c.rng.Intn(1000)), c.foreignScript()))
	c.ctr++
	tx.LockTime = 0x6000_0000 + c.ctr
	return tx
}

// appendBlock hand-builds a block on parent containing txs and registers it
// with the generator's tree so that the simulated peers serve it.
func (c *l2Chain) appendBlock(parent *chaingen.Node, txs []*wire.MsgTx, prevScripts [][]byte) *chaingen.Node {
	g := c.g
	blk := &wire.MsgBlock{}
	cb := wire.NewMsgTx(2)
	cbIn := wire.NewTxIn(&wire.OutPoint{Index: 0xffffffff}, nil, nil)
	c.ctr++
	cbIn.SignatureScript, _ = txscript.NewScriptBuilder().AddInt64(int64(parent.Height + 1)).AddInt64(int64(0x5000_0000 + c.ctr)).Script()
	cb.AddTxIn(cbIn)
	cb.AddTxOut(wire.NewTxOut(50_0000_0000, c.foreignScript()))
	blk.AddTransaction(cb)
	hasWit := false
	for _, tx := range txs {
		blk.AddTransaction(tx)
		for _, in := range tx.TxIn {
			if len(in.Witness) > 0 {
				hasWit = true
			}
		}
	}
	if hasWit {
		chaingen.AddWitnessCommitment(blk)
	}
	utxs := make([]*btcutil.Tx, len(blk.Transactions))
	for i, tx := range blk.Transactions {
		utxs[i] = btcutil.NewTx(tx)
	}
	ts := time.Unix(parent.Hdr.Timestamp.Unix()+g.Spacing, 0)
	h := wire.BlockHeader{Version: 0x20000000, PrevBlock: parent.Hash, Timestamp: ts,
		Bits: ref.RequiredBits(g.P, parent.Chain(), ts), MerkleRoot: blockchain.CalcMerkleRoot(utxs, false)}
	target := blockchain.CompactToBig(h.Bits)
	for {
		hh := h.BlockHash()
		if blockchain.HashToBig(&hh).Cmp(target) <= 0 {
			break
		}
		h.Nonce++
	}
	blk.Header = h
	n := &chaingen.Node{Hdr: h, Hash: h.BlockHash(), Height: parent.Height + 1, Parent: parent, ChainValid: true,
		Block: blk, PrevScripts: prevScripts}
	n.CumWork = new(big.Int).Add(parent.CumWork, blockchain.CalcWork(h.Bits))
	f, err := builder.BuildBasicFilter(blk, prevScripts)
	if err != nil {
		panic(err)
	}
	n.Filter = f
	n.FilterBytes, _ = f.NBytes()
	n.FilterHash, _ = builder.GetFilterHash(f)
	n.FilterHeader, _ = builder.MakeHeaderForFilter(f, parent.FilterHeader)
	// Before any peer goroutine exists: the tree is still private to us.
	g.ByHash[n.Hash] = n
	return n
}

// index classifies the outpoints of the final chain.
func (c *l2Chain) index() {
	c.created = map[chainhash.Hash]Loc{}
	c.spent = map[wire.OutPoint][]int32{}
	c.blocks = nil
	for h, n := range c.path {
		c.blocks = append(c.blocks, n.Block)
		for ti, tx := range n.Block.Transactions {
			c.created[tx.TxHash()] = Loc{Height: int32(h), TxIdx: ti, NOut: len(tx.TxOut)}
			if ti == 0 {
				continue
			}
			for _, in := range tx.TxIn {
				c.spent[in.PreviousOutPoint] = append(c.spent[in.PreviousOutPoint], int32(h))
			}
		}
	}
}

// l2BuildChain builds the world's chain: trunk, tail, growth (everything is
// generated before the client exists).
func l2BuildChain(w *l2.World, rng *rand.Rand, trunkLen, nTail, nGrowth int) *l2Chain {
	g := w.G
	c := &l2Chain{g: g, rng: rng}
	trunk := g.Extend(g.Genesis, trunkLen, chaingen.PaceNormal)
	c.path = append([]*chaingen.Node{g.Genesis}, trunk...)
	c.index()

	// Classify trunk outpoints in block order.
	var never []wire.OutPoint
	for _, n := range c.path {
		for ti, tx := range n.Block.Transactions {
			th := tx.TxHash()
			if ti > 0 && len(tx.TxOut) >= 2 {
				c.multiOut = append(c.multiOut, th)
			}
			for oi, o := range tx.TxOut {
				if len(o.PkScript) == 0 || o.PkScript[0] == txscript.OP_RETURN {
					continue
				}
				op := wire.OutPoint{Hash: th, Index: uint32(oi)}
				switch hs := c.spent[op]; {
				case len(hs) == 0:
					if n.Height > 0 {
						never = append(never, op)
					}
				case hs[0] == n.Height:
					c.sameBlock = append(c.sameBlock, op)
				default:
					c.spentLater = append(c.spentLater, op)
				}
			}
		}
	}
	rng.Shuffle(len(never), func(i, j int) { never[i], never[j] = never[j], never[i] })
	takeNever := func() (wire.OutPoint, bool) {
		if len(never) <= 8 { // keep some genuinely unspent
			return wire.OutPoint{}, false
		}
		op := never[0]
		never = never[1:]
		return op, true
	}
	usedTwice := map[wire.OutPoint]bool{}
	build := func(parent *chaingen.Node, growth bool) *chaingen.Node {
		var txs []*wire.MsgTx
		var prev [][]byte
		add := func(op wire.OutPoint) {
			txs = append(txs, c.spendTx(op))
			last := txs[len(txs)-1]
			for range last.TxIn[:len(last.TxIn)-1] {
				prev = append(prev, c.foreignScript())
			}
			prev = append(prev, c.scriptOf(op))
		}
		for i, k := 0, 1+rng.Intn(3); i < k; i++ {
			switch r := rng.Intn(10); {
			case r < 4 && len(c.spentLater) > 0: // second spend of an outpoint spent in the trunk
				op := c.spentLater[rng.Intn(len(c.spentLater))]
				if usedTwice[op] {
					continue
				}
				usedTwice[op] = true
				c.twice = append(c.twice, op)
				add(op)
			case r < 8: // first spend of an output left unspent
				if op, ok := takeNever(); ok {
					if growth {
						c.growSpent = append(c.growSpent, op)
					} else {
						c.lateSpent = append(c.lateSpent, op)
					}
					add(op)
				}
			default: // two transactions of this block spend one outpoint
				if op, ok := takeNever(); ok {
					c.twiceSame = append(c.twiceSame, op)
					add(op)
					add(op)
				}
			}
		}
		return c.appendBlock(parent, txs, prev)
	}
	tip := trunk[len(trunk)-1]
	for i := 0; i < nTail; i++ {
		tip = build(tip, false)
		c.path = append(c.path, tip)
	}
	c.tip0 = tip
	for i := 0; i < nGrowth; i++ {
		tip = build(tip, true)
		c.path = append(c.path, tip)
		c.growth = append(c.growth, tip)
	}
	c.unspent = never
	c.index()
	return c
}

// ---------------------------------------------------------------------------
// Plan.

// L2 families.
const (
	L2Static    = "l2-static"
	L2Growth    = "l2-growth"
	L2StallJoin = "l2-stall-join"
	L2Withheld  = "l2-withheld"
	L2Stop      = "l2-stop"
	L2Mixed     = "l2-mixed"
)

type l2Req struct {
	ID     int           `json:"id"`
	Wave   int           `json:"wave"`
	Op     wire.OutPoint `json:"-"`
	OpStr  string        `json:"outpoint"`
	Script []byte        `json:"-"`
	Start  uint32        `json:"start"`
	OpKind string        `json:"op_kind"`
	Dup    string        `json:"dup"`
	Quit   bool          `json:"with_quit_chan"`

	// observations
	Lo, Hi   int32 `json:"-"`
	Ans      *Ans  `json:"answer,omitempty"`
	raw      error
	Returned bool   `json:"returned"`
	Stopping bool   `json:"stop_begun_at_return"`
	Progress int64  `json:"progress_callbacks"`
	Phase    string `json:"phase"`
	StartRel string `json:"start_rel"`
	FP       string `json:"fingerprint"`
	Expected []Ans  `json:"acceptable,omitempty"`
	Bounds   string `json:"best_height_before_after"`
}

type l2Plan struct {
	Seed     int64
	K        int
	Family   string
	TrunkLen int
	Peers    int
	Slow     bool
	Announce string
	Fixed    bool
	SweepSet string // what addSweepSet planned ("" = the chain had no suitable block)

	w     *l2.World
	rng   *rand.Rand
	c     *l2Chain
	waves [][]*l2Req
	nReq  int
	// stall / withheld
	stallHeight int32 // start height of the carrier request whose block fetch is dropped
	dropTimes   int
	dropAll     bool
}

func (pl *l2Plan) newReq(wave int, op wire.OutPoint, script []byte, start int64, kind, dup string) *l2Req {
	if start < 0 {
		start = 0
	}
	if script == nil {
		script = pl.c.foreignScript()
	}
	r := &l2Req{ID: pl.nReq, Wave: wave, Op: op, OpStr: fmt.Sprintf("%s:%d", op.Hash.String()[:10], op.Index), Script: script,
		Start: uint32(start), OpKind: kind, Dup: dup, Quit: pl.rng.Intn(4) == 0}
	pl.nReq++
	for len(pl.waves) <= wave {
		pl.waves = append(pl.waves, nil)
	}
	pl.waves[wave] = append(pl.waves[wave], r)
	return r
}

func pickOp(rng *rand.Rand, s []wire.OutPoint) (wire.OutPoint, bool) {
	if len(s) == 0 {
		return wire.OutPoint{}, false
	}
	return s[rng.Intn(len(s))], true
}

// startFor picks a start height for an outpoint created at cr and first spent
// at sp (sp < 0: never) relative to those heights and the tips; lowBound > 0
// forces the start above that height (second wave joining a running batch).
func (pl *l2Plan) startFor(cr, sp, lowBound int32) int64 {
	rng := pl.rng
	tip := pl.c.tip0.Height
	final := int32(len(pl.c.path) - 1)
	var cand []int64
	add := func(v int64) {
		if v >= 0 && v > int64(lowBound) {
			cand = append(cand, v)
		}
	}
	add(0)
	add(1)
	add(int64(cr) - 1 - int64(rng.Intn(5)))
	add(int64(cr))
	add(int64(cr))
	add(int64(cr))
	add(int64(cr) + 1)
	if sp > cr {
		add(int64(cr) + 1 + int64(rng.Intn(int(sp-cr))))
		add(int64(sp))
		add(int64(sp) + 1)
		add(int64(sp) + 1 + int64(rng.Intn(5)))
	}
	add(int64(tip))
	add(int64(tip) + 1)
	add(int64(final))
	add(int64(final) + 1 + int64(rng.Intn(4)))
	if len(cand) == 0 {
		return int64(lowBound) + 1
	}
	return cand[rng.Intn(len(cand))]
}

// addRandomReq plans one request of a seed-chosen kind into the wave.
func (pl *l2Plan) addRandomReq(wave int, lowBound int32, preferGrowth bool) {
	rng := pl.rng
	c := pl.c
	kinds := []string{"spent-later", "spent-later", "never-spent", "late-spent", "grow-spent", "spent-twice", "spent-twice", "twice-one-block",
		"same-block", "foreign", "oor-index", "sibling-set"}
	kind := kinds[rng.Intn(len(kinds))]
	if preferGrowth && rng.Intn(2) == 0 {
		kind = []string{"grow-spent", "spent-twice"}[rng.Intn(2)]
	}
	firstSpend := func(op wire.OutPoint) int32 {
		if hs := c.spent[op]; len(hs) > 0 {
			return hs[0]
		}
		return -1
	}
	var op wire.OutPoint
	ok := false
	switch kind {
	case "spent-later":
		op, ok = pickOp(rng, c.spentLater)
	case "never-spent":
		op, ok = pickOp(rng, c.unspent)
	case "late-spent":
		op, ok = pickOp(rng, c.lateSpent)
	case "grow-spent":
		op, ok = pickOp(rng, c.growSpent)
	case "spent-twice":
		op, ok = pickOp(rng, c.twice)
	case "twice-one-block":
		op, ok = pickOp(rng, c.twiceSame)
	case "same-block":
		op, ok = pickOp(rng, c.sameBlock)
	case "oor-index":
		if len(c.multiOut) > 0 {
			th := c.multiOut[rng.Intn(len(c.multiOut))]
			l := c.created[th]
			op, ok = wire.OutPoint{Hash: th, Index: uint32(l.NOut + rng.Intn(3))}, true
			s := pl.startFor(l.Height, -1, lowBound)
			if rng.Intn(2) == 0 && l.Height > lowBound {
				s = int64(l.Height)
			}
			pl.newReq(wave, op, c.scriptOf(wire.OutPoint{Hash: th}), s, kind, "none")
			return
		}
	case "sibling-set":
		if len(c.multiOut) > 0 {
			th := c.multiOut[rng.Intn(len(c.multiOut))]
			l := c.created[th]
			s := int64(l.Height)
			if l.Height <= lowBound || rng.Intn(3) == 0 {
				s = pl.startFor(l.Height, -1, lowBound)
			}
			for oi := 0; oi < l.NOut && oi < 3; oi++ {
				o := wire.OutPoint{Hash: th, Index: uint32(oi)}
				if sc := c.scriptOf(o); len(sc) > 0 && sc[0] != txscript.OP_RETURN {
					d := "sibling"
					if oi == 0 {
						d = "none"
					}
					pl.newReq(wave, o, sc, s, kind, d)
				}
			}
			return
		}
	}
	if !ok {
		// foreign: an outpoint no block creates.
		rng.Read(op.Hash[:])
		op.Index = uint32(rng.Intn(3))
		pl.newReq(wave, op, nil, pl.startFor(c.tip0.Height/2, -1, lowBound), "foreign", "none")
		return
	}
	cr := c.created[op.Hash].Height
	sp := firstSpend(op)
	first := pl.newReq(wave, op, c.scriptOf(op), pl.startFor(cr, sp, lowBound), kind, "none")
	// Duplicates of the same outpoint.
	switch rng.Intn(6) {
	case 0:
		pl.newReq(wave, op, first.Script, int64(first.Start), kind, "same-start")
	case 1:
		pl.newReq(wave, op, first.Script, pl.startFor(cr, sp, lowBound), kind, "other-start")
	}
}

func l2MakePlan(seed int64, k int) *l2Plan {
	rng := rand.New(rand.NewSource(seed*1_000_003 + int64(k)*7919 + 1010))
	pl := &l2Plan{Seed: seed, K: k, rng: rng}
	pl.Family = []string{L2Static, L2Growth, L2StallJoin, L2Withheld, L2Stop, L2Mixed, L2StallJoin, L2Growth}[k%8]
	pl.TrunkLen = 80 + rng.Intn(321)
	pl.Peers = 1 + rng.Intn(3)
	pl.Slow = pl.Peers > 1 && rng.Intn(3) == 0
	pl.Announce = []string{"inv", "headers"}[rng.Intn(2)]
	if k == 0 {
		pl.Fixed = true
		pl.Family, pl.TrunkLen, pl.Peers, pl.Slow, pl.Announce = L2Static, 150, 2, false, "headers"
	}
	span := time.Duration(pl.TrunkLen+400) * 6 * time.Second
	if span < 2*time.Hour {
		span = 2 * time.Hour
	}
	w := l2.NewWorld(l2.Config{Seed: seed*1_000_003 + int64(k) + 1_000_000, Preset: chaingen.PresetNoRetarget, SpacingSec: 4, GenesisAgo: span})
	pl.w = w
	nGrowth := 2 + rng.Intn(4)
	pl.c = l2BuildChain(w, rng, pl.TrunkLen, 2+rng.Intn(3), nGrowth)
	c := pl.c

	n0 := 5 + rng.Intn(8)
	switch pl.Family {
	case L2Static, L2Growth, L2Mixed:
		for pl.nReq < n0 {
			pl.addRandomReq(0, 0, pl.Family != L2Static)
		}
		if rng.Intn(2) == 0 || pl.Fixed {
			n1 := pl.nReq + 3 + rng.Intn(5)
			for pl.nReq < n1 {
				pl.addRandomReq(1, 0, false)
			}
		}
	}
	if pl.Fixed {
		// Fixed scenario: one call of every class with a known answer, on
		// top of the seeded ones.
		cr := func(op wire.OutPoint) int64 { return int64(c.created[op.Hash].Height) }
		for _, s := range []struct {
			ops  []wire.OutPoint
			kind string
		}{{c.twice, "spent-twice"}, {c.twiceSame, "twice-one-block"}, {c.unspent, "never-spent"}, {c.lateSpent, "late-spent"},
			{c.sameBlock, "same-block"}, {c.spentLater, "spent-later"}} {
			if len(s.ops) == 0 {
				continue
			}
			op := s.ops[0]
			pl.newReq(1, op, c.scriptOf(op), cr(op), s.kind, "none")
			pl.newReq(1, op, c.scriptOf(op), 0, s.kind, "other-start")
		}
	}
	switch pl.Family {
	case L2StallJoin, L2Withheld, L2Stop:
		// The carrier: a request whose start block is the one the peers
		// refuse to serve at first. Its start height is low so that most of
		// the second wave can still join the running batch above it.
		pl.stallHeight = 2 + int32(rng.Intn(int(c.tip0.Height)/3))
		n := c.path[pl.stallHeight]
		var carrier wire.OutPoint
		carrier.Hash = n.Block.Transactions[0].TxHash()
		pl.newReq(0, carrier, n.Block.Transactions[0].TxOut[0].PkScript, int64(pl.stallHeight), "carrier", "none")
		for pl.nReq < 1+rng.Intn(4) {
			pl.addRandomReq(0, pl.stallHeight, false) // same batch, above the stall
		}
		switch pl.Family {
		case L2StallJoin:
			pl.dropTimes, pl.dropAll = 1, true
		case L2Withheld:
			// Every peer stays silent on that block until the query's
			// own 30 s batch timeout has failed the scan.
			pl.dropTimes, pl.dropAll = 1000, true
		case L2Stop:
			pl.dropTimes, pl.dropAll = 2, true
		}
		n1 := pl.nReq + 4 + rng.Intn(6)
		for pl.nReq < n1 {
			low := pl.stallHeight // join the running batch
			if rng.Intn(4) == 0 {
				low = 0 // may fall at or below the stalled height: deferred to the next batch
			}
			pl.addRandomReq(1, low, pl.Family == L2StallJoin)
		}
		if pl.Family == L2Withheld {
			n2 := pl.nReq + 2 + rng.Intn(4)
			for pl.nReq < n2 {
				pl.addRandomReq(2, 0, false) // after the failed batch
			}
			// The request that failed is retried once the block is served.
			pl.newReq(2, carrier, n.Block.Transactions[0].TxOut[0].PkScript, int64(pl.stallHeight), "carrier", "retry-same")
		}
	}
	pl.addSweepSet(seed, k)
	return pl
}

// addSweepSet mirrors the component part's sweep family: the outpoints that
// ONE hand-built block spends first, in different transactions, are asked
// about together, with 0-2 duplicate calls each (at least one duplicate for
// an outpoint that is not the last one spent). In l2-stall-join they are part
// of the second wave with start heights above the stalled block, so all of
// them join the one running batch; in the static / growth / mixed families
// they are issued with the first wave (same batch only if the calls arrive
// close enough). It draws from its own rng, so the rest of the plan is what
// it was without it.
func (pl *l2Plan) addSweepSet(seed int64, k int) {
	wave, low, top := 0, int32(0), pl.c.tip0.Height
	switch pl.Family {
	case L2Static, L2Growth, L2Mixed:
	case L2StallJoin:
		wave, low, top = 1, pl.stallHeight, int32(len(pl.c.path)-1)
	default:
		return
	}
	c := pl.c
	rng := rand.New(rand.NewSource(seed*1_000_003 + int64(k)*7919 + 5050))
	type member struct {
		op wire.OutPoint
		tx int
	}
	var groups [][]member
	var heights []int32
	for h := int32(pl.TrunkLen) + 1; h <= top; h++ {
		var ms []member
		seen := map[wire.OutPoint]bool{}
		txs := map[int]bool{}
		for ti, tx := range c.blocks[h].Transactions {
			if ti == 0 {
				continue
			}
			for _, in := range tx.TxIn {
				op := in.PreviousOutPoint
				cl, ok := c.created[op.Hash]
				if !ok || seen[op] || cl.Height <= low || len(c.spent[op]) == 0 || c.spent[op][0] != h {
					continue
				}
				seen[op] = true
				txs[ti] = true
				ms = append(ms, member{op, ti})
			}
		}
		if len(ms) >= 2 && len(txs) >= 2 {
			groups = append(groups, ms)
			heights = append(heights, h)
		}
	}
	if len(groups) == 0 {
		return
	}
	gi := rng.Intn(len(groups))
	ms, h := groups[gi], heights[gi]
	saved := pl.rng
	pl.rng = rng
	defer func() { pl.rng = saved }()
	dups := make([]int, len(ms))
	nonLast := 0
	for i := range ms {
		dups[i] = rng.Intn(3)
		if ms[i].tx < ms[len(ms)-1].tx {
			nonLast += dups[i]
		}
	}
	if nonLast == 0 {
		dups[0] = 1 + rng.Intn(2)
	}
	startOf := func(op wire.OutPoint) int64 {
		cr := int64(c.created[op.Hash].Height)
		switch rng.Intn(4) {
		case 0:
			return int64(h)
		case 1:
			return cr + 1 + int64(rng.Intn(int(int64(h)-cr)))
		}
		return cr
	}
	for i, m := range ms {
		first := pl.newReq(wave, m.op, c.scriptOf(m.op), startOf(m.op), "sweep-set", "none")
		for d := 0; d < dups[i]; d++ {
			if rng.Intn(2) == 0 {
				pl.newReq(wave, m.op, first.Script, int64(first.Start), "sweep-set", "same-start")
			} else {
				pl.newReq(wave, m.op, first.Script, startOf(m.op), "sweep-set", "other-start")
			}
		}
	}
	pl.SweepSet = fmt.Sprintf("block %d spends %d watched outpoints, duplicates %v", h, len(ms), dups)
}

// ---------------------------------------------------------------------------
// Droppers.

type l2Dropper struct {
	mu      sync.Mutex
	blk     map[chainhash.Hash]int
	cfBatch int
	dropped map[chainhash.Hash]int
	nBlk    int
	nCF     int
	signal  chan struct{}
}

func (d *l2Dropper) mutate(p *netsim.Peer, req wire.Message, honest []wire.Message) []wire.Message {
	d.mu.Lock()
	defer d.mu.Unlock()
	switch t := req.(type) {
	case *wire.MsgGetData:
		if len(t.InvList) == 1 && d.blk[t.InvList[0].Hash] > 0 {
			d.blk[t.InvList[0].Hash]--
			d.dropped[t.InvList[0].Hash]++
			d.nBlk++
			p.Log.Add(p.Addr, "ev", "drop", "getdata "+t.InvList[0].Hash.String()[:8])
			select {
			case d.signal <- struct{}{}:
			default:
			}
			return nil
		}
	case *wire.MsgGetCFilters:
		if d.cfBatch > 0 && len(honest) > 1 {
			d.cfBatch--
			d.nCF++
			p.Log.Add(p.Addr, "ev", "drop", fmt.Sprintf("getcfilters batch of %d", len(honest)))
			return nil
		}
	}
	return honest
}

// clear ends every withholding.
func (d *l2Dropper) clear() {
	d.mu.Lock()
	defer d.mu.Unlock()
	for h := range d.blk {
		d.blk[h] = 0
	}
	d.cfBatch = 0
}

func (d *l2Dropper) maxDropsOfOneItem() int {
	d.mu.Lock()
	defer d.mu.Unlock()
	m := 0
	for _, n := range d.dropped {
		if n > m {
			m = n
		}
	}
	return m
}

func (d *l2Dropper) counts() (int, int) { d.mu.Lock(); defer d.mu.Unlock(); return d.nBlk, d.nCF }

// ---------------------------------------------------------------------------
// Execution.

type l2Run struct {
	pl   *l2Plan
	w    *l2.World
	res  *l2.Result
	drop *l2Dropper
	live sync.Map

	honest   *chaingen.Node
	revealed int
	served   atomic.Int64 // getdata + getcfilters requests seen by the peers
	stopping atomic.Bool
	stopDone atomic.Bool
	trace    []string
	tmu      sync.Mutex
	wg       sync.WaitGroup
	qmu      sync.Mutex // guards the observation fields of every l2Req
}

func (x *l2Run) tracef(format string, a ...any) {
	x.tmu.Lock()
	x.trace = append(x.trace, fmt.Sprintf(format, a...))
	x.tmu.Unlock()
}

func (x *l2Run) best() int32 {
	bs, err := x.w.Svc.BestBlock()
	if err != nil {
		return -1
	}
	return bs.Height
}

func (x *l2Run) peerLive(p *netsim.Peer) bool {
	c := p.Conn()
	if c == nil || c.Dead() {
		return false
	}
	v, ok := x.live.Load(p)
	return ok && v.(*netsim.Conn) == c
}

// reveal extends the honest chain by the next n growth blocks.
func (x *l2Run) reveal(n int, adopt bool) {
	c := x.pl.c
	if x.revealed+n > len(c.growth) {
		n = len(c.growth) - x.revealed
	}
	if n <= 0 {
		return
	}
	nodes := c.growth[x.revealed : x.revealed+n]
	x.revealed += n
	to := nodes[len(nodes)-1]
	for _, p := range x.w.Peers {
		p.View.SetTip(to)
	}
	x.honest = to
	k := 0
	for _, p := range x.w.Peers {
		if !x.peerLive(p) {
			continue
		}
		if x.pl.Announce == "inv" {
			p.AnnounceInv(to)
		} else {
			p.AnnounceHeaders(nodes...)
		}
		k++
	}
	x.tracef("honest chain grows to %d (announced by %d peers; client at %d)", to.Height, k, x.best())
	if adopt {
		x.awaitClient(to, 20*time.Second)
	}
}

func (x *l2Run) awaitClient(n *chaingen.Node, d time.Duration) bool {
	deadline := time.Now().Add(d)
	last := time.Now()
	for time.Now().Before(deadline) {
		if x.w.SyncedTo(n) {
			return true
		}
		if time.Since(last) > 2*time.Second {
			last = time.Now()
			for _, p := range x.w.Peers {
				if x.peerLive(p) {
					p.AnnounceInv(n)
				}
			}
		}
		time.Sleep(5 * time.Millisecond)
	}
	x.tracef("client did not report height %d within %v (at %d)", n.Height, d, x.best())
	return false
}

// issue starts one GetUtxo call per request of the wave, each on its own
// goroutine; the client's best height is read immediately before the call and
// immediately after its return.
func (x *l2Run) issue(wave []*l2Req, phase string) {
	for _, q := range wave {
		q := q
		q.Phase = phase
		x.wg.Add(1)
		go func() {
			defer x.wg.Done()
			var prog atomic.Int64
			opts := []neutrino.RescanOption{
				neutrino.WatchInputs(neutrino.InputWithScript{OutPoint: q.Op, PkScript: q.Script}),
				neutrino.StartBlock(&headerfs.BlockStamp{Height: int32(q.Start)}),
				neutrino.ProgressHandler(func(uint32) { prog.Add(1) }),
			}
			if q.Quit {
				opts = append(opts, neutrino.QuitChan(make(chan struct{}))) // never closed
			}
			lo := x.best()
			rep, err := x.w.Svc.GetUtxo(opts...)
			stopping := x.stopping.Load()
			hi := x.best()
			a := Normalise(rep, err)
			x.qmu.Lock()
			q.Lo, q.Hi, q.Stopping = lo, hi, stopping
			q.Ans, q.raw = &a, err
			q.Progress = prog.Load()
			q.Returned = true
			x.qmu.Unlock()
		}()
	}
	x.tracef("wave of %d calls issued (%s; client at %d)", len(wave), phase, x.best())
}

func (x *l2Run) waitCalls(d time.Duration) bool {
	done := make(chan struct{})
	go func() { x.wg.Wait(); close(done) }()
	select {
	case <-done:
		return true
	case <-time.After(d):
		return false
	}
}

var reL2Go = regexp.MustCompile(`(?m)^goroutine (\d+) \[([^\],]*)`)

// dumpHas reports whether a goroutine whose stack contains every needle exists
// in the dump, and the wait states of those goroutines.
func dumpHas(dump string, needles ...string) (n int, states []string) {
	for _, blk := range strings.Split(dump, "\n\n") {
		ok := true
		for _, nd := range needles {
			if !strings.Contains(blk, nd) {
				ok = false
			}
		}
		if !ok {
			continue
		}
		n++
		if m := reL2Go.FindStringSubmatch(blk); m != nil {
			states = append(states, m[2])
		}
	}
	return
}

func l2AllStacks() string {
	buf := make([]byte, 1<<20)
	for {
		n := runtime.Stack(buf, true)
		if n < len(buf) {
			return string(buf[:n])
		}
		buf = make([]byte, 2*len(buf))
	}
}

// leftWaiting: the call watchdog expired. Violation only with the goroutine
// argument: in two dumps 2 s apart the same number of GetUtxo callers sit in
// GetUtxoRequest.Result while the scanner's batch manager is parked in
// sync.Cond.Wait (it believes there is nothing to do) or has exited, and the
// peers saw no request in between. Otherwise inconclusive.
func (x *l2Run) leftWaiting() (violated bool, text string) {
	s1 := x.served.Load()
	d1 := l2AllStacks()
	time.Sleep(2 * time.Second)
	d2 := l2AllStacks()
	s2 := x.served.Load()
	w1, _ := dumpHas(d1, "(*GetUtxoRequest).Result")
	w2, _ := dumpHas(d2, "(*GetUtxoRequest).Result")
	b1, st1 := dumpHas(d1, "(*UtxoScanner).batchManager")
	b2, st2 := dumpHas(d2, "(*UtxoScanner).batchManager")
	scanning1, _ := dumpHas(d1, "(*UtxoScanner).scanFromHeight")
	scanning2, _ := dumpHas(d2, "(*UtxoScanner).scanFromHeight")
	idle := func(n int, st []string, scanning int) bool {
		return scanning == 0 && (n == 0 || (len(st) == 1 && st[0] == "sync.Cond.Wait"))
	}
	if w1 > 0 && w1 == w2 && s1 == s2 && idle(b1, st1, scanning1) && idle(b2, st2, scanning2) {
		return true, fmt.Sprintf("%d GetUtxo callers parked in GetUtxoRequest.Result in two dumps 2 s apart while the batch manager is idle (%v) and the peers saw no request in between", w1, st1)
	}
	return false, fmt.Sprintf("callers waiting %d/%d, batch manager %v/%v scanning %d/%d, peer requests %d->%d", w1, w2, st1, st2, scanning1, scanning2, s1, s2)
}

// maxServeLatency returns the longest time a peer took between receiving a
// getdata / getcfilters request and sending the first message after it
// (requests the harness dropped are skipped).
func maxServeLatency(evs []netsim.Event) time.Duration {
	pending := map[string]time.Duration{}
	has := map[string]bool{}
	var max time.Duration
	for _, e := range evs {
		switch {
		case e.Dir == "rx" && (e.Cmd == "getdata" || e.Cmd == "getcfilters"):
			if !has[e.Peer] {
				pending[e.Peer], has[e.Peer] = e.T, true
			}
		case e.Dir == "ev" && (e.Cmd == "drop" || e.Cmd == "fault" || e.Cmd == "closed" || e.Cmd == "disconnect"):
			has[e.Peer] = false
		case e.Dir == "tx" && (e.Cmd == "block" || e.Cmd == "cfilter" || e.Cmd == "notfound"):
			if has[e.Peer] {
				if d := e.T - pending[e.Peer]; d > max {
					max = d
				}
				has[e.Peer] = false
			}
		}
	}
	return max
}

func (pl *l2Plan) startRel(q *l2Req) string {
	c := pl.c
	l, ok := c.created[q.Op.Hash]
	s := int32(-1)
	if hs := c.spent[q.Op]; len(hs) > 0 {
		s = hs[0]
	}
	st := int64(q.Start)
	var rel string
	switch {
	case !ok:
		rel = "no-creation"
	case st < int64(l.Height):
		rel = "below-create"
	case st == int64(l.Height):
		rel = "at-create"
	case s >= 0 && st < int64(s):
		rel = "between"
	case s >= 0 && st == int64(s):
		rel = "at-spend"
	case s >= 0:
		rel = "after-spend"
	default:
		rel = "above-create"
	}
	if st == 0 {
		rel += ",zero"
	}
	switch {
	case st > int64(q.Hi):
		rel += ",above-final-tip"
	case st > int64(q.Lo):
		rel += ",above-tip-at-call"
	case st == int64(q.Lo):
		rel += ",tip-at-call"
	}
	return rel
}

type l2Witness struct {
	Scenario int      `json:"scenario"`
	Seed     int64    `json:"seed"`
	Setup    string   `json:"setup"`
	Trace    []string `json:"trace"`
	Requests []*l2Req `json:"requests"`
	Net      []string `json:"net_log_tail"`
}

// L2Scenario runs scenario k of the seed in this (child) process.
func L2Scenario(seed int64, k int, res *l2.Result) {
	defer func() {
		if rec := recover(); rec != nil {
			buf := make([]byte, 1<<14)
			buf = buf[:runtime.Stack(buf, false)]
			fmt.Fprintf(os.Stderr, "C10 L2 scenario %d: harness panic: %v\n%s\n", k, rec, buf)
			res.Nontrivial = false
			res.Inconcl("l2: harness panic")
		}
	}()
	refetch, idx := l2Split(k)
	if refetch {
		L2RefetchScenario(seed, idx, k, res)
		return
	}
	pl := l2MakePlan(seed, idx)
	w, c := pl.w, pl.c
	defer w.Cleanup()
	res.Name = fmt.Sprintf("c10-l2-%d", idx)
	res.Fingerprint = pl.Family + "|not-started"
	x := &l2Run{pl: pl, w: w, res: res, honest: c.tip0,
		drop: &l2Dropper{blk: map[chainhash.Hash]int{}, dropped: map[chainhash.Hash]int{}, signal: make(chan struct{}, 4)}}
	for i := 0; i < pl.Peers; i++ {
		p := w.AddPeer(c.tip0)
		if pl.Slow && i == pl.Peers-1 {
			p.Delay = time.Duration(10+pl.rng.Intn(25)) * time.Millisecond
		}
		if pl.dropAll || (pl.Family == L2Mixed && i == 0) {
			p.Mutate = x.drop.mutate
		}
		p.OnMsg = func(p *netsim.Peer, m wire.Message) bool {
			if cn := p.Conn(); cn != nil {
				x.live.Store(p, cn)
			}
			switch m.(type) {
			case *wire.MsgGetData, *wire.MsgGetCFilters:
				x.served.Add(1)
			}
			return false
		}
	}
	if pl.dropTimes > 0 {
		x.drop.blk[c.path[pl.stallHeight].Hash] = pl.dropTimes
	}
	if pl.Family == L2Mixed {
		// One peer drops a filter batch and the start block of a request once.
		x.drop.cfBatch = 1
		if len(pl.waves) > 0 && len(pl.waves[0]) > 0 {
			q := pl.waves[0][pl.rng.Intn(len(pl.waves[0]))]
			if int(q.Start) < len(c.path) {
				x.drop.blk[c.path[q.Start].Hash] = 1
			}
		}
	}

	if err := w.StartClient(nil, l2.ClientOpts{}); err != nil {
		res.Inconcl("l2: client start failed")
		return
	}
	stopped := false
	stopClient := func() bool {
		if stopped {
			return true
		}
		stopped = true
		x.stopping.Store(true)
		ok, _ := w.StopClient(60 * time.Second)
		x.stopDone.Store(ok)
		if !ok {
			res.Inconcl("l2: Stop did not return within 60s (C17's subject)")
		}
		return ok
	}
	defer stopClient()
	if !l2.WaitFor(60*time.Second, func() bool { return w.SyncedTo(c.tip0) }) {
		res.Inconcl("l2: initial sync not reached (C04's subject)")
		return
	}

	var incon string
	var viols []Violation
	add := func(sig, what string) { viols = append(viols, Violation{sig, what}) }
	callsDone := func(what string, d time.Duration) bool {
		if x.waitCalls(d) {
			return true
		}
		if v, text := x.leftWaiting(); v {
			add("l2/left-waiting/"+what+"/"+pl.Family, what+": "+text)
		} else if incon == "" {
			incon = "call watchdog (" + what + "): not provably lost: " + text
		}
		return false
	}
	growSome := func() {
		// Reveal the growth blocks one by one while the scans run: each
		// after the peers served a few more requests (or a short pause
		// when the scans are already over).
		for x.revealed < len(c.growth) {
			base := x.served.Load()
			need := int64(1 + pl.rng.Intn(6))
			l2.WaitFor(150*time.Millisecond, func() bool { return x.served.Load() >= base+need })
			x.reveal(1+pl.rng.Intn(2), pl.rng.Intn(2) == 0)
		}
	}

	ok := true
	switch pl.Family {
	case L2Static:
		x.issue(pl.waves[0], "static")
		ok = callsDone("static", 60*time.Second)
		if ok && len(pl.waves) > 1 {
			x.issue(pl.waves[1], "static-2")
			ok = callsDone("static-2", 60*time.Second)
		}
	case L2Growth, L2Mixed:
		x.issue(pl.waves[0], "during-growth")
		if len(pl.waves) > 1 {
			x.reveal(1, false)
			x.issue(pl.waves[1], "during-growth-2")
		}
		growSome()
		ok = callsDone("growth", 90*time.Second)
	case L2StallJoin, L2Withheld, L2Stop:
		x.issue(pl.waves[0], "stalled-batch")
		stalled := false
		select {
		case <-x.drop.signal:
			stalled = true
			x.tracef("peers dropped getdata for the carrier's start block %d: batch stalled", pl.stallHeight)
		case <-time.After(20 * time.Second):
			x.tracef("the carrier's block request was never seen")
		}
		switch pl.Family {
		case L2StallJoin:
			// The chain grows and the client adopts it while the batch is
			// stalled; the second wave then joins the running batch.
			x.reveal(len(c.growth), true)
			ph := "joined-stalled-batch-after-growth"
			if !stalled {
				ph = "after-growth"
			}
			x.issue(pl.waves[1], ph)
			ok = callsDone("stall-join", 90*time.Second)
		case L2Withheld:
			x.issue(pl.waves[1], "joined-withheld-batch")
			if pl.rng.Intn(2) == 0 {
				x.reveal(1+pl.rng.Intn(2), false)
			}
			ok = callsDone("withheld", 120*time.Second)
			x.drop.clear()
			honestSince := w.Log.Len()
			if ok {
				x.issue(pl.waves[2], "after-failed-batch")
				growSome()
				if ok = x.waitCalls(100 * time.Second); !ok {
					// Same judgement as the l2-refetch family (leftParked).
					if v, text, parked := x.leftParked(c.path[pl.stallHeight].Hash, honestSince); v {
						add("l2/left-waiting/after-withheld/"+pl.Family+"/parked="+parked, "after-withheld: "+text)
					} else if v, text := x.leftWaiting(); v {
						add("l2/left-waiting/after-withheld/"+pl.Family, "after-withheld: "+text)
					} else if incon == "" {
						incon = "call watchdog (after-withheld): not provably lost: " + text
					}
				}
			}
		case L2Stop:
			x.issue(pl.waves[1], "joined-batch-before-stop")
			time.Sleep(time.Duration(pl.rng.Intn(300)) * time.Millisecond)
			x.tracef("Stop")
			if stopClient() {
				ok = callsDone("after-stop", 30*time.Second)
			} else {
				ok = false
			}
		}
	}
	_ = ok
	stopClient()

	// Judgement.
	x.qmu.Lock()
	defer x.qmu.Unlock()
	nBlk, nCF := x.drop.counts()
	// Withheld from every peer for the whole life of the query: every peer
	// drops, and the item was refused at least three times (attempts at 0,
	// 2 and 6 s; the client gives a query 30 s in all).
	withheld := pl.Family == L2Withheld && pl.dropAll && x.drop.maxDropsOfOneItem() >= 3
	evs := w.Log.Snapshot()
	lat := maxServeLatency(evs)
	ansKinds := map[string]bool{}
	answered := 0
	for _, wave := range pl.waves {
		for _, q := range wave {
			if q.Phase == "" {
				continue // never issued
			}
			res.Count("l2_calls", 1)
			if !q.Returned {
				res.Count("l2_calls_not_returned", 1)
				q.FP = "l2|" + q.OpKind + "|" + q.Phase + "|dup=" + q.Dup + "|not-returned"
				continue
			}
			answered++
			q.StartRel = pl.startRel(q)
			q.Bounds = fmt.Sprintf("%d..%d", q.Lo, q.Hi)
			a := *q.Ans
			kind := a.Kind
			switch {
			case a.Kind == KErr:
				switch {
				case errors.Is(q.raw, neutrino.ErrShuttingDown):
					kind = "err-shutdown"
					if !q.Stopping {
						add("l2/error/shutdown-without-stop", fmt.Sprintf("call %d answered ErrShuttingDown but the harness had not begun stopping the client", q.ID))
					}
				case q.Stopping:
					// The client was being stopped: the scan could not complete.
					kind = "err-during-stop"
				case withheld && q.Wave < 2:
					kind = "err-withheld"
				case lat > time.Second:
					kind = "err-slow-peer"
					if incon == "" {
						incon = fmt.Sprintf("a call failed (%s) and a simulated peer took %v to answer a request: oracle precondition not met", a.Err, lat)
					}
				default:
					kind = "err-other"
					add("l2/error/unexpected/"+pl.Family, fmt.Sprintf("call %d (%s %s start=%d, best %s) failed with %q although no block or filter was withheld from every peer and the client was not stopped",
						q.ID, q.OpKind, q.OpStr, q.Start, q.Bounds, a.Err))
				}
			default:
				lo, hi := q.Lo, q.Hi
				if lo < 0 || hi < 0 {
					if incon == "" {
						incon = "BestBlock unreadable around a call"
					}
					break
				}
				acc := Acceptable(c.blocks, q.Op, q.Start, lo, hi)
				q.Expected = acc
				okAns := false
				for _, e := range acc {
					if e == a {
						okAns = true
					}
				}
				if !okAns {
					detail := "wrong-" + a.Kind
					if kindsOf(acc) != a.Kind {
						detail = "want-" + kindsOf(acc) + "-got-" + a.Kind
					}
					add("l2/answer/"+detail+"/"+q.OpKind+"/"+strings.SplitN(q.StartRel, ",", 2)[0],
						fmt.Sprintf("call %d (%s %s start=%d [%s], client best %d before / %d after, phase %s, dup=%s): got %s, reference allows %v",
							q.ID, q.OpKind, q.OpStr, q.Start, q.StartRel, lo, hi, q.Phase, q.Dup, a, acc))
				}
			}
			ansKinds[kind] = true
			res.Count("l2_answers_"+strings.ReplaceAll(kind, "-", "_"), 1)
			res.Count("l2_progress_callbacks", q.Progress)
			q.FP = "l2|" + q.OpKind + "|" + q.StartRel + "|" + q.Phase + "|dup=" + q.Dup + "|ans=" + kind
			res.Mark(q.FP)
		}
	}
	var aks []string
	for a := range ansKinds {
		aks = append(aks, a)
	}
	sort.Strings(aks)
	fault := "none"
	switch {
	case nBlk > 0 && nCF > 0:
		fault = "drop-block+cfbatch"
	case nBlk > 0:
		fault = fmt.Sprintf("drop-block-x%d", x.drop.maxDropsOfOneItem())
	case nCF > 0:
		fault = "drop-cfbatch"
	}
	res.Fingerprint = fmt.Sprintf("%s|peers=%d|fault=%s|grown=%d|waves=%d|answers=%s", pl.Family, pl.Peers, fault, x.revealed, len(pl.waves), strings.Join(aks, ","))
	res.Nontrivial = answered > 0 && x.served.Load() > 0
	res.Count("l2_scenarios", 1)
	if pl.SweepSet != "" {
		res.Count("l2_scenarios_with_sweep_set", 1)
	}
	res.Count("l2_growth_blocks_revealed", int64(x.revealed))
	res.Count("l2_getdata_dropped", int64(nBlk))
	res.Count("l2_cfilter_batches_dropped", int64(nCF))
	res.Count("l2_peer_block_and_filter_requests", x.served.Load())
	res.Count("l2_net_events_logged", w.Log.Len())
	res.Count("l2_outpoints_spent_twice_in_chain", int64(len(c.twice)+len(c.twiceSame)))
	if incon != "" {
		res.Inconcl("l2: " + strings.SplitN(incon, ":", 2)[0])
	}
	wit := func() l2Witness {
		var rs []*l2Req
		for _, wave := range pl.waves {
			rs = append(rs, wave...)
		}
		x.tmu.Lock()
		tr := append([]string(nil), x.trace...)
		x.tmu.Unlock()
		return l2Witness{Scenario: k, Seed: seed, Trace: tr, Requests: rs, Net: w.Log.Tail(80),
			Setup: fmt.Sprintf("family=%s trunk=%d tail..%d growth=%d peers=%d slow=%v announce=%s stall-height=%d drops=%dx(all=%v) sweep-set=[%s]",
				pl.Family, pl.TrunkLen, c.tip0.Height, len(c.growth), pl.Peers, pl.Slow, pl.Announce, pl.stallHeight, pl.dropTimes, pl.dropAll, pl.SweepSet)}
	}
	seen := map[string]bool{}
	for _, v := range viols {
		if seen[v.Sig] {
			continue
		}
		seen[v.Sig] = true
		res.Violate(v.Sig, fmt.Sprintf("L2 scenario %d [%s]: %s", k, res.Fingerprint, v.What), wit())
	}
	if len(viols) == 0 && incon == "" {
		var rs []map[string]any
		for _, wave := range pl.waves {
			for _, q := range wave {
				if q.Ans != nil {
					rs = append(rs, map[string]any{"outpoint": q.OpStr, "kind": q.OpKind, "start": q.Start, "best": q.Bounds, "phase": q.Phase, "answer": q.Ans.String()})
				}
			}
		}
		if len(rs) > 6 {
			rs = rs[:6]
		}
		res.Sample = map[string]any{"l2_scenario": k, "fingerprint": res.Fingerprint, "calls_first6": rs}
	}
	if os.Getenv("C10_L2_VERBOSE") != "" {
		ww := wit()
		fmt.Fprintf(os.Stderr, "scenario %d %s\n  %s\n", k, res.Fingerprint, ww.Setup)
		for _, t := range ww.Trace {
			fmt.Fprintln(os.Stderr, "   ", t)
		}
		for _, q := range ww.Requests {
			a := "-"
			if q.Ans != nil {
				a = q.Ans.String()
			}
			fmt.Fprintf(os.Stderr, "    call %2d wave %d %-15s %s start=%d [%s] best=%s phase=%s dup=%s -> %s (acceptable %v)\n",
				q.ID, q.Wave, q.OpKind, q.OpStr, q.Start, q.StartRel, q.Bounds, q.Phase, q.Dup, a, q.Expected)
		}
		fmt.Fprintf(os.Stderr, "  violations=%v inconclusive=%q max peer latency %v\n", viols, incon, lat)
	}
}
