package c10

import (
	"errors"
	"fmt"
	"runtime"
	"sort"
	"strings"
	"sync"
	"sync/atomic"
	"time"

	"github.com/lightninglabs/neutrino"
)

// Tunables. None of them decides a verdict: they only pace the driver
// (when to try the next scripted step, when to look at goroutine dumps).
var (
	tick           = 400 * time.Microsecond
	lateQuiet      = 15 * time.Millisecond  // scanner silent this long -> start the late readers
	secondGrace    = 150 * time.Millisecond // how long a second Result reader gets before cleanup Stop
	lostQuiet      = 300 * time.Millisecond // silent + pending -> take goroutine dumps
	livelockSettle = 100 * time.Millisecond // readers get this long to report before a livelock verdict
	dumpGap        = 2 * time.Second
	caseWatchdog   = 60 * time.Second
	stopSettle     = 2 * time.Millisecond
	maxEventsKept  = 250
)

// Violation is one oracle finding of a case.
type Violation struct {
	Sig  string `json:"signature"`
	What string `json:"what"`
}

// ReqObs is what was observed for one request.
type ReqObs struct {
	Spec       ReqSpec `json:"spec"`
	Enqueued   bool    `json:"enqueued"`
	EnqueueErr string  `json:"enqueue_err,omitempty"`
	TipAtEnq   int32   `json:"tip_at_enqueue"`
	TipAtAns   int32   `json:"tip_at_answer"`
	Arrival    string  `json:"arrival"`
	StartRel   string  `json:"start_relation"`
	DupRel     string  `json:"duplicate_relation"`
	First      *Ans    `json:"first_result,omitempty"`
	Second     *Ans    `json:"second_result,omitempty"`
	Expected   []Ans   `json:"acceptable,omitempty"`
	Unanswered string  `json:"unanswered,omitempty"` // livelock|lost|blocked-after-stop
	Progress   int64   `json:"progress_callbacks"`
	DupWarn    int64   `json:"duplicate_delivery_warnings"`
	FP         string  `json:"fingerprint"`
}

// Outcome of one case.
type Outcome struct {
	Spec         *CaseSpec             `json:"case"`
	Reqs         []ReqObs              `json:"observed"`
	Events       []string              `json:"events"`
	Violations   []Violation           `json:"violations,omitempty"`
	Inconclusive string                `json:"inconclusive,omitempty"`
	Fault        string                `json:"fault_fired"`
	Calls        [NumCB + 1]int64      `json:"callbacks"`
	Batches      int64                 `json:"batches"`
	GatesUsed    int64                 `json:"gates_used"`
	Forced       int64                 `json:"steps_forced"`
	IdleSteps    int64                 `json:"steps_idle"`
	Nontrivial   bool                  `json:"nontrivial"`
	Scanner      *neutrino.UtxoScanner `json:"-"`
}

type fault struct {
	seq  int64
	kind int
	err  error
}

type waitRes struct {
	ri, w int
	ans   Ans
	raw   error
	tip   int32
}

type reqState struct {
	spec     ReqSpec
	enqueued bool
	enqErr   error
	// The harness had already called its own cleanup Stop when this request
	// was handed to Enqueue (a harness ordering slip, not the client's doing).
	afterCleanup bool
	req          *neutrino.GetUtxoRequest
	enqSeq       int64
	vlo, vhi     int32
	arrival      string
	started      bool // readers running
	res          [2]*waitRes
	order        []int // reader indexes in order of return
	returned     int   // readers that have returned (also after a liveness verdict)
	firstSeq     int64 // seq when first answer was received
	stopSeen     bool  // scripted stop had been initiated when the first answer was received
	unans        string
	progress     atomic.Int64
}

type stepState struct {
	Step
	seenN int
}

type gateHit struct {
	kind    int
	h       int32
	label   string
	steps   []*stepState
	release chan error
}

type driver struct {
	cs  *CaseSpec
	ci  *ChainInfo
	src *Source
	sc  *neutrino.UtxoScanner

	mu    sync.Mutex
	calls [NumCB + 1]int64
	total int64
	seenH map[[2]int32]bool
	steps []*stepState
	// Steps a gate has taken out of steps but the loop has not run yet (the
	// scanner goroutine is between onGate's unlock and the loop's receive).
	// They are still part of the script: stepsLeft counts them, so that the
	// loop never takes "no steps left" for "script done" (and cleans up with
	// Stop) while a scripted Enqueue is on its way.
	inflight  int
	closed    bool
	batchOpen bool
	batchEnd  int32
	batches   int64
	lastKind  int
	lastH     int32
	events    []string
	dropped   int

	gateCh chan *gateHit
	ansCh  chan *waitRes
	cancel chan struct{}
	done   chan struct{}

	seq      int64
	reqs     []*reqState
	faults   []fault
	stopSeq  int64 // 0 = no scripted stop
	stopDone chan struct{}
	stopping bool
	cleanup  bool

	dupWarn atomic.Int64

	gatesUsed, forced, idleSteps int64
	faultFired                   string
	inconclusive                 string
}

func (d *driver) logf(format string, a ...any) {
	d.mu.Lock()
	if len(d.events) < maxEventsKept {
		d.events = append(d.events, fmt.Sprintf("#%d t=%d ", d.seq, d.total)+fmt.Sprintf(format, a...))
	} else {
		d.dropped++
	}
	d.mu.Unlock()
}

func (d *driver) nextSeq() int64 { d.mu.Lock(); d.seq++; s := d.seq; d.mu.Unlock(); return s }

// onGate runs on the scanner goroutine at the start of every chain callback.
func (d *driver) onGate(kind int, h int32) error {
	d.mu.Lock()
	if d.closed {
		d.mu.Unlock()
		return nil
	}
	d.calls[kind]++
	if kind != CBestPost {
		d.total++
	}
	n := d.calls[kind]
	d.lastKind, d.lastH = kind, h
	label := CBName[kind]
	if kind == CBest {
		if d.batchOpen {
			label = "best-end"
		} else {
			label = "best-start"
		}
	}
	first := false
	if h >= 0 {
		k := [2]int32{int32(kind), h}
		if !d.seenH[k] {
			d.seenH[k] = true
			first = true
		}
	}
	var hit []*stepState
	rest := d.steps[:0:0]
	for _, s := range d.steps {
		m := false
		switch s.Trig.Kind {
		case TCall:
			m = s.Trig.CB == kind && int64(s.Trig.N) == n
		case THeight:
			m = s.Trig.CB == kind && s.Trig.Height == h && first
		}
		if m {
			hit = append(hit, s)
		} else {
			rest = append(rest, s)
		}
	}
	d.steps = rest
	d.inflight += len(hit)
	d.mu.Unlock()
	if len(hit) == 0 {
		return nil
	}
	g := &gateHit{kind: kind, h: h, label: label, steps: hit, release: make(chan error, 1)}
	select {
	case d.gateCh <- g:
	case <-d.done:
		return nil
	}
	select {
	case err := <-g.release:
		return err
	case <-d.done:
		return nil
	}
}

// afterBest keeps the batch counter (evidence only).
func (d *driver) afterBest(v int32, failed bool) {
	d.mu.Lock()
	switch {
	case failed:
		d.batchOpen = false
	case !d.batchOpen:
		d.batchOpen, d.batchEnd = true, v
		d.batches++
	case v > d.batchEnd:
		d.batchEnd = v
	default:
		d.batchOpen = false
	}
	d.mu.Unlock()
}

func relToGate(start uint32, h int32) string {
	s, g := int64(start), int64(h)
	switch {
	case s < g:
		return "below"
	case s == g:
		return "equal"
	case s == g+1:
		return "one-above"
	}
	return "above"
}

func (d *driver) arrivalLabel(ri int, ctx string, g *gateHit) string {
	if g == nil {
		return ctx
	}
	if g.kind == CBest {
		return "gate-" + g.label
	}
	return "gate-" + g.label + ":" + relToGate(d.reqs[ri].spec.Start, g.h)
}

func (d *driver) startReaders(ri int) {
	rs := d.reqs[ri]
	if rs.started || rs.req == nil {
		return
	}
	rs.started = true
	for w := 0; w < 2; w++ {
		go func(w int) {
			rep, err := rs.req.Result(d.cancel)
			d.ansCh <- &waitRes{ri: ri, w: w, ans: Normalise(rep, err), raw: err, tip: d.src.Visible()}
		}(w)
	}
}

// Normalise turns a GetUtxo answer into a comparable value.
func Normalise(rep *neutrino.SpendReport, err error) Ans {
	switch {
	case err != nil:
		return Ans{Kind: KErr, Err: err.Error()}
	case rep == nil:
		return Ans{Kind: KEmpty}
	case rep.SpendingTx != nil && rep.Output == nil:
		return Ans{Kind: KSpent, SpendTx: rep.SpendingTx.TxHash().String(),
			SpendIn: rep.SpendingInputIndex, SpendHeight: rep.SpendingTxHeight}
	case rep.SpendingTx == nil && rep.Output != nil:
		a := Ans{Kind: KOutput, Value: rep.Output.Value,
			Script: fmt.Sprintf("%x", rep.Output.PkScript), BlockHt: rep.BlockHeight,
			BlockIndex: rep.BlockIndex}
		if rep.BlockHash != nil {
			a.BlockHash = rep.BlockHash.String()
		}
		return a
	}
	return Ans{Kind: KBlank}
}

func (d *driver) enqueue(ri int, arrival string) {
	rs := d.reqs[ri]
	if rs.enqueued {
		return
	}
	rs.enqueued = true
	rs.arrival = arrival
	rs.vlo = d.src.Visible()
	rs.enqSeq = d.nextSeq()
	rs.afterCleanup = d.cleanup
	in := &neutrino.InputWithScript{OutPoint: rs.spec.Op, PkScript: rs.spec.Script}
	req, err := d.sc.Enqueue(in, rs.spec.Start, func(uint32) { rs.progress.Add(1) })
	if err != nil {
		rs.enqErr = err
		rs.vhi = rs.vlo
		d.logf("enqueue r%d start=%d tip=%d arrival=%s -> error %v", ri, rs.spec.Start, rs.vlo, arrival, err)
		return
	}
	rs.req = req
	d.logf("enqueue r%d %s start=%d tip=%d arrival=%s", ri, rs.spec.OpKind, rs.spec.Start, rs.vlo, arrival)
	if !rs.spec.Late || d.stopping {
		d.startReaders(ri)
	}
}

// exec runs the actions of a step; the returned error (if any) is what the
// gated callback must fail with.
func (d *driver) exec(s *stepState, ctx string, g *gateHit) error {
	var ret error
	for _, a := range s.Acts {
		switch a.Kind {
		case AEnqueue:
			d.enqueue(a.Req, d.arrivalLabel(a.Req, ctx, g))
		case AExtend:
			v := d.src.Extend(a.To)
			d.nextSeq()
			d.logf("extend visible tip to %d (%s)", v, ctx)
		case AStop:
			d.stop(true, ctx)
		case AFail:
			if g == nil {
				d.logf("fault dropped: its gate was never reached")
				continue
			}
			f := fault{seq: d.nextSeq(), kind: g.kind,
				err: fmt.Errorf("c10 injected failure of %s call", CBName[g.kind])}
			d.faults = append(d.faults, f)
			if d.faultFired == "" {
				d.faultFired = "fail-" + CBName[g.kind]
			}
			d.logf("inject failure into %s(h=%d)", CBName[g.kind], g.h)
			ret = f.err
		}
	}
	return ret
}

func (d *driver) stop(scripted bool, ctx string) {
	if d.stopping {
		return
	}
	d.stopping = true
	if scripted {
		d.stopSeq = d.nextSeq()
		if d.faultFired == "" {
			d.faultFired = "stop"
		}
		d.logf("Stop() initiated (%s)", ctx)
	} else {
		d.cleanup = true
		d.logf("cleanup Stop() by the harness (script done, first answers in)")
	}
	go func() {
		_ = d.sc.Stop()
		close(d.stopDone)
	}()
	// Let Stop close the quit channel before the scanner is released; this
	// only makes the scripted point sharper, no verdict depends on it.
	time.Sleep(stopSettle)
}

func (d *driver) snapshotTotal() int64 { d.mu.Lock(); defer d.mu.Unlock(); return d.total }

// popStep removes and returns the first remaining step.
func (d *driver) popStep() *stepState {
	d.mu.Lock()
	defer d.mu.Unlock()
	if len(d.steps) == 0 {
		return nil
	}
	s := d.steps[0]
	d.steps = d.steps[1:]
	return s
}

// stepsLeft counts the steps of the script that have not run yet, including
// those a gate is handing over right now.
func (d *driver) stepsLeft() int { d.mu.Lock(); defer d.mu.Unlock(); return len(d.steps) + d.inflight }

// goroutine dump helpers ----------------------------------------------------

func allStacks() string {
	buf := make([]byte, 1<<20)
	for {
		n := runtime.Stack(buf, true)
		if n < len(buf) {
			return string(buf[:n])
		}
		buf = make([]byte, 2*len(buf))
	}
}

// managerState finds the batchManager goroutine of sc in a dump.
func managerState(dump string, sc *neutrino.UtxoScanner) (found, condWait bool, top string) {
	needle := fmt.Sprintf("(*UtxoScanner).batchManager(%p", sc)
	for _, g := range strings.Split(dump, "\n\n") {
		if !strings.Contains(g, needle) {
			continue
		}
		lines := strings.Split(g, "\n")
		if len(lines) > 1 {
			top = strings.TrimSpace(lines[0]) + " | " + strings.TrimSpace(lines[1])
		}
		return true, strings.Contains(g, "sync.(*Cond).Wait"), top
	}
	return false, false, ""
}

func readersBlocked(dump string, req *neutrino.GetUtxoRequest) int {
	needle := fmt.Sprintf("(*GetUtxoRequest).Result(%p", req)
	return strings.Count(dump, needle)
}

// ---------------------------------------------------------------------------

// RunCase executes one case against the real scanner and judges it.
func RunCase(cs *CaseSpec, ci *ChainInfo) *Outcome {
	InstallLogger()
	d := &driver{
		cs: cs, ci: ci, src: NewSource(ci, cs.V0),
		seenH:    map[[2]int32]bool{},
		gateCh:   make(chan *gateHit),
		ansCh:    make(chan *waitRes, 2*len(cs.Reqs)+2),
		cancel:   make(chan struct{}),
		done:     make(chan struct{}),
		stopDone: make(chan struct{}),
	}
	for _, r := range cs.Reqs {
		d.reqs = append(d.reqs, &reqState{spec: r})
		dupReg.register(r.Op, &d.dupWarn)
	}
	defer func() {
		for _, r := range cs.Reqs {
			dupReg.unregister(r.Op, &d.dupWarn)
		}
	}()
	for i := range cs.Steps {
		d.steps = append(d.steps, &stepState{Step: cs.Steps[i]})
	}
	d.src.Gate = d.onGate
	d.src.AfterBest = d.afterBest
	d.src.OnFail = func(kind int) {
		if kind != CBest {
			d.mu.Lock()
			d.batchOpen = false
			d.mu.Unlock()
		}
	}
	d.sc = neutrino.VerifNewUtxoScanner(d.src, d.src.GetBlockHash)

	// Pre steps.
	var rest []*stepState
	for _, s := range d.steps {
		if s.Trig.Kind == TPre {
			d.exec(s, "pre-start", nil)
		} else {
			rest = append(rest, s)
		}
	}
	d.steps = rest
	_ = d.sc.Start()
	d.logf("scanner started, visible tip %d of %d", cs.V0, ci.Len())

	d.loop()
	if !d.stopping {
		d.stopping = true
		go func() { _ = d.sc.Stop() }()
	}

	// Release everything that may still be parked.
	d.mu.Lock()
	d.closed = true
	d.mu.Unlock()
	close(d.done)
	close(d.cancel)

	return d.judge()
}

func (d *driver) record(a *waitRes) {
	rs := d.reqs[a.ri]
	rs.returned++
	if rs.unans != "" {
		d.logf("reader r%d reader%d returned after the liveness verdict: %s", a.ri, a.w, a.ans)
		return
	}
	rs.res[a.w] = a
	rs.order = append(rs.order, a.w)
	if len(rs.order) == 1 {
		rs.vhi = a.tip
		rs.firstSeq = d.nextSeq()
		rs.stopSeen = d.stopSeq != 0
		d.logf("answer r%d reader%d: %s (tip %d)", a.ri, a.w, a.ans, a.tip)
	} else {
		d.logf("second reader r%d reader%d: %s", a.ri, a.w, a.ans)
	}
}

// counts over requests
func (d *driver) pendingStarted() (n int) {
	for _, rs := range d.reqs {
		if rs.req != nil && rs.started && len(rs.order) == 0 && rs.unans == "" {
			n++
		}
	}
	return
}
func (d *driver) lateUnstarted() (n int) {
	for _, rs := range d.reqs {
		if rs.req != nil && !rs.started {
			n++
		}
	}
	return
}
func (d *driver) unansweredInScanner() (n int) {
	for _, rs := range d.reqs {
		if rs.req != nil && len(rs.order) == 0 {
			n++
		}
	}
	return
}
func (d *driver) readersOutstanding() (n int) {
	for _, rs := range d.reqs {
		if rs.req != nil && rs.started {
			n += 2 - rs.returned
		}
	}
	return
}

func (d *driver) loop() {
	tk := time.NewTicker(tick)
	defer tk.Stop()
	watchdog := time.NewTimer(caseWatchdog)
	defer watchdog.Stop()

	L := int64(d.ci.Len())
	bound := func(pending int) int64 { return 3 * (L + 2) * int64(pending+2) }

	lastTotal := d.snapshotTotal()
	quietSince := time.Now() // since when the callback counter has not moved
	eventTotal := lastTotal  // callback counter at the last step/answer
	staticBase := int64(-1)  // callback counter when the script ran out with requests pending
	staticPending := 0
	var candAt time.Time
	var graceEnd time.Time
	inGrace := false

	for {
		select {
		case g := <-d.gateCh:
			d.gatesUsed++
			var err error
			for _, s := range g.steps {
				if e := d.exec(s, "gate", g); e != nil {
					err = e
				}
			}
			g.release <- err
			d.mu.Lock()
			d.inflight -= len(g.steps)
			d.mu.Unlock()
			eventTotal = d.snapshotTotal()
			staticBase = -1
			continue
		case a := <-d.ansCh:
			d.record(a)
			eventTotal = d.snapshotTotal()
			continue
		case <-watchdog.C:
			d.inconclusive = "case watchdog (60 s)"
			d.logf("watchdog fired")
			return
		case <-tk.C:
		}

		now := time.Now()
		t := d.snapshotTotal()
		if t != lastTotal {
			lastTotal = t
			quietSince = now
		}
		quiet := now.Sub(quietSince)
		since := t - eventTotal

		// After a Stop (scripted or cleanup): run out the script, then wait
		// for Stop and every reader to return.
		if d.stopping {
			if s := d.popStep(); s != nil {
				d.exec(s, "after-stop", nil)
				continue
			}
			for ri, rs := range d.reqs {
				if rs.req != nil && !rs.started {
					d.startReaders(ri)
				}
			}
			select {
			case <-d.stopDone:
			default:
				continue
			}
			if d.readersOutstanding() == 0 {
				return
			}
			if quiet >= lostQuiet && now.Sub(graceEnd) >= lostQuiet {
				d.blockedAfterStop()
				return
			}
			continue
		}

		pend := d.pendingStarted()
		left := d.stepsLeft()

		if pend == 0 {
			if left > 0 {
				// Everything enqueued so far is answered: the next scripted
				// step happens now unless the scanner is still moving (a
				// running batch may yet reach the step's own gate).
				if quiet >= 2*tick || since > bound(d.unansweredInScanner()) {
					if s := d.popStep(); s != nil {
						d.idleSteps++
						d.exec(s, "idle", nil)
						eventTotal = d.snapshotTotal()
						staticBase = -1
					}
				}
				continue
			}
			if d.lateUnstarted() > 0 {
				if quiet >= lateQuiet || since > bound(d.unansweredInScanner()) {
					for ri, rs := range d.reqs {
						if rs.req != nil && !rs.started {
							d.startReaders(ri)
						}
					}
					d.logf("late readers started")
					eventTotal = d.snapshotTotal()
					staticBase = -1
				}
				continue
			}
			// All first answers are in and the script is done.
			if !inGrace {
				inGrace = true
				graceEnd = now.Add(secondGrace)
			}
			if d.readersOutstanding() == 0 || now.After(graceEnd) {
				graceEnd = now
				d.stop(false, "cleanup")
			}
			continue
		}

		// Requests are pending.
		if left > 0 {
			if since > bound(d.unansweredInScanner()) || quiet >= lostQuiet/3 {
				if s := d.popStep(); s != nil {
					d.forced++
					d.exec(s, "forced", nil)
					eventTotal = d.snapshotTotal()
					staticBase = -1
				}
			}
			continue
		}
		// Script exhausted, chain static, every gate released.
		if staticBase < 0 {
			staticBase = t
			staticPending = d.unansweredInScanner()
			quietSince = now
			candAt = time.Time{}
			continue
		}
		if t-staticBase > bound(staticPending) {
			// Candidate livelock. The answer may already be in the request's
			// channel with its reader not yet scheduled (a spinning scanner
			// makes thousands of callbacks per millisecond), so the verdict
			// additionally waits until the bound has been exceeded twice
			// over AND the readers have had 100 ms to report.
			if candAt.IsZero() {
				candAt = now
				continue
			}
			if t-staticBase <= 2*bound(staticPending) || now.Sub(candAt) < livelockSettle {
				continue
			}
			for ri, rs := range d.reqs {
				if rs.req != nil && rs.started && len(rs.order) == 0 && rs.unans == "" {
					// The scanner keeps making callbacks without answering.
					// A request whose start block is not visible is what it
					// spins on; one whose start block is visible is simply
					// never served (dropped, or starved by the spinning).
					rs.unans = "livelock"
					if int64(rs.spec.Start) <= int64(d.src.Visible()) {
						rs.unans = "unserved-while-scanner-busy"
					}
					rs.vhi = d.src.Visible()
					d.logf("r%d still unanswered after %d further callbacks on a static chain with every gate released (bound %d for %d pending)",
						ri, t-staticBase, bound(staticPending), staticPending)
				}
			}
			continue
		}
		if quiet >= lostQuiet {
			d.lostRequest(t)
			if d.inconclusive != "" {
				return
			}
		}
	}
}

// lostRequest: requests pending, script done, no callback for a while. Two
// dumps 2 s apart must both show this scanner's batchManager parked in
// cond.Wait with no callback in between.
func (d *driver) lostRequest(t0 int64) {
	d1 := allStacks()
	f1, w1, top1 := managerState(d1, d.sc)
	time.Sleep(dumpGap)
	// Answers may have arrived meanwhile.
	for {
		select {
		case a := <-d.ansCh:
			d.record(a)
			continue
		default:
		}
		break
	}
	if d.pendingStarted() == 0 {
		return
	}
	d2 := allStacks()
	f2, w2, top2 := managerState(d2, d.sc)
	t1 := d.snapshotTotal()
	d.logf("dump1: manager found=%v condWait=%v [%s]; dump2: found=%v condWait=%v [%s]; callbacks between: %d",
		f1, w1, top1, f2, w2, top2, t1-t0)
	switch {
	case f1 && f2 && w1 && w2 && t1 == t0:
		for _, rs := range d.reqs {
			if rs.req != nil && rs.started && len(rs.order) == 0 && rs.unans == "" {
				rs.unans = "lost"
				rs.vhi = d.src.Visible()
			}
		}
	case !f1 && !f2 && t1 == t0:
		for _, rs := range d.reqs {
			if rs.req != nil && rs.started && len(rs.order) == 0 && rs.unans == "" {
				rs.unans = "manager-exited"
				rs.vhi = d.src.Visible()
			}
		}
	default:
		d.inconclusive = "requests pending and scanner silent, but dumps do not show it parked"
	}
}

// blockedAfterStop: Stop has returned (quit is closed) yet a reader has not.
func (d *driver) blockedAfterStop() {
	d1 := allStacks()
	time.Sleep(dumpGap)
	for {
		select {
		case a := <-d.ansCh:
			d.record(a)
			continue
		default:
		}
		break
	}
	if d.readersOutstanding() == 0 {
		return
	}
	d2 := allStacks()
	any := false
	for ri, rs := range d.reqs {
		if rs.req == nil || !rs.started || rs.returned == 2 {
			continue
		}
		if readersBlocked(d1, rs.req) > 0 && readersBlocked(d2, rs.req) > 0 {
			any = true
			if len(rs.order) == 0 {
				rs.unans = "blocked-after-stop"
			} else {
				rs.unans = "second-blocked-after-stop"
			}
			d.logf("r%d: reader still inside Result after Stop returned (two dumps)", ri)
		}
	}
	if !any {
		d.inconclusive = "reader outstanding after Stop but not seen inside Result"
	}
}

// ---------------------------------------------------------------------------

func (d *driver) startRel(rs *reqState) string {
	start := int64(rs.spec.Start)
	if start > int64(rs.vlo) {
		if start == int64(rs.vlo)+1 {
			return "tip+1"
		}
		return "above-tip"
	}
	c, s := int64(-1), int64(-1)
	if l, ok := d.ci.Created[rs.spec.Op.Hash]; ok {
		c = int64(l.Height)
	}
	if l, ok := d.ci.Spent[rs.spec.Op]; ok {
		s = int64(l.Height)
	}
	tip := ""
	if start == int64(rs.vlo) {
		tip = "@tip"
	}
	if c < 0 {
		if start == 0 {
			return "foreign-zero" + tip
		}
		return "foreign" + tip
	}
	switch {
	case s >= 0 && start == s && s == c:
		return "create=spend" + tip
	case s >= 0 && start == s:
		return "spend" + tip
	case s >= 0 && start == s+1:
		return "spend+1" + tip
	case s >= 0 && start > s+1:
		return "gt-spend" + tip
	case start == c:
		return "create" + tip
	case start == c+1:
		return "create+1" + tip
	case start < c && start == 0:
		return "zero" + tip
	case start < c && start == 1:
		return "one" + tip
	case start < c:
		return "lt-create" + tip
	case s >= 0:
		return "between" + tip
	}
	return "after-create" + tip
}

// dupRel says how request ri relates to the other enqueued requests for the
// same outpoint.
func (d *driver) dupRel(ri int) string {
	me := d.reqs[ri]
	same, lower, higher := false, false, false
	for j, o := range d.reqs {
		if j == ri || !o.enqueued || o.req == nil || o.spec.Op != me.spec.Op {
			continue
		}
		switch {
		case o.spec.Start == me.spec.Start:
			same = true
		case o.spec.Start < me.spec.Start:
			lower = true
		default:
			higher = true
		}
	}
	switch {
	case lower && higher:
		return "twin-lower+higher"
	case lower:
		return "twin-starts-lower"
	case higher:
		return "twin-starts-higher"
	case same:
		return "twin-same-start"
	}
	if me.spec.Dup == "sibling" || me.spec.Role == "focus" && d.cs.PlanOp == "sibling-set" {
		return "sibling-outputs"
	}
	return "none"
}

func kindsOf(as []Ans) string {
	m := map[string]bool{}
	for _, a := range as {
		m[a.Kind] = true
	}
	var ks []string
	for k := range m {
		ks = append(ks, k)
	}
	sort.Strings(ks)
	return strings.Join(ks, "|")
}

func arrivalClass(a string) string { return a }

func (d *driver) judge() *Outcome {
	o := &Outcome{Spec: d.cs, Inconclusive: d.inconclusive, Fault: d.faultFired,
		Batches: d.batches, GatesUsed: d.gatesUsed, Forced: d.forced, IdleSteps: d.idleSteps,
		Scanner: d.sc}
	if o.Fault == "" {
		o.Fault = "none"
	}
	d.mu.Lock()
	o.Calls = d.calls
	o.Events = append([]string(nil), d.events...)
	if d.dropped > 0 {
		o.Events = append(o.Events, fmt.Sprintf("(%d later events not kept)", d.dropped))
	}
	d.mu.Unlock()
	add := func(sig, what string) { o.Violations = append(o.Violations, Violation{sig, what}) }
	dupW := d.dupWarn.Load()

	if n := d.src.BeyondTip(); n > 0 {
		add("scanner-read-above-tip", fmt.Sprintf("the scanner asked the chain for %d blocks above the best height it was given", n))
	}

	for ri, rs := range d.reqs {
		ob := ReqObs{Spec: rs.spec, Enqueued: rs.enqueued, TipAtEnq: rs.vlo, TipAtAns: rs.vhi,
			Arrival: rs.arrival, Progress: rs.progress.Load(), DupWarn: dupW, Unanswered: rs.unans}
		if !rs.enqueued {
			ob.FP = "not-enqueued"
			o.Reqs = append(o.Reqs, ob)
			continue
		}
		ob.StartRel = d.startRel(rs)
		ansKind := ""
		dupRel := d.dupRel(ri)
		ob.DupRel = dupRel
		shape := ob.StartRel + "," + rs.spec.OpKind + "," + rs.arrival + ",dup=" + dupRel
		switch {
		case rs.enqErr != nil:
			ob.EnqueueErr = rs.enqErr.Error()
			ansKind = "enqueue-refused"
			switch {
			case errors.Is(rs.enqErr, neutrino.ErrShuttingDown) && d.stopSeq != 0:
			case errors.Is(rs.enqErr, neutrino.ErrShuttingDown) && rs.afterCleanup:
				// The scanner WAS stopped, by the harness itself: refusing
				// the request is what it must do. The case decided nothing.
				if o.Inconclusive == "" {
					o.Inconclusive = "harness called its cleanup Stop before a scripted Enqueue"
				}
			default:
				add("enqueue-error/"+o.Fault, fmt.Sprintf("r%d: Enqueue failed with %v although the scanner was not stopped", ri, rs.enqErr))
			}
		case rs.unans != "" && len(rs.order) == 0:
			ansKind = "unanswered-" + rs.unans
			sig := "left-waiting/" + rs.unans + "/fault=" + o.Fault
			if rs.unans == "livelock" {
				// The shape that matters is where the start lies, not the fault.
				sig = "left-waiting/livelock/start-" + ob.StartRel
			}
			add(sig,
				fmt.Sprintf("r%d (%s start=%d, tip at enqueue %d, final tip %d) was never answered: %s",
					ri, rs.spec.OpStr, rs.spec.Start, rs.vlo, d.src.Visible(), rs.unans))
		case len(rs.order) == 0:
			ansKind = "unobserved"
			if o.Inconclusive == "" {
				o.Inconclusive = "a request has no answer and no liveness verdict"
			}
		default:
			first := rs.res[rs.order[0]]
			fa := first.ans
			ob.First = &fa
			ansKind = fa.Kind
			if fa.Kind == KErr {
				ansKind = d.judgeError(ri, rs, first, o, add)
			} else {
				acc := Acceptable(d.ci.Blocks, rs.spec.Op, rs.spec.Start, rs.vlo, rs.vhi)
				ob.Expected = acc
				ok := false
				for _, a := range acc {
					if a == fa {
						ok = true
					}
				}
				if !ok {
					detail := "wrong-" + fa.Kind
					if kindsOf(acc) != fa.Kind {
						detail = "want-" + kindsOf(acc) + "-got-" + fa.Kind
					}
					sig := "answer/" + detail + "/" + ob.StartRel + "/dup=" + dupRel
					if rs.spec.Shape != "" {
						sig += "/" + rs.spec.Shape
					}
					add(sig,
						fmt.Sprintf("r%d (%s start=%d, tip %d..%d, arrival %s): got %s, reference allows %v",
							ri, rs.spec.OpStr, rs.spec.Start, rs.vlo, rs.vhi, rs.arrival, fa, acc))
				}
			}
			if len(rs.order) == 2 {
				sa := rs.res[rs.order[1]].ans
				ob.Second = &sa
				if sa != fa {
					shut := func(w *waitRes) bool { return errors.Is(w.raw, neutrino.ErrShuttingDown) }
					r1, r2 := rs.res[rs.order[0]], rs.res[rs.order[1]]
					if d.stopSeq != 0 && (shut(r1) || shut(r2)) {
						// Racing a scripted Stop either reader may see the shutdown.
					} else {
						k2 := sa.Kind
						if shut(r2) {
							k2 = "blocked-until-shutdown"
						}
						sig := "second-result-differs/" + fa.Kind + "->" + k2
						if shut(r2) {
							sig = "second-result-differs/answered->blocked-until-shutdown"
						}
						add(sig,
							fmt.Sprintf("r%d: the two Result calls disagree: first %s, second %s", ri, fa, sa))
					}
				}
			} else if rs.unans == "second-blocked-after-stop" {
				add("second-result-never-returns", fmt.Sprintf("r%d: second Result call still blocked after Stop returned", ri))
			}
		}
		ob.FP = shape + ",fault=" + o.Fault + ",ans=" + ansKind
		o.Reqs = append(o.Reqs, ob)
	}
	if dupW > 0 {
		add("double-delivery/fault="+o.Fault, fmt.Sprintf("the scanner logged %d deliveries of a second result to an already answered request of this case", dupW))
	}
	var tot int64
	for _, c := range o.Calls {
		tot += c
	}
	o.Nontrivial = tot > 0 && o.Inconclusive == ""
	return o
}

// judgeError decides whether an error answer is one the statement allows.
func (d *driver) judgeError(ri int, rs *reqState, w *waitRes, o *Outcome, add func(string, string)) string {
	switch {
	case errors.Is(w.raw, neutrino.ErrShuttingDown):
		if d.stopSeq == 0 || !rs.stopSeen {
			add("error/shutdown-without-stop", fmt.Sprintf("r%d answered ErrShuttingDown but the scanner had not been stopped", ri))
		}
		return "err-shutdown"
	case errors.Is(w.raw, ErrBeyondTip):
		return "err-above-tip-read"
	}
	for _, f := range d.faults {
		if errors.Is(w.raw, f.err) {
			if rs.enqSeq > f.seq {
				add("error/fault-hit-later-request/"+CBName[f.kind],
					fmt.Sprintf("r%d was enqueued after the injected %s failure yet was answered with it", ri, CBName[f.kind]))
			}
			return "err-injected"
		}
	}
	add("error/unexpected", fmt.Sprintf("r%d answered with error %q that the harness did not cause", ri, w.ans.Err))
	return "err-other"
}
