package c10

// Family "sweep": ONE block spends several watched outpoints in SEPARATE
// transactions (two outputs of one funding transaction swept by two
// transactions, spends next to the creation of another watched output, the
// same in the start block of a request), and the request set asks about those
// outpoints with 0-3 duplicate requests each (same / lower / higher start
// height; queued together, joining the running batch at their start height,
// or arriving for a later batch). The oracle is the one of every other case:
// each request's answer equals the reference scan of the served chain.

import (
	"fmt"
	"math/rand"
	"sort"

	"github.com/btcsuite/btcd/btcutil/v2/gcs/builder"
	"github.com/btcsuite/btcd/chainhash/v2"
	"github.com/btcsuite/btcd/wire/v2"
)

// SweepMember is one spend of a watch-able outpoint inside a sweep block.
type SweepMember struct {
	Op      wire.OutPoint
	Created int32 // height of the creating block (< the sweep block's height)
	TxIdx   int   // position of the spending transaction in the block
	InIdx   int
}

// SweepGroup describes one block that spends >= 2 distinct outpoints, none of
// them spent anywhere else, in >= 2 different transactions.
type SweepGroup struct {
	Height   int32
	Members  []SweepMember   // in block order
	Txs      int             // distinct spending transactions
	Made     []wire.OutPoint // outputs created by the transactions added to this block
	Siblings bool            // two members are outputs of ONE transaction, spent by different transactions
}

// SweepPlan is the planned shape of a sweep case (evidence only).
type SweepPlan struct {
	Fixed    string `json:"fixed,omitempty"` // name of a seed-independent scenario
	Height   int32  `json:"sweep_height"`
	Watched  int    `json:"watched_spends_in_block"`
	Txs      int    `json:"spending_txs"`
	Dups     []int  `json:"duplicates_per_outpoint"` // block order of the spends
	Mode     string `json:"mode"`                    // one-batch|mixed|across
	Siblings bool   `json:"sibling_outputs"`
	// A duplicated outpoint is spent by an EARLIER transaction of the block
	// than another watched outpoint.
	DupEarlier bool `json:"duplicated_outpoint_spent_before_another"`
	StartBlock bool `json:"a_request_starts_at_the_sweep_block"`
	MadeReqs   int  `json:"requests_for_outputs_created_in_the_block"`
}

// BuildSweepChain is BuildChain plus sweep blocks.
func BuildSweepChain(id int, seed int64, tip int) *ChainInfo {
	ci := BuildChain(id, seed, tip)
	ci.addSweeps(rand.New(rand.NewSource(seed ^ 0x53eeb10c)))
	return ci
}

func sweepScript(rng *rand.Rand) []byte {
	s := make([]byte, 22)
	rng.Read(s)
	s[0], s[1] = 0x00, 20
	return s
}

// addSweeps adds to the served chain (headers kept, like addDoubleSpends):
// funding transactions with 2-4 outputs, and per chosen height 2-4 spends of
// outputs nothing else spends, spread over >= 2 new transactions that are
// interleaved with the block's own transactions in seeded order. The new
// transactions' outputs can in turn be swept by a later group.
func (c *ChainInfo) addSweeps(rng *rand.Rand) {
	L := c.Len()
	type avail struct {
		op     wire.OutPoint
		h      int32
		script []byte
	}
	var pool []avail
	for _, op := range c.NeverSpent {
		if l := c.Created[op.Hash]; l.Height >= 1 {
			pool = append(pool, avail{op, l.Height, c.ScriptOf(op)})
		}
	}
	sort.SliceStable(pool, func(i, j int) bool { return pool[i].h < pool[j].h })
	if c.ExtraPrev == nil {
		c.ExtraPrev = map[int32][][]byte{}
	}
	var ctr uint32
	newTx := func() *wire.MsgTx {
		tx := wire.NewMsgTx(2)
		ctr++
		tx.LockTime = 0x7ffe0000 + ctr
		return tx
	}
	spendIn := func(op wire.OutPoint) *wire.TxIn {
		in := wire.NewTxIn(&op, nil, nil)
		sig, pub := make([]byte, 71), make([]byte, 33)
		rng.Read(sig)
		rng.Read(pub)
		sig[0], pub[0] = 0x30, 0x02
		in.Witness = wire.TxWitness{sig, pub}
		return in
	}
	foreignIn := func() *wire.TxIn {
		var other wire.OutPoint
		rng.Read(other.Hash[:])
		other.Index = uint32(rng.Intn(3))
		return spendIn(other)
	}
	touched := map[int32]bool{}
	groups := map[int32]*SweepGroup{}
	var order []int32

	for h := int32(1); h <= L; h++ {
		var add []*wire.MsgTx // transactions to merge into block h, in this order
		var madeHere []wire.OutPoint
		var later []avail

		// Sweep group: members are outputs created strictly below h.
		nBelow := 0
		for _, a := range pool {
			if a.h < h {
				nBelow++
			}
		}
		want := h >= 3 && nBelow >= 2 && (rng.Intn(3) == 0 || len(order) == 0 && h >= L/2)
		if want {
			k := 2 + rng.Intn(3)
			if k > nBelow {
				k = nBelow
			}
			var idxs []int
			taken := map[int]bool{}
			// Prefer (always for a chain's first group) >= 2 outputs of one
			// transaction.
			if len(order) == 0 || rng.Intn(2) == 0 {
				byTx := map[chainhash.Hash][]int{}
				var txOrder []chainhash.Hash
				for i, a := range pool {
					if a.h >= h {
						continue
					}
					if len(byTx[a.op.Hash]) == 0 {
						txOrder = append(txOrder, a.op.Hash)
					}
					byTx[a.op.Hash] = append(byTx[a.op.Hash], i)
				}
				var multi []chainhash.Hash
				for _, th := range txOrder {
					if len(byTx[th]) >= 2 {
						multi = append(multi, th)
					}
				}
				if th, ok := pick(rng, multi); ok {
					sib := byTx[th]
					n := 2 + rng.Intn(len(sib)-1)
					if n > k {
						n = k
					}
					for _, i := range sib[:n] {
						idxs = append(idxs, i)
						taken[i] = true
					}
				}
			}
			for len(idxs) < k {
				i := rng.Intn(len(pool))
				if taken[i] || pool[i].h >= h {
					continue
				}
				taken[i] = true
				idxs = append(idxs, i)
			}
			rng.Shuffle(len(idxs), func(i, j int) { idxs[i], idxs[j] = idxs[j], idxs[i] })
			g := &SweepGroup{Height: h}
			// One spending transaction per member; with >= 3 members two
			// consecutive ones sometimes share a transaction.
			merge := -1
			if len(idxs) >= 3 && rng.Intn(4) == 0 {
				merge = rng.Intn(len(idxs) - 1)
			}
			var cur *wire.MsgTx
			for n, i := range idxs {
				a := pool[i]
				if cur == nil || n != merge+1 || merge < 0 {
					cur = newTx()
					if rng.Intn(4) == 0 {
						cur.AddTxIn(foreignIn())
					}
					add = append(add, cur)
				}
				cur.AddTxIn(spendIn(a.op))
				c.ExtraPrev[h] = append(c.ExtraPrev[h], a.script)
				g.Members = append(g.Members, SweepMember{Op: a.op, Created: a.h})
			}
			for _, tx := range add {
				for o, n := 0, 1+rng.Intn(2); o < n; o++ {
					tx.AddTxOut(wire.NewTxOut(1000+int64(rng.Intn(9000)), sweepScript(rng)))
				}
			}
			for _, tx := range add {
				th := tx.TxHash()
				for oi, o := range tx.TxOut {
					op := wire.OutPoint{Hash: th, Index: uint32(oi)}
					madeHere = append(madeHere, op)
					later = append(later, avail{op, h, o.PkScript})
				}
			}
			var rest []avail
			for i, a := range pool {
				if !taken[i] {
					rest = append(rest, a)
				}
			}
			pool = rest
			groups[h] = g
			order = append(order, h)
		}

		// Funding transaction: 2-4 outputs, paid for by an outpoint unknown
		// to the chain (a light client cannot tell).
		if h < L-1 && (h == 1 || rng.Intn(4) == 0) {
			tx := newTx()
			tx.AddTxIn(foreignIn())
			for o, n := 0, 2+rng.Intn(3); o < n; o++ {
				tx.AddTxOut(wire.NewTxOut(2000+int64(rng.Intn(9000)), sweepScript(rng)))
			}
			th := tx.TxHash()
			for oi, o := range tx.TxOut {
				op := wire.OutPoint{Hash: th, Index: uint32(oi)}
				madeHere = append(madeHere, op)
				later = append(later, avail{op, h, o.PkScript})
			}
			// Before, between or after the sweeps.
			p := rng.Intn(len(add) + 1)
			add = append(add[:p], append([]*wire.MsgTx{tx}, add[p:]...)...)
		}
		pool = append(pool, later...)
		if len(add) == 0 {
			continue
		}
		if g := groups[h]; g != nil {
			g.Made = madeHere
		}

		// Merge into the block, keeping both relative orders.
		old := c.Blocks[h].Transactions
		nb := *c.Blocks[h]
		nb.Transactions = []*wire.MsgTx{old[0]}
		a, b := old[1:], add
		for len(a) > 0 || len(b) > 0 {
			if len(b) == 0 || len(a) > 0 && rng.Intn(len(a)+len(b)) < len(a) {
				nb.Transactions = append(nb.Transactions, a[0])
				a = a[1:]
			} else {
				nb.Transactions = append(nb.Transactions, b[0])
				b = b[1:]
			}
		}
		c.Blocks[h] = &nb
		touched[h] = true
	}
	for h := range touched {
		prev := append(append([][]byte(nil), c.Path[h].PrevScripts...), c.ExtraPrev[h]...)
		f, err := builder.BuildBasicFilter(c.Blocks[h], prev)
		if err != nil {
			panic(err)
		}
		c.Filters[h] = f
	}
	c.reindex()
	for _, h := range order {
		g := groups[h]
		txs := map[int]bool{}
		byTx := map[chainhash.Hash]map[int]bool{}
		for i := range g.Members {
			m := &g.Members[i]
			l, ok := c.Spent[m.Op]
			if !ok || l.Height != h {
				panic("c10: sweep member not spent in its block")
			}
			m.TxIdx, m.InIdx = l.TxIdx, l.InIdx
			txs[l.TxIdx] = true
			if byTx[m.Op.Hash] == nil {
				byTx[m.Op.Hash] = map[int]bool{}
			}
			byTx[m.Op.Hash][l.TxIdx] = true
		}
		sort.Slice(g.Members, func(i, j int) bool {
			a, b := g.Members[i], g.Members[j]
			return a.TxIdx < b.TxIdx || a.TxIdx == b.TxIdx && a.InIdx < b.InIdx
		})
		g.Txs = len(txs)
		for _, s := range byTx {
			if len(s) >= 2 {
				g.Siblings = true
			}
		}
		if g.Txs >= 2 {
			c.Sweeps = append(c.Sweeps, g)
		}
	}
}

// reindex rebuilds the picking indexes from the served blocks (the first
// spend of an outpoint in chain order is "the" spend; DoubleSpent is kept).
func (c *ChainInfo) reindex() {
	c.Created = map[chainhash.Hash]Loc{}
	c.Spent = map[wire.OutPoint]Loc{}
	for h, blk := range c.Blocks {
		for ti, tx := range blk.Transactions {
			c.Created[tx.TxHash()] = Loc{Height: int32(h), TxIdx: ti, NOut: len(tx.TxOut)}
			if ti == 0 {
				continue
			}
			for ii, in := range tx.TxIn {
				if _, dup := c.Spent[in.PreviousOutPoint]; !dup {
					c.Spent[in.PreviousOutPoint] = Loc{Height: int32(h), TxIdx: ti, InIdx: ii}
				}
			}
		}
	}
	c.SpentLater, c.SameBlock, c.NeverSpent, c.MultiOut = nil, nil, nil, nil
	for _, blk := range c.Blocks {
		for ti, tx := range blk.Transactions {
			th := tx.TxHash()
			cl := c.Created[th]
			if ti > 0 && len(tx.TxOut) >= 2 {
				c.MultiOut = append(c.MultiOut, th)
			}
			for oi, o := range tx.TxOut {
				if len(o.PkScript) > 0 && o.PkScript[0] == 0x6a {
					continue
				}
				op := wire.OutPoint{Hash: th, Index: uint32(oi)}
				if sl, ok := c.Spent[op]; ok {
					if sl.Height == cl.Height {
						c.SameBlock = append(c.SameBlock, op)
					} else {
						c.SpentLater = append(c.SpentLater, op)
					}
				} else {
					c.NeverSpent = append(c.NeverSpent, op)
				}
			}
		}
	}
}

// ---------------------------------------------------------------------------
// Case construction.

type sweepBuilder struct {
	g     *gen
	G     *SweepGroup
	pre   Step
	steps []Step
	// lowest start among the requests queued before Start, lowest height of
	// a gate that needs a batch running through it.
	minPre, minGate int64
}

func newSweepBuilder(rng *rand.Rand, seed int64, idx int, ci *ChainInfo, G *SweepGroup, v0 int32) *sweepBuilder {
	cs := &CaseSpec{Index: idx, Seed: seed, Chain: ci.ID, Tip: ci.Len(), V0: v0,
		PlanOp: "sweep", PlanFault: "none"}
	return &sweepBuilder{g: &gen{rng: rng, ci: ci, cs: cs}, G: G,
		pre: Step{Trig: Trigger{Kind: TPre}}, minPre: -1, minGate: -1}
}

func (b *sweepBuilder) opKind(op wire.OutPoint) string {
	ci := b.g.ci
	cl, ok := ci.Created[op.Hash]
	if !ok {
		return "foreign"
	}
	if sl, ok := ci.Spent[op]; ok {
		if sl.Height == cl.Height {
			return "same-block"
		}
		return "spent-later"
	}
	return "never-spent"
}

func (b *sweepBuilder) req(op wire.OutPoint, start uint32, kind, dup string, dupOf int, role string, late bool) int {
	return b.g.addReq(ReqSpec{Op: op, Script: b.g.ci.ScriptOf(op), Start: start, OpKind: kind,
		Dup: dup, DupOf: dupOf, Late: late, Role: role})
}

func (b *sweepBuilder) setShape(ri int, shape string) { b.g.cs.Reqs[ri].Shape = shape }

// at schedules the enqueue of request ri.
func (b *sweepBuilder) at(t Trigger, ri int) {
	a := Action{Kind: AEnqueue, Req: ri}
	st := int64(b.g.cs.Reqs[ri].Start)
	switch t.Kind {
	case TPre:
		b.pre.Acts = append(b.pre.Acts, a)
		if st <= int64(b.g.cs.V0) && (b.minPre < 0 || st < b.minPre) {
			b.minPre = st
		}
		return
	case THeight:
		if b.minGate < 0 || int64(t.Height) < b.minGate {
			b.minGate = int64(t.Height)
		}
	}
	b.steps = append(b.steps, Step{Trig: t, Acts: []Action{a}})
}

func (b *sweepBuilder) act(t Trigger, a Action) {
	b.steps = append(b.steps, Step{Trig: t, Acts: []Action{a}})
}

// finish adds a carrier when no queued request makes a batch run through the
// lowest gate, and assembles the steps.
func (b *sweepBuilder) finish() *CaseSpec {
	cs := b.g.cs
	if b.minGate >= 0 && (b.minPre < 0 || b.minPre > b.minGate) {
		cstart := b.minGate - int64(b.g.rng.Intn(4))
		if cstart < 0 {
			cstart = 0
		}
		op, sc, k := b.g.pickOp("never-spent")
		ri := b.g.addReq(ReqSpec{Op: op, Script: sc, Start: uint32(cstart), OpKind: k,
			Dup: "none", DupOf: -1, Role: "carrier"})
		b.pre.Acts = append(b.pre.Acts, Action{Kind: AEnqueue, Req: ri})
	}
	if len(b.pre.Acts) > 0 {
		cs.Steps = append(cs.Steps, b.pre)
	}
	cs.Steps = append(cs.Steps, b.steps...)
	return cs
}

func dupLabel(main, dup uint32) string {
	switch {
	case dup < main:
		return "lower-start"
	case dup > main:
		return "higher-start"
	}
	return "same-start"
}

func posName(i, n int) string {
	switch {
	case i == 0:
		return "first"
	case i == n-1:
		return "last"
	}
	return "mid"
}

func bucket(n int) string {
	if n >= 2 {
		return "2+"
	}
	return fmt.Sprint(n)
}

// sweepRequests plans the requests about the group's members: members[i] gets
// one main request at starts[i] and len(dupStarts[i]) duplicates. Request 0
// of the case is the main request of the LAST spend in the block. trig(i, d)
// says where request d (0 = main, 1.. = duplicates) of member i is enqueued.
func (b *sweepBuilder) sweepRequests(members []SweepMember, starts []uint32, dupStarts [][]uint32,
	late func() bool, trig func(i, d int) Trigger) *SweepPlan {

	G := b.G
	n := len(members)
	pl := &SweepPlan{Height: G.Height, Watched: n, Siblings: G.Siblings}
	txs := map[int]bool{}
	for _, m := range members {
		txs[m.TxIdx] = true
	}
	pl.Txs = len(txs)
	mains := make([]int, n)
	for i := n - 1; i >= 0; i-- {
		earlier := 0
		for j := 0; j < i; j++ {
			if members[j].TxIdx < members[i].TxIdx {
				earlier += len(dupStarts[j])
			}
		}
		if earlier > 0 {
			pl.DupEarlier = true
		}
		kind := fmt.Sprintf("swept-%s-of-%d-edup%s", posName(i, n), n, bucket(earlier))
		role := "sweep"
		if i == n-1 {
			role = "focus"
		}
		mains[i] = b.req(members[i].Op, starts[i], kind, "none", -1, role, late())
		b.setShape(mains[i], fmt.Sprintf("swept-%s,edup%s", posName(i, n), bucket(earlier)))
		if starts[i] == uint32(G.Height) {
			pl.StartBlock = true
		}
	}
	for i := 0; i < n; i++ {
		b.at(trig(i, 0), mains[i])
	}
	for i := 0; i < n; i++ {
		pl.Dups = append(pl.Dups, len(dupStarts[i]))
		for d, ds := range dupStarts[i] {
			kind := b.g.cs.Reqs[mains[i]].OpKind
			ri := b.req(members[i].Op, ds, kind, dupLabel(starts[i], ds), mains[i], "sweep-dup", late())
			b.setShape(ri, b.g.cs.Reqs[mains[i]].Shape)
			b.at(trig(i, d+1), ri)
			if ds == uint32(G.Height) {
				pl.StartBlock = true
			}
		}
	}
	return pl
}

// GenSweepCase builds random sweep case j (overall case index idx).
func GenSweepCase(seed int64, j, idx int, pool []*ChainInfo) *CaseSpec {
	rng := rand.New(rand.NewSource(seed*1_000_003 + int64(j)*104_729 + 4242))
	ci := pool[rng.Intn(len(pool))]
	for tries := 0; len(ci.Sweeps) == 0 && tries < 64; tries++ {
		ci = pool[rng.Intn(len(pool))]
	}
	if len(ci.Sweeps) == 0 {
		panic("c10: no sweep block in the chain pool")
	}
	G := ci.Sweeps[rng.Intn(len(ci.Sweeps))]
	h, L := G.Height, ci.Len()

	// Visible tip at start; sometimes the sweep block only arrives later.
	v0 := L
	extTo := int32(-1)
	switch rng.Intn(10) {
	case 0, 1:
		v0 = h
	case 2, 3:
		v0 = h + int32(rng.Intn(int(L-h)+1))
	case 4, 5:
		if h-1 >= 3 {
			v0 = h - 1 - int32(rng.Intn(2))
			if v0 < 3 {
				v0 = 3
			}
			extTo = h + int32(rng.Intn(int(L-h)+1))
		}
	}
	b := newSweepBuilder(rng, seed, idx, ci, G, v0)
	cs := b.g.cs

	members := append([]SweepMember(nil), G.Members...)
	if len(members) > 2 && rng.Intn(4) == 0 {
		// One of the block's spends is not watched.
		i := rng.Intn(len(members))
		members = append(members[:i], members[i+1:]...)
	}
	n := len(members)
	mode := []string{"one-batch", "one-batch", "one-batch", "one-batch", "one-batch",
		"mixed", "mixed", "mixed", "across", "across"}[rng.Intn(10)]

	rels := []string{"create", "create", "create", "create", "lt-create", "lt-create", "between", "between",
		"spend", "spend", "zero", "create+1", "spend+1"}
	starts := make([]uint32, n)
	dupStarts := make([][]uint32, n)
	for i, m := range members {
		rel := rels[rng.Intn(len(rels))]
		if i == n-1 {
			cs.PlanStart = rel
		}
		starts[i] = b.g.startFor(m.Op, rel, v0)
		nd := []int{0, 0, 0, 0, 1, 1, 1, 2, 2, 3}[rng.Intn(10)]
		for d := 0; d < nd; d++ {
			s := starts[i]
			switch rng.Intn(8) {
			case 0, 1, 2: // same start
			case 3, 4: // lower
				if s > 0 {
					span := int(s)
					if span > 8 {
						span = 8
					}
					s = s - 1 - uint32(rng.Intn(span))
				}
			case 5, 6: // higher, still at or below the sweep block
				if int64(s) < int64(h) {
					s = s + 1 + uint32(rng.Intn(int(int64(h)-int64(s))))
				}
			default: // the sweep block is this duplicate's start block
				s = uint32(h)
			}
			dupStarts[i] = append(dupStarts[i], s)
		}
	}
	split := 1 + rng.Intn(n) // "across": members from this index on arrive for a later batch
	clampGate := func(x int64) int32 {
		if x < 0 {
			x = 0
		}
		if x > int64(v0) {
			x = int64(v0)
		}
		return int32(x)
	}
	startOf := func(i, d int) int64 {
		if d == 0 {
			return int64(starts[i])
		}
		return int64(dupStarts[i][d-1])
	}
	laterBatch := func(i, d int) Trigger {
		switch rng.Intn(4) {
		case 0:
			return Trigger{Kind: TIdle}
		case 1:
			return Trigger{Kind: TCall, CB: CBest, N: 2} // end-of-batch tip check
		case 2:
			return Trigger{Kind: THeight, CB: CBlock, Height: clampGate(int64(h))} // while the sweep block is fetched
		}
		return Trigger{Kind: THeight, CB: CHash, Height: clampGate(startOf(i, d) + 1 + int64(rng.Intn(3)))}
	}
	trig := func(i, d int) Trigger {
		switch mode {
		case "one-batch":
			return Trigger{Kind: TPre}
		case "across":
			if i < split && (d == 0 || rng.Intn(3) > 0) {
				return Trigger{Kind: TPre}
			}
			return laterBatch(i, d)
		}
		switch r := rng.Intn(20); {
		case r < 8:
			return Trigger{Kind: TPre}
		case r < 13: // joins the running batch at its start height
			return Trigger{Kind: THeight, CB: CHash, Height: clampGate(startOf(i, d))}
		case r < 15:
			return Trigger{Kind: THeight, CB: CHash, Height: clampGate(startOf(i, d) - 1)}
		case r < 16:
			return Trigger{Kind: THeight, CB: CFilter, Height: clampGate(startOf(i, d) - 1)}
		}
		return laterBatch(i, d)
	}
	late := func() bool { return rng.Intn(6) == 0 }
	pl := b.sweepRequests(members, starts, dupStarts, late, trig)
	pl.Mode = mode
	cs.Sweep = pl
	cs.PlanArrival, cs.PlanDup = mode, fmt.Sprint(pl.Dups)

	// Outputs the sweep block itself creates (by the sweeping transactions
	// or a funding transaction next to them).
	if len(G.Made) > 0 && rng.Intn(2) == 0 {
		for k, nk := 0, 1+rng.Intn(2); k < nk; k++ {
			op := G.Made[rng.Intn(len(G.Made))]
			st := uint32(h)
			if rng.Intn(4) == 0 {
				st = b.g.startFor(op, []string{"lt-create", "zero", "create+1"}[rng.Intn(3)], v0)
			}
			ri := b.req(op, st, "made-in-sweep-block/"+b.opKind(op), "none", -1, "sweep-made", late())
			t := Trigger{Kind: TPre}
			if mode != "one-batch" && rng.Intn(2) == 0 {
				t = Trigger{Kind: THeight, CB: CHash, Height: clampGate(int64(st))}
			}
			b.at(t, ri)
			pl.MadeReqs++
			if st == uint32(h) {
				pl.StartBlock = true
			}
		}
	}
	// Unrelated requests.
	for k, nk := 0, rng.Intn(3); k < nk; k++ {
		op, sc, kind := b.g.pickOp(opKinds[rng.Intn(6)])
		st := b.g.startFor(op, startRels[rng.Intn(len(startRels))], v0)
		ri := b.g.addReq(ReqSpec{Op: op, Script: sc, Start: st, OpKind: kind, Dup: "none", DupOf: -1,
			Late: late(), Role: "extra"})
		t := Trigger{Kind: TPre}
		if mode != "one-batch" && rng.Intn(2) == 0 {
			t = Trigger{Kind: THeight, CB: CHash, Height: int32(rng.Intn(int(v0) + 1))}
		}
		b.at(t, ri)
	}
	// Chain growth.
	if extTo >= 0 {
		t := Trigger{Kind: TCall, CB: CBest, N: 2}
		switch rng.Intn(5) {
		case 0:
			t = Trigger{Kind: TIdle}
		case 1:
			t = Trigger{Kind: THeight, CB: CHash, Height: int32(rng.Intn(int(v0) + 1))}
		}
		b.act(t, Action{Kind: AExtend, To: extTo})
	} else if v0 < L && rng.Intn(3) == 0 {
		t := Trigger{Kind: TCall, CB: CBest, N: 2 + rng.Intn(2)}
		if rng.Intn(2) == 0 {
			t = Trigger{Kind: TIdle}
		}
		b.act(t, Action{Kind: AExtend, To: L})
	}
	// Fault (rare: most sweep cases must be decided by the answers).
	if rng.Intn(10) == 0 {
		switch rng.Intn(3) {
		case 0:
			cs.PlanFault = "stop"
			b.act(Trigger{Kind: TCall, CB: []int{CHash, CFilter, CBlock}[rng.Intn(3)], N: 1 + rng.Intn(6)}, Action{Kind: AStop})
		case 1:
			cs.PlanFault = "fail-block"
			b.act(Trigger{Kind: TCall, CB: CBlock, N: 1 + rng.Intn(3)}, Action{Kind: AFail})
		default:
			cs.PlanFault = "fail-filter"
			b.act(Trigger{Kind: TCall, CB: CFilter, N: 1 + rng.Intn(8)}, Action{Kind: AFail})
		}
	}
	return b.finish()
}

// ---------------------------------------------------------------------------
// Seed-independent scenarios.

// FixedSweepChainSeed and FixedSweepChainTip define the chain of the fixed
// sweep scenarios: it does not depend on VERIF_SEED.
const (
	FixedSweepChainSeed = 0xC10_5EEB
	FixedSweepChainTip  = 36
)

// FixedSweepCases returns the seed-independent sweep scenarios on ci (built
// with BuildSweepChain(id, FixedSweepChainSeed, FixedSweepChainTip)); case
// indexes start at idx0. All of them: static chain unless said otherwise, no
// faults, every request about a member of ONE sweep block whose first two
// watched spends (X, then Y, in different transactions) are outputs of one
// transaction where the chain has such a block.
func FixedSweepCases(ci *ChainInfo, idx0 int) []*CaseSpec {
	var G *SweepGroup
	for _, g := range ci.Sweeps {
		if g.Height+1 > ci.Len() || g.Height < 4 || g.Members[0].TxIdx == g.Members[1].TxIdx {
			continue
		}
		if G == nil {
			G = g
		}
		if g.Members[0].Op.Hash == g.Members[1].Op.Hash && len(g.Made) > 0 {
			G = g
			break
		}
	}
	if G == nil {
		panic("c10: the fixed sweep chain has no usable sweep block")
	}
	h, L := G.Height, ci.Len()
	X, Y := G.Members[0], G.Members[1]
	pre := Trigger{Kind: TPre}
	type dupSpec struct {
		start uint32
		t     Trigger
	}
	type memSpec struct {
		m     SweepMember
		start uint32
		t     Trigger
		dups  []dupSpec
	}
	var out []*CaseSpec
	mk := func(name string, v0 int32, mems []memSpec, extra func(b *sweepBuilder, pl *SweepPlan)) {
		rng := rand.New(rand.NewSource(int64(len(out)) + 99))
		b := newSweepBuilder(rng, 0, idx0+len(out), ci, G, v0)
		sort.SliceStable(mems, func(i, j int) bool {
			a, c := mems[i].m, mems[j].m
			return a.TxIdx < c.TxIdx || a.TxIdx == c.TxIdx && a.InIdx < c.InIdx
		})
		var members []SweepMember
		var starts []uint32
		var dupStarts [][]uint32
		for _, m := range mems {
			members = append(members, m.m)
			starts = append(starts, m.start)
			var ds []uint32
			for _, d := range m.dups {
				ds = append(ds, d.start)
			}
			dupStarts = append(dupStarts, ds)
		}
		pl := b.sweepRequests(members, starts, dupStarts, func() bool { return false },
			func(i, d int) Trigger {
				if d == 0 {
					return mems[i].t
				}
				return mems[i].dups[d-1].t
			})
		pl.Fixed, pl.Mode = name, "fixed"
		b.g.cs.Sweep = pl
		b.g.cs.PlanArrival, b.g.cs.PlanStart, b.g.cs.PlanDup = "fixed:"+name, "fixed", fmt.Sprint(pl.Dups)
		if extra != nil {
			extra(b, pl)
		}
		out = append(out, b.finish())
	}
	cX, cY := uint32(X.Created), uint32(Y.Created)
	H := uint32(h)

	// 1. Two callers ask about X from its creation height, one about Y; the
	//    block spends X first and Y in a later transaction.
	mk("dup-of-earlier-spend/same-start", L, []memSpec{
		{X, cX, pre, []dupSpec{{cX, pre}}}, {Y, cY, pre, nil}}, nil)
	// 2. The second caller for X starts at the sweep block itself.
	mk("dup-of-earlier-spend/starts-at-sweep-block", L, []memSpec{
		{X, cX, pre, []dupSpec{{H, pre}}}, {Y, cY, pre, nil}}, nil)
	// 3. The second caller for X starts lower and joins the running batch at
	//    that height (the batch is carried there by another request).
	mk("dup-of-earlier-spend/joins-running-batch", L, []memSpec{
		{X, cX, pre, []dupSpec{{cX + 1, Trigger{Kind: THeight, CB: CHash, Height: int32(cX) + 1}}}},
		{Y, cY, pre, nil}}, nil)
	// 4. Three callers for X (same, lower, higher start), two for Y, every
	//    further spend of the block watched once.
	{
		lower := uint32(0)
		if cX > 2 {
			lower = cX - 2
		}
		ms := []memSpec{
			{X, cX, pre, []dupSpec{{cX, pre}, {lower, pre}, {H - 1, pre}}},
			{Y, cY, pre, []dupSpec{{cY, pre}}}}
		for _, m := range G.Members[2:] {
			ms = append(ms, memSpec{m, uint32(m.Created), pre, nil})
		}
		mk("three-callers-then-two/all-spends-watched", L, ms, nil)
	}
	// 5. Control: the LATER spend is the duplicated one.
	mk("dup-of-later-spend", L, []memSpec{
		{X, cX, pre, nil}, {Y, cY, pre, []dupSpec{{cY, pre}, {0, pre}}}}, nil)
	// 6. Every request starts AT the sweep block, together with a request
	//    for an output that block creates.
	mk("start-block-is-sweep-block", L, []memSpec{
		{X, H, pre, []dupSpec{{H, pre}}}, {Y, H, pre, nil}},
		func(b *sweepBuilder, pl *SweepPlan) {
			if len(G.Made) > 0 {
				op := G.Made[0]
				b.at(pre, b.req(op, H, "made-in-sweep-block/"+b.opKind(op), "none", -1, "sweep-made", false))
				pl.MadeReqs++
			}
		})
	// 7. The sweep block is the tip.
	mk("sweep-block-is-tip", h, []memSpec{
		{X, cX, pre, []dupSpec{{cX, pre}}}, {Y, 0, pre, nil}}, nil)
	// 8. The sweep block arrives while the batch is at its end-of-scan check.
	mk("sweep-block-arrives-at-batch-end", h-1, []memSpec{
		{X, cX, pre, []dupSpec{{cX, pre}}}, {Y, cY, pre, []dupSpec{{cY + 1, pre}}}},
		func(b *sweepBuilder, pl *SweepPlan) {
			b.act(Trigger{Kind: TCall, CB: CBest, N: 2}, Action{Kind: AExtend, To: L})
		})
	// 9. Across batches: X and its second caller first, Y when idle, then a
	//    third caller for X and a second for Y together in a third batch.
	mk("across-batches", L, []memSpec{
		{X, cX, pre, []dupSpec{{cX, pre}, {cX, Trigger{Kind: TIdle}}}},
		{Y, cY, Trigger{Kind: TIdle}, []dupSpec{{cY, Trigger{Kind: TIdle}}}}}, nil)
	return out
}
