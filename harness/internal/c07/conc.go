package c07

// Part 4 of the C07 check: readers CONCURRENT with the writer.
//
// One goroutine applies a seeded history of appends and rollbacks to the real
// stores, a few others keep calling every read method meanwhile. Every call
// and return is stamped from one counter; the recorded history is handed to
// porcupine together with a sequential model of "a plain list subjected to
// the same operations": the history must be linearizable, i.e. every answer a
// reader got must be the answer of the list at ONE moment between the
// reader's call and return, consistently for all readers. An answer that no
// state of the list ever gives (a range that does not end in the block asked
// for, a tip in the middle of a batch, a by-hash answer disagreeing with the
// by-height answer of the same instant) has no such moment.
//
// The writer is alone, so the list's states form one sequence S0, S1, ...;
// the model's state is just the index into it and the expected answer of a
// read in state k is computed from a versioned copy of the list (per height:
// which entry was written when).

import (
	"fmt"
	"os"
	"math/rand"
	"runtime"
	"sort"
	"strings"
	"sync"
	"sync/atomic"
	"time"

	"github.com/anishathalye/porcupine"
	"github.com/btcsuite/btcd/chainhash/v2"
	"github.com/btcsuite/btcd/wire/v2"
	"github.com/lightninglabs/neutrino/headerfs"
)

// ConcIndexBase separates the index space of concurrent histories.
const ConcIndexBase = 2_000_000

// FixedConc is the number of seed-independent concurrent histories.
const FixedConc = 3

type bver struct {
	w    int // state index at which this entry was written
	hash chainhash.Hash
	hdr  wire.BlockHeader
}
type fver struct {
	w int
	f chainhash.Hash
}
type hpos struct {
	h uint32
	w int
}

// verModel answers "what does the list say in state k".
type verModel struct {
	btip, ftip []uint32 // per state
	blocks     map[uint32][]bver
	filters    map[uint32][]fver
	byHash     map[chainhash.Hash][]hpos
}

func (v *verModel) blockAt(h uint32, k int) *bver {
	if h > v.btip[k] {
		return nil
	}
	vs := v.blocks[h]
	i := sort.Search(len(vs), func(i int) bool { return vs[i].w > k })
	if i == 0 {
		return nil
	}
	return &vs[i-1]
}

func (v *verModel) filterAt(h uint32, k int) *fver {
	if h > v.ftip[k] {
		return nil
	}
	vs := v.filters[h]
	i := sort.Search(len(vs), func(i int) bool { return vs[i].w > k })
	if i == 0 {
		return nil
	}
	return &vs[i-1]
}

// heightOf returns the height at which hash is live in state k.
func (v *verModel) heightOf(hash chainhash.Hash, k int) (uint32, bool) {
	for _, p := range v.byHash[hash] {
		if p.w > k {
			continue
		}
		if b := v.blockAt(p.h, k); b != nil && b.hash == hash {
			return p.h, true
		}
	}
	return 0, false
}

func locatorHeights(from uint32) []uint32 {
	want := []uint32{from}
	for h, step := from, uint32(1); h > 0 && len(want) < wire.MaxBlockLocatorsPerMsg; {
		if len(want) > 10 {
			step *= 2
		}
		if step > h {
			h = 0
		} else {
			h -= step
		}
		want = append(want, h)
	}
	return want
}

func short(h chainhash.Hash) string { return fmt.Sprintf("%x", h[:6]) }

// Read kinds.
const (
	rBTip  = "b.ChainTip"
	rBH    = "b.FetchHeaderByHeight"
	rBHash = "b.FetchHeader"
	rBHt   = "b.HeightFromHash"
	rBLoc  = "b.LatestBlockLocator"
	rBLocH = "b.BlockLocatorFromHash"
	rBAnc  = "b.FetchHeaderAncestors"
	rFTip  = "f.ChainTip"
	rFH    = "f.FetchHeaderByHeight"
	rFHash = "f.FetchHeader"
	rFAnc  = "f.FetchHeaderAncestors"
)

type concIn struct {
	Write bool
	Idx   int    // write: state index after it
	Desc  string // write: op written out
	Kind  string
	H     uint32
	Hash  chainhash.Hash
	N     uint32
}

func (in concIn) String() string {
	if in.Write {
		return fmt.Sprintf("W#%d %s", in.Idx, in.Desc)
	}
	switch in.Kind {
	case rBTip, rFTip, rBLoc:
		return in.Kind + "()"
	case rBH, rFH:
		return fmt.Sprintf("%s(%d)", in.Kind, in.H)
	case rBAnc, rFAnc:
		return fmt.Sprintf("%s(%d, %s)", in.Kind, in.N, short(in.Hash))
	}
	return fmt.Sprintf("%s(%s)", in.Kind, short(in.Hash))
}

const nf = "not-found"

// expect is the list's answer to read in in state k, in the same textual
// form in which the readers record the stores' answers.
func (v *verModel) expect(in concIn, k int) string {
	switch in.Kind {
	case rBTip:
		b := v.blockAt(v.btip[k], k)
		return fmt.Sprintf("%s@%d", short(b.hash), v.btip[k])
	case rBH:
		if b := v.blockAt(in.H, k); b != nil {
			return short(b.hash)
		}
		return nf
	case rBHash, rBHt:
		if h, ok := v.heightOf(in.Hash, k); ok {
			return fmt.Sprintf("%s@%d", short(in.Hash), h)
		}
		return nf
	case rBLoc, rBLocH:
		from := v.btip[k]
		if in.Kind == rBLocH {
			h, ok := v.heightOf(in.Hash, k)
			if !ok {
				// Documented: for a hash the store does not know the
				// locator is the hash alone.
				return short(in.Hash) + ","
			}
			from = h
		}
		var sb strings.Builder
		for _, h := range locatorHeights(from) {
			sb.WriteString(short(v.blockAt(h, k).hash))
			sb.WriteByte(',')
		}
		return sb.String()
	case rBAnc:
		h, ok := v.heightOf(in.Hash, k)
		if !ok || in.N > h {
			return nf
		}
		var sb strings.Builder
		fmt.Fprintf(&sb, "from=%d:", h-in.N)
		for i := h - in.N; i <= h; i++ {
			sb.WriteString(short(v.blockAt(i, k).hash))
			sb.WriteByte(',')
		}
		return sb.String()
	case rFTip:
		f := v.filterAt(v.ftip[k], k)
		return fmt.Sprintf("%s@%d", short(f.f), v.ftip[k])
	case rFH:
		if f := v.filterAt(in.H, k); f != nil {
			return short(f.f)
		}
		return nf
	case rFHash:
		if h, ok := v.heightOf(in.Hash, k); ok {
			if f := v.filterAt(h, k); f != nil {
				return short(f.f)
			}
		}
		return nf
	case rFAnc:
		h, ok := v.heightOf(in.Hash, k)
		if !ok || in.N > h || h > v.ftip[k] {
			return nf
		}
		var sb strings.Builder
		fmt.Fprintf(&sb, "from=%d:", h-in.N)
		for i := h - in.N; i <= h; i++ {
			sb.WriteString(short(v.filterAt(i, k).f))
			sb.WriteByte(',')
		}
		return sb.String()
	}
	return "harness: unknown read"
}

// doRead performs one read on the real stores and renders the answer.
func doRead(st *Stores, in concIn) (out string) {
	defer func() {
		if p := recover(); p != nil {
			out = fmt.Sprintf("panic: %v", p)
		}
	}()
	switch in.Kind {
	case rBTip:
		hdr, h, err := st.BS.ChainTip()
		if err != nil {
			return "error: " + err.Error()
		}
		return fmt.Sprintf("%s@%d", short(hdr.BlockHash()), h)
	case rBH:
		hdr, err := st.BS.FetchHeaderByHeight(in.H)
		if err != nil {
			return nf
		}
		return short(hdr.BlockHash())
	case rBHash:
		hdr, h, err := st.BS.FetchHeader(&in.Hash)
		if err != nil {
			return nf
		}
		return fmt.Sprintf("%s@%d", short(hdr.BlockHash()), h)
	case rBHt:
		h, err := st.BS.HeightFromHash(&in.Hash)
		if err != nil {
			return nf
		}
		return fmt.Sprintf("%s@%d", short(in.Hash), h)
	case rBLoc, rBLocH:
		var loc []*chainhash.Hash
		var err error
		if in.Kind == rBLoc {
			loc, err = st.BS.LatestBlockLocator()
			if err != nil {
				return "error: " + err.Error()
			}
		} else {
			loc, err = st.BS.BlockLocatorFromHash(&in.Hash)
			if err != nil {
				return nf
			}
		}
		var sb strings.Builder
		for _, h := range loc {
			if h == nil {
				sb.WriteString("nil,")
				continue
			}
			sb.WriteString(short(*h))
			sb.WriteByte(',')
		}
		return sb.String()
	case rBAnc:
		hs, start, err := st.BS.FetchHeaderAncestors(in.N, &in.Hash)
		if err != nil {
			return nf
		}
		var sb strings.Builder
		fmt.Fprintf(&sb, "from=%d:", start)
		for i := range hs {
			sb.WriteString(short(hs[i].BlockHash()))
			sb.WriteByte(',')
		}
		return sb.String()
	case rFTip:
		f, h, err := st.FS.ChainTip()
		if err != nil {
			return "error: " + err.Error()
		}
		return fmt.Sprintf("%s@%d", short(*f), h)
	case rFH:
		f, err := st.FS.FetchHeaderByHeight(in.H)
		if err != nil {
			return nf
		}
		return short(*f)
	case rFHash:
		f, err := st.FS.FetchHeader(&in.Hash)
		if err != nil {
			return nf
		}
		return short(*f)
	case rFAnc:
		fs, start, err := st.FS.FetchHeaderAncestors(in.N, &in.Hash)
		if err != nil {
			return nf
		}
		var sb strings.Builder
		fmt.Fprintf(&sb, "from=%d:", start)
		for i := range fs {
			sb.WriteString(short(fs[i]))
			sb.WriteByte(',')
		}
		return sb.String()
	}
	return "harness: unknown read"
}

// concHistory builds the writer's operation list. Fixed histories 0, 1 and 2 are
// seed independent (2 = 0 again, run with paused range reads): (0) a chain of 40, then ten rounds of "roll back 6, append
// 6 others, append filters", (1) batches of 2500 headers with bulk rollbacks.
func concHistory(seed int64, idx int, e *Env) *History {
	if idx < FixedConc {
		g := &gen{rng: rand.New(rand.NewSource(int64(4242 + idx%2))), m: NewModel(e.Genesis, e.GenesisFilter), maxBatch: 8}
		h := &History{Index: idx, Seed: int64(4242 + idx), Class: "fixed-reorg-rounds"}
		if idx == 0 || idx == 2 { // 2 = the same history with paused range reads (idx%4 == 2)
			g.appendBlocks(g.newBlocks(40), "new")
			g.appendFilters(30)
			for r := 0; r < 10; r++ {
				for g.m.FTip() > g.m.BTip()-6 {
					g.filterRollback()
				}
				g.emit(Op{Kind: OpBR, N: 6, Note: "reorg/bulk"})
				g.m.RollbackBlocks(6)
				g.appendBlocks(g.newBlocks(6+r%2), "replace")
				g.appendFilters(int(g.m.BTip() - g.m.FTip() - 2))
			}
		} else {
			h.Class = "fixed-deep"
			g.appendBlocks(g.newBlocks(2500), "new")
			g.appendFilters(5)
			g.emit(Op{Kind: OpBR, N: 2300, Note: "reorg/bulk"})
			g.m.RollbackBlocks(2300)
			g.appendBlocks(g.newBlocks(2600), "replace")
			g.emit(Op{Kind: OpBR, N: 2100, Note: "reorg/bulk"})
			g.m.RollbackBlocks(2100)
			g.appendBlocks(g.newBlocks(300), "replace")
		}
		h.Ops = g.ops
		return h
	}
	h := Generate(seed, ConcIndexBase+idx, e, idx%6 != 5)
	// No reopen while readers are running (they would read closed files),
	// and a bounded length: many short histories beat one long one.
	maxOps := 60
	if h.Class == "deep" || h.Class == "large" {
		maxOps = 25
	}
	ops := h.Ops[:0:0]
	for _, op := range h.Ops {
		if op.Kind == OpRO {
			continue
		}
		if len(ops) == maxOps {
			break
		}
		ops = append(ops, op)
	}
	h.Ops = ops
	return h
}

func opDesc(op *Op) string {
	return fmt.Sprintf("%s(%d)%s", op.Kind, len(op.Blocks)+len(op.Filters)+int(int32(op.N)), map[bool]string{true: "/" + op.Note, false: ""}[op.Note != ""])
}

type concEvent struct {
	client  int
	in      concIn
	out     string
	call    int64
	ret     int64
	overlap bool // a write was running at some moment of the read
}

// RunConcurrent executes concurrent history idx. Returns false when a
// violation was raised.
func (r *Runner) RunConcurrent(seed int64, idx int, readers int) (ok bool, summary map[string]any) {
	h := concHistory(seed, idx, r.Env)
	s, err := r.begin(h, "conc")
	if err != nil {
		r.Sink.Inconclusive("harness: cannot set up case: " + err.Error())
		return false, nil
	}
	defer s.finish()

	// The versioned list, built by applying the operations to the model.
	vm := &verModel{blocks: map[uint32][]bver{}, filters: map[uint32][]fver{}, byHash: map[chainhash.Hash][]hpos{}}
	m := NewModel(r.Env.Genesis, r.Env.GenesisFilter)
	vm.blocks[0] = []bver{{0, m.Hashes[0], m.Blocks[0]}}
	vm.filters[0] = []fver{{0, m.Filters[0]}}
	vm.byHash[m.Hashes[0]] = []hpos{{0, 0}}
	vm.btip, vm.ftip = []uint32{0}, []uint32{0}
	var pool []chainhash.Hash // every block hash of the history, known up front
	pool = append(pool, m.Hashes[0])
	for i := range h.Ops {
		op := &h.Ops[i]
		k := i + 1
		switch op.Kind {
		case OpBA:
			base := m.BTip() + 1
			for j := range op.Blocks {
				hh := op.Blocks[j].BlockHash()
				vm.blocks[base+uint32(j)] = append(vm.blocks[base+uint32(j)], bver{k, hh, op.Blocks[j]})
				vm.byHash[hh] = append(vm.byHash[hh], hpos{base + uint32(j), k})
				pool = append(pool, hh)
			}
		case OpFA:
			base := m.FTip() + 1
			for j := range op.Filters {
				vm.filters[base+uint32(j)] = append(vm.filters[base+uint32(j)], fver{k, op.Filters[j]})
			}
		}
		apply(m, op)
		vm.btip = append(vm.btip, m.BTip())
		vm.ftip = append(vm.ftip, m.FTip())
	}
	// A few hashes no list state ever holds.
	rng := rand.New(rand.NewSource(h.Seed ^ 0xc0c))
	for i := 0; i < 3; i++ {
		var x chainhash.Hash
		rng.Read(x[:])
		pool = append(pool, x)
	}
	maxTip := uint32(0)
	for _, t := range vm.btip {
		maxTip = max(maxTip, t)
	}

	var clock atomic.Int64
	var writing atomic.Int64 // number of the write in progress (0 = none), bumped twice per write
	var done atomic.Bool
	var mu sync.Mutex
	var events []concEvent
	var tipNow atomic.Uint32 // hint for readers where the action is (not an oracle input)

	old := runtime.GOMAXPROCS(0)
	if old < readers+1 {
		runtime.GOMAXPROCS(readers + 1)
		defer runtime.GOMAXPROCS(old)
	}

	// Paused range reads: every fourth history (and fixed history 0 in a second
	// pass, index FixedConc) has ONE reader, whose ancestor-range reads are held
	// inside the file read until the writer has moved on.
	paused := idx%4 == 2
	var armed atomic.Bool
	var pauses, crossed atomic.Int64
	if paused {
		readers = 1
		wrap := func(f headerfs.File) headerfs.File {
			return &pauseFile{File: f, armed: &armed, writing: &writing, pauses: &pauses, crossed: &crossed}
		}
		if err := headerfs.VerifWrapFile(s.st.BS, wrap); err != nil {
			r.Sink.Inconclusive("harness: cannot wrap the block header file: " + err.Error())
			return false, nil
		}
		if err := headerfs.VerifWrapFile(s.st.FS, wrap); err != nil {
			r.Sink.Inconclusive("harness: cannot wrap the filter header file: " + err.Error())
			return false, nil
		}
	}
	maxReads := 700
	if paused {
		maxReads = 400
	}
	if len(pool) > 3000 {
		maxReads = 150 // ancestors / locators over thousands of headers are slow to render
	}
	var wg sync.WaitGroup
	for c := 1; c <= readers; c++ {
		wg.Add(1)
		go func(c int) {
			defer wg.Done()
			rr := rand.New(rand.NewSource(h.Seed*31 + int64(c)))
			var mine []concEvent
			for n := 0; n < maxReads && !done.Load(); n++ {
				in := concIn{}
				tip := tipNow.Load()
				near := func() uint32 { // heights around the tip, where appends and rollbacks happen
					d := uint32(rr.Intn(9))
					if rr.Intn(2) == 0 && tip+2 >= d {
						return tip + 2 - d
					}
					return uint32(rr.Intn(int(maxTip) + 2))
				}
				recent := func() chainhash.Hash {
					if rr.Intn(3) == 0 {
						return pool[rr.Intn(len(pool))]
					}
					// pool is in order of creation: the newest hashes sit at the end
					// of what the writer has reached; sample near the list's tip.
					b := vm.blockAt(min(near(), maxTip), min(int(writing.Load()/2)+rr.Intn(2), len(vm.btip)-1))
					if b == nil {
						return pool[rr.Intn(len(pool))]
					}
					return b.hash
				}
				p := rr.Intn(100)
				if paused && rr.Intn(2) == 0 {
					p = 52 + rr.Intn(14) // block ancestors
					if rr.Intn(3) == 0 {
						p = 95 // filter ancestors
					}
				}
				switch {
				case p < 12:
					in.Kind = rBTip
				case p < 24:
					in.Kind, in.H = rBH, near()
				case p < 36:
					in.Kind, in.Hash = rBHash, recent()
				case p < 42:
					in.Kind, in.Hash = rBHt, recent()
				case p < 48:
					in.Kind = rBLoc
				case p < 52:
					in.Kind, in.Hash = rBLocH, recent()
				case p < 66:
					in.Kind, in.Hash = rBAnc, recent()
				case p < 74:
					in.Kind = rFTip
				case p < 82:
					in.Kind, in.H = rFH, near()
				case p < 90:
					in.Kind, in.Hash = rFHash, recent()
				default:
					in.Kind, in.Hash = rFAnc, recent()
				}
				if paused && (in.Kind == rBAnc || in.Kind == rFAnc) {
					// The blocks a reorganisation is about to replace: the tip
					// and the three below it, as the list stands right now.
					k := min(int(writing.Load()/2), len(vm.btip)-1)
					if t := vm.btip[k]; t >= 1 {
						h := t - uint32(rr.Intn(int(min(t, 4))))
						if b := vm.blockAt(h, k); b != nil {
							in.Hash = b.hash
						}
					}
				}
				if in.Kind == rBAnc || in.Kind == rFAnc {
					// Caller contract n <= height(stop): bound n by the lowest
					// height the hash ever has.
					lo := uint32(1 << 30)
					for _, p := range vm.byHash[in.Hash] {
						lo = min(lo, p.h)
					}
					if lo == 1<<30 {
						lo = 0
					}
					in.N = uint32(rr.Intn(int(min(lo, 12)) + 1))
				}
				if paused && (in.Kind == rBAnc || in.Kind == rFAnc) && pauses.Load() < 60 {
					armed.Store(true)
				}
				w0 := writing.Load()
				call := clock.Add(1)
				out := doRead(s.st, in)
				armed.Store(false)
				if os.Getenv("C07_CONC_DEBUG") != "" && (in.Kind == rBAnc || in.Kind == rFAnc) && writing.Load() >= w0+4 {
					fmt.Fprintf(os.Stderr, "DBG %v w0=%d w1=%d -> %.80s\n", in, w0, writing.Load(), out)
				}
				ret := clock.Add(1)
				w1 := writing.Load()
				mine = append(mine, concEvent{client: c, in: in, out: out, call: call, ret: ret,
					overlap: w0 != w1 || w0%2 == 1})
				runtime.Gosched()
			}
			mu.Lock()
			events = append(events, mine...)
			mu.Unlock()
		}(c)
	}

	// The writer. A write that fails without a fault is part 1's subject; here
	// it ends the history (the list no longer describes the stores).
	var wEvents []concEvent
	failed := ""
	finished := make(chan struct{})
	go func() {
		defer close(finished)
		for i := range h.Ops {
			op := &h.Ops[i]
			s.step = i
			writing.Add(1)
			call := clock.Add(1)
			stamp, err := s.exec(op)
			ret := clock.Add(1)
			writing.Add(1)
			if rule, detail := s.checkResult(op, stamp, err); rule != "" {
				failed = fmt.Sprintf("%s at op %d %s: %s", rule, i, opDesc(op), detail)
				break
			}
			apply(s.m, op)
			tipNow.Store(s.m.BTip())
			wEvents = append(wEvents, concEvent{client: 0, in: concIn{Write: true, Idx: i + 1, Desc: opDesc(op)}, out: "ok", call: call, ret: ret})
			if i%4 == 3 {
				time.Sleep(200 * time.Microsecond) // let readers see the quiet state too
			}
		}
		done.Store(true)
		wg.Wait()
	}()
	// Watchdog. Progress is measured in stamped events, not seconds: only when
	// NO call or return was stamped for 15 s (a history takes well under a
	// second) are two goroutine dumps taken 2 s apart. Writer and readers all
	// parked in lock waits inside headerfs, in identical frames both times,
	// with no event in between = the store has deadlocked (violated); anything
	// else = inconclusive.
	for quiet, last := 0, int64(-1); ; {
		select {
		case <-finished:
		case <-time.After(time.Second):
			if now := clock.Load(); now != last {
				last, quiet = now, 0
			} else {
				quiet++
			}
			if quiet < 15 {
				continue
			}
			d1 := parkedInStore()
			time.Sleep(2 * time.Second)
			d2 := parkedInStore()
			if clock.Load() == last && len(d1) >= 2 && strings.Join(d1, "\n") == strings.Join(d2, "\n") {
				r.Stats.Add("conc_histories_deadlocked", 1)
				s.violate("conc-store-deadlock", deadlockShape(d1),
					fmt.Sprintf("writer and readers of the stores are parked in lock waits inside headerfs, no call has returned for %d s and two goroutine dumps 2 s apart are identical", quiet+2),
					map[string]any{"parked": d1, "class": h.Class, "conc_history_index": idx, "writes_done": len(wEvents)})
				s.st = nil // the parked goroutines still use the files: leave them open
				return false, nil
			}
			r.Sink.Inconclusive("concurrent history made no progress for 15 s but the goroutine dumps do not show a stable lock wait")
			s.st = nil
			return false, nil
		}
		break
	}
	if failed != "" {
		r.Sink.Inconclusive("concurrent history ended early, a write failed with readers running (judged by the plain part): " + failed)
		r.Stats.Add("conc_histories_write_failed", 1)
		return false, nil
	}

	all := append(wEvents, events...)
	ops := make([]porcupine.Operation, len(all))
	nOverlap, kinds := 0, map[string]int{}
	for i, e := range all {
		ops[i] = porcupine.Operation{ClientId: e.client, Input: e.in, Call: e.call, Output: e.out, Return: e.ret}
		if e.overlap {
			nOverlap++
			kinds[e.in.Kind]++
		}
	}
	model := porcupine.Model{
		Init: func() any { return 0 },
		Step: func(st, in, out any) (bool, any) {
			k, ci := st.(int), in.(concIn)
			if ci.Write {
				return k == ci.Idx-1, ci.Idx
			}
			return vm.expect(ci, k) == out.(string), k
		},
		DescribeOperation: func(in, out any) string { return fmt.Sprintf("%v -> %v", in, out) },
	}
	res, info := porcupine.CheckOperationsVerbose(model, ops, 60*time.Second)
	r.Stats.Add("conc_histories", 1)
	r.Stats.Add("conc_reads", int64(len(events)))
	r.Stats.Add("conc_reads_overlapping_a_write", int64(nOverlap))
	r.Stats.Add("conc_writes", int64(len(wEvents)))
	if paused {
		r.Stats.Add("conc_paused_histories", 1)
		r.Stats.Add("conc_range_reads_paused_inside_file_read", pauses.Load())
		r.Stats.Add("conc_range_reads_paused_across_two_writes", crossed.Load())
	}
	for k, n := range kinds {
		r.Stats.Add("conc_overlapping/"+k, int64(n))
	}
	summary = map[string]any{"part": "concurrent", "history_index": idx, "class": h.Class, "writes": len(wEvents),
		"reads": len(events), "reads_overlapping_a_write": nOverlap, "readers": readers, "verdict": string(res),
		"range_reads_paused": pauses.Load(), "paused_across_two_writes": crossed.Load()}
	r.Sink.Case(fmt.Sprintf("conc|%s|writes=%s|overlap=%s|paused=%v", h.Class, lenBucket2(len(wEvents)), overlapBucket(nOverlap), paused), nOverlap > 0)
	switch res {
	case porcupine.Ok:
		return true, summary
	case porcupine.Unknown:
		r.Sink.Inconclusive("porcupine timed out on a concurrent history")
		return false, summary
	}
	// Illegal: find the culprit reads — answers that NO state between the
	// read's call and return gives (the usual shape), for the signature and a
	// readable witness. lo/hi: writes completed before the call / started
	// before the return.
	sort.Slice(wEvents, func(i, j int) bool { return wEvents[i].call < wEvents[j].call })
	var bad []map[string]any
	badKinds := map[string]bool{}
	for _, e := range events {
		lo, hi := 0, 0
		for _, w := range wEvents {
			if w.ret < e.call {
				lo = w.in.Idx
			}
			if w.call < e.ret {
				hi = w.in.Idx
			}
		}
		match := false
		for k := lo; k <= hi && !match; k++ {
			match = vm.expect(e.in, k) == e.out
		}
		if !match {
			badKinds[e.in.Kind] = true
			if len(bad) < 5 {
				var during []string
				for k := max(lo, 1); k <= hi; k++ {
					during = append(during, fmt.Sprintf("W#%d %s", k, opDesc(&h.Ops[k-1])))
				}
				bad = append(bad, map[string]any{"read": e.in.String(), "answer": e.out,
					"list_before": vm.expect(e.in, lo), "list_after": vm.expect(e.in, hi),
					"writes_between_call_and_return": during})
			}
		}
	}
	var ks []string
	for k := range badKinds {
		ks = append(ks, k)
	}
	sort.Strings(ks)
	shape := "answer-of-no-list-state/" + strings.Join(ks, "+")
	if len(ks) == 0 {
		shape = "answers-individually-possible-but-mutually-inconsistent"
	}
	_ = info
	s.violate("conc-not-linearizable", shape,
		fmt.Sprintf("the recorded history of %d writes and %d concurrent reads is not linearizable w.r.t. the plain list", len(wEvents), len(events)),
		map[string]any{"culprits": bad, "class": h.Class, "conc_history_index": idx})
	return false, summary
}

func lenBucket2(n int) string {
	switch {
	case n < 10:
		return "<10"
	case n < 30:
		return "10-29"
	}
	return "30+"
}

func overlapBucket(n int) string {
	switch {
	case n == 0:
		return "0"
	case n < 20:
		return "1-19"
	case n < 100:
		return "20-99"
	}
	return "100+"
}

// parkedInStore returns, for every goroutine that is waiting for a lock with a
// headerfs frame on its stack, "state: innermost headerfs frames" (addresses
// and arguments stripped), sorted.
func parkedInStore() []string {
	buf := make([]byte, 4<<20)
	buf = buf[:runtime.Stack(buf, true)]
	var out []string
	for _, g := range strings.Split(string(buf), "\n\n") {
		lines := strings.Split(g, "\n")
		if len(lines) == 0 || !strings.HasPrefix(lines[0], "goroutine ") {
			continue
		}
		state := lines[0][strings.Index(lines[0], "[")+1:]
		state = strings.TrimSuffix(strings.TrimSuffix(state, ":"), "]")
		if i := strings.Index(state, ","); i >= 0 {
			state = state[:i] // drop "N minutes"
		}
		if !strings.Contains(state, "Mutex") && !strings.Contains(state, "semacquire") {
			continue
		}
		var frames []string
		for _, l := range lines[1:] {
			if strings.HasPrefix(l, "github.com/lightninglabs/neutrino/headerfs.") {
				f := strings.TrimPrefix(l, "github.com/lightninglabs/neutrino/headerfs.")
				if i := strings.LastIndex(f, "("); i > 0 {
					f = f[:i]
				}
				frames = append(frames, f)
			}
		}
		if len(frames) > 0 {
			out = append(out, state+": "+strings.Join(frames, " < "))
		}
	}
	sort.Strings(out)
	return out
}

func deadlockShape(parked []string) string {
	set := map[string]bool{}
	// The cycle is made by the queued writer and the goroutine(s) waiting for a
	// lock INSIDE another store method (nested frames); plain readers queued
	// behind them vary from run to run and are left out of the shape.
	for _, p := range parked {
		if strings.Contains(p, " < ") || strings.Contains(p, "RWMutex.Lock") {
			set[p] = true
		}
	}
	var ks []string
	for k := range set {
		ks = append(ks, k)
	}
	sort.Strings(ks)
	return strings.Join(ks, " | ")
}

// pauseFile sits between a store and its flat file in the "paused range read"
// histories. A reader that has armed it is held inside its next ReadAt (a
// system call: a point at which the scheduler may suspend it anyway) until the
// writer has completed four more operations or 40 ms have passed (the latter is
// what happens when the reader holds the store's lock: the writer waits for
// it). This places a rollback and a re-append between the two halves of a
// range read (hash -> height in the index, then the range in the file) and
// shows whether the store reads them as one.
type pauseFile struct {
	headerfs.File
	armed   *atomic.Bool
	writing *atomic.Int64
	pauses  *atomic.Int64
	crossed *atomic.Int64
}

func (f *pauseFile) ReadAt(p []byte, off int64) (int, error) {
	if f.armed.CompareAndSwap(true, false) {
		f.pauses.Add(1)
		w0 := f.writing.Load()
		for t0 := time.Now(); f.writing.Load() < w0+8 && time.Since(t0) < 40*time.Millisecond; {
			time.Sleep(200 * time.Microsecond)
		}
		if f.writing.Load() >= w0+4 {
			f.crossed.Add(1)
		}
	}
	return f.File.ReadAt(p, off)
}
