package c07

import (
	"errors"
	"io"
	"os"
	"sync"

	"github.com/btcsuite/btcwallet/walletdb"
	"github.com/lightninglabs/neutrino/headerfs"
)

// Fault targets.
const (
	TBlockFile  = "bfile"
	TFilterFile = "ffile"
	TDB         = "db"
)

// Fault kinds. The write kinds differ in how many bytes reach the file before
// the error is returned.
const (
	FWrite0     = "write0"      // Write returns (0, err); nothing written
	FShort1     = "short1"      // 1 byte written, then error
	FShortMid   = "shortmid"    // about half written (whole records when the batch has >= 2), then error
	FShortEnd   = "shortend"    // all but the last byte written, then error
	FShortN     = "shortn"      // exactly Plan.Bytes bytes written (capped at len-1), then error
	FSeek       = "seek"        // Seek returns an error
	FStat       = "stat"        // Stat returns an error
	FSync       = "sync"        // Sync returns an error
	FTruncate   = "truncate"    // Truncate returns an error without truncating
	FDBNoRun    = "db_norun"    // Update returns an error without running the closure
	FDBRollback = "db_rollback" // Update runs the closure, then rolls the transaction back and returns an error
)

// WriteKinds are the fault kinds that hit File.Write.
var WriteKinds = []string{FWrite0, FShort1, FShortMid, FShortEnd}

// MethodOf maps a fault kind to the wrapped method it hits.
func MethodOf(kind string) string {
	switch kind {
	case FWrite0, FShort1, FShortMid, FShortEnd, FShortN:
		return "write"
	case FDBNoRun, FDBRollback:
		return "update"
	}
	return kind
}

// ErrInjected is the error every injected fault returns.
var ErrInjected = errors.New("verif: injected fault")

// Plan is one single transient fault: the Index-th call (0-based, counted
// from Arm) of the method that Kind hits, on Target. With Every set, every
// call from the Index-th on fails (a fault that does not go away while the
// operation runs).
type Plan struct {
	Target string `json:"target"`
	Kind   string `json:"kind"`
	Index  int    `json:"index"`
	Bytes  int    `json:"bytes,omitempty"` // FShortN: bytes that reach the file
	Every  bool   `json:"every,omitempty"`
}

// Ctl is shared by the DB wrapper and the two file wrappers of one set of
// stores. It counts calls per target/method since the last Arm and decides
// whether a call is the one to fail.
type Ctl struct {
	mu     sync.Mutex
	plans  []Plan // usually one; several = a fault sequence within one call
	fired  []bool
	counts map[string]int
	// ShortN is the number of bytes the last injected short write let
	// through; ShortOf the length that was asked for.
	ShortN, ShortOf int
}

func NewCtl() *Ctl { return &Ctl{counts: map[string]int{}} }

// Arm resets the call counters and installs p (nil = count only).
func (c *Ctl) Arm(p *Plan) {
	if p == nil {
		c.ArmAll()
		return
	}
	c.ArmAll(*p)
}

// ArmAll resets the call counters and installs a fault sequence: every plan
// fires independently of the others at its own position.
func (c *Ctl) ArmAll(ps ...Plan) {
	c.mu.Lock()
	c.plans, c.fired, c.counts = append([]Plan(nil), ps...), make([]bool, len(ps)), map[string]int{}
	c.ShortN, c.ShortOf = 0, 0
	c.mu.Unlock()
}

// Disarm removes the plan(s) and returns whether all of them fired (false
// when none was armed) and the call counts observed since Arm.
func (c *Ctl) Disarm() (bool, map[string]int) {
	fired, n := c.DisarmAll()
	all := len(fired) > 0
	for _, f := range fired {
		all = all && f
	}
	return all, n
}

// DisarmAll removes the plans and returns which of them fired and the call
// counts observed since Arm.
func (c *Ctl) DisarmAll() ([]bool, map[string]int) {
	c.mu.Lock()
	defer c.mu.Unlock()
	f, n := c.fired, c.counts
	c.plans, c.fired, c.counts = nil, nil, map[string]int{}
	return f, n
}

// hit counts one call and returns the plan to inject (nil = none).
func (c *Ctl) hit(target, method string) *Plan {
	c.mu.Lock()
	defer c.mu.Unlock()
	key := target + "/" + method
	idx := c.counts[key]
	c.counts[key] = idx + 1
	for i := range c.plans {
		p := &c.plans[i]
		if p.Target != target || MethodOf(p.Kind) != method {
			continue
		}
		if p.Every && idx >= p.Index || !c.fired[i] && p.Index == idx {
			c.fired[i] = true
			q := *p
			return &q
		}
	}
	return nil
}

// FaultFile wraps the flat file of one store. Without an armed plan it is a
// transparent pass-through to the *os.File the store opened itself.
type FaultFile struct {
	headerfs.File
	ctl     *Ctl
	target  string
	recSize int

	mu    sync.Mutex
	state string // what last changed the file through this handle: fresh|written|truncated|restored
}

func NewFaultFile(under headerfs.File, ctl *Ctl, target string, recSize int) *FaultFile {
	return &FaultFile{File: under, ctl: ctl, target: target, recSize: recSize, state: "fresh"}
}

// State tells what last changed the file through this handle (part of the
// normalised shape of a case: it determines where the descriptor's offset is).
func (f *FaultFile) State() string { f.mu.Lock(); defer f.mu.Unlock(); return f.state }

func (f *FaultFile) setState(s string) { f.mu.Lock(); f.state = s; f.mu.Unlock() }

func (f *FaultFile) Write(p []byte) (int, error) {
	plan := f.ctl.hit(f.target, "write")
	if plan == nil {
		n, err := f.File.Write(p)
		if n > 0 {
			f.setState("written")
		}
		return n, err
	}
	n := 0
	switch plan.Kind {
	case FShortN:
		n = plan.Bytes
	case FShort1:
		n = 1
	case FShortEnd:
		n = len(p) - 1
	case FShortMid:
		if recs := len(p) / f.recSize; recs >= 2 {
			n = (recs / 2) * f.recSize
		} else {
			n = len(p) / 2
		}
	}
	if n >= len(p) {
		n = len(p) - 1
	}
	if n < 0 {
		n = 0
	}
	f.ctl.mu.Lock()
	f.ctl.ShortN, f.ctl.ShortOf = n, len(p)
	f.ctl.mu.Unlock()
	if n > 0 {
		if m, err := f.File.Write(p[:n]); err != nil || m != n {
			return m, err
		}
		f.setState("written")
	}
	return n, ErrInjected
}

func (f *FaultFile) Seek(off int64, whence int) (int64, error) {
	if f.ctl.hit(f.target, "seek") != nil {
		return 0, ErrInjected
	}
	return f.File.Seek(off, whence)
}

func (f *FaultFile) Stat() (os.FileInfo, error) {
	if f.ctl.hit(f.target, "stat") != nil {
		return nil, ErrInjected
	}
	return f.File.Stat()
}

func (f *FaultFile) Sync() error {
	if f.ctl.hit(f.target, "sync") != nil {
		return ErrInjected
	}
	return f.File.Sync()
}

func (f *FaultFile) Truncate(size int64) error {
	if f.ctl.hit(f.target, "truncate") != nil {
		return ErrInjected
	}
	err := f.File.Truncate(size)
	if err == nil {
		f.setState("truncated")
	}
	return err
}

// Snapshot reads the whole file (harness use only; goes to the real file).
func (f *FaultFile) Snapshot() ([]byte, error) {
	fi, err := f.File.Stat()
	if err != nil {
		return nil, err
	}
	b := make([]byte, fi.Size())
	if len(b) == 0 {
		return b, nil
	}
	if _, err := f.File.ReadAt(b, 0); err != nil {
		return nil, err
	}
	return b, nil
}

// Restore rewrites the file to a snapshot (harness use only).
func (f *FaultFile) Restore(b []byte) error {
	if err := f.File.Truncate(0); err != nil {
		return err
	}
	// Irrelevant for the O_APPEND descriptor the stores open today, but keeps
	// the repair correct should the open flags ever change.
	if _, err := f.File.Seek(0, io.SeekStart); err != nil {
		return err
	}
	if len(b) > 0 {
		if _, err := f.File.Write(b); err != nil {
			return err
		}
	}
	f.setState("restored")
	return nil
}

// FaultDB wraps the walletdb.DB both stores share. Read paths pass through.
type FaultDB struct {
	walletdb.DB
	ctl *Ctl
}

func NewFaultDB(db walletdb.DB, ctl *Ctl) *FaultDB { return &FaultDB{DB: db, ctl: ctl} }

// Update is what walletdb.Update(db, f) calls.
func (d *FaultDB) Update(f func(tx walletdb.ReadWriteTx) error, reset func()) error {
	kind := ""
	if p := d.ctl.hit(TDB, "update"); p != nil {
		kind = p.Kind
	}
	switch kind {
	case FDBNoRun:
		return ErrInjected
	case FDBRollback:
		// Run the closure inside a real transaction, then make the
		// transaction roll back: the commit "failed".
		return d.DB.Update(func(tx walletdb.ReadWriteTx) error {
			if err := f(tx); err != nil {
				return err
			}
			return ErrInjected
		}, reset)
	}
	return d.DB.Update(f, reset)
}

// BeginReadWriteTx is not used by headerfs today; counted and failed the same
// way so that a future switch to explicit transactions stays covered.
func (d *FaultDB) BeginReadWriteTx() (walletdb.ReadWriteTx, error) {
	if d.ctl.hit(TDB, "update") != nil {
		return nil, ErrInjected
	}
	return d.DB.BeginReadWriteTx()
}
