package c07

import (
	"fmt"
	"io"
	"os"
	"path/filepath"
	"time"

	"github.com/btcsuite/btcd/blockchain"
	"github.com/btcsuite/btcd/btcutil/v2/gcs/builder"
	"github.com/btcsuite/btcd/chaincfg/v2"
	"github.com/btcsuite/btcd/chainhash/v2"
	"github.com/btcsuite/btcd/wire/v2"
	"github.com/btcsuite/btcwallet/walletdb"
	_ "github.com/btcsuite/btcwallet/walletdb/bdb" // bbolt driver
	"github.com/lightninglabs/neutrino/headerfs"
)

// noFreelistSync is the bbolt option passed through walletdb. With it set,
// every Open has to rebuild the freelist by walking all 65 536 index buckets
// (~50 ms, a third of the run's CPU); it is a database tuning knob that no
// headerfs code path depends on, so the check runs with a persisted freelist.
const noFreelistSync = false

var templateFiles = []string{"neutrino.db", "block_headers.bin", "reg_filter_headers.bin"}

// Env is the per-process template directory (db + both stores initialised
// with their genesis entries) that every case starts from a copy of.
type Env struct {
	TemplateDir   string
	Params        *chaincfg.Params
	Genesis       wire.BlockHeader
	GenesisFilter chainhash.Hash
}

// UseEnv describes an already created template directory (child processes).
func UseEnv(templateDir string) (*Env, error) {
	params := &chaincfg.SimNetParams
	e := &Env{
		TemplateDir: templateDir,
		Params:      params,
		Genesis:     params.GenesisBlock.Header,
	}
	// The model's genesis filter header is computed with btcd's builder,
	// not read back from the store under test.
	f, err := builder.BuildBasicFilter(params.GenesisBlock, nil)
	if err != nil {
		return nil, err
	}
	e.GenesisFilter, err = builder.MakeHeaderForFilter(f, params.GenesisBlock.Header.PrevBlock)
	if err != nil {
		return nil, err
	}
	return e, nil
}

// NewEnv creates the template under scratch (the one expensive store creation
// of the run: 65 536 index sub-buckets).
func NewEnv(scratch string) (*Env, error) {
	e, err := UseEnv(filepath.Join(scratch, "template"))
	if err != nil {
		return nil, err
	}
	if err := os.MkdirAll(e.TemplateDir, 0o755); err != nil {
		return nil, err
	}
	db, err := walletdb.Create("bdb", filepath.Join(e.TemplateDir, templateFiles[0]),
		noFreelistSync, 10*time.Second, false)
	if err != nil {
		return nil, err
	}
	st, err := openOn(e, e.TemplateDir, db, NewCtl())
	if err != nil {
		db.Close()
		return nil, err
	}
	return e, st.Close()
}

// Fresh overwrites dir with a copy of the template.
func (e *Env) Fresh(dir string) error {
	if err := os.MkdirAll(dir, 0o755); err != nil {
		return err
	}
	for _, n := range templateFiles {
		if err := copyFile(filepath.Join(e.TemplateDir, n), filepath.Join(dir, n)); err != nil {
			return err
		}
	}
	return nil
}

func copyFile(src, dst string) error {
	in, err := os.Open(src)
	if err != nil {
		return err
	}
	defer in.Close()
	out, err := os.OpenFile(dst, os.O_WRONLY|os.O_CREATE|os.O_TRUNC, 0o644)
	if err != nil {
		return err
	}
	if _, err := io.Copy(out, in); err != nil {
		out.Close()
		return err
	}
	return out.Close()
}

// BlockStore is the read/write surface of the block store the check uses:
// the exported interface plus BlockLocatorFromHash, which the concrete type
// exports but the interface does not list.
type BlockStore interface {
	headerfs.BlockHeaderStore
	BlockLocatorFromHash(*chainhash.Hash) (blockchain.BlockLocator, error)
}

// Stores is one opened pair of real stores over one shared bbolt database,
// as neutrino opens them.
type Stores struct {
	Dir   string
	Ctl   *Ctl
	raw   walletdb.DB
	DB    *FaultDB
	BS    BlockStore
	FS    headerfs.FilterHeaderStore
	BFile *FaultFile
	FFile *FaultFile
}

// Open opens the database in dir and both stores on it.
func (e *Env) Open(dir string, ctl *Ctl) (*Stores, error) {
	db, err := walletdb.Open("bdb", filepath.Join(dir, templateFiles[0]),
		noFreelistSync, 10*time.Second, false)
	if err != nil {
		return nil, err
	}
	st, err := openOn(e, dir, db, ctl)
	if err != nil {
		db.Close()
		return nil, err
	}
	return st, nil
}

func openOn(e *Env, dir string, db walletdb.DB, ctl *Ctl) (*Stores, error) {
	st := &Stores{Dir: dir, Ctl: ctl, raw: db, DB: NewFaultDB(db, ctl)}
	bs, err := headerfs.NewBlockHeaderStore(dir, st.DB, e.Params)
	if err != nil {
		return nil, fmt.Errorf("NewBlockHeaderStore: %w", err)
	}
	// Wrap the file right away so that it can be closed later (the stores
	// have no Close of their own) and faulted on demand.
	err = headerfs.VerifWrapFile(bs, func(f headerfs.File) headerfs.File {
		st.BFile = NewFaultFile(f, ctl, TBlockFile, headerfs.BlockHeaderSize)
		return st.BFile
	})
	if err != nil {
		return nil, err
	}
	var ok bool
	if st.BS, ok = bs.(BlockStore); !ok {
		st.BFile.File.Close()
		return nil, fmt.Errorf("block store %T lacks BlockLocatorFromHash", bs)
	}
	fs, err := headerfs.NewFilterHeaderStore(dir, st.DB, headerfs.RegularFilter, e.Params, nil)
	if err != nil {
		st.BFile.File.Close()
		return nil, fmt.Errorf("NewFilterHeaderStore: %w", err)
	}
	err = headerfs.VerifWrapFile(fs, func(f headerfs.File) headerfs.File {
		st.FFile = NewFaultFile(f, ctl, TFilterFile, headerfs.RegularFilterHeaderSize)
		return st.FFile
	})
	if err != nil {
		st.BFile.File.Close()
		return nil, err
	}
	st.FS = fs
	return st, nil
}

// Close closes both flat files and the database.
func (s *Stores) Close() error {
	var first error
	for _, err := range []error{s.BFile.File.Close(), s.FFile.File.Close(), s.raw.Close()} {
		if err != nil && first == nil {
			first = err
		}
	}
	return first
}
