// Package c07 holds the helpers of the C07 check: the plain in-memory list
// that serves as the oracle, the history generator, the fault-injecting
// walletdb.DB / headerfs.File wrappers and the read comparator.
package c07

import (
	"bytes"

	"github.com/btcsuite/btcd/chainhash/v2"
	"github.com/btcsuite/btcd/wire/v2"
)

// Model is the reference: two plain slices indexed by height plus a hash map.
// It knows nothing about headerfs. Index 0 is genesis, which can never be
// removed. Filters never extend beyond Blocks (caller contract).
type Model struct {
	Blocks  []wire.BlockHeader
	Hashes  []chainhash.Hash // Hashes[i] = hash of Blocks[i]
	Filters []chainhash.Hash
	height  map[chainhash.Hash]uint32
}

// NewModel returns a model holding only the two genesis entries.
func NewModel(genesis wire.BlockHeader, genesisFilter chainhash.Hash) *Model {
	m := &Model{height: map[chainhash.Hash]uint32{}}
	m.AppendBlocks([]wire.BlockHeader{genesis})
	m.Filters = append(m.Filters, genesisFilter)
	return m
}

// Clone returns a deep copy.
func (m *Model) Clone() *Model {
	c := &Model{
		Blocks:  append([]wire.BlockHeader(nil), m.Blocks...),
		Hashes:  append([]chainhash.Hash(nil), m.Hashes...),
		Filters: append([]chainhash.Hash(nil), m.Filters...),
		height:  make(map[chainhash.Hash]uint32, len(m.height)),
	}
	for k, v := range m.height {
		c.height[k] = v
	}
	return c
}

func (m *Model) BTip() uint32 { return uint32(len(m.Blocks) - 1) }
func (m *Model) FTip() uint32 { return uint32(len(m.Filters) - 1) }

// AppendBlocks appends headers at the end of the block list.
func (m *Model) AppendBlocks(hs []wire.BlockHeader) {
	for i := range hs {
		h := hs[i].BlockHash()
		m.height[h] = uint32(len(m.Blocks))
		m.Blocks = append(m.Blocks, hs[i])
		m.Hashes = append(m.Hashes, h)
	}
}

// AppendFilters appends filter headers at the end of the filter list.
func (m *Model) AppendFilters(fs []chainhash.Hash) { m.Filters = append(m.Filters, fs...) }

// RollbackBlocks removes the last n blocks; false (and no change) when that
// would remove genesis.
func (m *Model) RollbackBlocks(n uint32) bool {
	if n > m.BTip() {
		return false
	}
	keep := len(m.Blocks) - int(n)
	for _, h := range m.Hashes[keep:] {
		delete(m.height, h)
	}
	m.Blocks, m.Hashes = m.Blocks[:keep], m.Hashes[:keep]
	return true
}

// RollbackFilter removes the last filter header; false when only genesis is left.
func (m *Model) RollbackFilter() bool {
	if m.FTip() == 0 {
		return false
	}
	m.Filters = m.Filters[:len(m.Filters)-1]
	return true
}

// HeightOf looks a block hash up in the live list.
func (m *Model) HeightOf(h chainhash.Hash) (uint32, bool) {
	v, ok := m.height[h]
	return v, ok
}

// Raw80 serialises a header to its 80 wire bytes (used to compare headers).
func Raw80(h *wire.BlockHeader) []byte {
	var b bytes.Buffer
	_ = h.Serialize(&b)
	return b.Bytes()
}

// SameHeader compares two headers field by field at wire precision (the
// timestamp is a uint32 of seconds on the wire). Not done via Serialize: btcd's
// serializer borrows scratch buffers from one process-wide channel, which 16
// workers would contend on.
func SameHeader(a, b *wire.BlockHeader) bool {
	return a.Version == b.Version && a.PrevBlock == b.PrevBlock && a.MerkleRoot == b.MerkleRoot &&
		uint32(a.Timestamp.Unix()) == uint32(b.Timestamp.Unix()) && a.Bits == b.Bits && a.Nonce == b.Nonce
}
