package c07

import (
	"math"
	"math/rand"
	"time"

	"github.com/btcsuite/btcd/chainhash/v2"
	"github.com/btcsuite/btcd/wire/v2"
)

// Operation kinds: every Op is exactly one call on one store (or a reopen).
const (
	OpBA  = "BA"  // block WriteHeaders(batch), possibly empty
	OpFA  = "FA"  // filter WriteHeaders(batch), possibly empty
	OpFR  = "FR"  // filter RollbackLastBlock(block hash below the filter tip)
	OpBR  = "BR"  // block RollbackBlockHeaders(N), 1 <= N <= tip
	OpBRL = "BRL" // block RollbackLastBlock()
	OpBR0 = "BR0" // block RollbackBlockHeaders(0)
	OpBRX = "BRX" // block RollbackBlockHeaders(N) with N > tip (past genesis)
	OpFRX = "FRX" // filter RollbackLastBlock while only the genesis entry is left
	OpRO  = "RO"  // close everything and reopen
)

// Op is one concrete operation.
type Op struct {
	Kind    string
	Blocks  []wire.BlockHeader // BA
	Filters []chainhash.Hash   // FA
	FillAll bool               // FA: block hash+height set on every element (importer style) or only on the last (block manager style)
	N       uint32             // BR / BRX
	Note    string             // what the generator meant: new|readd-same|to-genesis|interleaved|...
	Torn    *TornSpec          // BA / FA of a torn history: executed under a double fault (see torn.go)
}

// History is a concrete operation list; a pure function of (seed, index).
type History struct {
	Index int
	Seed  int64
	Class string // small|medium|large: bound on batch sizes
	Ops   []Op
}

type gen struct {
	rng      *rand.Rand
	m        *Model
	ops      []Op
	maxBatch int
	deep     bool // keep the filter tip low so that bulk block rollbacks can be thousands deep
}

// Generate builds history number idx of the run with the given seed. When
// smallOnly is set the class is restricted to small/medium (fault runs do a
// full read comparison after every attempt).
func Generate(seed int64, idx int, e *Env, smallOnly bool) *History {
	hseed := seed*1_000_003 + int64(idx)*7919 + 17
	rng := rand.New(rand.NewSource(hseed))
	h := &History{Index: idx, Seed: hseed}
	g := &gen{rng: rng, m: NewModel(e.Genesis, e.GenesisFilter)}
	switch p := rng.Intn(100); {
	case p < 68:
		h.Class, g.maxBatch = "small", 8
	case p < 90 || smallOnly:
		h.Class, g.maxBatch = "medium", 60
	default:
		h.Class, g.maxBatch = "large", 500
	}
	if idx%25 == 7 && !smallOnly {
		// Deep: batches and bulk rollbacks of several thousand headers
		// (more than one wire-message worth, the chunk size store code
		// tends to borrow).
		h.Class, g.maxBatch, g.deep = "deep", 2600, true
	}
	length := 30 + rng.Intn(271)
	if h.Class == "large" {
		length = 30 + rng.Intn(91)
	}
	if h.Class == "deep" {
		length = 20 + rng.Intn(25)
	}
	for len(g.ops) < length {
		g.step()
	}
	h.Ops = g.ops
	return h
}

func (g *gen) emit(op Op) { g.ops = append(g.ops, op) }

func (g *gen) batchSize() int {
	switch p := g.rng.Intn(100); {
	case p < 8:
		return 0
	case p < 38:
		return 1
	case p < 80:
		return 1 + g.rng.Intn(min(g.maxBatch, 8))
	default:
		return 1 + g.rng.Intn(g.maxBatch)
	}
}

// newBlocks makes n linked headers on top of the model's tip; every other
// field is arbitrary (the stores do not validate).
func (g *gen) newBlocks(n int) []wire.BlockHeader {
	out := make([]wire.BlockHeader, n)
	prev := g.m.Hashes[g.m.BTip()]
	for i := range out {
		var mr chainhash.Hash
		g.rng.Read(mr[:])
		out[i] = wire.BlockHeader{
			Version:    int32(g.rng.Uint32()),
			PrevBlock:  prev,
			MerkleRoot: mr,
			Timestamp:  time.Unix(int64(g.rng.Uint32()), 0),
			Bits:       g.rng.Uint32(),
			Nonce:      g.rng.Uint32(),
		}
		prev = out[i].BlockHash()
	}
	return out
}

func (g *gen) appendBlocks(hs []wire.BlockHeader, note string) {
	g.emit(Op{Kind: OpBA, Blocks: hs, Note: note})
	g.m.AppendBlocks(hs)
}

func (g *gen) appendFilters(n int) {
	fs := make([]chainhash.Hash, n)
	for i := range fs {
		g.rng.Read(fs[i][:])
	}
	g.emit(Op{Kind: OpFA, Filters: fs, FillAll: g.rng.Intn(2) == 0})
	g.m.AppendFilters(fs)
}

func (g *gen) filterRollback() {
	g.emit(Op{Kind: OpFR})
	g.m.RollbackFilter()
}

// reorg rolls the block store back by n (the filter store first, as far as
// needed: the caller contract) and usually re-adds headers at the freed heights.
func (g *gen) reorg() {
	tip := g.m.BTip()
	if tip == 0 {
		g.appendBlocks(g.newBlocks(1+g.rng.Intn(3)), "new")
		return
	}
	var n uint32
	switch p := g.rng.Intn(100); {
	case p < 35:
		n = 1
	case p < 70:
		n = 1 + uint32(g.rng.Intn(int(min(tip, 6))))
	case p < 88:
		n = 1 + uint32(g.rng.Intn(int(min(tip, uint32(2*g.maxBatch)))))
	default:
		n = tip // all the way to genesis
	}
	// Keep the chain of single filter rollbacks this needs short.
	const maxFR = 10
	if target := tip - n; g.m.FTip() > target+maxFR {
		n = tip - (g.m.FTip() - maxFR)
	}
	target := tip - n
	removed := append([]wire.BlockHeader(nil), g.m.Blocks[target+1:]...)
	note := "reorg"
	if target == 0 {
		note = "to-genesis"
	}
	if n <= 4 && g.rng.Intn(2) == 0 {
		// Block manager style: one height at a time, filter store first.
		for i := uint32(0); i < n; i++ {
			if g.m.FTip() == g.m.BTip() {
				g.filterRollback()
			}
			if g.rng.Intn(2) == 0 {
				g.emit(Op{Kind: OpBRL, N: 1, Note: note + "/interleaved"})
			} else {
				g.emit(Op{Kind: OpBR, N: 1, Note: note + "/interleaved"})
			}
			g.m.RollbackBlocks(1)
		}
	} else {
		for g.m.FTip() > target {
			g.filterRollback()
		}
		g.emit(Op{Kind: OpBR, N: n, Note: note + "/bulk"})
		g.m.RollbackBlocks(n)
	}
	switch p := g.rng.Intn(100); {
	case p < 55: // different headers at the rolled-back heights
		g.appendBlocks(g.newBlocks(1+g.rng.Intn(int(n)+3)), "replace")
	case p < 75: // the very same headers (same hashes) again, all or a prefix
		k := 1 + g.rng.Intn(len(removed))
		g.appendBlocks(removed[:k], "readd-same")
	}
}

func (g *gen) step() {
	m := g.m
	switch p := g.rng.Intn(100); {
	case p < 30:
		g.appendBlocks(g.newBlocks(g.batchSize()), "new")
	case p < 50 && g.deep && (m.FTip() >= 12 || g.rng.Intn(3) != 0):
		g.appendBlocks(g.newBlocks(g.batchSize()), "new")
	case p < 50:
		gap := int(m.BTip() - m.FTip())
		k := g.batchSize()
		if g.rng.Intn(4) == 0 {
			k = gap
		}
		g.appendFilters(min(k, gap))
	case p < 72:
		g.reorg()
	case p < 78:
		if m.FTip() >= 1 {
			g.filterRollback()
		} else {
			g.emit(Op{Kind: OpFRX})
		}
	case p < 83:
		tip := m.BTip()
		var n uint32
		switch g.rng.Intn(4) {
		case 0:
			n = tip + 1
		case 1:
			n = tip + 2
		case 2:
			n = tip + 1 + uint32(g.rng.Intn(1000))
		default:
			n = math.MaxUint32
		}
		g.emit(Op{Kind: OpBRX, N: n})
	case p < 85:
		g.emit(Op{Kind: OpBR0})
	case p < 88:
		if m.FTip() == 0 {
			g.emit(Op{Kind: OpFRX})
		} else {
			g.appendBlocks(g.newBlocks(1), "new")
		}
	case p < 92:
		g.emit(Op{Kind: OpRO})
	default:
		// Grow: blocks then filters up to the block tip.
		g.appendBlocks(g.newBlocks(1+g.rng.Intn(g.maxBatch)), "new")
		if gap := int(m.BTip() - m.FTip()); gap > 0 && gap <= 2*g.maxBatch && !g.deep {
			g.appendFilters(gap)
		}
	}
}
