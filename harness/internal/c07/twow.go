package c07

// Part 5 of the C07 check: TWO WRITERS.
//
// The block-header store and the filter-header store of one data directory are
// two objects with their own locks, and neutrino writes them from two
// goroutines (block headers from the blockHandler, filter headers from the
// cfHandler). The statement speaks about each store on its own: whatever the
// other store is doing meanwhile, a store has to answer like the plain list of
// what was appended to / rolled back from IT. Parts 1-4 never have two writers
// active at once; this part does.
//
// A history is a sequence of segments: some ordinary sequential calls (judged
// exactly as in part 1), then an EPISODE in which the operations of the two
// stores run on separate goroutines ("lanes": every lane is the only writer of
// its store, so the lane's list is its reference at every moment):
//
//   - hold episodes: the first operation of one lane is HELD inside one of its
//     flat-file calls (Seek / Write / Stat / Truncate / ReadAt, before or after
//     the call reached the file; the wrapper sits on top of the fault wrapper
//     installed through headerfs.VerifWrapFile) while the other lane completes
//     one or several whole operations, each followed by reads of that store; a
//     reader of the held store may be queued behind it meanwhile; then the
//     held call is released and its lane carries on;
//   - storm episodes: both lanes run freely after a common start signal.
//
// The lanes never depend on each other: the filter lane stays at or below a
// floor height fixed for the episode and the block lane never rolls back
// below it, so every block hash the filter store needs (its tip entry, the
// hash -> height lookups of its reads) is stable while the episode runs - the
// caller contract of parts 1-4 (filter tip <= block tip), kept under every
// interleaving.
//
// Oracle: unchanged. Inside a lane every read of the lane's own store equals
// the lane's list; the queued reader of the held store gets the list after the
// held operation (it waited for the writer's lock); after the episode, with
// everything quiescent, the COMPLETE comparison of part 1 (every height by
// content, every hash ever written, ancestors, locators, tips) runs against
// the two lists, and again after the reopen that ends every history.

import (
	"fmt"
	"math/rand"
	"os"
	"runtime"
	"runtime/debug"
	"sort"
	"strings"
	"sync"
	"sync/atomic"
	"time"

	"github.com/btcsuite/btcd/chainhash/v2"
	"github.com/lightninglabs/neutrino/headerfs"
)

// TwoIndexBase separates the index space of two-writer histories.
const TwoIndexBase = 3_000_000

// FixedTwo is the number of seed-independent two-writer histories.
const FixedTwo = 1

// HoldPoint names the flat-file call inside which a writer is held.
type HoldPoint struct {
	Method string `json:"method"` // seek|write|stat|truncate|readat
	Post   bool   `json:"after_the_call_reached_the_file"`
}

func (p HoldPoint) String() string {
	if p.Post {
		return p.Method + "-post"
	}
	return p.Method + "-pre"
}

// TwoEpisode is one concurrent stretch of a two-writer history.
type TwoEpisode struct {
	Storm       bool
	Held        string // TBlockFile | TFilterFile: the lane whose first operation is held ("" in a storm)
	Point       HoldPoint
	B, F        []Op   // the two lanes
	QueueReader bool   // a reader of the held store is started while its writer is held
	Floor       uint32 // the filter lane stays <= Floor, the block lane >= Floor
}

func (ep *TwoEpisode) lane(which string) []Op {
	if which == TBlockFile {
		return ep.B
	}
	return ep.F
}

func other(which string) string {
	if which == TBlockFile {
		return TFilterFile
	}
	return TBlockFile
}

func kindSet(ops []Op) string {
	set := map[string]bool{}
	for i := range ops {
		set[ops[i].Kind] = true
	}
	var ks []string
	for k := range set {
		ks = append(ks, k)
	}
	sort.Strings(ks)
	if len(ks) == 0 {
		return "-"
	}
	return strings.Join(ks, "+")
}

// shape is the normalised shape of an episode (signatures, fingerprints).
func (ep *TwoEpisode) shape() string {
	if ep.Storm {
		return fmt.Sprintf("storm|B=%s|F=%s", kindSet(ep.B), kindSet(ep.F))
	}
	held := ep.lane(ep.Held)
	return fmt.Sprintf("held=%s@%s|passing=%s", held[0].Kind, ep.Point, kindSet(ep.lane(other(ep.Held))))
}

func classSet(ops []Op) string {
	a, r := false, false
	for i := range ops {
		a = a || isAppend(ops[i].Kind)
		r = r || isRollback(ops[i].Kind)
	}
	switch {
	case a && r:
		return "append+rollback"
	case r:
		return "rollback"
	}
	return "append"
}

// sigShape is the coarser shape used in signatures: which store's writer was
// held, whether its bytes / its truncation had reached the file, and what
// class of operation the other store completed meanwhile.
func (ep *TwoEpisode) sigShape() string {
	if ep.Storm {
		return "storm"
	}
	op0 := &ep.lane(ep.Held)[0]
	phase := "before-its-file-change"
	if ep.Point.Post && (ep.Point.Method == "write" || ep.Point.Method == "truncate") {
		phase = "after-its-file-change"
	}
	return fmt.Sprintf("held=%s:%s|other-store=%s", op0.Kind, phase, classSet(ep.lane(other(ep.Held))))
}

func opsWritten(ops []Op) []string {
	var out []string
	for i := range ops {
		out = append(out, opDesc(&ops[i]))
	}
	return out
}

func (ep *TwoEpisode) describe() map[string]any {
	d := map[string]any{"floor_height": ep.Floor, "block_lane": opsWritten(ep.B), "filter_lane": opsWritten(ep.F)}
	if ep.Storm {
		d["kind"] = "storm: both lanes run freely"
	} else {
		d["kind"] = "hold"
		d["held_store"] = ep.Held
		d["held_inside"] = ep.Point.String()
		d["held_operation"] = opDesc(&ep.lane(ep.Held)[0])
		d["reader_queued_behind_held_writer"] = ep.QueueReader
	}
	return d
}

// TwoSeg is one segment: sequential calls, then (optionally) an episode.
type TwoSeg struct {
	Seq []Op
	Ep  *TwoEpisode
}

// TwoHistory is a two-writer history; a pure function of (seed, index), of the
// index alone for index < FixedTwo.
type TwoHistory struct {
	History // Ops = every operation in generation order (witnesses)
	Segs    []TwoSeg
	Procs   int // GOMAXPROCS while the history runs (0 = leave the process default)
}

// ---- generation

func (g *gen) takeOps() []Op {
	ops := g.ops
	g.ops = nil
	return ops
}

// laneB makes one block-lane operation (not emitted to the sequential list).
func (g *gen) laneB(floor uint32, rollback bool, n int) Op {
	room := g.m.BTip() - floor
	if rollback && room > 0 {
		k := uint32(max(1, min(n, int(room))))
		op := Op{Kind: OpBR, N: k, Note: "two"}
		if k == 1 && g.rng.Intn(2) == 0 {
			op.Kind = OpBRL
		}
		g.m.RollbackBlocks(k)
		return op
	}
	hs := g.newBlocks(max(1, n))
	g.m.AppendBlocks(hs)
	return Op{Kind: OpBA, Blocks: hs, Note: "two"}
}

// laneF makes one filter-lane operation. Needs floor >= 1.
func (g *gen) laneF(floor uint32, rollback bool, n int) Op {
	room := floor - g.m.FTip()
	if (rollback || room == 0) && g.m.FTip() >= 1 {
		g.m.RollbackFilter()
		return Op{Kind: OpFR, Note: "two"}
	}
	fs := g.newFilters(max(1, min(n, int(room))))
	g.m.AppendFilters(fs)
	return Op{Kind: OpFA, Filters: fs, FillAll: g.rng.Intn(2) == 0, Note: "two"}
}

func (g *gen) laneOp(which string, floor uint32, rollback bool, n int) Op {
	if which == TBlockFile {
		return g.laneB(floor, rollback, n)
	}
	return g.laneF(floor, rollback, n)
}

// twoBatch: 1, 2, a few, many.
func (g *gen) twoBatch() int {
	switch p := g.rng.Intn(100); {
	case p < 30:
		return 1
	case p < 55:
		return 2
	case p < 80:
		return 3 + g.rng.Intn(6)
	}
	return 9 + g.rng.Intn(22)
}

func (g *gen) holdPointFor(kind string) HoldPoint {
	p := g.rng.Intn(100)
	if isAppend(kind) {
		switch {
		case p < 30:
			return HoldPoint{"seek", false}
		case p < 50:
			return HoldPoint{"seek", true}
		case p < 75:
			return HoldPoint{"write", false}
		}
		return HoldPoint{"write", true}
	}
	switch {
	case p < 20:
		return HoldPoint{"readat", false}
	case p < 35:
		return HoldPoint{"stat", false}
	case p < 50:
		return HoldPoint{"stat", true}
	case p < 75:
		return HoldPoint{"truncate", false}
	}
	return HoldPoint{"truncate", true}
}

// twoFloor picks the floor of an episode: somewhere between the filter tip
// and the block tip, never 0.
func (g *gen) twoFloor() uint32 {
	btip, ftip := g.m.BTip(), g.m.FTip()
	return max(1, ftip+uint32(g.rng.Intn(int(btip-ftip)+1)))
}

func (g *gen) randomEpisode() *TwoEpisode {
	ep := &TwoEpisode{Floor: g.twoFloor()}
	add := func(which string, op Op) {
		if which == TBlockFile {
			ep.B = append(ep.B, op)
		} else {
			ep.F = append(ep.F, op)
		}
	}
	if g.rng.Intn(5) == 0 {
		ep.Storm = true
		for _, which := range []string{TBlockFile, TFilterFile} {
			for i, n := 0, 3+g.rng.Intn(14); i < n; i++ {
				add(which, g.laneOp(which, ep.Floor, g.rng.Intn(10) < 3, min(g.twoBatch(), 12)))
			}
		}
		return ep
	}
	ep.Held = TBlockFile
	if g.rng.Intn(2) == 0 {
		ep.Held = TFilterFile
	}
	op0 := g.laneOp(ep.Held, ep.Floor, g.rng.Intn(10) < 3, g.twoBatch())
	add(ep.Held, op0)
	ep.Point = g.holdPointFor(op0.Kind)
	passing := 1
	switch p := g.rng.Intn(100); {
	case p < 40:
	case p < 75:
		passing = 2 + g.rng.Intn(2)
	default:
		passing = 4 + g.rng.Intn(5)
	}
	for i := 0; i < passing; i++ {
		// The first passing operation is mostly an append: two appends in
		// flight at once is the shape the family is about.
		rollback := g.rng.Intn(10) < 3
		if i == 0 {
			rollback = g.rng.Intn(10) == 0
		}
		add(other(ep.Held), g.laneOp(other(ep.Held), ep.Floor, rollback, g.twoBatch()))
	}
	for i, n := 0, g.rng.Intn(3); i < n; i++ {
		add(ep.Held, g.laneOp(ep.Held, ep.Floor, g.rng.Intn(10) < 3, g.twoBatch()))
	}
	ep.QueueReader = g.rng.Intn(5) < 2
	return ep
}

// holdEpisode builds a hold episode from a written-out plan (fixed history).
// Lane operations are "A<n>" (append n) or "R<n>" (roll back n).
func (g *gen) holdEpisode(floor uint32, held string, point HoldPoint, heldLane, passLane []string, reader bool) *TwoEpisode {
	ep := &TwoEpisode{Floor: floor, Held: held, Point: point, QueueReader: reader}
	mk := func(which string, specs []string) []Op {
		var ops []Op
		for _, s := range specs {
			var n int
			fmt.Sscanf(s[1:], "%d", &n)
			ops = append(ops, g.laneOp(which, floor, s[0] == 'R', n))
		}
		return ops
	}
	if held == TBlockFile {
		ep.B, ep.F = mk(TBlockFile, heldLane), mk(TFilterFile, passLane)
	} else {
		ep.F, ep.B = mk(TFilterFile, heldLane), mk(TBlockFile, passLane)
	}
	return ep
}

// GenerateTwo builds two-writer history number idx.
func GenerateTwo(seed int64, idx int, e *Env) *TwoHistory {
	hseed := seed*1_000_003 + int64(TwoIndexBase+idx)*7919 + 17
	if idx < FixedTwo {
		hseed = 0x2773 + int64(idx)
	}
	t := &TwoHistory{History: History{Index: idx, Seed: hseed, Class: "two-writers"}}
	g := &gen{rng: rand.New(rand.NewSource(hseed)), m: NewModel(e.Genesis, e.GenesisFilter), maxBatch: 8}
	seg := func(ep *TwoEpisode) { t.Segs = append(t.Segs, TwoSeg{Seq: g.takeOps(), Ep: ep}) }
	if idx < FixedTwo {
		// The fixed history: one P, no collection while an episode runs. Every
		// hold shape once, appends of different byte lengths crossing each
		// other in both directions, a rollback of one store while the other
		// appends, a queued reader, a reopen in the middle, a storm.
		t.Class, t.Procs = "two-writers-fixed", 1
		g.appendBlocks(g.newBlocks(12), "new")
		g.appendFilters(4)
		B, F := TBlockFile, TFilterFile
		// block tip 12, filter tip 4
		seg(g.holdEpisode(8, B, HoldPoint{"seek", false}, []string{"A4"}, []string{"A2"}, false))
		// 16 / 6
		seg(g.holdEpisode(8, F, HoldPoint{"write", false}, []string{"A2"}, []string{"A1", "A5"}, false))
		// 22 / 8
		g.reopenOp()
		seg(g.holdEpisode(14, B, HoldPoint{"seek", true}, []string{"A2", "A1"}, []string{"A1", "R1", "A3"}, true))
		// 25 / 11
		seg(g.holdEpisode(14, F, HoldPoint{"seek", false}, []string{"A3"}, []string{"A1"}, true))
		// 26 / 14
		g.appendBlocks(g.newBlocks(6), "new")
		// 32 / 14
		seg(g.holdEpisode(20, B, HoldPoint{"truncate", false}, []string{"R3"}, []string{"A2", "A4"}, false))
		// 29 / 20
		seg(g.holdEpisode(24, F, HoldPoint{"truncate", true}, []string{"R1", "A2"}, []string{"A3", "R1", "A1"}, false))
		// 32 / 21
		seg(g.holdEpisode(24, B, HoldPoint{"write", true}, []string{"A30"}, []string{"A1", "A2"}, false))
		seg(g.holdEpisode(40, F, HoldPoint{"write", false}, []string{"A12"}, []string{"A1", "A1", "R2", "A2"}, false))
		seg(g.holdEpisode(40, B, HoldPoint{"readat", false}, []string{"R2", "A2"}, []string{"R1", "A1"}, true))
		ep := &TwoEpisode{Storm: true, Floor: g.twoFloor()}
		for i := 0; i < 12; i++ {
			ep.B = append(ep.B, g.laneB(ep.Floor, i%4 == 3, 1+i%3))
			ep.F = append(ep.F, g.laneF(ep.Floor, i%5 == 4, 1+i%2))
		}
		seg(ep)
		seg(nil)
	} else {
		t.Procs = []int{1, 0, 1, 4}[idx%4]
		g.appendBlocks(g.newBlocks(10+g.rng.Intn(50)), "new")
		g.appendFilters(g.rng.Intn(int(min(g.m.BTip(), 12)) + 1))
		for i, n := 0, g.rng.Intn(5); i < n; i++ {
			g.step()
		}
		for e, n := 0, 2+g.rng.Intn(3); e < n; e++ {
			if e > 0 && g.rng.Intn(3) == 0 {
				for i, k := 0, 1+g.rng.Intn(3); i < k; i++ {
					g.step()
				}
			}
			// Room for both lanes.
			if g.m.BTip()-g.m.FTip() < 8 {
				g.appendBlocks(g.newBlocks(8+g.rng.Intn(25)), "new")
			}
			seg(g.randomEpisode())
		}
		for i, n := 0, g.rng.Intn(3); i < n; i++ {
			g.step()
		}
		seg(nil)
	}
	for i := range t.Segs {
		t.Ops = append(t.Ops, t.Segs[i].Seq...)
		if ep := t.Segs[i].Ep; ep != nil {
			t.Ops = append(t.Ops, ep.B...)
			t.Ops = append(t.Ops, ep.F...)
		}
	}
	return t
}

// ---- the hold wrapper

type holdCtl struct {
	mu      sync.Mutex
	armed   bool
	target  string
	point   HoldPoint
	entered chan struct{}
	release chan struct{}
}

func (c *holdCtl) arm(target string, p HoldPoint) (entered, release chan struct{}) {
	c.mu.Lock()
	defer c.mu.Unlock()
	c.armed, c.target, c.point = true, target, p
	c.entered, c.release = make(chan struct{}), make(chan struct{})
	return c.entered, c.release
}

func (c *holdCtl) disarm() {
	c.mu.Lock()
	c.armed = false
	c.mu.Unlock()
}

// holdFile sits on top of the fault wrapper of one flat file. The first call
// matching the armed hold point announces itself and waits for the release;
// everything else passes straight through.
type holdFile struct {
	headerfs.File
	which string
	c     *holdCtl
}

func (f *holdFile) gate(method string, post bool) {
	c := f.c
	c.mu.Lock()
	if !c.armed || c.target != f.which || c.point.Method != method || c.point.Post != post {
		c.mu.Unlock()
		return
	}
	c.armed = false
	entered, release := c.entered, c.release
	c.mu.Unlock()
	close(entered)
	<-release
}

func (f *holdFile) Seek(off int64, whence int) (int64, error) {
	f.gate("seek", false)
	n, err := f.File.Seek(off, whence)
	f.gate("seek", true)
	return n, err
}

func (f *holdFile) Write(p []byte) (int, error) {
	f.gate("write", false)
	n, err := f.File.Write(p)
	f.gate("write", true)
	return n, err
}

func (f *holdFile) ReadAt(p []byte, off int64) (int, error) {
	f.gate("readat", false)
	n, err := f.File.ReadAt(p, off)
	f.gate("readat", true)
	return n, err
}

func (f *holdFile) Truncate(size int64) error {
	f.gate("truncate", false)
	err := f.File.Truncate(size)
	f.gate("truncate", true)
	return err
}

func (f *holdFile) Sync() error {
	f.gate("sync", false)
	err := f.File.Sync()
	f.gate("sync", true)
	return err
}

func (f *holdFile) Stat() (os.FileInfo, error) {
	f.gate("stat", false)
	fi, err := f.File.Stat()
	f.gate("stat", true)
	return fi, err
}

// ---- executing a lane

// execOn performs op on the real stores with the arguments the list m implies
// (the lane's own list; exec does the same with the history's list).
func execOn(st *Stores, m *Model, op *Op) (stamp *headerfs.BlockStamp, err error, panicked bool) {
	defer func() {
		if p := recover(); p != nil {
			panicked, err = true, fmt.Errorf("panic: %v", p)
		}
	}()
	switch op.Kind {
	case OpBA:
		base := m.BTip() + 1
		hs := make([]headerfs.BlockHeader, len(op.Blocks))
		for i := range op.Blocks {
			hdr := op.Blocks[i]
			hs[i] = headerfs.BlockHeader{BlockHeader: &hdr, Height: base + uint32(i)}
		}
		return nil, st.BS.WriteHeaders(hs...), false
	case OpFA:
		base := m.FTip() + 1
		fs := make([]headerfs.FilterHeader, len(op.Filters))
		for i := range op.Filters {
			fs[i].FilterHash = op.Filters[i]
			if op.FillAll || i == len(op.Filters)-1 {
				fs[i].HeaderHash = m.Hashes[base+uint32(i)]
				fs[i].Height = base + uint32(i)
			}
		}
		return nil, st.FS.WriteHeaders(fs...), false
	case OpFR:
		newTip := m.Blocks[m.FTip()].PrevBlock
		stamp, err = st.FS.RollbackLastBlock(&newTip)
		return stamp, err, false
	case OpBR:
		stamp, err = st.BS.RollbackBlockHeaders(op.N)
		return stamp, err, false
	case OpBRL:
		stamp, err = st.BS.RollbackLastBlock()
		return stamp, err, false
	}
	return nil, fmt.Errorf("harness: lane operation %q", op.Kind), false
}

// resultOn judges the return value of a lane operation against the lane's
// list before the call (the same rules as checkResult).
func resultOn(m *Model, op *Op, stamp *headerfs.BlockStamp, err error, panicked bool) (string, string) {
	if panicked {
		return "store-panicked", err.Error()
	}
	switch op.Kind {
	case OpBA, OpFA:
		if err != nil {
			return "append-failed-without-fault", err.Error()
		}
	case OpBR, OpBRL:
		if err != nil {
			return "rollback-failed-without-fault", err.Error()
		}
		want := m.BTip() - op.N
		if stamp == nil || uint32(stamp.Height) != want || stamp.Hash != m.Hashes[want] ||
			!stamp.Timestamp.Equal(m.Blocks[want].Timestamp) {
			return "block-rollback-return", fmt.Sprintf("returned %+v, list says height %d hash %s time %v",
				stamp, want, m.Hashes[want], m.Blocks[want].Timestamp)
		}
	case OpFR:
		if err != nil {
			return "rollback-failed-without-fault", err.Error()
		}
		want := m.FTip() - 1
		if stamp == nil || uint32(stamp.Height) != want || stamp.Hash != m.Filters[want] {
			return "filter-rollback-return", fmt.Sprintf("returned %+v, list says height %d %s", stamp, want, m.Filters[want])
		}
	}
	return "", ""
}

// laneRead reads ONE store (the lane's own) and compares with the lane's list:
// the tip, the touched heights and the two beyond the tip by content, the
// touched hashes. Returns the first disagreement and the number of reads made.
func laneRead(st *Stores, m *Model, which string, heights []uint32, hashes []chainhash.Hash) (res *Mismatch, reads int) {
	defer func() {
		if p := recover(); p != nil {
			res = mm("read-panicked", "%v", p)
		}
	}()
	if which == TBlockFile {
		btip := m.BTip()
		hdr, h, err := st.BS.ChainTip()
		reads++
		if err != nil {
			return mm("block-tip", "ChainTip error %v, list tip %d", err, btip), reads
		}
		if h != btip || !SameHeader(hdr, &m.Blocks[btip]) {
			return mm("block-tip", "ChainTip = height %d hash %s, list height %d hash %s", h, hdr.BlockHash(), btip, m.Hashes[btip]), reads
		}
		for _, i := range append(append([]uint32(nil), heights...), 0, btip, btip+1, btip+2) {
			got, err := st.BS.FetchHeaderByHeight(i)
			reads++
			switch {
			case i <= btip && err != nil:
				return mm("block-by-height", "height %d (tip %d): error %v", i, btip, err), reads
			case i <= btip && !SameHeader(got, &m.Blocks[i]):
				return mm("block-by-height", "height %d (tip %d): got %s want %s", i, btip, got.BlockHash(), m.Hashes[i]), reads
			case i > btip && err == nil:
				return mm("block-by-height-beyond-tip", "height %d beyond tip %d returned %s", i, btip, got.BlockHash()), reads
			}
		}
		for i := range hashes {
			want, live := m.HeightOf(hashes[i])
			got, gh, err := st.BS.FetchHeader(&hashes[i])
			reads++
			switch {
			case live && err != nil:
				return mm("block-by-hash", "live hash at height %d: FetchHeader err %v", want, err), reads
			case live && (gh != want || !SameHeader(got, &m.Blocks[want])):
				return mm("block-by-hash", "live hash at height %d: FetchHeader height %d (%s)", want, gh, got.BlockHash()), reads
			case !live && err == nil:
				return mm("block-rolled-back-hash-found", "rolled-back hash %s still found at height %d (tip %d)", hashes[i], gh, btip), reads
			}
		}
		return nil, reads
	}
	ftip := m.FTip()
	fh, h, err := st.FS.ChainTip()
	reads++
	if err != nil {
		return mm("filter-tip", "ChainTip error %v, list tip %d", err, ftip), reads
	}
	if h != ftip || *fh != m.Filters[ftip] {
		return mm("filter-tip", "ChainTip = height %d %s, list height %d %s", h, fh, ftip, m.Filters[ftip]), reads
	}
	for _, i := range append(append([]uint32(nil), heights...), 0, ftip, ftip+1, ftip+2) {
		got, err := st.FS.FetchHeaderByHeight(i)
		reads++
		switch {
		case i <= ftip && err != nil:
			return mm("filter-by-height", "height %d (tip %d): error %v", i, ftip, err), reads
		case i <= ftip && *got != m.Filters[i]:
			return mm("filter-by-height", "height %d (tip %d): got %s want %s", i, ftip, got, m.Filters[i]), reads
		case i > ftip && err == nil:
			return mm("filter-by-height-beyond-tip", "height %d beyond tip %d returned %s", i, ftip, got), reads
		}
	}
	for i := range hashes {
		// Block hashes at or below the floor: live in every state of the
		// block lane.
		want, live := m.HeightOf(hashes[i])
		if !live {
			continue
		}
		got, err := st.FS.FetchHeader(&hashes[i])
		reads++
		switch {
		case want <= ftip && err != nil:
			return mm("filter-by-hash", "block at height %d (filter tip %d): error %v", want, ftip, err), reads
		case want <= ftip && *got != m.Filters[want]:
			return mm("filter-by-hash", "block at height %d: got %s want %s", want, got, m.Filters[want]), reads
		case want > ftip && err == nil:
			return mm("filter-by-hash-beyond-tip", "block at height %d beyond filter tip %d returned %s", want, ftip, got), reads
		}
	}
	return nil, reads
}

// queuedRead is the reader started on the HELD store while its writer is
// parked: tip and heights by content. The reads overlap the held write in
// time, so each answer may be the list's answer before or after that write,
// and, the reads being sequential, never "before" again after an "after".
func queuedRead(st *Stores, pre, post *Model, which string, heights []uint32) (res *Mismatch, reads int) {
	defer func() {
		if p := recover(); p != nil {
			res = mm("read-panicked", "%v", p)
		}
	}()
	tipOf := func(m *Model) uint32 {
		if which == TBlockFile {
			return m.BTip()
		}
		return m.FTip()
	}
	at := func(m *Model, h uint32) string {
		if h > tipOf(m) {
			return nf
		}
		if which == TBlockFile {
			return m.Hashes[h].String()
		}
		return m.Filters[h].String()
	}
	hs := append(append([]uint32(nil), heights...), tipOf(pre), tipOf(post), tipOf(pre)+1, tipOf(post)+1)
	seenPost := false
	for i := -1; i < len(hs); i++ {
		var got, wantPre, wantPost, what string
		if i < 0 {
			what = "ChainTip"
			wantPre = fmt.Sprintf("%s@%d", at(pre, tipOf(pre)), tipOf(pre))
			wantPost = fmt.Sprintf("%s@%d", at(post, tipOf(post)), tipOf(post))
			if which == TBlockFile {
				hdr, h, err := st.BS.ChainTip()
				if err != nil {
					got = "error: " + err.Error()
				} else {
					got = fmt.Sprintf("%s@%d", hdr.BlockHash(), h)
				}
			} else {
				fh, h, err := st.FS.ChainTip()
				if err != nil {
					got = "error: " + err.Error()
				} else {
					got = fmt.Sprintf("%s@%d", fh, h)
				}
			}
		} else {
			what = fmt.Sprintf("FetchHeaderByHeight(%d)", hs[i])
			wantPre, wantPost, got = at(pre, hs[i]), at(post, hs[i]), nf
			if which == TBlockFile {
				if hdr, err := st.BS.FetchHeaderByHeight(hs[i]); err == nil {
					got = hdr.BlockHash().String()
				}
			} else if fh, err := st.FS.FetchHeaderByHeight(hs[i]); err == nil {
				got = fh.String()
			}
		}
		reads++
		switch {
		case !seenPost && got == wantPre:
		case got == wantPost:
			seenPost = true
		default:
			rule := "filter-by-height"
			if which == TBlockFile {
				rule = "block-by-height"
			}
			if i < 0 {
				rule = rule[:strings.Index(rule, "-")] + "-tip"
			}
			return mm(rule, "%s = %s; the list says %s before the write in progress and %s after it (an earlier read of this reader already saw the state after: %v)",
				what, got, wantPre, wantPost, seenPost), reads
		}
	}
	return nil, reads
}

type laneRes struct {
	which     string
	done      int    // operations completed (result and reads judged)
	rule      string // violation (result rule or read mismatch), "" = none
	detail    string
	atOp      int
	inLaneOp  string
	reads     int
	hashes    []chainhash.Hash // every block hash the lane touched
	intervals [][2]int64       // stamps at call and return of every operation
}

// runLane runs ops[from:to] of one lane on its own list m.
func runLane(st *Stores, m *Model, which string, ops []Op, from, to int, clock *atomic.Int64, res *laneRes) {
	res.which = which
	for i := from; i < to && res.rule == ""; i++ {
		op := &ops[i]
		t0 := clock.Add(1)
		stamp, err, panicked := execOn(st, m, op)
		t1 := clock.Add(1)
		res.intervals = append(res.intervals, [2]int64{t0, t1})
		if rule, detail := resultOn(m, op, stamp, err, panicked); rule != "" {
			res.rule, res.detail, res.atOp, res.inLaneOp = rule, detail, i, op.Kind
			return
		}
		hashes, heights := apply(m, op)
		if which == TBlockFile {
			res.hashes = append(res.hashes, hashes...)
		}
		d, n := laneRead(st, m, which, heights, hashes)
		res.reads += n
		if d != nil {
			res.rule, res.detail, res.atOp, res.inLaneOp = d.Rule, d.Detail, i, op.Kind
			return
		}
		res.done++
	}
}

// ---- running a history

const twoWatchdog = 90 * time.Second // an episode takes milliseconds

func (s *runState) installHold() error {
	if s.holdFor == s.st {
		return nil
	}
	s.hold = &holdCtl{}
	for _, x := range []struct {
		store any
		which string
	}{{s.st.BS, TBlockFile}, {s.st.FS, TFilterFile}} {
		which := x.which
		err := headerfs.VerifWrapFile(x.store, func(f headerfs.File) headerfs.File {
			return &holdFile{File: f, which: which, c: s.hold}
		})
		if err != nil {
			return err
		}
	}
	s.holdFor = s.st
	return nil
}

func waitOr(ch <-chan struct{}, d time.Duration) bool {
	select {
	case <-ch:
		return true
	case <-time.After(d):
		return false
	}
}

// episode runs one episode. Returns false when the history must stop.
func (s *runState) episode(ep *TwoEpisode, pinned bool) bool {
	r := s.r
	if err := s.installHold(); err != nil {
		r.Sink.Inconclusive("harness: cannot wrap the flat files: " + err.Error())
		return false
	}
	shape, sig := ep.shape(), ep.sigShape()
	extra := map[string]any{"episode": ep.describe(), "gomaxprocs": runtime.GOMAXPROCS(0), "gc_off_during_episode": pinned}
	// The lanes' lists: each lane owns a copy and is its only writer.
	lists := map[string]*Model{TBlockFile: s.m.Clone(), TFilterFile: s.m.Clone()}
	results := map[string]*laneRes{TBlockFile: {}, TFilterFile: {}}
	var clock atomic.Int64
	if pinned {
		// One P and no collection: sync.Pool and every other per-P cache hands
		// an object straight from one goroutine to the next.
		defer debug.SetGCPercent(debug.SetGCPercent(-1))
	}
	abandon := func(why string) bool {
		r.Sink.Inconclusive("two-writers episode (" + shape + "): " + why)
		s.st = nil // goroutines may still be inside the stores: leave the files open
		return false
	}

	reached, overlapped, queuedReads := false, false, 0
	var queued *Mismatch
	if ep.Storm {
		start := make(chan struct{})
		var wg sync.WaitGroup
		for _, which := range []string{TBlockFile, TFilterFile} {
			wg.Add(1)
			go func(which string) {
				defer wg.Done()
				<-start
				ops := ep.lane(which)
				runLane(s.st, lists[which], which, ops, 0, len(ops), &clock, results[which])
			}(which)
		}
		done := make(chan struct{})
		go func() { wg.Wait(); close(done) }()
		close(start)
		if !waitOr(done, twoWatchdog) {
			return abandon("the lanes did not finish within the watchdog")
		}
	} else {
		held, pass := ep.Held, other(ep.Held)
		heldOps, passOps := ep.lane(held), ep.lane(pass)
		pre0, after0 := lists[held].Clone(), lists[held].Clone()
		_, heights0 := apply(after0, &heldOps[0])
		entered, release := s.hold.arm(held, ep.Point)
		op0Done, readerDone, heldDone := make(chan struct{}), make(chan struct{}), make(chan struct{})
		go func() {
			defer close(heldDone)
			runLane(s.st, lists[held], held, heldOps, 0, 1, &clock, results[held])
			close(op0Done)
			<-readerDone
			runLane(s.st, lists[held], held, heldOps, 1, len(heldOps), &clock, results[held])
		}()
		select {
		case <-entered:
			reached = true
		case <-op0Done:
			s.hold.disarm()
		case <-time.After(twoWatchdog):
			return abandon("the held operation neither reached its hold point nor returned within the watchdog")
		}
		if reached && ep.QueueReader {
			// A reader of the held store, overlapping the held write.
			st := s.st
			go func() {
				defer close(readerDone)
				queued, queuedReads = queuedRead(st, pre0, after0, held, heights0)
			}()
		} else {
			close(readerDone)
		}
		passDone := make(chan struct{})
		go func() {
			defer close(passDone)
			runLane(s.st, lists[pass], pass, passOps, 0, len(passOps), &clock, results[pass])
		}()
		stuck := false
		if !waitOr(passDone, twoWatchdog) {
			stuck = true
		} else if reached {
			select {
			case <-op0Done:
			default:
				overlapped = true
			}
		}
		s.hold.disarm()
		close(release)
		if stuck {
			if !waitOr(passDone, twoWatchdog) || !waitOr(heldDone, twoWatchdog) {
				return abandon("the passing lane did not finish, neither while the other store's writer was held nor after its release")
			}
			// The two stores are independent objects: observed, not judged.
			r.Sink.Inconclusive("two-writers episode (" + shape + "): the passing store's operations only completed after the held writer of the OTHER store was released")
			r.Stats.Add("two_passing_lane_waited_for_held_store", 1)
		}
		if !waitOr(heldDone, twoWatchdog) {
			return abandon("the held lane did not finish within the watchdog after its release")
		}
	}

	// Quiescent again: the history's list is the two lanes' lists.
	nb := lists[TBlockFile]
	nb.Filters = lists[TFilterFile].Filters
	s.m = nb
	for _, h := range results[TBlockFile].hashes {
		s.remember(h)
	}
	rb, rf := results[TBlockFile], results[TFilterFile]
	r.Stats.Add("two_episodes", 1)
	r.Stats.Add("two_lane_ops_completed", int64(rb.done+rf.done))
	r.Stats.Add("two_lane_reads", int64(rb.reads+rf.reads))
	nOverlap := 0
	for _, a := range rb.intervals {
		for _, b := range rf.intervals {
			if a[0] < b[1] && b[0] < a[1] {
				nOverlap++
			}
		}
	}
	r.Stats.Add("two_operation_pairs_overlapping_across_stores", int64(nOverlap))
	if ep.Storm {
		r.Stats.Add("two_storm_episodes", 1)
		r.Sink.Case(fmt.Sprintf("two|%s|ops=%s|overlaps=%s|procs=%d", shape, lenBucket2(len(ep.B)+len(ep.F)), overlapBucket(nOverlap),
			runtime.GOMAXPROCS(0)), nOverlap > 0)
	} else {
		held := ep.lane(ep.Held)
		passed := results[other(ep.Held)].done
		r.Stats.Add("two_hold_episodes", 1)
		if reached {
			r.Stats.Add("two_holds_reached", 1)
			r.Stats.Add("two_held/"+held[0].Kind+"@"+ep.Point.String(), 1)
		} else {
			r.Stats.Add("two_holds_not_reached", 1)
		}
		if overlapped {
			r.Stats.Add("two_episodes_other_store_completed_ops_while_writer_held", 1)
			r.Stats.Add("two_ops_completed_while_other_writer_held", int64(passed))
			for _, op := range ep.lane(other(ep.Held)) {
				r.Stats.Add("two_passed_while_held/"+op.Kind, 1)
			}
		}
		if ep.QueueReader && reached {
			r.Stats.Add("two_readers_queued_behind_held_writer", 1)
			r.Stats.Add("two_queued_reader_reads", int64(queuedReads))
		}
		passN := 0
		for _, op := range ep.lane(other(ep.Held)) {
			passN = max(passN, len(op.Blocks)+len(op.Filters))
		}
		r.Sink.Case(fmt.Sprintf("two|%s|heldn=%s|passn=%s|passing-ops=%s|reader=%v|procs=%d", shape,
			sizeClass(len(held[0].Blocks)+len(held[0].Filters)+int(held[0].N)), sizeClass(passN), passBucket(len(ep.lane(other(ep.Held)))),
			ep.QueueReader, runtime.GOMAXPROCS(0)), overlapped)
	}

	for _, lr := range []*laneRes{rb, rf} {
		if lr.rule != "" {
			extra["lane"] = lr.which
			extra["lane_operation_index"] = lr.atOp
			s.violate(lr.rule, "two-writers|"+sig+"|in-lane:"+lr.inLaneOp, "while the other store was being written: "+lr.detail, extra)
			return false
		}
	}
	if queued != nil {
		s.violate(queued.Rule, "two-writers|"+sig+"|reader-overlapping-held-write", queued.Detail, extra)
		return false
	}
	if d := Compare(s.st, s.m, s.ever, Scope{Full: true}, s.rng, r.Stats); d != nil {
		s.violate(d.Rule, "two-writers|"+sig+"|after-episode", d.Detail, extra)
		return false
	}
	s.lastTwo = sig
	s.prevClass = "append"
	return true
}

func passBucket(n int) string {
	switch {
	case n <= 1:
		return "1"
	case n <= 3:
		return "2-3"
	}
	return "4+"
}

// RunTwo executes two-writer history idx. Returns false when a violation was
// raised or the history could not be completed.
func (r *Runner) RunTwo(seed int64, idx int) (ok bool, summary map[string]any) {
	t := GenerateTwo(seed, idx, r.Env)
	s, err := r.begin(&t.History, "two")
	if err != nil {
		r.Sink.Inconclusive("harness: cannot set up case: " + err.Error())
		return false, nil
	}
	defer s.finish()
	if t.Procs > 0 {
		defer runtime.GOMAXPROCS(runtime.GOMAXPROCS(t.Procs))
	}
	procs := runtime.GOMAXPROCS(0)
	pinned := procs == 1
	r.Stats.Add("two_histories", 1)
	r.Stats.Add(fmt.Sprintf("two_histories_gomaxprocs_%d", procs), 1)
	var eps []map[string]any
	holds, storms := 0, 0
	for i := range t.Segs {
		if ep := t.Segs[i].Ep; ep != nil {
			eps = append(eps, ep.describe())
			if ep.Storm {
				storms++
			} else {
				holds++
			}
		}
	}
	summary = map[string]any{"part": "two-writers", "history_index": idx, "class": t.Class, "gomaxprocs": procs,
		"operations": len(t.Ops), "episodes": eps}
	step := 0
	run := func() bool {
		for i := range t.Segs {
			seg := &t.Segs[i]
			for j := range seg.Seq {
				s.step = step
				step++
				if !s.clean(&seg.Seq[j], nil) {
					return false
				}
			}
			if seg.Ep == nil {
				continue
			}
			step += len(seg.Ep.B) + len(seg.Ep.F)
			s.step = step - 1
			if !s.episode(seg.Ep, pinned) {
				return false
			}
		}
		if d := Compare(s.st, s.m, s.ever, Scope{Full: true}, s.rng, r.Stats); d != nil {
			s.violate(d.Rule, "two-writers|end-of-history|last:"+s.lastTwo, d.Detail, nil)
			return false
		}
		return s.reopen("two-writers|final-reopen|last:" + s.lastTwo)
	}
	ok = run()
	r.Sink.Case(fmt.Sprintf("two-history|%s|holds=%d|storms=%d|procs=%d", t.Class, holds, storms, procs), holds+storms > 0)
	summary["completed_without_violation"] = ok
	return ok, summary
}
