package c07

import (
	"fmt"
	"math/rand"

	"github.com/btcsuite/btcd/chainhash/v2"
	"github.com/btcsuite/btcd/wire/v2"
	"github.com/lightninglabs/neutrino/headerfs"
)

// Part 3: double faults inside one append. The append's flat-file write is cut
// short (or its index update fails) AND the clean-up truncate of the same call
// fails too, so the call reports failure and bytes it could not remove stay
// behind the last acknowledged entry. Nothing can remove them before the next
// reopen; from the reopen on the store has to be the list from before the
// failed call again, and has to stay equal to the list through every later
// append, rollback, re-add and reopen.

// Torn-length classes: how much of the batch stays in the file.
const (
	TornFrac   = "frac"   // 0 < bytes < one record
	TornKFrac  = "k+frac" // k whole records (1 <= k < batch) and a fraction of the next
	TornKWhole = "kwhole" // k whole records (1 <= k < batch), nothing of the next
	TornIndex  = "index"  // the whole batch: the write succeeded, the index update failed
)

// TornSpec is the fault sequence of one append of a torn history.
type TornSpec struct {
	Class    string `json:"class"`
	Bytes    int    `json:"bytes_left_in_file,omitempty"` // write classes
	DBKind   string `json:"db_fault,omitempty"`           // class index
	TruncAll bool   `json:"every_truncate_fails,omitempty"`
}

// FixedTorn is the number of seed-independent torn histories (indices
// 0..FixedTorn-1).
const FixedTorn = 4

const tornIndexBase = 2_000_000 // torn histories live in their own index space

// GenerateTorn builds torn history number idx: a pure function of (seed, idx),
// of idx alone for idx < FixedTorn.
func GenerateTorn(seed int64, idx int, e *Env) *History {
	hseed := seed*1_000_003 + int64(tornIndexBase+idx)*7919 + 17
	if idx < FixedTorn {
		hseed = 0x70c7 + int64(idx)
	}
	h := &History{Index: idx, Seed: hseed, Class: "torn"}
	g := &gen{rng: rand.New(rand.NewSource(hseed)), m: NewModel(e.Genesis, e.GenesisFilter), maxBatch: 8}
	if idx < FixedTorn {
		h.Class = "torn-fixed"
		g.fixedTorn(idx)
	} else {
		g.randomTorn()
	}
	h.Ops = g.ops
	return h
}

func (g *gen) newFilters(n int) []chainhash.Hash {
	fs := make([]chainhash.Hash, n)
	for i := range fs {
		g.rng.Read(fs[i][:])
	}
	return fs
}

// tornBlockAppend emits a block append that runs under spec. The list does not
// change: the call is expected to report failure.
func (g *gen) tornBlockAppend(hs []wire.BlockHeader, spec TornSpec) {
	g.emit(Op{Kind: OpBA, Blocks: hs, Note: "double-fault", Torn: &spec})
}

func (g *gen) tornFilterAppend(fs []chainhash.Hash, fillAll bool, spec TornSpec) {
	g.emit(Op{Kind: OpFA, Filters: fs, FillAll: fillAll, Note: "double-fault", Torn: &spec})
}

func (g *gen) filtersOp(fs []chainhash.Hash, fillAll bool, note string) {
	g.emit(Op{Kind: OpFA, Filters: fs, FillAll: fillAll, Note: note})
	g.m.AppendFilters(fs)
}

func (g *gen) reopenOp() { g.emit(Op{Kind: OpRO}) }

// fixedTorn: the four seed-independent shapes. Every one is: grow, an append
// that fails leaving less than / more than one record's worth of stray bytes,
// reopen, append, reopen (RunTorn adds the final complete comparison and one
// more reopen), plus a rollback and re-add on two of them.
func (g *gen) fixedTorn(idx int) {
	const bsz, fsz = headerfs.BlockHeaderSize, headerfs.RegularFilterHeaderSize
	switch idx {
	case 0:
		g.appendBlocks(g.newBlocks(3), "new")
		g.tornBlockAppend(g.newBlocks(1), TornSpec{Class: TornFrac, Bytes: 37})
		g.reopenOp()
		g.appendBlocks(g.newBlocks(2), "new")
		g.reopenOp()
		g.emit(Op{Kind: OpBRL, N: 1, Note: "reorg"})
		g.m.RollbackBlocks(1)
		g.appendBlocks(g.newBlocks(1), "replace")
	case 1:
		g.appendBlocks(g.newBlocks(5), "new")
		g.filtersOp(g.newFilters(3), false, "new")
		g.tornFilterAppend(g.newFilters(1), false, TornSpec{Class: TornFrac, Bytes: 13})
		g.reopenOp()
		g.filtersOp(g.newFilters(2), true, "new")
		g.reopenOp()
		g.filterRollback()
		g.filtersOp(g.newFilters(1), false, "replace")
	case 2:
		g.appendBlocks(g.newBlocks(3), "new")
		g.tornBlockAppend(g.newBlocks(4), TornSpec{Class: TornKFrac, Bytes: 2*bsz + 33})
		g.reopenOp()
		g.appendBlocks(g.newBlocks(2), "new")
		g.reopenOp()
	case 3:
		g.appendBlocks(g.newBlocks(6), "new")
		g.filtersOp(g.newFilters(2), true, "new")
		g.tornFilterAppend(g.newFilters(3), true, TornSpec{Class: TornKFrac, Bytes: fsz + 7})
		g.reopenOp()
		g.filtersOp(g.newFilters(2), false, "new")
		g.reopenOp()
	}
}

func (g *gen) fraction(rec int) int {
	switch g.rng.Intn(4) {
	case 0:
		return 1
	case 1:
		return rec - 1
	case 2:
		return rec / 2
	}
	return 1 + g.rng.Intn(rec-1)
}

// tornSpec picks a class the batch size allows and the bytes that go with it.
func (g *gen) tornSpec(batch, rec int) TornSpec {
	spec := TornSpec{TruncAll: g.rng.Intn(4) == 0}
	p := g.rng.Intn(100)
	switch {
	case p < 20:
		spec.Class = TornIndex
		spec.DBKind = FDBNoRun
		if g.rng.Intn(2) == 0 {
			spec.DBKind = FDBRollback
		}
	case p < 60 || batch < 2:
		spec.Class, spec.Bytes = TornFrac, g.fraction(rec)
	case p < 85:
		spec.Class, spec.Bytes = TornKFrac, (1+g.rng.Intn(batch-1))*rec+g.fraction(rec)
	default:
		spec.Class, spec.Bytes = TornKWhole, (1+g.rng.Intn(batch-1))*rec
	}
	return spec
}

func (g *gen) tornBatch() int {
	switch p := g.rng.Intn(100); {
	case p < 30:
		return 1
	case p < 80 || g.maxBatch <= 8:
		return 2 + g.rng.Intn(7)
	}
	return 9 + g.rng.Intn(g.maxBatch-8)
}

// randomTorn: a seeded prefix of ordinary operations, then 1-3 episodes of
// (double-fault append, reopen, follow-up appends / rollbacks / re-adds /
// reopens on both stores).
func (g *gen) randomTorn() {
	const bsz, fsz = headerfs.BlockHeaderSize, headerfs.RegularFilterHeaderSize
	if g.rng.Intn(4) == 0 {
		g.maxBatch = 60
	}
	for pre := g.rng.Intn(21); len(g.ops) < pre; {
		g.step()
	}
	for ep, eps := 0, 1+g.rng.Intn(3); ep < eps; ep++ {
		onFilter := g.rng.Intn(2) == 0
		batch := g.tornBatch()
		var blocks []wire.BlockHeader
		var filters []chainhash.Hash
		fillAll := g.rng.Intn(2) == 0
		if onFilter {
			// Room for the failing batch and its follow-ups.
			if gap := int(g.m.BTip() - g.m.FTip()); gap < batch+8 {
				g.appendBlocks(g.newBlocks(batch+8-gap+g.rng.Intn(3)), "new")
			}
			filters = g.newFilters(batch)
			g.tornFilterAppend(filters, fillAll, g.tornSpec(batch, fsz))
		} else {
			blocks = g.newBlocks(batch)
			g.tornBlockAppend(blocks, g.tornSpec(batch, bsz))
		}
		g.reopenOp()
		if g.rng.Intn(5) == 0 {
			g.reopenOp()
		}
		appendTorn := func() {
			retry := g.rng.Intn(2) == 0
			switch {
			case onFilter && retry:
				g.filtersOp(filters, fillAll, "retry-same")
			case onFilter:
				g.appendFilters(1 + g.rng.Intn(min(8, int(g.m.BTip()-g.m.FTip()))))
			case retry:
				g.appendBlocks(blocks, "retry-same")
			default:
				g.appendBlocks(g.newBlocks(1+g.rng.Intn(8)), "new")
			}
		}
		rollbackTorn := func() {
			switch {
			case onFilter && g.m.FTip() >= 1:
				g.filterRollback()
			case !onFilter && g.m.BTip() >= 1:
				g.reorg()
			}
		}
		switch p := g.rng.Intn(10); {
		case p < 6:
			appendTorn()
		case p < 8:
			// A rollback is the first thing the reopened store sees.
			rollbackTorn()
			if onFilter {
				if g.m.FTip() < g.m.BTip() {
					g.appendFilters(1 + g.rng.Intn(min(4, int(g.m.BTip()-g.m.FTip()))))
				}
			} else {
				g.appendBlocks(g.newBlocks(1+g.rng.Intn(3)), "new")
			}
		default:
			// The other store first.
			if onFilter {
				g.appendBlocks(g.newBlocks(1+g.rng.Intn(4)), "new")
			} else if gap := int(g.m.BTip() - g.m.FTip()); gap > 0 {
				g.appendFilters(1 + g.rng.Intn(min(gap, 4)))
			}
			appendTorn()
		}
		if g.rng.Intn(2) == 0 {
			g.reopenOp()
		}
		for k := g.rng.Intn(5); k > 0; k-- {
			g.step()
		}
		if g.rng.Intn(2) == 0 {
			rollbackTorn()
			if onFilter && g.m.FTip() < g.m.BTip() {
				g.appendFilters(1)
			} else if !onFilter {
				g.appendBlocks(g.newBlocks(1+g.rng.Intn(2)), "replace")
			}
		}
		g.reopenOp()
	}
}

func fracClass(bytes, rec int) string {
	switch f := bytes % rec; {
	case f == 0:
		return "0"
	case f == 1:
		return "1"
	case f == rec-1:
		return "rec-1"
	}
	return "mid"
}

// torn executes one append under its double fault and judges what the
// statement promises about it BEFORE the next reopen; the reopen that the
// generator puts right behind it and every later step are judged by the
// ordinary complete comparison. Returns false when the history must stop.
func (s *runState) torn(op *Op) bool {
	r, t := s.r, op.Torn
	target, file, rec, n := TBlockFile, s.st.BFile, headerfs.BlockHeaderSize, len(op.Blocks)
	if op.Kind == OpFA {
		target, file, rec, n = TFilterFile, s.st.FFile, headerfs.RegularFilterHeaderSize, len(op.Filters)
	}
	fileState := file.State()
	first := Plan{Target: target, Kind: FShortN, Bytes: t.Bytes}
	if t.Class == TornIndex {
		first = Plan{Target: TDB, Kind: t.DBKind}
	}
	s.plans = []Plan{first, {Target: target, Kind: FTruncate, Every: t.TruncAll}}
	defer func() { s.plans = nil }()
	s.ctl.ArmAll(s.plans...)
	_, err := s.exec(op)
	fired, _ := s.ctl.DisarmAll()

	rel := "f<b"
	if s.m.FTip() == s.m.BTip() {
		rel = "f=b"
	}
	both := fired[0] && fired[1]
	shape := op.Kind + ":" + t.Class
	fp := fmt.Sprintf("double-fault|%s|n=%s|%s(frac=%s)|every-truncate=%v|file=%s|tip=%s|%s|prev=%s", op.Kind, sizeClass(n),
		t.Class, fracClass(t.Bytes, rec), t.TruncAll, fileState, tipClass(s.m.BTip()), rel, s.prevClass)
	r.Sink.Case(fp, both && err != nil)
	r.Stats.Add("double_fault_appends_attempted", 1)
	extra := map[string]any{"returned_error": fmt.Sprint(err), "faults_fired": fired, "record_size": rec, "batch": n}
	sigShape := shape + "|file=" + fileState

	if s.panicked {
		s.violate("store-panicked", sigShape, err.Error(), extra)
		return false
	}
	if !fired[0] {
		r.Sink.Inconclusive("harness: first fault of a double-fault append not reached")
	}
	if err == nil {
		// The call reported success: it must then have taken effect.
		r.Stats.Add("double_fault_appends_reported_success", 1)
		hashes, _ := apply(s.m, op)
		for _, h := range hashes {
			s.remember(h)
		}
		if d := Compare(s.st, s.m, s.ever, Scope{Full: true}, s.rng, r.Stats); d != nil {
			s.violate(d.Rule, "after-success-despite-fault:"+sigShape, d.Detail, extra)
			return false
		}
		s.prevClass = "append"
		return true
	}
	r.Stats.Add("failed_appends_observed", 1)
	if !both {
		// The clean-up never asked for a truncate: this was a single fault,
		// and the complete rule for failed appends applies at once.
		r.Stats.Add("double_fault_second_fault_not_reached", 1)
		if d := Compare(s.st, s.m, s.ever, Scope{Full: true}, s.rng, r.Stats); d != nil {
			s.violate("failed-append-changed-store/"+d.Rule, sigShape, d.Detail, extra)
			return false
		}
		s.prevClass = "failed-append"
		return true
	}
	r.Stats.Add("double_fault_appends_failed_with_both_faults", 1)
	r.Stats.Add("double_fault_"+op.Kind+"_"+t.Class, 1)
	r.Stats.Add("double_fault_"+op.Kind+"_fraction_"+fracClass(t.Bytes, rec), 1)
	if t.TruncAll {
		r.Stats.Add("double_fault_every_truncate_failing", 1)
	}
	// Before the reopen: everything that was acknowledged answers as before
	// the call. Only when at least one whole record that nobody could remove
	// is left in the file are the reads beyond the tip of that store left
	// unjudged until the reopen; a mere fraction of a record is not readable
	// as an entry, so then every read is judged at once.
	unjudged := target
	if t.Class == TornFrac {
		unjudged = ""
	}
	if d := Compare(s.st, s.m, s.ever, Scope{Full: true, Unjudged: unjudged}, s.rng, r.Stats); d != nil {
		s.violate("failed-append-changed-store/"+d.Rule, "before-reopen|"+sigShape, d.Detail, extra)
		return false
	}
	if Compare(s.st, s.m, s.ever, Scope{Full: true}, s.rng, nil) == nil {
		r.Stats.Add("double_fault_all_reads_equal_before_reopen", 1)
	} else {
		r.Stats.Add("double_fault_surplus_readable_beyond_tip_before_reopen__"+t.Class, 1)
	}
	s.lastTorn = shape
	s.prevClass = "double-fault-append"
	return true
}

// RunTorn executes a torn history: ordinary operations exactly as RunPlain
// does (complete read comparison while the history is small), appends marked
// with a TornSpec under their double fault.
func (r *Runner) RunTorn(h *History) bool {
	s, err := r.begin(h, "torn")
	if err != nil {
		r.Sink.Inconclusive("harness: cannot set up case: " + err.Error())
		return false
	}
	defer s.finish()
	sinceTorn := -1 // operations since the reopen that followed the latest double-fault append
	for i := range h.Ops {
		s.step = i
		op := &h.Ops[i]
		if op.Torn != nil {
			if !s.torn(op) {
				return false
			}
			if s.prevClass == "double-fault-append" {
				sinceTorn = 0
				if i+1 >= len(h.Ops) || h.Ops[i+1].Kind != OpRO {
					r.Sink.Inconclusive("harness: double-fault append not followed by a reopen")
					return false
				}
			}
			continue
		}
		if sinceTorn >= 0 && sinceTorn <= 4 {
			// Coverage: what the store is asked to do right after it was
			// reopened over the left-overs (0 = that reopen itself).
			r.Sink.Mark(fmt.Sprintf("after-double-fault|%s|+%d|%s|n=%s", s.lastTorn, sinceTorn, op.Kind, s.opSize(op)))
			if sinceTorn == 0 {
				r.Stats.Add("reopens_right_after_double_fault_append", 1)
			} else if isAppend(op.Kind) && len(op.Blocks)+len(op.Filters) > 0 {
				r.Stats.Add("appends_within_4_ops_of_double_fault_reopen", 1)
			} else if isRollback(op.Kind) {
				r.Stats.Add("rollbacks_within_4_ops_of_double_fault_reopen", 1)
			}
		}
		if sinceTorn >= 0 {
			sinceTorn++
		}
		if !s.clean(op, nil) {
			return false
		}
	}
	if d := Compare(s.st, s.m, s.ever, Scope{Full: true}, s.rng, r.Stats); d != nil {
		s.violate(d.Rule, "end-of-history|earlier:"+s.lastTorn, d.Detail, nil)
		return false
	}
	return s.reopen("final-reopen")
}
