package c07

import (
	"bytes"
	"fmt"
	"math/rand"

	"github.com/btcsuite/btcd/chainhash/v2"
	"github.com/lightninglabs/neutrino/headerfs"
)

// Violation is what the runner hands to the evidence layer.
type Violation struct {
	Rule    string // oracle rule id (first signature part)
	Shape   string // normalised shape of the failing input (second signature part)
	What    string
	Witness any
}

// Sink receives the observations of a runner. All callbacks must be safe for
// concurrent use (one runner per worker).
type Sink struct {
	Violation    func(Violation)
	Inconclusive func(string)
	Case         func(fingerprint string, nontrivial bool)
	Mark         func(fingerprint string)
}

// Runner executes histories against real stores in its own directory.
type Runner struct {
	Env       *Env
	Dir       string
	Stats     Stats
	Sink      Sink
	FullLimit int // compare the complete read surface after every step while hashes-ever + tip <= FullLimit
}

// Profile is the per-operation call count of a clean run (target/method -> n).
type Profile struct {
	Counts []map[string]int
}

type runState struct {
	r         *Runner
	h         *History
	mode      string // plain|fault
	st        *Stores
	ctl       *Ctl
	m         *Model
	ever      []chainhash.Hash
	everSet   map[chainhash.Hash]struct{}
	rng       *rand.Rand
	step      int
	sinceFull int
	prevClass string // fresh|append|rollback|noop: what the previous operation was
	panicked  bool
	plan      *Plan
	plans     []Plan   // torn mode: the fault sequence of the running append
	lastTorn  string   // torn mode: shape of the latest double-fault append of this history ("" = none yet)
	hold      *holdCtl // two-writers mode: the hold wrapper's control, installed on holdFor's files
	holdFor   *Stores
	lastTwo   string // two-writers mode: shape of the latest episode
}

func (r *Runner) begin(h *History, mode string) (*runState, error) {
	if err := r.Env.Fresh(r.Dir); err != nil {
		return nil, err
	}
	ctl := NewCtl()
	st, err := r.Env.Open(r.Dir, ctl)
	if err != nil {
		return nil, err
	}
	s := &runState{
		r: r, h: h, mode: mode, st: st, ctl: ctl,
		m:         NewModel(r.Env.Genesis, r.Env.GenesisFilter),
		everSet:   map[chainhash.Hash]struct{}{},
		rng:       rand.New(rand.NewSource(h.Seed ^ 0x5eed)),
		prevClass: "fresh",
	}
	s.remember(s.m.Hashes[0])
	return s, nil
}

func (s *runState) remember(h chainhash.Hash) {
	if _, ok := s.everSet[h]; !ok {
		s.everSet[h] = struct{}{}
		s.ever = append(s.ever, h)
	}
}

// ---- shapes

func sizeClass(n int) string {
	switch {
	case n == 0:
		return "0"
	case n == 1:
		return "1"
	case n <= 8:
		return "2-8"
	case n <= 60:
		return "9-60"
	}
	return "61+"
}

func tipClass(n uint32) string {
	switch {
	case n == 0:
		return "0"
	case n <= 10:
		return "1-10"
	case n <= 100:
		return "11-100"
	}
	return "101+"
}

func (s *runState) opSize(op *Op) string {
	switch op.Kind {
	case OpBA:
		return sizeClass(len(op.Blocks))
	case OpFA:
		return sizeClass(len(op.Filters))
	case OpBR, OpBRL:
		c := sizeClass(int(op.N))
		if op.N == s.m.BTip() {
			c += "(to-genesis)"
		}
		return c
	case OpBRX:
		if op.N == s.m.BTip()+1 {
			return "tip+1"
		}
		return "tip+more"
	}
	return "-"
}

func (s *runState) stepShape(op *Op) string {
	rel := "f<b"
	if s.m.FTip() == s.m.BTip() {
		rel = "f=b"
	}
	return fmt.Sprintf("step|%s|n=%s|tip=%s|%s|prev=%s", op.Kind, s.opSize(op), tipClass(s.m.BTip()), rel, s.prevClass)
}

// ---- witnesses

type opSummary struct {
	I    int       `json:"i"`
	Kind string    `json:"kind"`
	Size int       `json:"size,omitempty"`
	N    uint32    `json:"n,omitempty"`
	Note string    `json:"note,omitempty"`
	Torn *TornSpec `json:"double_fault,omitempty"`
}

func (s *runState) witness(extra map[string]any) map[string]any {
	from := 0
	if s.step > 40 {
		from = s.step - 40
	}
	var ops []opSummary
	for i := from; i <= s.step && i < len(s.h.Ops); i++ {
		op := &s.h.Ops[i]
		ops = append(ops, opSummary{I: i, Kind: op.Kind, Size: len(op.Blocks) + len(op.Filters), N: op.N, Note: op.Note, Torn: op.Torn})
	}
	w := map[string]any{
		"mode": s.mode, "history_index": s.h.Index, "history_seed": s.h.Seed, "class": s.h.Class,
		"step": s.step, "ops_total": len(s.h.Ops), "ops_up_to_step_last40": ops,
		"model_block_tip": s.m.BTip(), "model_filter_tip": s.m.FTip(),
		"block_file_state": s.st.BFile.State(), "filter_file_state": s.st.FFile.State(),
		"reproduce": fmt.Sprintf("cd /verif && ./check C07 <tier> -only-%s %d   (same VERIF_SEED)", s.mode, s.h.Index),
	}
	if s.plan != nil {
		w["fault"] = *s.plan
	}
	if s.plans != nil {
		w["fault_sequence"] = s.plans
	}
	for k, v := range extra {
		w[k] = v
	}
	return w
}

func (s *runState) violate(rule, shape, what string, extra map[string]any) {
	s.r.Stats.Add("violations_raised", 1)
	s.r.Sink.Violation(Violation{Rule: rule, Shape: shape, What: what, Witness: s.witness(extra)})
}

// ---- executing one operation on the real stores

func (s *runState) exec(op *Op) (stamp *headerfs.BlockStamp, err error) {
	defer func() {
		if p := recover(); p != nil {
			s.panicked = true
			err = fmt.Errorf("panic: %v", p)
		}
	}()
	switch op.Kind {
	case OpBA:
		base := s.m.BTip() + 1
		hs := make([]headerfs.BlockHeader, len(op.Blocks))
		for i := range op.Blocks {
			hdr := op.Blocks[i]
			hs[i] = headerfs.BlockHeader{BlockHeader: &hdr, Height: base + uint32(i)}
		}
		return nil, s.st.BS.WriteHeaders(hs...)
	case OpFA:
		base := s.m.FTip() + 1
		fs := make([]headerfs.FilterHeader, len(op.Filters))
		for i := range op.Filters {
			fs[i].FilterHash = op.Filters[i]
			if op.FillAll || i == len(op.Filters)-1 {
				fs[i].HeaderHash = s.m.Hashes[base+uint32(i)]
				fs[i].Height = base + uint32(i)
			}
		}
		return nil, s.st.FS.WriteHeaders(fs...)
	case OpFR, OpFRX:
		// The block manager passes the PrevBlock of the block at the
		// filter tip: the block hash one below.
		newTip := s.m.Blocks[s.m.FTip()].PrevBlock
		return s.st.FS.RollbackLastBlock(&newTip)
	case OpBR, OpBRX:
		return s.st.BS.RollbackBlockHeaders(op.N)
	case OpBR0:
		return s.st.BS.RollbackBlockHeaders(0)
	case OpBRL:
		return s.st.BS.RollbackLastBlock()
	}
	return nil, fmt.Errorf("harness: unknown op %q", op.Kind)
}

// apply performs op on the model and returns what it touched.
func apply(m *Model, op *Op) (hashes []chainhash.Hash, heights []uint32) {
	switch op.Kind {
	case OpBA:
		base := m.BTip() + 1
		m.AppendBlocks(op.Blocks)
		for i := range op.Blocks {
			hashes = append(hashes, m.Hashes[base+uint32(i)])
			heights = append(heights, base+uint32(i))
		}
	case OpFA:
		base := m.FTip() + 1
		m.AppendFilters(op.Filters)
		for i := range op.Filters {
			hashes = append(hashes, m.Hashes[base+uint32(i)])
			heights = append(heights, base+uint32(i))
		}
	case OpFR:
		hashes = append(hashes, m.Hashes[m.FTip()])
		heights = append(heights, m.FTip())
		m.RollbackFilter()
	case OpBR, OpBRL:
		n := op.N
		for i := m.BTip() - n + 1; i <= m.BTip(); i++ {
			hashes = append(hashes, m.Hashes[i])
			heights = append(heights, i)
		}
		m.RollbackBlocks(n)
	}
	return
}

func isAppend(k string) bool   { return k == OpBA || k == OpFA }
func isRollback(k string) bool { return k == OpBR || k == OpBRL || k == OpFR }

// checkResult validates the return value of a call that ran without an
// effective fault. pre is the model before the call. Returns rule,detail or "".
func (s *runState) checkResult(op *Op, stamp *headerfs.BlockStamp, err error) (string, string) {
	if s.panicked {
		return "store-panicked", err.Error()
	}
	m := s.m
	switch op.Kind {
	case OpBA, OpFA:
		if err != nil {
			return "append-failed-without-fault", err.Error()
		}
	case OpBR, OpBRL:
		if err != nil {
			return "rollback-failed-without-fault", err.Error()
		}
		want := m.BTip() - op.N
		if stamp == nil || uint32(stamp.Height) != want || stamp.Hash != m.Hashes[want] ||
			!stamp.Timestamp.Equal(m.Blocks[want].Timestamp) {
			return "block-rollback-return", fmt.Sprintf("returned %+v, list says height %d hash %s time %v",
				stamp, want, m.Hashes[want], m.Blocks[want].Timestamp)
		}
	case OpFR:
		if err != nil {
			return "rollback-failed-without-fault", err.Error()
		}
		want := m.FTip() - 1
		if stamp == nil || uint32(stamp.Height) != want || stamp.Hash != m.Filters[want] {
			return "filter-rollback-return", fmt.Sprintf("returned %+v, list says height %d %s", stamp, want, m.Filters[want])
		}
	case OpBRX, OpFRX:
		if err == nil {
			return "rollback-past-genesis-accepted", fmt.Sprintf("returned %+v and no error", stamp)
		}
	case OpBR0:
		// Documented to be a no-op; the return value is a convention
		// the property does not speak about.
		if err != nil {
			s.r.Stats.Add("rollback0_returned_error", 1)
		}
	}
	return "", ""
}

func (s *runState) scopeFor(hashes []chainhash.Hash, heights []uint32, force bool) Scope {
	full := force || len(s.ever)+int(s.m.BTip()) <= s.r.FullLimit || s.sinceFull >= 16
	if full {
		s.sinceFull = 0
		return Scope{Full: true}
	}
	s.sinceFull++
	return Scope{Hashes: hashes, Heights: heights}
}

// clean runs op without a fault, validates result and reads. Returns false
// when the history must stop (a violation was raised or the harness failed).
func (s *runState) clean(op *Op, prof *Profile) bool {
	shape := s.stepShape(op)
	if s.mode == "plain" {
		s.r.Sink.Mark(shape)
	}
	s.r.Stats.Add("ops_"+op.Kind, 1)
	if op.Kind == OpRO {
		if prof != nil {
			prof.Counts = append(prof.Counts, nil)
		}
		return s.reopen("after-reopen")
	}
	s.ctl.Arm(nil)
	stamp, err := s.exec(op)
	_, counts := s.ctl.Disarm()
	if prof != nil {
		prof.Counts = append(prof.Counts, counts)
	}
	// Signature shape: operation kind (rollbacks landing exactly on genesis
	// marked) and the class of the previous operation; no sizes.
	sigShape := op.Kind
	if (op.Kind == OpBR || op.Kind == OpBRL) && op.N == s.m.BTip() {
		sigShape += "(to-genesis)"
	}
	sigShape += "|prev=" + s.prevClass
	if s.lastTorn != "" {
		sigShape += "|earlier:" + s.lastTorn
	}
	if rule, detail := s.checkResult(op, stamp, err); rule != "" {
		s.violate(rule, sigShape, detail, nil)
		return false
	}
	if op.Kind == OpBRX || op.Kind == OpFRX {
		s.r.Stats.Add("rollbacks_past_genesis_refused", 1)
	}
	if isRollback(op.Kind) && op.N == s.m.BTip() && op.Kind != OpFR {
		s.r.Stats.Add("rollbacks_to_genesis", 1)
	}
	switch op.Kind {
	case OpBA:
		s.r.Stats.Add("block_headers_appended", int64(len(op.Blocks)))
		if len(op.Blocks) == 0 {
			s.r.Stats.Add("empty_appends", 1)
		}
		if op.Note == "readd-same" {
			s.r.Stats.Add("readds_of_rolled_back_hashes", 1)
		}
	case OpFA:
		s.r.Stats.Add("filter_headers_appended", int64(len(op.Filters)))
		if len(op.Filters) == 0 {
			s.r.Stats.Add("empty_appends", 1)
		}
	case OpBR, OpBRL:
		s.r.Stats.Add("block_headers_rolled_back", int64(op.N))
	}
	hashes, heights := apply(s.m, op)
	for _, h := range hashes {
		s.remember(h)
	}
	if d := Compare(s.st, s.m, s.ever, s.scopeFor(hashes, heights, false), s.rng, s.r.Stats); d != nil {
		s.violate(d.Rule, "after:"+sigShape, d.Detail, nil)
		return false
	}
	switch {
	case isAppend(op.Kind):
		s.prevClass = "append"
	case isRollback(op.Kind):
		s.prevClass = "rollback"
	default:
		s.prevClass = "noop"
	}
	return true
}

func (s *runState) reopen(ctx string) bool {
	if s.lastTorn != "" {
		ctx += "|earlier:" + s.lastTorn
	}
	if err := s.st.Close(); err != nil {
		s.r.Sink.Inconclusive("harness: close failed: " + err.Error())
		return false
	}
	st, err := s.r.Env.Open(s.r.Dir, s.ctl)
	if err != nil {
		// The stores were quiescent and every operation had returned:
		// failing to open now changes every answer.
		s.violate("reopen-failed", ctx+"|prev="+s.prevClass, err.Error(), nil)
		return false
	}
	s.st = st
	s.r.Stats.Add("reopens", 1)
	s.sinceFull = 0
	if d := Compare(s.st, s.m, s.ever, Scope{Full: true}, s.rng, s.r.Stats); d != nil {
		s.violate(d.Rule, ctx+"|prev="+s.prevClass, d.Detail, nil)
		return false
	}
	s.prevClass = "fresh"
	return true
}

func (s *runState) finish() {
	if s.st != nil {
		s.st.Close()
	}
}

// RunPlain executes h without faults: every operation is followed by a read
// comparison, every reopen and the end of the history by a complete one, and
// the history always ends with one more reopen. When prof is non-nil the call
// counts of every operation are recorded into it.
func (r *Runner) RunPlain(h *History, prof *Profile) bool {
	s, err := r.begin(h, "plain")
	if err != nil {
		r.Sink.Inconclusive("harness: cannot set up case: " + err.Error())
		return false
	}
	defer s.finish()
	if d := Compare(s.st, s.m, s.ever, Scope{Full: true}, s.rng, r.Stats); d != nil {
		s.violate(d.Rule, "after-open-of-template", d.Detail, nil)
		return false
	}
	for i := range h.Ops {
		s.step = i
		if !s.clean(&h.Ops[i], prof) {
			return false
		}
	}
	if d := Compare(s.st, s.m, s.ever, Scope{Full: true}, s.rng, r.Stats); d != nil {
		s.violate(d.Rule, "end-of-history", d.Detail, nil)
		return false
	}
	return s.reopen("final-reopen")
}

// plansFor enumerates every single-fault position of op given the call counts
// its clean execution showed.
func plansFor(op *Op, counts map[string]int) []Plan {
	var out []Plan
	empty := (op.Kind == OpBA && len(op.Blocks) == 0) || (op.Kind == OpFA && len(op.Filters) == 0)
	for _, t := range []string{TBlockFile, TFilterFile} {
		for k := 0; k < counts[t+"/write"]; k++ {
			for _, kind := range WriteKinds {
				if empty && kind != FWrite0 {
					continue // a zero-length write cannot be short
				}
				out = append(out, Plan{Target: t, Kind: kind, Index: k})
			}
		}
		for _, kind := range []string{FSeek, FStat, FTruncate, FSync} {
			for k := 0; k < counts[t+"/"+kind]; k++ {
				out = append(out, Plan{Target: t, Kind: kind, Index: k})
			}
		}
	}
	for k := 0; k < counts[TDB+"/update"]; k++ {
		out = append(out, Plan{Target: TDB, Kind: FDBNoRun, Index: k}, Plan{Target: TDB, Kind: FDBRollback, Index: k})
	}
	return out
}

const (
	attemptContinue = iota
	attemptOpDone
	attemptAbort
)

func (s *runState) restore(snapB, snapF []byte) error {
	for _, x := range []struct {
		f    *FaultFile
		snap []byte
	}{{s.st.BFile, snapB}, {s.st.FFile, snapF}} {
		cur, err := x.f.Snapshot()
		if err != nil {
			return err
		}
		if bytes.Equal(cur, x.snap) {
			continue
		}
		if err := x.f.Restore(x.snap); err != nil {
			return err
		}
		s.r.Stats.Add("harness_file_restores", 1)
	}
	return nil
}

// probeHidden runs after a failed append that left every read equal to the
// model. If the flat files are byte-identical to before the call there is
// nothing more to see. If they differ, "the store as it was before the call"
// is not contradicted by any read yet, so nothing is asserted about the bytes;
// instead the next operation is demonstrated right away through the public
// API: one more clean single-header append of the same kind must succeed and
// read back. Afterwards the probe is undone (the file is given the content a
// correct append would have produced, the probe is rolled back through the
// store, the files are put back) so that the remaining positions stay covered.
func (s *runState) probeHidden(op *Op, sigShape string, extra map[string]any, snapB, snapF []byte) int {
	r := s.r
	curB, e1 := s.st.BFile.Snapshot()
	curF, e2 := s.st.FFile.Snapshot()
	if e1 != nil || e2 != nil {
		r.Sink.Inconclusive("harness: snapshot failed")
		return attemptAbort
	}
	if bytes.Equal(curB, snapB) && bytes.Equal(curF, snapF) {
		return attemptContinue
	}
	r.Stats.Add("failed_appends_reads_equal_but_file_bytes_differ", 1)
	var probe, undo Op
	switch {
	case op.Kind == OpBA:
		g := &gen{rng: s.rng, m: s.m}
		probe = Op{Kind: OpBA, Blocks: g.newBlocks(1), Note: "probe"}
		undo = Op{Kind: OpBRL, N: 1}
	case op.Kind == OpFA && s.m.FTip() < s.m.BTip():
		var fh chainhash.Hash
		s.rng.Read(fh[:])
		probe = Op{Kind: OpFA, Filters: []chainhash.Hash{fh}, FillAll: true, Note: "probe"}
		undo = Op{Kind: OpFR}
	default:
		if s.restore(snapB, snapF) != nil {
			return attemptAbort
		}
		return attemptContinue
	}
	r.Stats.Add("next_append_probes", 1)
	_, err := s.exec(&probe)
	pre, post := s.m, s.m.Clone()
	hashes, _ := apply(post, &probe)
	if err != nil {
		s.violate("append-after-failed-append-failed", sigShape, err.Error(), extra)
	} else {
		ever := append(s.ever[:len(s.ever):len(s.ever)], hashes...)
		if d := Compare(s.st, post, ever, Scope{Full: true}, s.rng, nil); d != nil {
			s.violate("append-after-failed-append-broken/"+d.Rule, sigShape, d.Detail, extra)
		}
		// Undo: file content of a correct append, then roll the probe
		// back through the store (exec reads the model for FR's newTip).
		var uerr error
		if probe.Kind == OpBA {
			uerr = s.st.BFile.Restore(append(append([]byte(nil), snapB...), Raw80(&probe.Blocks[0])...))
		} else {
			uerr = s.st.FFile.Restore(append(append([]byte(nil), snapF...), probe.Filters[0][:]...))
		}
		if uerr == nil {
			s.m = post
			_, uerr = s.exec(&undo)
			s.m = pre
		}
		if uerr != nil {
			r.Stats.Add("histories_abandoned_after_violation", 1)
			return attemptAbort
		}
	}
	if s.restore(snapB, snapF) != nil || Compare(s.st, s.m, s.ever, Scope{Full: true}, s.rng, nil) != nil {
		r.Stats.Add("histories_abandoned_after_violation", 1)
		return attemptAbort
	}
	return attemptContinue
}

// attempt runs op once with plan p armed.
func (s *runState) attempt(op *Op, p Plan) int {
	r := s.r
	target := s.st.BFile
	if op.Kind == OpFA || op.Kind == OpFR {
		target = s.st.FFile
	}
	fileState := target.State()
	snapB, errB := s.st.BFile.Snapshot()
	snapF, errF := s.st.FFile.Snapshot()
	if errB != nil || errF != nil {
		r.Sink.Inconclusive("harness: snapshot failed")
		return attemptAbort
	}
	s.plan = &p
	defer func() { s.plan = nil }()
	s.ctl.Arm(&p)
	stamp, err := s.exec(op)
	shortN, shortOf := s.ctl.ShortN, s.ctl.ShortOf
	fired, _ := s.ctl.Disarm()

	fp := fmt.Sprintf("fault|%s|n=%s|%s@%s#%d|file=%s|tip=%s", op.Kind, s.opSize(op), p.Kind, p.Target, p.Index,
		fileState, tipClass(s.m.BTip()))
	r.Sink.Case(fp, fired)
	r.Stats.Add("fault_attempts", 1)
	sigKind := p.Kind
	if MethodOf(p.Kind) == "write" && p.Kind != FWrite0 {
		sigKind = "shortwrite"
	}
	sigShape := fmt.Sprintf("%s|%s@%s|file=%s", op.Kind, sigKind, p.Target, fileState)
	extra := map[string]any{"returned_error": fmt.Sprint(err), "short_write_bytes": shortN, "write_len": shortOf}

	if !fired {
		// The clean run made this call; a run that does not is a harness
		// inconsistency, not an observation about the stores.
		r.Sink.Inconclusive("fault position of the clean run not reached")
	} else {
		r.Stats.Add("faults_injected_"+p.Kind, 1)
		r.Stats.Add("faults_injected_in_"+op.Kind, 1)
	}
	if s.panicked {
		s.violate("store-panicked", sigShape, err.Error(), extra)
		return attemptAbort
	}
	if err == nil || !fired {
		// The call reported success: it must then have taken effect.
		if fired {
			r.Stats.Add("faults_absorbed_call_succeeded", 1)
		}
		if rule, detail := s.checkResult(op, stamp, err); rule != "" {
			s.violate(rule, sigShape, detail, extra)
			return attemptAbort
		}
		hashes, _ := apply(s.m, op)
		for _, h := range hashes {
			s.remember(h)
		}
		if d := Compare(s.st, s.m, s.ever, Scope{Full: true}, s.rng, r.Stats); d != nil {
			s.violate(d.Rule, "after-success-despite-fault:"+sigShape, d.Detail, extra)
			return attemptAbort
		}
		if isAppend(op.Kind) {
			s.prevClass = "append"
		} else {
			s.prevClass = "rollback"
		}
		return attemptOpDone
	}

	if isAppend(op.Kind) {
		r.Stats.Add("failed_appends_observed", 1)
		r.Stats.Add("failed_appends_"+op.Kind+"_"+p.Kind, 1)
		d := Compare(s.st, s.m, s.ever, Scope{Full: true}, s.rng, r.Stats)
		if d == nil {
			r.Stats.Add("failed_appends_left_store_unchanged", 1)
			s.prevClass = "failed-append"
			return s.probeHidden(op, sigShape, extra, snapB, snapF)
		}
		s.violate("failed-append-changed-store/"+d.Rule, sigShape, d.Detail, extra)
		// Put the flat files back (the harness's own repair, through the
		// real file) so that the remaining positions are still covered.
		if err := s.restore(snapB, snapF); err != nil {
			r.Stats.Add("histories_abandoned_after_violation", 1)
			return attemptAbort
		}
		if Compare(s.st, s.m, s.ever, Scope{Full: true}, s.rng, nil) != nil {
			r.Stats.Add("histories_abandoned_after_violation", 1)
			return attemptAbort
		}
		return attemptContinue
	}

	// A rollback that reported failure: the property statement is silent
	// about the state. Recorded as coverage, then repaired by the harness.
	r.Stats.Add("failed_rollbacks_observed", 1)
	class := "neither"
	if Compare(s.st, s.m, s.ever, Scope{Full: true}, s.rng, nil) == nil {
		class = "pre"
	} else {
		post := s.m.Clone()
		apply(post, op)
		if Compare(s.st, post, s.ever, Scope{Full: true}, s.rng, nil) == nil {
			class = "post"
		}
	}
	r.Stats.Add("failed_rollback_left_state_"+class+"__"+p.Kind, 1)
	if class != "pre" {
		if err := s.restore(snapB, snapF); err != nil ||
			Compare(s.st, s.m, s.ever, Scope{Full: true}, s.rng, nil) != nil {
			r.Stats.Add("histories_abandoned_after_failed_rollback", 1)
			return attemptAbort
		}
	}
	return attemptContinue
}

// RunFaults replays h and, before the real execution of every append and
// rollback, tries every single-fault position its clean execution has
// (taken from prof). Failed appends must leave every read equal to the model
// before the call; the next attempt / the real execution is "the next
// operation", which must work.
func (r *Runner) RunFaults(h *History, prof *Profile) bool {
	s, err := r.begin(h, "fault")
	if err != nil {
		r.Sink.Inconclusive("harness: cannot set up case: " + err.Error())
		return false
	}
	defer s.finish()
	for i := range h.Ops {
		s.step = i
		op := &h.Ops[i]
		done := false
		if isAppend(op.Kind) || isRollback(op.Kind) {
			for _, p := range plansFor(op, prof.Counts[i]) {
				switch s.attempt(op, p) {
				case attemptAbort:
					return false
				case attemptOpDone:
					done = true
				}
				if done {
					break
				}
			}
		}
		if done {
			continue
		}
		if !s.clean(op, nil) {
			return false
		}
	}
	if d := Compare(s.st, s.m, s.ever, Scope{Full: true}, s.rng, r.Stats); d != nil {
		s.violate(d.Rule, "end-of-fault-history", d.Detail, nil)
		return false
	}
	return s.reopen("final-reopen")
}
