package c07

import (
	"fmt"
	"math/rand"

	"github.com/btcsuite/btcd/blockchain"
	"github.com/btcsuite/btcd/chainhash/v2"
	"github.com/btcsuite/btcd/wire/v2"
)

// Mismatch is one disagreement between a store read and the model.
type Mismatch struct {
	Rule   string // oracle rule id
	Detail string
}

func mm(rule, f string, a ...any) *Mismatch {
	return &Mismatch{Rule: rule, Detail: fmt.Sprintf(f, a...)}
}

// Stats are plain counters local to one runner (merged by the caller).
type Stats map[string]int64

func (s Stats) Add(k string, n int64) { s[k] += n }

// Scope says how much of the read surface one comparison covers.
type Scope struct {
	Full    bool             // every height 0..tip+2 and every hash ever written
	Hashes  []chainhash.Hash // (partial) hashes the last operation touched
	Heights []uint32         // (partial) heights the last operation touched
	// Unjudged names a store (TBlockFile / TFilterFile) whose reads BEYOND
	// its tip are not judged in this comparison: the state between an append
	// that failed under a double fault (its clean-up failed as well) and the
	// next reopen, where bytes nobody could remove are still in the file.
	// Everything at or below the tips, every hash lookup of a block at or
	// below them, ancestors and locators are judged as always.
	Unjudged string
}

// Compare reads every read method of both stores and compares with the
// model. ever lists every block hash ever written (live or rolled back). It
// returns the first disagreement or nil. When stats is nil nothing is counted.
func Compare(st *Stores, m *Model, ever []chainhash.Hash, sc Scope, rng *rand.Rand, stats Stats) (res *Mismatch) {
	defer func() {
		if p := recover(); p != nil {
			res = mm("read-panicked", "%v", p)
		}
	}()
	count := func(k string, n int) {
		if stats != nil {
			stats[k] += int64(n)
		}
	}
	btip, ftip := m.BTip(), m.FTip()

	// ---- tips
	hdr, h, err := st.BS.ChainTip()
	count("reads_block_ChainTip", 1)
	if err != nil {
		return mm("block-tip", "ChainTip error %v, model tip %d", err, btip)
	}
	if h != btip || !SameHeader(hdr, &m.Blocks[btip]) {
		return mm("block-tip", "ChainTip = height %d hash %s, model height %d hash %s",
			h, hdr.BlockHash(), btip, m.Hashes[btip])
	}
	fh, fhh, err := st.FS.ChainTip()
	count("reads_filter_ChainTip", 1)
	if err != nil {
		return mm("filter-tip", "ChainTip error %v, model tip %d", err, ftip)
	}
	if fhh != ftip || *fh != m.Filters[ftip] {
		return mm("filter-tip", "ChainTip = height %d %s, model height %d %s", fhh, fh, ftip, m.Filters[ftip])
	}

	// ---- by height
	var heights []uint32
	if sc.Full {
		for i := uint32(0); i <= btip+2; i++ {
			heights = append(heights, i)
		}
	} else {
		lo := uint32(0)
		if btip > 32 {
			lo = btip - 32
		}
		for i := lo; i <= btip+2; i++ {
			heights = append(heights, i)
		}
		heights = append(heights, sc.Heights...)
		for i := 0; i < 16; i++ {
			heights = append(heights, uint32(rng.Intn(int(btip)+3)))
		}
		heights = append(heights, 0, ftip, ftip+1, ftip+2)
	}
	for _, i := range heights {
		got, err := st.BS.FetchHeaderByHeight(i)
		count("reads_block_FetchHeaderByHeight", 1)
		switch {
		case i <= btip && err != nil:
			return mm("block-by-height", "height %d (tip %d): error %v", i, btip, err)
		case i <= btip && !SameHeader(got, &m.Blocks[i]):
			return mm("block-by-height", "height %d (tip %d): got %s want %s", i, btip, got.BlockHash(), m.Hashes[i])
		case i > btip && err == nil && sc.Unjudged != TBlockFile:
			return mm("block-by-height-beyond-tip", "height %d beyond tip %d returned %s", i, btip, got.BlockHash())
		}
		fg, err := st.FS.FetchHeaderByHeight(i)
		count("reads_filter_FetchHeaderByHeight", 1)
		switch {
		case i <= ftip && err != nil:
			return mm("filter-by-height", "height %d (tip %d): error %v", i, ftip, err)
		case i <= ftip && *fg != m.Filters[i]:
			return mm("filter-by-height", "height %d (tip %d): got %s want %s", i, ftip, fg, m.Filters[i])
		case i > ftip && err == nil && sc.Unjudged != TFilterFile:
			return mm("filter-by-height-beyond-tip", "height %d beyond tip %d returned %s", i, ftip, fg)
		}
	}

	// ---- by hash, live and rolled back
	hashes := ever
	if !sc.Full {
		hashes = append([]chainhash.Hash(nil), sc.Hashes...)
		lo := 0
		if len(m.Hashes) > 32 {
			lo = len(m.Hashes) - 32
		}
		hashes = append(hashes, m.Hashes[lo:]...)
		for i := 0; i < 48 && len(ever) > 0; i++ {
			hashes = append(hashes, ever[rng.Intn(len(ever))])
		}
	}
	for i := range hashes {
		hash := hashes[i]
		want, live := m.HeightOf(hash)
		got, gh, err := st.BS.FetchHeader(&hash)
		hh, err2 := st.BS.HeightFromHash(&hash)
		count("reads_block_FetchHeader", 1)
		count("reads_block_HeightFromHash", 1)
		if live {
			count("hash_lookups_live", 1)
			if err != nil || err2 != nil {
				return mm("block-by-hash", "live hash at height %d: FetchHeader err %v, HeightFromHash err %v", want, err, err2)
			}
			if gh != want || hh != want || !SameHeader(got, &m.Blocks[want]) {
				return mm("block-by-hash", "live hash at height %d: FetchHeader height %d (%s), HeightFromHash %d",
					want, gh, got.BlockHash(), hh)
			}
		} else {
			count("hash_lookups_rolled_back", 1)
			if err == nil || err2 == nil {
				return mm("block-rolled-back-hash-found", "rolled-back hash %s still found: FetchHeader err=%v height %d, HeightFromHash err=%v height %d (tip %d)",
					hash, err, gh, err2, hh, btip)
			}
		}
		fg, err := st.FS.FetchHeader(&hash)
		count("reads_filter_FetchHeader", 1)
		switch {
		case live && want <= ftip:
			if err != nil {
				return mm("filter-by-hash", "block at height %d (filter tip %d): error %v", want, ftip, err)
			}
			if *fg != m.Filters[want] {
				return mm("filter-by-hash", "block at height %d: got %s want %s", want, fg, m.Filters[want])
			}
		case live && err == nil && sc.Unjudged != TFilterFile:
			return mm("filter-by-hash-beyond-tip", "block at height %d beyond filter tip %d returned %s", want, ftip, fg)
		case !live && err == nil:
			return mm("filter-rolled-back-hash-found", "rolled-back block hash %s still yields filter header %s", hash, fg)
		}
	}

	// ---- ancestor ranges, within the caller contract n <= height(stop)
	stops := []uint32{btip, uint32(rng.Intn(int(btip) + 1)), uint32(rng.Intn(int(btip) + 1)), ftip}
	for _, s := range stops {
		ns := []uint32{0, s, uint32(rng.Intn(int(s) + 1))}
		if s > 2000 { // the callers never ask for more than 2000
			ns[1] = 2000
		}
		for _, n := range ns {
			hs, start, err := st.BS.FetchHeaderAncestors(n, &m.Hashes[s])
			count("reads_block_FetchHeaderAncestors", 1)
			if err != nil {
				return mm("block-ancestors", "FetchHeaderAncestors(%d, height %d): %v", n, s, err)
			}
			if start != s-n || uint32(len(hs)) != n+1 {
				return mm("block-ancestors", "FetchHeaderAncestors(%d, height %d): start %d len %d", n, s, start, len(hs))
			}
			for i := range hs {
				if !SameHeader(&hs[i], &m.Blocks[start+uint32(i)]) {
					return mm("block-ancestors", "FetchHeaderAncestors(%d, height %d): element %d differs", n, s, i)
				}
			}
			if s > ftip {
				continue
			}
			fs, start, err := st.FS.FetchHeaderAncestors(n, &m.Hashes[s])
			count("reads_filter_FetchHeaderAncestors", 1)
			if err != nil {
				return mm("filter-ancestors", "FetchHeaderAncestors(%d, height %d): %v", n, s, err)
			}
			if start != s-n || uint32(len(fs)) != n+1 {
				return mm("filter-ancestors", "FetchHeaderAncestors(%d, height %d): start %d len %d", n, s, start, len(fs))
			}
			for i := range fs {
				if fs[i] != m.Filters[start+uint32(i)] {
					return mm("filter-ancestors", "FetchHeaderAncestors(%d, height %d): element %d differs", n, s, i)
				}
			}
		}
	}

	// ---- block locators, structurally and exactly
	loc, err := st.BS.LatestBlockLocator()
	count("reads_block_LatestBlockLocator", 1)
	if err != nil {
		return mm("locator-latest", "LatestBlockLocator: %v", err)
	}
	if d := checkLocator(m, loc, btip); d != "" {
		return mm("locator-latest", "tip %d: %s", btip, d)
	}
	for _, s := range []uint32{0, 1, 9, 10, 11, 12, 13, 27, uint32(rng.Intn(int(btip) + 1)), uint32(rng.Intn(int(btip) + 1))} {
		if s > btip {
			continue
		}
		loc, err := st.BS.BlockLocatorFromHash(&m.Hashes[s])
		count("reads_block_BlockLocatorFromHash", 1)
		if err != nil {
			return mm("locator-from-hash", "BlockLocatorFromHash(height %d): %v", s, err)
		}
		if d := checkLocator(m, loc, s); d != "" {
			return mm("locator-from-hash", "from height %d (tip %d): %s", s, btip, d)
		}
	}
	count("comparisons", 1)
	if sc.Full {
		count("comparisons_full", 1)
	}
	return nil
}

// checkLocator checks a locator structurally against the list: it starts at
// the given height, heights strictly descend, every hash is the list's hash
// at its height, the first ten steps are 1, every later step is at most
// double the previous one, it ends at genesis and fits in one message.
func checkLocator(m *Model, loc blockchain.BlockLocator, from uint32) string {
	if len(loc) == 0 {
		return "empty locator"
	}
	if len(loc) > wire.MaxBlockLocatorsPerMsg {
		return fmt.Sprintf("%d entries > MaxBlockLocatorsPerMsg", len(loc))
	}
	prevH, prevStep := uint32(0), uint32(0)
	for i, hp := range loc {
		if hp == nil {
			return fmt.Sprintf("entry %d is nil", i)
		}
		h, ok := m.HeightOf(*hp)
		if !ok {
			return fmt.Sprintf("entry %d (%s) is not a hash of the list", i, hp)
		}
		if i == 0 {
			if h != from {
				return fmt.Sprintf("starts at height %d, not %d", h, from)
			}
			prevH = h
			continue
		}
		if h >= prevH {
			return fmt.Sprintf("entry %d height %d not below previous %d", i, h, prevH)
		}
		step := prevH - h
		if i <= 10 && step != 1 {
			return fmt.Sprintf("step %d is %d, expected 1", i, step)
		}
		if i > 10 && step > 2*prevStep {
			return fmt.Sprintf("step %d is %d, more than double the previous %d", i, step, prevStep)
		}
		prevH, prevStep = h, step
	}
	if prevH != 0 {
		return fmt.Sprintf("ends at height %d, not genesis", prevH)
	}
	// Exactly the documented rule (the one btcd and Bitcoin Core use as
	// well): the start, ten single steps, then the step doubles before
	// every further entry, clamped to genesis.
	want := []uint32{from}
	for h, step := from, uint32(1); h > 0 && len(want) < wire.MaxBlockLocatorsPerMsg; {
		if len(want) > 10 {
			step *= 2
		}
		if step > h {
			h = 0
		} else {
			h -= step
		}
		want = append(want, h)
	}
	if len(want) != len(loc) {
		return fmt.Sprintf("%d entries, the list's locator from height %d has %d", len(loc), from, len(want))
	}
	for i, hp := range loc {
		if h, _ := m.HeightOf(*hp); h != want[i] {
			return fmt.Sprintf("entry %d is height %d, the list's locator from height %d has height %d there", i, h, from, want[i])
		}
	}
	return ""
}
