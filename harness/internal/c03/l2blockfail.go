// Package c03 holds the parts of the C03 check that are not shared with other
// checks. L2 family "l2-blockfail": the complete client against wire-level
// peers; a coalition of peers serves one identical filter that omits an output
// script of a block near the tip, fewer peers are honest, and for the first
// conflict round(s) NO peer delivers the disputed block (every getdata for it
// goes unanswered), so the client's block download fails; afterwards the
// block is served.
package c03

import (
	"fmt"
	"math/rand"
	"sync"
	"sync/atomic"
	"time"

	"github.com/btcsuite/btcd/chainhash/v2"
	"github.com/btcsuite/btcd/wire/v2"
	"github.com/lightninglabs/neutrino"

	"verif/internal/chaingen"
	"verif/internal/l2"
	"verif/internal/netsim"
)

// L2BlockFailPlan describes one scenario.
type L2BlockFailPlan struct {
	Seed     int64
	ChainLen int
	At       int32 // wanted height of the disputed block (moved to the nearest block with an omittable script)
	Peers    []bool // connection-address order; true = liar
	// FailRounds: number of conflict rounds during which no peer delivers
	// the disputed block. Retries: neutrino.QueryNumRetries for the run (the
	// download gives up after that many unanswered attempts).
	FailRounds int
	Retries    int
}

// L2BlockFailFixed is the number of seed-independent plans.
const L2BlockFailFixed = 1

// L2BlockFailPlanFromSeed derives plan j (pure function; j <
// L2BlockFailFixed does not depend on seed).
func L2BlockFailPlanFromSeed(seed int64, j int) L2BlockFailPlan {
	if j == 0 {
		// Two liars, one honest peer, block ~40 of 80, one failed round.
		return L2BlockFailPlan{Seed: 990001, ChainLen: 80, At: 40, Peers: []bool{true, false, true}, FailRounds: 1, Retries: 1}
	}
	r := rand.New(rand.NewSource(seed*5_000_011 + int64(j)*7907 + 3))
	p := L2BlockFailPlan{Seed: seed*1_000_003 + int64(j) + 1_700_000}
	p.ChainLen = 40 + r.Intn(200)
	p.At = int32(1 + r.Intn(p.ChainLen))
	nh := 1 + r.Intn(3)/2
	nl := nh + 1 + r.Intn(2)
	for i := 0; i < nh+nl; i++ {
		p.Peers = append(p.Peers, i >= nh)
	}
	r.Shuffle(len(p.Peers), func(a, b int) { p.Peers[a], p.Peers[b] = p.Peers[b], p.Peers[a] })
	p.FailRounds = 1 + r.Intn(3)/2
	p.Retries = 1
	return p
}

// L2BlockFail runs scenario j of the family (in a child process).
func L2BlockFail(seed int64, j int, res *l2.Result) {
	plan := L2BlockFailPlanFromSeed(seed, j)
	res.Name = fmt.Sprintf("c03-l2-blockfail-%d", j)
	w := l2.NewWorld(l2.Config{Seed: plan.Seed, Preset: chaingen.PresetNoRetarget, SpacingSec: 4, GenesisAgo: 2 * time.Hour})
	defer w.Cleanup()
	trunk := w.G.Extend(w.G.Genesis, plan.ChainLen, chaingen.PaceNormal)
	tip := trunk[len(trunk)-1]
	var d *chaingen.Node
	for i := 0; i < len(trunk); i++ {
		c := trunk[(int(plan.At)-1+i)%len(trunk)]
		if netsim.OmittableScript(c) != nil {
			d = c
			break
		}
	}
	if d == nil {
		res.Inconcl("l2-blockfail: no block with an omittable script")
		return
	}
	nl, nh := 0, 0
	var honest, liars []*netsim.Peer
	for _, liar := range plan.Peers {
		if liar {
			liars = append(liars, w.AddLiar(tip, netsim.Lie{Kind: netsim.LieOmitScript, Height: d.Height}))
			nl++
		} else {
			honest = append(honest, w.AddPeer(tip))
			nh++
		}
	}
	res.Fingerprint = fmt.Sprintf("l2-blockfail|liars=%d|honest=%d|fail-rounds=%d", nl, nh, plan.FailRounds)

	// The fault: while withhold is set, a getdata naming the disputed block
	// is not answered by anybody. Conflict rounds are counted by the
	// getcfilters requests for that block the first honest peer receives.
	var (
		withhold        atomic.Bool
		refused, served atomic.Int64
		rounds          atomic.Int64
		releasedAt      atomic.Int64
	)
	withhold.Store(true)
	names := func(gd *wire.MsgGetData, h chainhash.Hash) bool {
		for _, iv := range gd.InvList {
			if iv.Hash == h && (iv.Type == wire.InvTypeBlock || iv.Type == wire.InvTypeWitnessBlock) {
				return true
			}
		}
		return false
	}
	for _, p := range w.Peers {
		inner := p.Mutate
		first := p == honest[0]
		p.Mutate = func(p *netsim.Peer, req wire.Message, hon []wire.Message) []wire.Message {
			switch t := req.(type) {
			case *wire.MsgGetData:
				if names(t, d.Hash) {
					if withhold.Load() {
						refused.Add(1)
						p.Log.Add(p.Addr, "ev", "fault", "getdata for the disputed block not answered")
						return nil
					}
					served.Add(1)
				}
			case *wire.MsgGetCFilters:
				if first && t.StopHash == d.Hash {
					if rounds.Add(1) > int64(plan.FailRounds) && withhold.CompareAndSwap(true, false) {
						releasedAt.Store(w.Log.Len())
					}
				}
			}
			if inner != nil {
				return inner(p, req, hon)
			}
			return hon
		}
	}
	// Steering only: no peer serves block headers before every peer is
	// connected (the client asks "all peers" for filter headers the moment its
	// block headers are complete).
	var released atomic.Bool
	var once sync.Mutex
	for _, p := range w.Peers {
		p.OnMsg = func(p *netsim.Peer, m wire.Message) bool {
			if _, ok := m.(*wire.MsgGetHeaders); ok && !released.Load() {
				once.Lock()
				if !released.Load() {
					l2.WaitFor(5*time.Second, func() bool {
						for _, o := range w.Peers {
							if !o.IsReady() {
								return false
							}
						}
						return true
					})
					time.Sleep(80 * time.Millisecond)
					released.Store(true)
				}
				once.Unlock()
			}
			return false
		}
	}
	// One scenario per process: never restored.
	neutrino.QueryNumRetries = plan.Retries
	if err := w.StartClient(nil, l2.ClientOpts{}); err != nil {
		res.Inconcl("client start failed: " + err.Error())
		return
	}
	// Generous watchdog (typical: 2 s per failed download + 3 s retry pause
	// per round + < 1 s); it decides nothing but when to stop waiting.
	synced := l2.WaitFor(time.Duration(40+15*plan.FailRounds)*time.Second, func() bool {
		if w.SyncedTo(tip) {
			return true
		}
		// The honest peers are gone for good: nothing more will happen.
		for _, hp := range honest {
			if !w.Svc.IsBanned(hp.Addr) {
				return false
			}
		}
		return true
	})
	time.Sleep(100 * time.Millisecond)

	// The oracle: the property, on the stores and the ban state.
	chain, e1 := l2.ReadChain(w.Svc.BlockHeaders)
	fc, e2 := l2.ReadFilterChain(w.Svc.RegFilterHeaders)
	bannedHonest, bannedLiars, toldLiars := 0, 0, 0
	for _, hp := range honest {
		if w.Svc.IsBanned(hp.Addr) {
			bannedHonest++
		}
	}
	for _, lp := range liars {
		if w.Svc.IsBanned(lp.Addr) {
			bannedLiars++
		}
		if _, ok := w.Liars[lp.Addr].ToldSnapshot()[d.Hash]; ok {
			toldLiars++
		}
	}
	res.Count("l2_blockfail_scenarios", 1)
	res.Count("l2_blockfail_getdata_unanswered", refused.Load())
	res.Count("l2_blockfail_block_deliveries_after_release", served.Load())
	res.Count("l2_blockfail_conflict_rounds", rounds.Load())
	res.Nontrivial = refused.Load() > 0
	res.Sample = map[string]any{"plan": plan, "disputed_height": d.Height, "synced": synced,
		"getdata_unanswered": refused.Load(), "conflict_rounds": rounds.Load(),
		"banned_honest": bannedHonest, "banned_liars": bannedLiars, "final_filter_tip": len(fc) - 1}
	witness := func() any {
		return map[string]any{"plan": plan, "disputed_height": d.Height, "getdata_unanswered": refused.Load(),
			"conflict_rounds": rounds.Load(), "released_at_log_position": releasedAt.Load(),
			"banned_honest": bannedHonest, "banned_liars": bannedLiars, "final_filter_tip": len(fc) - 1,
			"log_tail": w.Log.Tail(120)}
	}
	if ok, _ := w.StopClient(30 * time.Second); !ok {
		res.Inconcl("l2-blockfail: client did not stop within the watchdog")
	}
	if e1 != nil || e2 != nil {
		res.Inconcl("l2-blockfail: stores unreadable")
		return
	}
	if refused.Load() == 0 {
		res.Inconcl("l2-blockfail: the disputed block was never asked for while withheld")
	} else {
		res.Mark(fmt.Sprintf("l2-blockfail|download-failed|liars>honest=%v|rounds=%d", nl > nh, min(int(rounds.Load()), 4)))
	}
	if why := w.LiarAnsweredAlone(honest); why != "" {
		// Steering failed: a liar was asked before an honest peer was there.
		res.Inconcl("l2-blockfail: " + why)
		return
	}
	shape := fmt.Sprintf("l2-blockfail/liars-outnumber-honest=%v", nl > nh)
	for h := 1; h < len(fc) && h < len(chain); h++ {
		n := w.G.Lookup(chain[h].BlockHash())
		if n == nil || fc[h] == n.FilterHeader {
			continue
		}
		res.Violate("c03-l2/false-header-committed/provable/"+shape,
			fmt.Sprintf("committed filter header at height %d differs from the ground truth although the only lie told (a filter omitting an output script of block %d) is provable from the block and %d honest peer(s) answered; %d getdata for that block went unanswered before it was served", h, d.Height, nh, refused.Load()), witness())
		break
	}
	if bannedHonest > 0 {
		res.Violate("c03-l2/honest-peer-banned/"+shape,
			fmt.Sprintf("%d of %d honest peers banned; liars banned: %d of %d", bannedHonest, nh, bannedLiars, nl), witness())
	}
	if int(d.Height) < len(fc) && toldLiars > bannedLiars && served.Load() > 0 {
		// (served > 0: a block was delivered, so the lie was decidable.)
		res.Violate("c03-l2/liar-not-banned/omit-script/"+shape,
			fmt.Sprintf("%d peers served a filter omitting an output script of block %d, the filter header of that height is committed, only %d of them are banned", toldLiars, d.Height, bannedLiars), witness())
	}
	if !synced && len(res.Violations) == 0 {
		res.Inconcl("l2-blockfail: not synced within the watchdog")
	}
	if synced && bannedHonest == 0 && len(fc) == len(chain) {
		res.Count("l2_blockfail_converged_on_truth", 1)
	}
}
