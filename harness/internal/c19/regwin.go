// Package c19 holds the workload families of property C19 that do not live in
// the shared engines.
//
// Family regwin (registration window): the REAL blockntfns.SubscriptionManager
// on top of the REAL block manager (engine L1: real stores, scripted peers,
// driven through neutrino.VerifBlockManager), wired as ChainService wires it
// (blockntfns.NewSubscriptionManager(blockManager)), with one difference: the
// NotificationSource handed to the manager is a thin wrapper whose
// NotificationsSinceHeight calls the real one and, right after it returned,
// lets the next chain change of the session start on the driver goroutine. A
// chain change is thereby PLACED in the window between "the backlog for a new
// subscriber was read from the block manager" and "the subscriber is
// registered for live events" -- a window that is microseconds wide in the
// network simulation and is never hit there by a reorganisation.
//
// The oracle is the replay rule of the network-simulation part (l2.SubReplay,
// the exported face of l2/subs.go's subModel): backlog + live events of every
// subscriber, replayed from the height it subscribed at, must give exactly
// the chain committed in the stores at quiescence.
package c19

import (
	"fmt"
	"math/rand"
	"os"
	"path/filepath"
	"runtime/debug"
	"strings"
	"sync"
	"sync/atomic"
	"time"

	"github.com/btcsuite/btcd/wire/v2"
	"github.com/lightninglabs/neutrino"
	"github.com/lightninglabs/neutrino/blockntfns"

	"verif/internal/chaingen"
	"verif/internal/l1"
	"verif/internal/l2"
)

// RegChange is one change of the honest chain as the client comes to see it.
//
//	ext        N new blocks: block headers, then a filter-header round (N connected events)
//	ext-lag    N new blocks: block headers only (the filter headers now lag)
//	reorg      the top Depth block headers are replaced by Depth+N new ones, then a filter-header round
//	reorg-lag  the same without the filter-header round (rollback now, connected events later)
//	catchup    a filter-header round only
type RegChange struct {
	Kind  string
	Depth int `json:",omitempty"`
	N     int `json:",omitempty"`
}

// RegRound: one primary subscriber registers while the chain is quiet; the
// changes are started one after the other by the backlog reads that happen
// from then on (the first one by the primary's own); the secondaries start
// registering at the moment the first change starts.
type RegRound struct {
	Changes []RegChange
	// PrimaryBelow: the primary subscribes from (committed filter tip -
	// PrimaryBelow), at least 1; -1: from height 0 (no backlog).
	PrimaryBelow int
	// SecBelow: one secondary subscriber per entry, subscribing from (lowest
	// fork point of the round's changes - entry), at least 1: a height no
	// change of the round reaches, so what it holds is well defined whenever
	// its backlog is read.
	SecBelow []int `json:",omitempty"`
}

// RegPlan is one session of family regwin.
type RegPlan struct {
	Name     string
	Seed     int64
	ChainLen int
	Peers    int
	Rounds   []RegRound
}

// RegFixedPlan is the seed-independent session: every round places one shape.
func RegFixedPlan() RegPlan {
	return RegPlan{Name: "c19-regwin-fixed", Seed: 19_120_001, ChainLen: 40, Peers: 1, Rounds: []RegRound{
		// a quiet registration (nothing placed)
		{PrimaryBelow: 3},
		// a 2-deep reorganisation of blocks the primary has just been given as backlog
		{Changes: []RegChange{{Kind: "reorg", Depth: 2, N: 1}}, PrimaryBelow: 5},
		// an extension right after the backlog was read
		{Changes: []RegChange{{Kind: "ext", N: 2}}, PrimaryBelow: 1},
		// a reorganisation reaching BELOW the height the primary subscribed from
		{Changes: []RegChange{{Kind: "reorg", Depth: 3, N: 2}}, PrimaryBelow: 1, SecBelow: []int{0}},
		// filter headers lag; the reorganisation takes uncommitted and committed blocks
		{Changes: []RegChange{{Kind: "ext-lag", N: 3}}, PrimaryBelow: 0},
		{Changes: []RegChange{{Kind: "reorg", Depth: 5, N: 2}}, PrimaryBelow: 4, SecBelow: []int{0, 2}},
		// rollback first, the new branch's filter headers in a second change
		{Changes: []RegChange{{Kind: "reorg-lag", Depth: 4, N: 1}, {Kind: "catchup"}}, PrimaryBelow: 6, SecBelow: []int{1}},
		// no backlog asked for
		{Changes: []RegChange{{Kind: "reorg", Depth: 1, N: 1}}, PrimaryBelow: -1},
		// the reorganisation exactly as deep as the backlog
		{Changes: []RegChange{{Kind: "reorg", Depth: 3, N: 1}}, PrimaryBelow: 3},
		// two reorganisations inside one registration
		{Changes: []RegChange{{Kind: "reorg", Depth: 2, N: 1}, {Kind: "reorg", Depth: 1, N: 2}}, PrimaryBelow: 7, SecBelow: []int{0}},
	}}
}

// RegPlanFromSeed derives a session (pure function of seed and k).
func RegPlanFromSeed(seed int64, k int) RegPlan {
	r := rand.New(rand.NewSource(seed*7_000_003 + int64(k)*15_485_863 + 19))
	p := RegPlan{Name: fmt.Sprintf("c19-regwin-%d-%d", seed, k), Seed: seed*1_000_003 + int64(k) + 1_900_000}
	p.ChainLen = 25 + r.Intn(120)
	p.Peers = 1 + r.Intn(2)
	reorg := func(lag bool) RegChange {
		k := "reorg"
		if lag {
			k = "reorg-lag"
		}
		return RegChange{Kind: k, Depth: 1 + r.Intn(6), N: 1 + r.Intn(3)}
	}
	for n := 6 + r.Intn(5); n > 0; n-- {
		var rd RegRound
		switch x := r.Intn(20); {
		case x < 8:
			rd.Changes = []RegChange{reorg(false)}
		case x < 10:
			rd.Changes = []RegChange{{Kind: "ext", N: 1 + r.Intn(4)}}
		case x < 12:
			rd.Changes = []RegChange{{Kind: "ext-lag", N: 1 + r.Intn(4)}}
		case x < 14:
			rd.Changes = []RegChange{reorg(true)}
		case x < 16:
			rd.Changes = []RegChange{reorg(true), {Kind: "catchup"}}
		case x < 17:
			rd.Changes = []RegChange{{Kind: "ext-lag", N: 1 + r.Intn(3)}, reorg(false)}
		case x < 18:
			rd.Changes = []RegChange{reorg(false), {Kind: "ext", N: 1 + r.Intn(2)}}
		case x < 19:
			rd.Changes = []RegChange{reorg(false), reorg(false)}
		default:
			// quiet registration
		}
		d := 0
		for _, c := range rd.Changes {
			if c.Depth > d {
				d = c.Depth
			}
		}
		switch r.Intn(8) {
		case 0:
			rd.PrimaryBelow = -1
		case 1:
			rd.PrimaryBelow = 0
		case 2:
			rd.PrimaryBelow = max(d-1, 0)
		case 3:
			rd.PrimaryBelow = d
		case 4:
			rd.PrimaryBelow = d + 1
		case 5:
			rd.PrimaryBelow = d + 3
		default:
			rd.PrimaryBelow = r.Intn(12)
		}
		for s := r.Intn(3); s > 0 && len(rd.Changes) > 0; s-- {
			rd.SecBelow = append(rd.SecBelow, r.Intn(6))
		}
		p.Rounds = append(p.Rounds, rd)
	}
	return p
}

// ---------------------------------------------------------------------------

// driver is the goroutine that plays the block manager's handler goroutines:
// every chain change runs on it, one after the other.
type driver struct {
	jobs chan *job
}

type job struct {
	f    func()
	done chan struct{} // closed when f returned (or panicked)
	pan  string        // panic text, set before done is closed
}

func newDriver() *driver {
	d := &driver{jobs: make(chan *job, 64)}
	go func() {
		for j := range d.jobs {
			func() {
				defer func() {
					if r := recover(); r != nil {
						j.pan = fmt.Sprintf("%v\n%s", r, debug.Stack())
					}
					close(j.done)
				}()
				j.f()
			}()
		}
	}()
	return d
}

func (d *driver) submit(f func()) *job {
	j := &job{f: f, done: make(chan struct{})}
	d.jobs <- j
	return j
}

// placedSource is the NotificationSource handed to the real subscription
// manager: the real block manager, plus the placement of chain changes right
// after a backlog read. It never alters what the block manager returns.
type placedSource struct {
	bm  *neutrino.VerifBlockManager
	drv *driver

	points atomic.Int64 // pause points rb.afterBlock / cf.afterWrite seen (whole session)

	mu       sync.Mutex
	pending  []func()   // changes of the round not yet started
	onFirst  func()     // run when the first change of the round starts
	started  []*job     // changes of the round that were started
	inflight int        // started and not yet finished
	calls    int        // backlog reads of the round
	stats    placeStats // whole session
}

type placeStats struct {
	Placed, CompletedInside, HeldBack, Queued, Unsure int
}

func (w *placedSource) Notifications() <-chan blockntfns.BlockNtfn { return w.bm.Notifications() }

// grace: how long after the most recent pause point of a placed change the
// wrapper goes on waiting for it. A change that announces anything stops, on
// the unchanged client, right after its first pause point (the block manager
// blocks on its unbuffered channel until the handler goroutine -- which is
// the one sitting in this wrapper -- is free again); a change that is free to
// run reaches its next point, or its end, within a fraction of that. The
// value only steers the schedule; no verdict reads it.
const (
	grace    = 40 * time.Millisecond
	placeCap = 3 * time.Second
)

func (w *placedSource) NotificationsSinceHeight(h uint32) ([]blockntfns.BlockNtfn, uint32, error) {
	ntfns, best, err := w.bm.NotificationsSinceHeight(h)

	w.mu.Lock()
	w.calls++
	if len(w.pending) == 0 {
		w.mu.Unlock()
		return ntfns, best, err
	}
	ch := w.pending[0]
	w.pending = w.pending[1:]
	first := w.onFirst
	w.onFirst = nil
	busy := w.inflight > 0
	w.inflight++
	seen := w.points.Load()
	j := w.drv.submit(func() {
		defer func() { w.mu.Lock(); w.inflight--; w.mu.Unlock() }()
		ch()
	})
	w.started = append(w.started, j)
	w.stats.Placed++
	if busy {
		w.stats.Queued++
	}
	w.mu.Unlock()
	if first != nil {
		first()
	}
	if busy {
		// An earlier change is still under way (on the unchanged client: held
		// back by this very goroutine); this one runs behind it.
		return ntfns, best, err
	}
	// Placement only: wait until the change completed or evidently cannot
	// proceed before this goroutine is free again. Always bounded.
	start := time.Now()
	var lastPoint time.Time
	outcome := "unsure"
wait:
	for {
		select {
		case <-j.done:
			outcome = "completed"
			break wait
		case <-time.After(time.Millisecond):
		}
		if p := w.points.Load(); p != seen {
			seen, lastPoint = p, time.Now()
		}
		if !lastPoint.IsZero() && time.Since(lastPoint) > grace {
			outcome = "held-back"
			break
		}
		if time.Since(start) > placeCap {
			break
		}
	}
	w.mu.Lock()
	switch outcome {
	case "completed":
		w.stats.CompletedInside++
	case "held-back":
		w.stats.HeldBack++
	default:
		w.stats.Unsure++
	}
	w.mu.Unlock()
	return ntfns, best, err
}

// arm installs the changes of a round.
func (w *placedSource) arm(changes []func(), onFirst func()) {
	w.mu.Lock()
	w.pending, w.onFirst, w.started, w.calls = changes, onFirst, nil, 0
	w.mu.Unlock()
}

// takeFirst returns the round's onFirst callback if no change has started yet.
func (w *placedSource) takeFirst() func() {
	w.mu.Lock()
	defer w.mu.Unlock()
	f := w.onFirst
	w.onFirst = nil
	return f
}

// disarm returns the changes no backlog read has started, and those started.
func (w *placedSource) disarm() (left []func(), started []*job) {
	w.mu.Lock()
	defer w.mu.Unlock()
	left, started = w.pending, w.started
	w.pending, w.started, w.onFirst = nil, nil, nil
	return
}

type subscriber struct {
	id      int
	role    string // primary | secondary
	shape   string // normalised shape of the round it registered in
	from    uint32
	held    []wire.BlockHeader
	rep     *l2.SubReplay
	sub     *blockntfns.Subscription
	done    chan struct{}
	nDisc   atomic.Int64
	errText string
}

const watchdog = 90 * time.Second

// RunRegWin executes one session of family regwin and fills res.
func RunRegWin(p RegPlan, res *l2.Result) {
	kinds := map[string]bool{}
	for _, rd := range p.Rounds {
		for _, c := range rd.Changes {
			kinds[c.Kind] = true
		}
	}
	var ks []string
	for _, k := range []string{"ext", "ext-lag", "reorg", "reorg-lag", "catchup"} {
		if kinds[k] {
			ks = append(ks, k)
		}
	}
	res.Fingerprint = fmt.Sprintf("regwin|peers=%d|rounds=%d|kinds=%s", p.Peers, len(p.Rounds), strings.Join(ks, ","))

	s, err := l1.NewSession(l1.SessionConfig{Seed: p.Seed, Name: p.Name, Preset: chaingen.PresetNoRetarget,
		WithBlocks: true, SpacingSec: 5, NumPeers: p.Peers})
	if err == nil {
		err = s.Open()
	}
	if err != nil {
		res.Inconcl("regwin: session could not be opened: " + err.Error())
		return
	}
	defer func() {
		s.Close()
		if s.Stores != nil {
			_ = os.RemoveAll(s.Stores.Dir)
		}
	}()
	g := s.G
	trunk := g.Extend(g.Genesis, p.ChainLen, chaingen.PaceNormal)
	tip := trunk[len(trunk)-1]
	s.View.SetTip(tip)
	for i := 0; i < p.Peers; i++ {
		if _, err := s.AddPeer(tip.Height, wire.SFNodeNetwork|wire.SFNodeWitness|wire.SFNodeCF); err != nil {
			res.Inconcl("regwin: peer: " + err.Error())
			return
		}
	}
	drv := newDriver()
	src := &placedSource{bm: s.BM, drv: drv}
	neutrino.VerifSetPointHook(func(name string) {
		if name == "rb.afterBlock" || name == "cf.afterWrite" {
			src.points.Add(1)
		}
	})
	defer neutrino.VerifSetPointHook(nil)
	mgr := blockntfns.NewSubscriptionManager(src)
	mgr.Start()
	stopped := false
	defer func() {
		if !stopped {
			go mgr.Stop()
		}
	}()

	sender := func() *neutrino.ServerPeer {
		sp := s.BM.SyncPeer()
		for _, pr := range s.Peers {
			if pr.SP == sp && !pr.Disconnected() {
				return pr.SP
			}
		}
		return s.Peers[0].SP
	}
	// The block-manager calls of one change (driver goroutine only).
	headers := func(nodes []*chaingen.Node) {
		for len(nodes) > 0 {
			n := min(len(nodes), wire.MaxBlockHeadersPerMsg)
			msg := wire.NewMsgHeaders()
			msg.Headers = chaingen.Headers(nodes[:n])
			nodes = nodes[n:]
			s.BM.HandleHeaders(sender(), msg)
		}
	}
	cfRound := func() {
		_ = s.BM.GetUncheckpointedCFHeaders()
		s.Net.Wait()
	}
	witness := func(extra map[string]any) any {
		m := map[string]any{"plan": p}
		for k, v := range extra {
			m[k] = v
		}
		return m
	}
	await := func(j *job, what string) bool {
		select {
		case <-j.done:
			if pan := j.pan; pan != "" {
				res.Violate("c19/regwin/client-panic", "the client panicked while "+what+": "+firstLine(pan), witness(map[string]any{"panic": pan}))
				return false
			}
			return true
		case <-time.After(watchdog):
			res.Inconcl("regwin: " + what + " did not finish within the watchdog")
			return false
		}
	}
	tips := func() (bt, ft uint32, ok bool) {
		_, bt, e1 := s.Stores.Block.ChainTip()
		_, ft, e2 := s.Stores.Filter.ChainTip()
		return bt, ft, e1 == nil && e2 == nil
	}

	// Initial sync: block headers, then the filter headers.
	if !await(drv.submit(func() { headers(trunk); cfRound() }), "the initial sync") {
		return
	}
	if bt, ft, ok := tips(); !ok || bt != uint32(p.ChainLen) || ft != bt {
		res.Inconcl(fmt.Sprintf("regwin: initial sync ended at block tip %d / filter tip %d of %d", bt, ft, p.ChainLen))
		return
	}
	res.Nontrivial = true
	var resMu sync.Mutex
	count := func(k string, n int64) { resMu.Lock(); res.Count(k, n); resMu.Unlock() }

	var subsMu sync.Mutex
	var subs []*subscriber
	nextID := 0
	readHeld := func(hold uint32) ([]wire.BlockHeader, bool) {
		out := make([]wire.BlockHeader, hold+1)
		for h := uint32(0); h <= hold; h++ {
			hd, err := s.Stores.Block.FetchHeaderByHeight(h)
			if err != nil {
				return nil, false
			}
			out[h] = *hd
		}
		return out, true
	}
	// register makes one NewSubscription call for sb (held chain already
	// read) and, on success, starts its consumer. Safe for concurrent use.
	register := func(sb *subscriber) bool {
		sb.rep = l2.NewSubReplay(sb.from, sb.held)
		sub, err := mgr.NewSubscription(sb.from)
		count("regwin_subscribe_calls", 1)
		if err != nil {
			sb.errText = err.Error()
			return false
		}
		sb.sub, sb.done = sub, make(chan struct{})
		subsMu.Lock()
		sb.id = nextID
		nextID++
		subs = append(subs, sb)
		subsMu.Unlock()
		go func() {
			defer close(sb.done)
			for n := range sub.Notifications {
				if _, ok := n.(*blockntfns.Disconnected); ok {
					sb.nDisc.Add(1)
				}
				sb.rep.Apply(n)
			}
		}()
		return true
	}
	snapshot := func() []*subscriber {
		subsMu.Lock()
		defer subsMu.Unlock()
		return append([]*subscriber(nil), subs...)
	}
	cancel := func(sb *subscriber) {
		subsMu.Lock()
		for i, x := range subs {
			if x == sb {
				subs = append(subs[:i:i], subs[i+1:]...)
				break
			}
		}
		subsMu.Unlock()
		sb.sub.Cancel()
		select {
		case <-sb.done:
		case <-time.After(20 * time.Second):
			res.Inconcl("subscription channel not closed 20 s after Cancel (C11's subject)")
		}
		count("regwin_subscription_events", int64(sb.rep.Events()))
		count("regwin_disconnected_events_delivered", sb.nDisc.Load())
	}
	// check: the C19 statement at a quiescent point, for every live subscriber.
	check := func() {
		live := snapshot()
		last := -1
		l2.WaitFor(5*time.Second, func() bool {
			tot := 0
			for _, sb := range live {
				tot += sb.rep.Events()
			}
			stable := tot == last
			last = tot
			time.Sleep(20 * time.Millisecond)
			return stable
		})
		chain, err := s.ReadBlockChain()
		if err != nil {
			res.Inconcl("regwin: stores unreadable at a quiescent point (C01's subject): " + err.Error())
			return
		}
		_, ft, ok := tips()
		if !ok || int(ft) >= len(chain) {
			return
		}
		for _, sb := range live {
			bad, ev := sb.rep.Judge(chain, ft)
			// A subscriber that is merely behind is not wrong (the manager hands
			// events over through a queue goroutine): the verdict is given once
			// its stream has been silent for 4 s on end, re-armed by every event
			// (the rule of the network-simulation part). An anomaly of the
			// stream itself is final at once.
			for quiet := 0; bad != "" && !sb.rep.HasAnomaly() && quiet < 40; {
				time.Sleep(100 * time.Millisecond)
				b2, e2 := sb.rep.Judge(chain, ft)
				if e2 != ev {
					quiet = 0
				} else {
					quiet++
				}
				bad, ev = b2, e2
			}
			count("regwin_subscriber_states_checked", 1)
			if bad != "" {
				res.Violate("c19/regwin/replay-mismatch/"+sb.role+"/"+sb.shape,
					fmt.Sprintf("%s subscriber %d (subscribed from height %d holding the committed chain up to %d, %d events) on the real subscription manager over the real block manager: %s",
						sb.role, sb.id, sb.from, len(sb.held)-1, ev, bad),
					witness(map[string]any{"round_shape": sb.shape, "script_tail": tailOf(s.Steps, 30), "committed_filter_tip": ft}))
				cancel(sb)
			}
		}
	}

	for ri, rd := range p.Rounds {
		// Bound the number of live subscribers (oldest go first).
		for live := snapshot(); len(live) > 5; live = live[1:] {
			cancel(live[0])
		}
		bt, ft, ok := tips()
		cur := s.TipNode()
		if !ok || cur == nil || ft < 2 {
			res.Inconcl("regwin: stores unreadable between rounds")
			return
		}
		lag := bt > ft
		// Resolve the round's changes on the generator (this goroutine; the
		// driver only reads the nodes).
		var changes []func()
		var kindsOf []string
		safe := ft
		reach := -1 // committed blocks removed by the first reorganisation
		node := cur
		for _, c := range rd.Changes {
			c := c
			kindsOf = append(kindsOf, c.Kind)
			switch c.Kind {
			case "ext", "ext-lag":
				nodes := g.Extend(node, max(c.N, 1), chaingen.PaceNormal)
				node = nodes[len(nodes)-1]
				nt := node
				changes = append(changes, func() {
					s.View.SetTip(nt)
					headers(nodes)
					if c.Kind == "ext" {
						cfRound()
					}
				})
			case "reorg", "reorg-lag":
				d := int32(max(c.Depth, 1))
				if d > node.Height-2 {
					d = node.Height - 2
				}
				fork := node.Ancestor(node.Height - d)
				nodes := g.Extend(fork, int(d)+max(c.N, 1), chaingen.PaceNormal)
				node = nodes[len(nodes)-1]
				nt := node
				if uint32(fork.Height) < safe {
					safe = uint32(fork.Height)
				}
				if reach < 0 {
					reach = max(int(ft)-int(fork.Height), 0)
				}
				changes = append(changes, func() {
					s.View.SetTip(nt)
					headers(nodes)
					if c.Kind == "reorg" {
						cfRound()
					}
				})
			default: // catchup
				changes = append(changes, cfRound)
			}
		}
		// The primary.
		pr := &subscriber{role: "primary"}
		hold := ft
		if rd.PrimaryBelow >= 0 {
			pr.from = ft - uint32(min(rd.PrimaryBelow, int(ft)-1))
			hold = pr.from
		}
		rel := "no-reorg"
		switch {
		case reach < 0:
		case pr.from == 0:
			rel = "reorg-and-no-backlog"
		case reach == 0:
			rel = "reorg-above-committed"
		case int(ft)-reach >= int(pr.from):
			rel = "reorg-inside-backlog"
			if int(ft)-reach == int(pr.from) {
				rel = "reorg-of-whole-backlog"
			}
		default:
			rel = "reorg-below-subscribed-height"
		}
		shape := fmt.Sprintf("%s|%s|lag=%v", strings.Join(kindsOf, "+"), rel, lag)
		if len(kindsOf) == 0 {
			shape = fmt.Sprintf("quiet||lag=%v", lag)
		}
		pr.shape = shape
		res.Mark(fmt.Sprintf("regwin-round|%s|secondaries=%d", shape, len(rd.SecBelow)))
		s.Steps = append(s.Steps, fmt.Sprintf("round %d: block tip %d filter tip %d; primary from %d; changes %v; secondaries %v (safe height %d)",
			ri, bt, ft, pr.from, rd.Changes, rd.SecBelow, safe))
		var okHeld bool
		if pr.held, okHeld = readHeld(hold); !okHeld {
			res.Inconcl("regwin: stores unreadable before a registration")
			return
		}
		// The secondaries: started when the first change starts.
		var secs []*subscriber
		var secWG sync.WaitGroup
		var secFailed sync.Map
		for _, below := range rd.SecBelow {
			if safe < 1 {
				break
			}
			sb := &subscriber{role: "secondary", shape: shape, from: safe - uint32(min(below, int(safe)-1))}
			if sb.held, okHeld = readHeld(sb.from); !okHeld {
				res.Inconcl("regwin: stores unreadable before a registration")
				return
			}
			secs = append(secs, sb)
		}
		launch := func() {
			for i, sb := range secs {
				secWG.Add(1)
				go func(i int, sb *subscriber) {
					defer secWG.Done()
					time.Sleep(time.Duration(i*(1+ri%3)) * 500 * time.Microsecond)
					// A Subscribe that fails is not a violation: the subscriber
					// tries again from the same height.
					for try := 0; try < 4; try++ {
						if register(sb) {
							return
						}
						count("regwin_subscribe_errors", 1)
						time.Sleep(3 * time.Millisecond)
					}
					secFailed.Store(sb, true)
				}(i, sb)
			}
		}
		src.arm(changes, launch)
		prDone := make(chan bool, 1)
		go func() { prDone <- register(pr) }()
		var prOK bool
		select {
		case prOK = <-prDone:
		case <-time.After(watchdog):
			res.Inconcl("regwin: NewSubscription did not return within the watchdog")
			return
		}
		if first := src.takeFirst(); first != nil {
			// No change was started by the primary's backlog read: the
			// secondaries register now.
			first()
		}
		secDone := make(chan struct{})
		go func() { secWG.Wait(); close(secDone) }()
		select {
		case <-secDone:
		case <-time.After(watchdog):
			res.Inconcl("regwin: NewSubscription (secondary) did not return within the watchdog")
			return
		}
		// Changes that no backlog read has started by now run behind the
		// registrations.
		left, started := src.disarm()
		for _, j := range started {
			if !await(j, "adopting a placed chain change") {
				return
			}
		}
		for _, ch := range left {
			count("regwin_changes_run_after_the_registrations", 1)
			if !await(drv.submit(ch), "adopting a chain change") {
				return
			}
		}
		count("regwin_rounds", 1)
		count("regwin_changes", int64(len(changes)))
		// Retries at the quiescent point (same height; only while that height
		// is still a block of the committed chain -- otherwise the subscriber
		// holds blocks that are gone and has to find its own way back, which
		// the API leaves to the caller).
		retry := func(sb *subscriber) {
			count("regwin_subscribe_errors", 1)
			nowHeld, ok := readHeld(uint32(len(sb.held) - 1))
			same := ok
			for h := range nowHeld {
				if nowHeld[h] != sb.held[h] {
					same = false
					break
				}
			}
			if _, ft2, ok2 := tips(); !same || !ok2 || sb.from > ft2 {
				count("regwin_retries_impossible_height_no_longer_committed", 1)
				return
			}
			if sb.from == 0 {
				_, ft2, _ := tips()
				if sb.held, ok = readHeld(ft2); !ok {
					return
				}
			}
			if register(sb) {
				count("regwin_retries_succeeded", 1)
			} else {
				count("regwin_retries_failed_again", 1)
			}
		}
		if !prOK {
			count("regwin_subscribe_errors", 1)
			retry(pr)
		}
		secFailed.Range(func(k, _ any) bool { retry(k.(*subscriber)); return true })
		check()
	}
	for _, sb := range snapshot() {
		cancel(sb)
	}
	stopDone := make(chan struct{})
	stopped = true
	go func() { mgr.Stop(); close(stopDone) }()
	select {
	case <-stopDone:
	case <-time.After(30 * time.Second):
		res.Inconcl("regwin: SubscriptionManager.Stop did not return in 30 s (C11's subject)")
	}
	src.mu.Lock()
	st := src.stats
	src.mu.Unlock()
	count("regwin_sessions", 1)
	count("regwin_changes_placed_right_after_a_backlog_read", int64(st.Placed))
	count("regwin_placed_changes_completed_before_the_registration", int64(st.CompletedInside))
	count("regwin_placed_changes_held_back_by_the_registration", int64(st.HeldBack))
	count("regwin_placed_changes_queued_behind_a_held_back_one", int64(st.Queued))
	count("regwin_placed_changes_outcome_unknown", int64(st.Unsure))
	count("regwin_pause_points_seen", src.points.Load())
	res.Sample = map[string]any{"plan": p, "placement": st, "script_tail": tailOf(s.Steps, 12)}
}

// RegScratch gives a child process that runs sessions of this family a
// scratch directory of its own (the L1 store template lives at a fixed name
// under the scratch root, which scenario children of one run share).
func RegScratch(k int) (cleanup func()) {
	root := l1.Scratch()
	dir := filepath.Join(root, fmt.Sprintf("regwin-%d-%d", k, os.Getpid()))
	if err := os.MkdirAll(dir, 0o755); err != nil {
		return func() {}
	}
	_ = os.Setenv("VERIF_SCRATCH", dir)
	return func() { _ = os.RemoveAll(dir) }
}

func firstLine(s string) string {
	if i := strings.IndexByte(s, '\n'); i >= 0 {
		return s[:i]
	}
	return s
}

func tailOf(s []string, n int) []string {
	if len(s) > n {
		return s[len(s)-n:]
	}
	return s
}
