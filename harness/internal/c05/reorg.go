package c05

import (
	"fmt"
	"time"

	"verif/internal/chaingen"
	"verif/internal/l2"
)

const (
	phaseDone    = iota // phase ran (or was skipped at a point where the scenario can go on)
	phaseBlocked        // a GetCFilter call did not return: leave the client alone
	phaseStopped        // the scenario was ended (client stopped)
)

// switchChain moves every peer to the chain ending in tip, has the connected
// ones announce it, and waits until the client reports tip as its best block
// (block AND filter headers committed up to it).
func (s *state) switchChain(tip *chaingen.Node, ann []*chaingen.Node, style string) bool {
	w := s.w
	for _, p := range w.Peers {
		p.View.SetTip(tip)
	}
	s.d.SetChain(tip)
	for _, p := range w.Peers {
		if p.Conn() == nil || p.Conn().Dead() {
			continue
		}
		if style == "inv" {
			p.AnnounceInv(tip)
		} else {
			p.AnnounceHeaders(ann...)
		}
	}
	ok := l2.WaitFor(45*time.Second, func() bool { return w.SyncedTo(tip) })
	if !ok && style == "inv" {
		s.res.Count("reorg_family/inv_not_followed_up(connecting_headers_sent)", 1)
		// An inv is only followed up when it arrives at the right moment; the
		// connecting headers are the announcement every peer may also send.
		for _, p := range w.Peers {
			if p.Conn() != nil && !p.Conn().Dead() {
				p.AnnounceHeaders(ann...)
			}
		}
		ok = l2.WaitFor(45*time.Second, func() bool { return w.SyncedTo(tip) })
	}
	if ok {
		s.tip, s.trunk = tip, tip.Path()
	}
	return ok
}

// concrete turns the planned calls of a re-org phase round into calls with
// absolute heights on the current chain and labels them by where the target
// lies relative to the last re-org: fork = height of the fork point, oldTip =
// height of the replaced tip (both -1 before the re-org of the phase).
func (s *state) concrete(rd Round, fresh, fork, oldTip int32) Round {
	out := rd
	out.Calls = nil
	tip := s.tip.Height
	for _, c := range rd.Calls {
		switch {
		case c.Twin && s.last != nil && s.last.Height >= 1 && s.last.Height <= tip:
			retries, rep := c.Retries, c.Repeat
			c = *s.last
			c.Twin, c.Rel, c.Retries, c.Repeat = true, false, retries, rep
		case c.Twin:
			c = Call{Twin: true, Height: tip, Batch: "none", Retries: c.Retries}
		default:
			c.Height = tip - c.Back
			if c.Height < 1 {
				c.Height = 1
			}
		}
		h := c.Height
		switch {
		case fork < 0 && h > fresh:
			c.Boundary = "pre-reorg/fresh-block"
		case fork < 0:
			c.Boundary = "pre-reorg/old-block"
		case h == tip && h > oldTip:
			c.Boundary = "reorg/new-tip-above-old"
		case h == tip:
			c.Boundary = "reorg/new-tip-at-replaced-height"
		case h > oldTip:
			c.Boundary = "reorg/above-old-tip"
		case h > fork:
			c.Boundary = "reorg/replaced-height"
		case h == fork:
			c.Boundary = "reorg/fork-point"
		default:
			c.Boundary = "reorg/below-fork"
		}
		if c.Twin {
			c.Boundary += "+same-call-as-before"
		}
		out.Calls = append(out.Calls, c)
	}
	return out
}

// abandon ends the scenario at a point where the client is quiescent.
func (s *state) abandon(why string) int {
	s.res.Inconcl(why)
	_, _ = s.w.StopClient(30 * time.Second)
	return phaseStopped
}

// reorgPhase runs one re-org phase (see ReorgPhase).
func (s *state) reorgPhase(pi int, ph ReorgPhase) int {
	w, res := s.w, s.res
	idx := 2000 + pi*40
	fresh := s.tip.Height

	// 1. Growth: fresh blocks whose filters the client cannot have yet.
	if ph.Grow > 0 {
		ext := w.G.Extend(s.tip, ph.Grow, chaingen.PaceNormal)
		if !s.switchChain(ext[len(ext)-1], ext, "headers") {
			return s.abandon("re-org family: the client did not adopt the honest chain's growth within 90s (C04's subject)")
		}
		res.Count("reorg_family/blocks_grown", int64(ph.Grow))
	}

	// 2. Fetches on the chain that is about to be re-organised.
	for j, rd := range ph.Pre {
		crd := s.concrete(rd, fresh, -1, -1)
		ok, _ := s.runRound(idx+j, crd)
		if !ok {
			return phaseBlocked
		}
		for _, o := range s.outs {
			res.Count("reorg_family/pre_reorg_calls", 1)
			if o == "ok-net" {
				res.Count("reorg_family/pre_reorg_fetches_from_network", 1)
			}
		}
		s.checkCache(fmt.Sprintf("reorg-phase-%d-pre-%d", pi, j), crd)
	}

	// 3. The re-org: the last Depth blocks are replaced by a heavier branch.
	old := s.tip
	depth := int32(ph.Depth)
	if depth > old.Height-2 {
		depth = old.Height - 2
	}
	forkNode := old.Ancestor(old.Height - depth)
	pace := chaingen.PaceNormal
	if ph.Fast {
		pace = chaingen.PaceFast
	}
	branch := w.G.Extend(forkNode, int(depth)+ph.Extra, pace)
	for i := 0; branch[len(branch)-1].CumWork.Cmp(old.CumWork) <= 0; i++ {
		if i >= 24 {
			res.Count("reorg_family/phases_skipped(no_heavier_branch)", 1)
			return phaseDone
		}
		branch = append(branch, w.G.Extend(branch[len(branch)-1], 1, chaingen.PaceNormal)...)
	}
	newTip := branch[len(branch)-1]
	if !s.switchChain(newTip, branch, ph.Announce) {
		return s.abandon("re-org family: the client did not adopt the heavier honest branch within 90s (C04's subject)")
	}
	if v := w.ValidateStored(true); v != "" {
		return s.abandon("re-org family precondition: after the re-org the committed headers are not the true ones of the new branch (C03/C19's subject): " + v)
	}
	// The block and filter headers the client now has committed for the
	// replaced heights are those of the new branch.
	res.Count("reorg_family/reorgs_adopted", 1)
	res.Count(fmt.Sprintf("reorg_family/depth_%d", depth), 1)
	if newTip.Height == old.Height {
		res.Count("reorg_family/reorgs_to_equal_height", 1)
	} else {
		res.Count("reorg_family/reorgs_to_greater_height", 1)
	}
	res.Count("reorg_family/announced_by_"+ph.Announce, 1)
	s.checkCache(fmt.Sprintf("reorg-phase-%d-after-reorg", pi), Round{Pattern: "reorg"})

	// 4. Calls on the new branch.
	for j, rd := range ph.Post {
		crd := s.concrete(rd, fresh, forkNode.Height, old.Height)
		ok, _ := s.runRound(idx+10+j, crd)
		if !ok {
			return phaseBlocked
		}
		for i, o := range s.outs {
			c := crd.Calls[i]
			res.Count("reorg_family/post_reorg_calls", 1)
			if c.Twin {
				res.Count("reorg_family/post_reorg_calls_same_shape_as_last_call_before", 1)
			}
			if c.Height > forkNode.Height {
				res.Count("reorg_family/post_reorg_calls_for_new_branch_blocks", 1)
			}
			switch {
			case o == "ok-net":
				res.Count("reorg_family/post_reorg_fetches_from_network", 1)
			case len(o) >= 3 && o[:3] == "err" && incomplete(crd.Muts) == 0:
				res.Count("reorg_family/post_reorg_errors_with_all_peers_completing", 1)
			}
		}
		s.checkCache(fmt.Sprintf("reorg-phase-%d-post-%d", pi, j), crd)
	}
	return phaseDone
}
