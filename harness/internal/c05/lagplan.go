package c05

import (
	"math/rand"
)

// The lag family: GetCFilter calls for blocks ABOVE the client's committed
// filter-header tip. The block-header chain moves (growth, or a re-org whose
// rollback takes committed filter headers with it) while every peer withholds
// the filter headers of the new blocks, so the client knows blocks for which it
// has no committed filter header. There is nothing such a block's filter could
// be verified against, so whatever the peers answer the call has to fail and
// nothing may be cached or persisted under such a block. What is varied: the
// lag (1-4 blocks, built up in steps), which of the uncommitted blocks is asked
// for, the batching (unbatched; reverse batches that reach down into the
// committed part of the chain; forward batches), and what the peers answer:
// honestly (the block's true filter), by pushing the true filters of all
// uncommitted blocks, or with GENUINE filters of EARLIER blocks under the
// hashes of the blocks asked for (the entry for height x carries the filter of
// block x-j: j = distance to the filter-header tip, j = 1, j = lag, j inside
// the lag, j beyond it; only the target, every uncommitted block or the whole
// range moved down by j; alone or next to the true entry; every peer the same,
// different ones, one honest among them).

// lagSafe keeps reverse batches at least up wide. (Until fix 3c-range, see
// DESIGN 10.2, it also held unbatched and forward calls within two blocks of
// the filter-header tip: further up the client's range arithmetic went
// negative and the header store was asked for a ~4 GiB buffer through a uint32
// wrap-around. That was the harness tiptoeing around a defect of the client;
// the calls now go as far up as the lag reaches and the resource monitor of
// the runner watches the process.)
func lagSafe(c *Call) {
	if c.Batch == "rev" && c.Cap > 0 && c.Cap < int64(c.Up) {
		c.Cap = int64(c.Up)
	}
}

// lagShift draws one shifted answer for a target up blocks above the
// filter-header tip with lag blocks of lag.
func lagShift(r *rand.Rand, up, lag int32) Spec {
	s := Spec{Kind: KLagShift}
	rels := []string{RelToFilterTip, RelToFilterTip, RelToFilterTip, RelToFilterTip, RelOneBelow, RelOneBelow, RelLagDepth, RelLagDepth, RelBelowFilterTip}
	if up > 2 {
		rels = append(rels, RelWithinLag)
	}
	s.Rel = rels[r.Intn(len(rels))]
	s.Pos = []string{"target", "all", "all", "above"}[r.Intn(4)]
	s.Keep = []string{"", "", "", "before", "after"}[r.Intn(5)]
	s.Push = r.Intn(5) == 0
	if r.Intn(5) == 0 {
		s.Order = []string{"shuffle", "reverse"}[r.Intn(2)]
	}
	return s
}

// lagMuts draws what the n peers answer during one call of a lag phase.
func lagMuts(r *rand.Rand, n int, up, lag int32) ([]Spec, string) {
	out := make([]Spec, n)
	x := r.Intn(100)
	switch {
	case x < 50 || (n == 1 && x < 75):
		s := lagShift(r, up, lag)
		for i := range out {
			out[i] = s
		}
		return out, "same-adversary"
	case x < 63:
		h := r.Intn(n)
		for i := range out {
			out[i] = lagShift(r, up, lag)
			if i == h {
				out[i] = Spec{Kind: KHonest}
			}
		}
		return out, "one-honest"
	case x < 78:
		for i := range out {
			switch r.Intn(5) {
			case 0:
				out[i] = Spec{Kind: KLagPush}
			default:
				out[i] = lagShift(r, up, lag)
			}
		}
		return out, "adversaries"
	case x < 92:
		for i := range out {
			out[i] = Spec{Kind: KLagPush}
		}
		return out, "push"
	}
	return honestMuts(n), "honest"
}

// NumFixedLag is the number of seed-independent scenarios of the lag family.
const NumFixedLag = 2

func sameSpec(n int, s Spec) []Spec {
	out := make([]Spec, n)
	for i := range out {
		out[i] = s
	}
	return out
}

// MakeLagPlan derives scenario j of the lag family: j < NumFixedLag are fixed
// scenarios (no dependence on the seed), the others a pure function of
// (seed, j).
func MakeLagPlan(seed int64, j int, quick bool) Plan {
	if j < NumFixedLag {
		return fixedLagPlan(j)
	}
	r := rand.New(rand.NewSource(seed*1_000_003 + int64(j)*32452843 + 80808))
	p := Plan{Seed: seed*1_000_003 + 700_000 + int64(j), K: j, RestartAfter: -1, Family: "lag"}
	p.Preset = r.Intn(3)
	p.Interval = 4 + r.Intn(13)
	switch r.Intn(5) {
	case 0:
		p.ChainLen = 997 + r.Intn(6) // the lag straddles the first filter-header checkpoint interval
	case 1:
		p.ChainLen = 300 + r.Intn(500)
	default:
		p.ChainLen = 70 + r.Intn(180)
	}
	p.NPeers = []int{1, 2, 2, 2, 3, 3}[r.Intn(6)]
	p.Persist = r.Intn(3) != 0
	p.SmallCache = r.Intn(5) == 0
	p.Rounds = []Round{{Pattern: "honest", Muts: honestMuts(p.NPeers),
		Calls: []Call{{Height: 3 + int32(r.Intn(p.ChainLen-12)), Batch: "fwd", Cap: int64(2 + r.Intn(6)), Boundary: "rand"}}}}
	if r.Intn(2) == 0 {
		// The filters just below the tip are fetched (cached, persisted) before
		// the lag begins: reverse batches of the lag phase then ask again for
		// blocks the client already holds verified filters of.
		p.Rounds = append(p.Rounds, Round{Pattern: "honest", Muts: honestMuts(p.NPeers),
			Calls: []Call{{Height: int32(p.ChainLen), Batch: "rev", Cap: int64(2 + r.Intn(8)), Boundary: "tip"}}})
	}
	budget := 13.0
	if !quick {
		budget = 24.0
	}
	nsteps := 1 + r.Intn(3)
	lag := int32(0)  // blocks without committed filter header after the step
	reorged := false // one rollback-shaped step at most
	for i := 0; i < nsteps && budget >= 2; i++ {
		st := LagStep{}
		if !reorged && i > 0 && r.Intn(3) == 0 {
			// The re-org replaces uncommitted blocks only, or reaches below the
			// filter-header tip (then committed filter headers are rolled back).
			st.Depth = 1 + r.Intn(int(lag)+2)
			if st.Depth > 4 {
				st.Depth = 4
			}
			st.Extra = r.Intn(2)
			if st.Depth+st.Extra > 4 {
				st.Extra = 0
			}
			reorged = true
			if int32(st.Depth) > lag {
				lag = 0
			} else {
				lag -= int32(st.Depth)
			}
			lag += int32(st.Depth + st.Extra)
		} else {
			st.Grow = 1 + r.Intn(2)
			if lag+int32(st.Grow) > 4 {
				st.Grow = 1
			}
			lag += int32(st.Grow)
		}
		ncalls := 1 + r.Intn(3)
		for c := 0; c < ncalls && budget >= 2; c++ {
			call := Call{Retries: 1, Boundary: "above-filter-tip"}
			call.Up = 1 + int32(r.Intn(int(lag)))
			if r.Intn(3) == 0 {
				call.Up = lag
			}
			call.Batch = []string{"none", "none", "none", "rev", "rev", "rev", "fwd"}[r.Intn(7)]
			switch {
			case call.Batch == "none" && r.Intn(6) == 0:
				call.Cap = int64(1 + r.Intn(20))
			case call.Batch == "none":
			default:
				switch r.Intn(4) {
				case 0:
					call.Cap = 0 // uncapped: down to block 1 or 1000 blocks
				case 1:
					call.Cap = int64(call.Up) + int64(r.Intn(3))
				default:
					call.Cap = int64(call.Up) + int64(2+r.Intn(30))
				}
			}
			lagSafe(&call)
			muts, pat := lagMuts(r, p.NPeers, call.Up, lag)
			cost := 2.0
			if p.NPeers > 1 && (pat == "one-honest" || pat == "adversaries") && budget >= 8 {
				// two tries, so that a second peer's answer is seen as well
				call.Retries, cost = 2, 6.0
			}
			budget -= cost
			p.BudgetS += cost
			st.Calls = append(st.Calls, call)
			st.Muts = append(st.Muts, muts)
		}
		p.LagSteps = append(p.LagSteps, st)
	}
	return p
}

// fixedLagPlan: the seed-independent scenarios. Scenario 0 reaches, by
// construction, "lag of one block, unbatched GetCFilter for the new block,
// every peer answers with the genuine filter of the tip block (the last block
// with a committed filter header) under the new block's hash", then the same
// through a reverse batch with the whole range moved down, then with a lag of
// two. Scenario 1: a lag across the first filter-header checkpoint interval,
// then a re-org that rolls committed filter headers back.
func fixedLagPlan(j int) Plan {
	p := Plan{Seed: 6_060_606 + int64(j), K: j, RestartAfter: -1, Family: "lag", Fixed: true}
	shift := func(rel, pos, keep string) Spec { return Spec{Kind: KLagShift, Rel: rel, Pos: pos, Keep: keep} }
	above := func(up int32, batch string, cp int64) Call {
		return Call{Up: up, Batch: batch, Cap: cp, Retries: 1, Boundary: "above-filter-tip"}
	}
	switch j {
	case 0:
		p.Preset, p.Interval, p.ChainLen, p.NPeers, p.Persist = 0, 8, 120, 2, true
		p.Rounds = []Round{
			{Pattern: "honest", Muts: honestMuts(2), Calls: []Call{{Height: 40, Batch: "fwd", Cap: 4, Boundary: "rand"}}},
			{Pattern: "honest", Muts: honestMuts(2), Calls: []Call{{Height: 120, Batch: "rev", Cap: 3, Boundary: "tip"}}},
		}
		p.LagSteps = []LagStep{
			{Grow: 1,
				Calls: []Call{above(1, "none", 0), above(1, "rev", 4), above(1, "none", 0)},
				Muts: [][]Spec{
					sameSpec(2, shift(RelToFilterTip, "target", "")),
					sameSpec(2, shift(RelToFilterTip, "all", "")),
					sameSpec(2, Spec{Kind: KHonest}),
				}},
			{Grow: 1,
				Calls: []Call{above(2, "none", 0), above(2, "rev", 5), above(1, "none", 0), above(2, "none", 0)},
				Muts: [][]Spec{
					sameSpec(2, shift(RelToFilterTip, "target", "")),
					sameSpec(2, shift(RelLagDepth, "all", "")),
					sameSpec(2, shift(RelOneBelow, "above", "after")),
					sameSpec(2, shift(RelOneBelow, "target", "before")),
				}},
		}
		p.BudgetS = 14
	default:
		p.Preset, p.Interval, p.ChainLen, p.NPeers, p.Persist = 1, 6, 999, 1, false
		p.Rounds = []Round{{Pattern: "honest", Muts: honestMuts(1), Calls: []Call{{Height: 500, Batch: "fwd", Cap: 3, Boundary: "rand"}}}}
		p.LagSteps = []LagStep{
			{Grow: 2,
				Calls: []Call{above(2, "rev", 0), above(1, "none", 7)},
				Muts: [][]Spec{
					sameSpec(1, shift(RelToFilterTip, "all", "")),
					sameSpec(1, Spec{Kind: KLagShift, Rel: RelToFilterTip, Pos: "target", Push: true, Order: "reverse"}),
				}},
			{Depth: 3, Extra: 1, // two uncommitted blocks and the committed tip block are replaced
				// The last two: unbatched and forward calls for blocks at the far
				// end of the lag (start height of the range 3-4 above the
				// filter-header tip the stop height is limited to).
				Calls: []Call{above(1, "none", 0), above(4, "rev", 6), above(2, "none", 0), above(4, "none", 0), above(3, "fwd", 5)},
				Muts: [][]Spec{
					sameSpec(1, shift(RelToFilterTip, "target", "")),
					sameSpec(1, shift(RelToFilterTip, "all", "")),
					sameSpec(1, shift(RelBelowFilterTip, "above", "after")),
					sameSpec(1, shift(RelToFilterTip, "target", "")),
					sameSpec(1, Spec{Kind: KHonest}),
				}},
		}
		p.BudgetS = 10
	}
	return p
}
