package c05

import (
	"math/rand"
)

// The re-org family: GetCFilter calls before and after a re-organisation of
// the honest chain. What is varied: how many fresh blocks are fetched before
// (so that the fetch goes to the network), the batching of the fetches, the
// depth of the re-org and whether the new branch ends at the same or a greater
// height, how the new branch is announced, and what the peers answer when
// asked for the filters of the new branch (honestly; with the valid filters of
// the REPLACED blocks under the new blocks' hashes; any other mutation).

func honestMuts(n int) []Spec {
	out := make([]Spec, n)
	for i := range out {
		out[i] = Spec{Kind: KHonest}
	}
	return out
}

func staleSpec(r *rand.Rand) Spec {
	if r.Intn(2) == 0 {
		s := Spec{Kind: KStaleBranch}
		if r.Intn(4) == 0 {
			s.Order = []string{"shuffle", "reverse"}[r.Intn(2)]
		}
		return s
	}
	return Spec{Kind: KCorrupt, Pos: "target", Corr: COldBranch, Keep: []string{"", "", "before", "after"}[r.Intn(4)]}
}

// reorgMuts draws the peers' behaviour for a round on the new branch.
func reorgMuts(r *rand.Rand, n int) ([]Spec, string) {
	out := make([]Spec, n)
	x := r.Intn(100)
	switch {
	case x < 40:
		s := staleSpec(r)
		for i := range out {
			out[i] = s
		}
		return out, "same-adversary"
	case x < 58 && n > 1:
		h := r.Intn(n)
		for i := range out {
			if i == h {
				out[i] = Spec{Kind: KHonest}
			} else {
				out[i] = staleSpec(r)
			}
		}
		return out, "one-honest"
	case x < 72:
		return honestMuts(n), "honest"
	}
	pat := "adversaries"
	for i := range out {
		out[i] = randSpec(r, false)
	}
	if n == 1 {
		pat = "same-adversary"
	}
	return out, pat
}

// settleReorg picks the retry option of a round within the phase's budget of
// forced worker timeouts; what cannot be paid is made completing.
func settleReorg(r *rand.Rand, rd *Round, n int, budget *float64) {
	b := incomplete(rd.Muts)
	if b == 0 {
		return
	}
	choices := []int{1, 1, 2, 3}
	r.Shuffle(len(choices), func(i, j int) { choices[i], choices[j] = choices[j], choices[i] })
	for _, R := range choices {
		cost := callCost(b, n, R) * float64(len(rd.Calls))
		if cost <= *budget {
			*budget -= cost
			for i := range rd.Calls {
				rd.Calls[i].Retries = R
			}
			return
		}
	}
	for i := range rd.Muts {
		if rd.Muts[i].Completes() {
			continue
		}
		if rd.Muts[i].Kind == KStaleBranch || (rd.Muts[i].Kind == KCorrupt && rd.Muts[i].Corr == COldBranch) {
			rd.Muts[i] = Spec{Kind: KCorrupt, Pos: "target", Corr: COldBranch, Keep: []string{"before", "after"}[r.Intn(2)]}
		} else {
			rd.Muts[i] = randSpec(r, true)
		}
	}
}

func smallBatch(r *rand.Rand, back int32) (string, int64) {
	switch r.Intn(20) {
	case 0, 1, 2, 3, 4, 5, 6:
		return "none", 0
	case 7, 8, 9, 10, 11, 12, 13:
		cp := int64(1 + r.Intn(3))
		switch r.Intn(4) {
		case 0:
			cp = int64(4 + r.Intn(30))
		case 1:
			cp = 0 // uncapped: down to block 1 or 1000 blocks
			if r.Intn(3) != 0 {
				cp = int64(40 + r.Intn(100))
			}
		}
		return "rev", cp
	}
	// Forward: mostly ending at or below the block the call is issued for plus
	// what lies between it and the tip, sometimes reaching beyond the tip (then
	// the range ends at the tip, whatever its height is).
	cp := int64(1 + r.Intn(int(back)+1))
	if r.Intn(3) == 0 {
		cp = int64(back) + 1 + int64(r.Intn(8))
	}
	return "fwd", cp
}

// genPhase draws one re-org phase for n peers.
func genPhase(r *rand.Rand, n int, budget *float64) ReorgPhase {
	ph := ReorgPhase{}
	ph.Grow = []int{0, 1, 1, 1, 1, 2, 2, 3, 3, 1}[r.Intn(10)]
	ph.Depth = []int{1, 1, 1, 1, 2, 2, 3, 3, 4, 5, 6, 1}[r.Intn(12)]
	ph.Extra = []int{0, 0, 0, 1, 1, 1, 1, 1, 2, 3}[r.Intn(10)]
	ph.Fast = ph.Extra == 0 || r.Intn(3) == 0
	ph.Announce = []string{"headers", "headers", "headers", "inv"}[r.Intn(4)]

	// Fetches on the chain that is about to be re-organised. The target is
	// mostly one of the fresh blocks that the re-org will replace.
	npre := []int{1, 1, 1, 1, 1, 1, 2, 2, 2, 0}[r.Intn(10)]
	for i := 0; i < npre; i++ {
		rd := Round{Pattern: "pre-reorg", Muts: honestMuts(n)}
		if r.Intn(5) < 2 {
			for j := range rd.Muts {
				rd.Muts[j] = randSpec(r, true)
			}
		}
		lim := ph.Grow
		if ph.Depth < lim {
			lim = ph.Depth
		}
		if lim < 1 {
			lim = 1
		}
		back := int32(r.Intn(lim))
		if r.Intn(6) == 0 {
			back = int32(r.Intn(ph.Depth + 3))
		}
		mode, cp := smallBatch(r, back)
		rd.Calls = []Call{{Rel: true, Back: back, Batch: mode, Cap: cp}}
		ph.Pre = append(ph.Pre, rd)
	}

	// Calls on the new branch. The first one mostly has the shape of the last
	// call before the re-org.
	npost := 1 + r.Intn(3)
	for i := 0; i < npost; i++ {
		rd := Round{}
		rd.Muts, rd.Pattern = reorgMuts(r, n)
		rd.Pattern = "post-reorg:" + rd.Pattern
		var c Call
		if i == 0 && r.Intn(8) != 0 {
			c = Call{Twin: true}
		} else {
			back := int32(r.Intn(ph.Depth + ph.Extra + 3))
			mode, cp := smallBatch(r, back)
			c = Call{Rel: true, Back: back, Batch: mode, Cap: cp}
		}
		rd.Calls = []Call{c}
		if r.Intn(7) == 0 {
			// a second, concurrent caller for a neighbouring block
			back := c.Back + int32(r.Intn(3))
			mode, cp := smallBatch(r, back)
			rd.Calls = append(rd.Calls, Call{Rel: true, Back: back, Batch: mode, Cap: cp})
			rd.Concurrent = true
		}
		settleReorg(r, &rd, n, budget)
		ph.Post = append(ph.Post, rd)
		if incomplete(rd.Muts) > 0 && r.Intn(2) == 0 {
			// The same question again with honest answers (cache / database /
			// network, whatever the earlier call left behind).
			ph.Post = append(ph.Post, Round{Pattern: "post-reorg:honest", Muts: honestMuts(n),
				Calls: []Call{{Twin: true, Repeat: true}}})
		}
	}
	return ph
}

// NumFixedReorg is the number of seed-independent scenarios of the family.
const NumFixedReorg = 2

// MakeReorgPlan derives scenario j of the re-org family: j < NumFixedReorg are
// fixed scenarios (no dependence on the seed), the others a pure function of
// (seed, j).
func MakeReorgPlan(seed int64, j int, quick bool) Plan {
	if j < NumFixedReorg {
		return fixedReorgPlan(j)
	}
	r := rand.New(rand.NewSource(seed*1_000_003 + int64(j)*15485863 + 60606))
	p := Plan{Seed: seed*1_000_003 + 500_000 + int64(j), K: j, RestartAfter: -1, Family: "reorg"}
	p.Preset = r.Intn(3)
	p.Interval = 4 + r.Intn(13)
	switch r.Intn(4) {
	case 0:
		p.ChainLen = 998 + r.Intn(6) // the re-orgs happen around the first filter-header checkpoint
	case 1:
		p.ChainLen = 300 + r.Intn(500)
	default:
		p.ChainLen = 90 + r.Intn(160)
	}
	p.NPeers = []int{1, 2, 2, 2, 3, 3}[r.Intn(6)]
	p.Persist = r.Intn(2) == 0
	p.SmallCache = r.Intn(4) == 0
	p.Unsolicited = r.Intn(3) == 0
	p.Rounds = []Round{{Pattern: "honest", Muts: honestMuts(p.NPeers),
		Calls: []Call{{Height: 3 + int32(r.Intn(p.ChainLen-reorgReserve)), Batch: "fwd", Cap: int64(2 + r.Intn(6)), Boundary: "rand"}}}}
	nph := 2 + r.Intn(3)
	if !quick {
		nph = 3 + r.Intn(4)
	}
	budget := 9.0
	if !quick {
		budget = 14.0
	}
	start := budget
	for i := 0; i < nph; i++ {
		ph := genPhase(r, p.NPeers, &budget)
		p.Reorgs = append(p.Reorgs, ph)
	}
	p.BudgetS = start - budget
	if r.Intn(3) == 0 {
		p.RestartAfter = 0 // the phases run on a restarted client (After = 0: after the restart)
	}
	return p
}

// fixedReorgPlan: the seed-independent scenarios. Each reaches, by
// construction, the shape "network fetch of a filter, re-org replacing that
// block, the same fetch again on the new branch while every peer answers with
// the replaced blocks' valid filters": unbatched at the tip with a one-block
// re-org; reverse and forward batches over a deeper re-org ending at a greater
// height.
func fixedReorgPlan(j int) Plan {
	p := Plan{Seed: 5_050_505 + int64(j), K: j, RestartAfter: -1, Family: "reorg", Fixed: true}
	stale := func(n int, s Spec) []Spec {
		out := make([]Spec, n)
		for i := range out {
			out[i] = s
		}
		return out
	}
	switch j {
	case 0:
		p.Preset, p.Interval, p.ChainLen, p.NPeers, p.Persist = 0, 8, 120, 2, true
		p.Rounds = []Round{{Pattern: "honest", Muts: honestMuts(2), Calls: []Call{{Height: 40, Batch: "fwd", Cap: 4, Boundary: "rand"}}}}
		p.Reorgs = []ReorgPhase{
			{ // unbatched fetch of the fresh tip, one-block re-org of it, the same fetch again
				Grow: 1, Depth: 1, Extra: 1, Announce: "headers",
				Pre: []Round{{Pattern: "pre-reorg", Muts: honestMuts(2), Calls: []Call{{Rel: true, Back: 0, Batch: "none"}}}},
				Post: []Round{
					{Pattern: "post-reorg:same-adversary", Muts: stale(2, Spec{Kind: KStaleBranch}), Calls: []Call{{Twin: true, Retries: 1}}},
					{Pattern: "post-reorg:honest", Muts: honestMuts(2), Calls: []Call{{Twin: true, Repeat: true}}},
				},
			},
			{ // reverse batch over three fresh blocks, all three replaced
				Grow: 3, Depth: 3, Extra: 1, Announce: "headers",
				Pre: []Round{{Pattern: "pre-reorg", Muts: honestMuts(2), Calls: []Call{{Rel: true, Back: 0, Batch: "rev", Cap: 5}}}},
				Post: []Round{
					{Pattern: "post-reorg:same-adversary", Muts: stale(2, Spec{Kind: KStaleBranch}), Calls: []Call{{Twin: true, Retries: 1}}},
					{Pattern: "post-reorg:honest", Muts: honestMuts(2), Calls: []Call{{Rel: true, Back: 1, Batch: "fwd", Cap: 2}}},
				},
			},
		}
		p.BudgetS = 4
	default:
		p.Preset, p.Interval, p.ChainLen, p.NPeers, p.Persist = 1, 6, 1001, 1, false
		p.Rounds = []Round{{Pattern: "honest", Muts: honestMuts(1), Calls: []Call{{Height: 500, Batch: "fwd", Cap: 3, Boundary: "rand"}}}}
		p.Reorgs = []ReorgPhase{
			{ // forward batch from a fresh block, ending below the old tip; re-org from below it
				Grow: 2, Depth: 4, Extra: 1, Announce: "inv",
				Pre: []Round{{Pattern: "pre-reorg", Muts: honestMuts(1), Calls: []Call{{Rel: true, Back: 1, Batch: "fwd", Cap: 2}}}},
				Post: []Round{
					{Pattern: "post-reorg:same-adversary", Muts: stale(1, Spec{Kind: KCorrupt, Pos: "target", Corr: COldBranch}), Calls: []Call{{Twin: true, Retries: 1}}},
					{Pattern: "post-reorg:honest", Muts: honestMuts(1), Calls: []Call{{Twin: true, Repeat: true}}},
				},
			},
			{ // no fetch in between: the re-org follows the previous phase's last call; equal height if heavier
				Grow: 0, Depth: 3, Extra: 0, Fast: true, Announce: "headers",
				Post: []Round{
					{Pattern: "post-reorg:same-adversary", Muts: stale(1, Spec{Kind: KStaleBranch}), Calls: []Call{{Twin: true, Retries: 1}}},
					{Pattern: "post-reorg:honest", Muts: honestMuts(1), Calls: []Call{{Rel: true, Back: 0, Batch: "rev", Cap: 3}}},
				},
			},
		}
		p.BudgetS = 4
	}
	return p
}
