package c05

import (
	"fmt"
	"math/rand"

	"verif/internal/netsim"
)

// The header-reset family: the COMMITTED filter headers change underneath
// filters that were persisted earlier.
//
// Generation 1: the client's only peer is a consistent filter liar (a false
// filter hash for block L and the matching false filter: an output script of
// the block left out, or an element added). Nobody contradicts it, so its
// false filter headers are committed from L on (the listed "lone liar"
// finding; not this family's subject). The application calls GetCFilter for
// block L and for blocks above / below it, batched and unbatched: everything
// returned verifies against the (false) committed headers, is cached and, with
// PersistToDisk, written to the filter database. Stop.
//
// Generation 2: the client is restarted on the same data directory with the
// operator's remedy for exactly that situation, Config.AssertFilterHeader
// {height a, the TRUE filter header at a}, and honest peers only. For
// L <= a <= stored tip the stored header at a differs: the client throws its
// filter header store away and syncs the true headers. (a < L: the assertion
// holds, nothing is reset; a above the stored tip: nothing can be asserted.)
// Then GetCFilter is called for L, for blocks above L (whose TRUE filters were
// persisted in generation 1, verified against false headers: they verify
// against the true ones as well) and for blocks below L.
//
// The oracle is the property's, unchanged in kind: every filter returned,
// every cache entry, and (after Stop) every database entry the client can
// still serve verifies against the filter headers committed AT THAT TIME.

// Relations of the asserted height a to the lied-about block L and the tip.
const (
	AssertAtLie    = "at-lie"    // a == L: reset
	AssertAboveLie = "above-lie" // L < a < tip: reset
	AssertAtTip    = "at-tip"    // a == tip (>= L): reset
	AssertBelowLie = "below-lie" // a < L: the stored header at a is the true one, nothing is reset
	AssertAboveTip = "above-tip" // a > stored tip: there is no stored header to compare, nothing is reset
)

// NumFixedReset is the number of seed-independent scenarios of the family.
const NumFixedReset = 1

// ResetPlan is one scenario of the header-reset family: a pure function of
// (seed, j), or of j alone for j < NumFixedReset.
type ResetPlan struct {
	Seed       int64
	J          int
	Fixed      bool `json:",omitempty"`
	Preset     int
	Interval   int
	ChainLen   int
	LieKind    string // netsim.LieOmitScript | netsim.LieExtraElem
	L          int32  // the block the liar lies about
	Assert     string // relation of A to L and the tip
	A          int32  // asserted height of generation 2
	SmallCache bool   // 700-byte filter cache: batches evict
	Honest     int    // honest peers of generation 2
	Gen1       []Call // Boundary = relation of the target to L
	Gen2       []Call
}

// Resets reports whether the plan's assertion contradicts what a client that
// believed the liar has stored.
func (p ResetPlan) Resets() bool {
	return p.Assert == AssertAtLie || p.Assert == AssertAboveLie || p.Assert == AssertAtTip
}

func relToLie(h, l int32) string {
	switch {
	case h == l:
		return "lied-block"
	case h > l:
		return "above-lie"
	}
	return "below-lie"
}

func lieClass(l int32, chain int) string {
	switch {
	case l <= 2:
		return "first-blocks"
	case int(l) == chain:
		return "tip"
	case int(l) == chain-1:
		return "tip-1"
	}
	return "middle"
}

// Describe is the scenario-level fingerprint.
func (p ResetPlan) Describe() string {
	lieFetched := false
	for _, c := range p.Gen1 {
		lo, hi := resetSpan(c, int32(p.ChainLen))
		if p.L >= lo && p.L <= hi {
			lieFetched = true
		}
	}
	return fmt.Sprintf("family=reset lie=%s at=%s assert=%s smallcache=%v gen1-fetches-lied-block=%v honest=%d",
		p.LieKind, lieClass(p.L, p.ChainLen), p.Assert, p.SmallCache, lieFetched, p.Honest)
}

// resetSpan is the height range a call asks the peers for.
func resetSpan(c Call, tip int32) (int32, int32) {
	size := int32(1000)
	if c.Cap > 0 && c.Cap < 1000 {
		size = int32(c.Cap)
	}
	lo, hi := c.Height, c.Height
	switch c.Batch {
	case "fwd":
		hi = lo + size - 1
	case "rev":
		lo = hi - size + 1
	}
	if lo < 1 {
		lo = 1
	}
	if hi > tip {
		hi = tip
	}
	return lo, hi
}

func resetCall(h int32, batch string, cp int64, l int32) Call {
	return Call{Height: h, Batch: batch, Cap: cp, Boundary: relToLie(h, l)}
}

// MakeResetPlan derives scenario j of the header-reset family.
func MakeResetPlan(seed int64, j int, quick bool) ResetPlan {
	if j < NumFixedReset {
		return fixedResetPlan(j)
	}
	r := rand.New(rand.NewSource(seed*1_000_003 + int64(j)*15485863 + 90909))
	p := ResetPlan{Seed: seed*1_000_003 + 900_000 + int64(j), J: j}
	p.Preset = r.Intn(3)
	p.Interval = 4 + r.Intn(13)
	p.ChainLen = 90 + r.Intn(161)
	tip := int32(p.ChainLen)
	p.LieKind = []string{netsim.LieOmitScript, netsim.LieExtraElem}[r.Intn(2)]
	switch x := r.Intn(10); {
	case x == 0:
		p.L = tip
	case x == 1:
		p.L = tip - 1
	case x == 2:
		p.L = 1 + int32(r.Intn(2))
	default:
		p.L = 5 + int32(r.Intn(p.ChainLen-12))
	}
	p.SmallCache = r.Intn(2) == 0
	p.Honest = 1 + r.Intn(2)
	// The relation of the assertion cycles with j, so that any five seeded
	// scenarios in a row cover all of them.
	p.Assert = []string{AssertAtTip, AssertAboveLie, AssertBelowLie, AssertAtLie, AssertAboveTip}[j%5]
	if p.Assert == AssertAboveLie && p.L >= tip-1 {
		p.Assert = AssertAtTip
	}
	switch p.Assert {
	case AssertAtLie:
		p.A = p.L
	case AssertAboveLie:
		p.A = p.L + 1 + int32(r.Intn(int(tip-p.L-1)))
	case AssertAtTip:
		p.A = tip
	case AssertBelowLie:
		p.A = int32(r.Intn(int(p.L))) // 0 .. L-1 (0: the genesis filter header)
	case AssertAboveTip:
		p.A = tip + 1 + int32(r.Intn(50))
	}

	anyBatch := func() (string, int64) {
		switch r.Intn(5) {
		case 0, 1:
			return "none", 0
		case 2:
			return "fwd", int64(1 + r.Intn(12))
		case 3:
			return "rev", int64(1 + r.Intn(12))
		}
		if r.Intn(4) == 0 {
			return []string{"fwd", "rev"}[r.Intn(2)], 0 // uncapped: to the tip / down to block 1
		}
		return []string{"fwd", "rev"}[r.Intn(2)], int64(13 + r.Intn(40))
	}
	randHeight := func() int32 { return 1 + int32(r.Intn(p.ChainLen)) }
	near := func() int32 {
		h := p.L - 6 + int32(r.Intn(13))
		if h < 1 {
			h = 1
		}
		if h > tip {
			h = tip
		}
		return h
	}

	// Generation 1: 3-7 calls; in 6 of 7 scenarios one of them makes the liar's
	// false filter of block L pass through the client (as the target, or as
	// another block of a batch), first or later.
	var persisted [][2]int32
	n1 := 3 + r.Intn(5)
	lieAt := -1
	if r.Intn(7) != 0 {
		lieAt = r.Intn(n1)
		if r.Intn(2) == 0 {
			lieAt = 0
		}
	}
	for i := 0; i < n1; i++ {
		var c Call
		switch {
		case i == lieAt:
			b, cp := anyBatch()
			c = resetCall(p.L, b, cp, p.L)
			if b != "none" && cp > 2 && r.Intn(3) == 0 {
				// L inside the range, another block the target
				off := int32(1 + r.Intn(int(cp)-1))
				h := p.L + off
				if b == "fwd" {
					h = p.L - off
				}
				if h >= 1 && h <= tip {
					c = resetCall(h, b, cp, p.L)
				}
			}
		case r.Intn(3) == 0:
			b, cp := anyBatch()
			c = resetCall(near(), b, cp, p.L)
			if lieAt < 0 || i < lieAt {
				// keep L out of reach until its own call (or for good)
				if lo, hi := resetSpan(c, tip); p.L >= lo && p.L <= hi {
					c = resetCall(c.Height, "none", 0, p.L)
					if c.Height == p.L {
						c = resetCall(randHeightAvoiding(r, p.ChainLen, p.L), "none", 0, p.L)
					}
				}
			}
		default:
			b, cp := anyBatch()
			c = resetCall(randHeight(), b, cp, p.L)
			if lieAt < 0 || i < lieAt {
				if lo, hi := resetSpan(c, tip); p.L >= lo && p.L <= hi {
					c = resetCall(randHeightAvoiding(r, p.ChainLen, p.L), "none", 0, p.L)
				}
			}
		}
		if i > 0 && r.Intn(6) == 0 {
			c = p.Gen1[r.Intn(len(p.Gen1))] // asked again: the cache path of generation 1
			c.Repeat = true
		}
		p.Gen1 = append(p.Gen1, c)
		lo, hi := resetSpan(c, tip)
		persisted = append(persisted, [2]int32{lo, hi})
	}

	// Generation 2: 4-8 calls. Mostly the lied-about block first (asked for
	// again later as well), blocks persisted in generation 1 (database hits),
	// and blocks that were not (network; their batches may fetch the block L
	// anew and overwrite what the database holds for it).
	n2 := 4 + r.Intn(5)
	fromGen1 := func() int32 {
		iv := persisted[r.Intn(len(persisted))]
		return iv[0] + int32(r.Intn(int(iv[1]-iv[0])+1))
	}
	for i := 0; i < n2; i++ {
		b, cp := anyBatch()
		var h int32
		switch x := r.Intn(10); {
		case i == 0 && x < 7, i > 0 && x < 2:
			h = p.L
		case x < 6:
			h = fromGen1()
		case x < 8:
			h = near()
		default:
			h = randHeight()
		}
		c := resetCall(h, b, cp, p.L)
		// Generation 2's peers are honest; where nothing was reset they cannot
		// satisfy the client about block L (their true filter does not match the
		// false committed header), so a fetch that needs it costs worker
		// timeouts: one try there, two elsewhere.
		c.Retries = 2
		if !p.Resets() {
			c.Retries = 1
		}
		p.Gen2 = append(p.Gen2, c)
	}
	return p
}

func randHeightAvoiding(r *rand.Rand, chain int, avoid int32) int32 {
	for {
		if h := 1 + int32(r.Intn(chain)); h != avoid {
			return h
		}
	}
}

// fixedResetPlan: the seed-independent scenario. A chain of 150 blocks; the
// lone liar leaves an output script of block 60 out of its filter; generation
// 1 fetches block 60 unbatched (network, then cache), batches above and below
// it, block 100 and the tip; generation 2 asserts the true filter header at
// height 100 (the store is reset and re-synced from two honest peers) and asks
// for block 60 first, unbatched: the database path, by construction. No call of
// generation 2 fetches block 60 from the network, so what the database holds
// for it at the end is what generation 1 wrote.
func fixedResetPlan(j int) ResetPlan {
	const l = 60
	p := ResetPlan{Seed: 9_090_909 + int64(j), J: j, Fixed: true, Preset: 0, Interval: 8, ChainLen: 150,
		LieKind: netsim.LieOmitScript, L: l, Assert: AssertAboveLie, A: 100, SmallCache: true, Honest: 2}
	p.Gen1 = []Call{
		resetCall(60, "none", 0, l),
		resetCall(60, "none", 0, l),
		resetCall(70, "fwd", 4, l),
		resetCall(58, "rev", 4, l),
		resetCall(100, "none", 0, l),
		resetCall(150, "rev", 3, l),
	}
	p.Gen1[1].Repeat = true
	p.Gen2 = []Call{
		resetCall(60, "none", 0, l),
		resetCall(60, "rev", 3, l),
		resetCall(71, "none", 0, l),
		resetCall(56, "none", 0, l),
		resetCall(100, "none", 0, l),
		resetCall(90, "fwd", 5, l),
		resetCall(20, "none", 0, l),
		resetCall(61, "none", 0, l),
	}
	for i := range p.Gen2 {
		p.Gen2[i].Retries = 2
	}
	return p
}
