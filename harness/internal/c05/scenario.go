package c05

import (
	"bytes"
	"fmt"
	"math/rand"
	"strings"
	"sync"
	"time"

	"github.com/btcsuite/btcd/btcutil/v2/gcs"
	"github.com/btcsuite/btcd/btcutil/v2/gcs/builder"
	"github.com/btcsuite/btcd/chainhash/v2"
	"github.com/btcsuite/btcd/wire/v2"
	"github.com/btcsuite/btcwallet/walletdb"
	"github.com/lightninglabs/neutrino"
	"github.com/lightninglabs/neutrino/filterdb"

	"verif/internal/chaingen"
	"verif/internal/evid"
	"verif/internal/l2"
	"verif/internal/netsim"
)

// Scenario returns the scenario function for l2.Main / l2.RunScenarios: the
// mutation-script scenarios only.
func Scenario(quick bool) l2.ScenarioFunc {
	return func(seed int64, k int, res *l2.Result) { Run(seed, k, quick, res) }
}

// Scenarios returns the scenario function of the whole case list: scenarios
// 0..nBase-1 are the mutation-script scenarios (some with a re-org phase woven
// in), scenarios nBase..nBase+nReorg-1 are the re-org family (the first
// NumFixedReorg of them do not depend on the seed), the scenarios after them
// the lag family (the first NumFixedLag do not depend on the seed).
func Scenarios(quick bool, nBase, nReorg int) l2.ScenarioFunc {
	return func(seed int64, k int, res *l2.Result) {
		switch {
		case k < nBase:
			Run(seed, k, quick, res)
		case k < nBase+nReorg:
			RunPlan(MakeReorgPlan(seed, k-nBase, quick), fmt.Sprintf("c05-reorg-%d", k-nBase), res)
		default:
			j := k - nBase - nReorg
			RunPlan(MakeLagPlan(seed, j, quick), fmt.Sprintf("c05-lag-%d", j), res)
		}
	}
}

type callResult struct {
	f   *gcs.Filter
	err error
	dur time.Duration
}

type state struct {
	plan    Plan
	w       *l2.World
	d       *Director
	res     *l2.Result
	tip     *chaingen.Node
	trunk   []*chaingen.Node
	opts    l2.ClientOpts
	cached  map[chainhash.Hash]bool // cache contents at the last check
	inDB    map[chainhash.Hash]bool // blocks found persisted at the last database check
	last    *Call                   // the most recent call issued (absolute height)
	outs    []string                // outcomes of the calls of the last round
	restart bool                    // a restart happened
	vio     map[string]int
	calls   []string
	badSeen map[chainhash.Hash]bool // cache entries already reported
}

func (s *state) violate(sig, what string, wit map[string]any) {
	s.vio[sig]++
	if s.vio[sig] > 2 { // a broken client repeats itself: two witnesses per signature per scenario
		return
	}
	wit["recent_peer_sends"] = s.d.Recent()
	wit["event_log_tail"] = s.w.Log.Tail(40)
	wit["plan_header"] = map[string]any{"chain": s.plan.ChainLen, "peers": s.plan.NPeers, "persist": s.plan.Persist,
		"small_cache": s.plan.SmallCache, "unsolicited": s.plan.Unsolicited, "restart_after_round": s.plan.RestartAfter,
		"seed": s.plan.Seed, "k": s.plan.K}
	s.res.Violate(sig, what, wit)
}

func (s *state) vioTotal() int {
	n := 0
	for _, v := range s.vio {
		n += v
	}
	return n
}

// verify checks a filter against the COMMITTED filter headers (as read from
// the client's store at check time) and against the generator's ground truth.
// It returns "" or the reason.
func verify(f *gcs.Filter, n *chaingen.Node, committed []chainhash.Hash) string {
	if f == nil {
		return "nil filter"
	}
	h := int(n.Height)
	if h >= len(committed) {
		return fmt.Sprintf("no committed filter header at height %d", h)
	}
	var prev chainhash.Hash
	if h > 0 {
		prev = committed[h-1]
	}
	hdr, err := builder.MakeHeaderForFilter(f, prev)
	if err != nil {
		return "MakeHeaderForFilter: " + err.Error()
	}
	if hdr != committed[h] {
		return fmt.Sprintf("MakeHeaderForFilter(filter, committed[%d]) != committed[%d]", h-1, h)
	}
	nb, err := f.NBytes()
	if err != nil {
		return "NBytes: " + err.Error()
	}
	if !bytes.Equal(nb, n.FilterBytes) {
		return fmt.Sprintf("filter bytes differ from the true filter of height %d", h)
	}
	return ""
}

func capClass(c Call) string {
	if c.Batch == "none" {
		if c.Cap != 0 {
			return "none+cap"
		}
		return "none"
	}
	switch {
	case c.Cap <= 0:
		return c.Batch + "/uncapped"
	case c.Cap >= 1000:
		return c.Batch + "/cap>=1000"
	case c.Cap == 999:
		return c.Batch + "/cap999"
	case c.Cap >= 100:
		return c.Batch + "/cap100-400"
	case c.Cap >= 5:
		return c.Batch + "/cap5-60"
	}
	return c.Batch + "/cap1-3"
}

func callOpts(c Call) []neutrino.QueryOption {
	var o []neutrino.QueryOption
	switch c.Batch {
	case "fwd":
		o = append(o, neutrino.OptimisticBatch())
	case "rev":
		o = append(o, neutrino.OptimisticReverseBatch())
	}
	if c.Cap != 0 {
		o = append(o, neutrino.MaxBatchSize(c.Cap))
	}
	if c.Retries > 0 {
		o = append(o, neutrino.NumRetries(uint8(c.Retries)))
	}
	return o
}

// Run executes scenario k of the (seed, tier) case list.
func Run(seed int64, k int, quick bool, res *l2.Result) {
	RunPlan(MakePlan(seed, k, quick), fmt.Sprintf("c05-%d", k), res)
}

// RunPlan executes one planned scenario.
func RunPlan(plan Plan, name string, res *l2.Result) {
	res.Name = name
	res.Fingerprint = plan.Describe()
	span := time.Duration(plan.ChainLen+400) * 6 * time.Second
	if span < 2*time.Hour {
		span = 2 * time.Hour
	}
	w := l2.NewWorld(l2.Config{Seed: plan.Seed, Preset: plan.Preset, Interval: plan.Interval, SpacingSec: 4, GenesisAgo: span})
	defer w.Cleanup()
	ext := w.G.Extend(w.G.Genesis, plan.ChainLen, chaingen.PaceNormal)
	tip := ext[len(ext)-1]
	d := NewDirector(plan.Seed, tip)
	if len(plan.Reorgs) > 0 {
		d.SetValidCeil(int32(plan.ChainLen - reorgReserve))
	}
	for i := 0; i < plan.NPeers; i++ {
		d.Attach(w.AddPeer(tip))
	}
	s := &state{plan: plan, w: w, d: d, res: res, tip: tip, trunk: tip.Path(),
		cached: map[chainhash.Hash]bool{}, inDB: map[chainhash.Hash]bool{}, vio: map[string]int{}, badSeen: map[chainhash.Hash]bool{}}
	s.opts = l2.ClientOpts{PersistToDisk: plan.Persist}
	if plan.SmallCache {
		s.opts.FilterCache = 700 // bytes: a few dozen filters, so batches evict
	}
	d.BeginRound(-1, nil, nil)
	if err := w.StartClient(nil, s.opts); err != nil {
		res.Inconcl("client start failed: " + err.Error())
		return
	}
	if !s.awaitReady() {
		_, _ = w.StopClient(30 * time.Second)
		return
	}
	if v := w.ValidateStored(true); v != "" {
		res.Inconcl("precondition: honest sync did not commit the true headers: " + v)
		_, _ = w.StopClient(30 * time.Second)
		return
	}

	var stopUnsol chan struct{}
	var unsolWg sync.WaitGroup
	startUnsol := func() {
		if !plan.Unsolicited {
			return
		}
		stop := make(chan struct{})
		stopUnsol = stop
		// Everything the sender needs is evaluated here, on the scenario's
		// goroutine: it must not read scenario state that the rounds write.
		avoid, seed := plan.Targets(), plan.Seed+int64(len(s.calls))
		peers := append([]*netsim.Peer(nil), w.Peers...)
		unsolWg.Add(1)
		go func() {
			defer unsolWg.Done()
			d.RunUnsolicited(stop, peers, avoid, seed)
		}()
	}
	haltUnsol := func() {
		if stopUnsol != nil {
			close(stopUnsol)
			unsolWg.Wait()
			stopUnsol = nil
		}
	}
	startUnsol()

	aborted := false
	for i, rd := range plan.Rounds {
		ok, baselineFailed := s.runRound(i, rd)
		if !ok {
			aborted = true
			break
		}
		if baselineFailed {
			// The all-honest baseline fetch failed: the client cannot fetch
			// filters at all in this world; nothing else would be observed.
			res.Inconcl("baseline: a filter fetch from honest-only peers failed")
			haltUnsol()
			_, _ = w.StopClient(30 * time.Second)
			return
		}
		s.checkCache(fmt.Sprintf("after-round-%d", i), rd)
		if i == plan.RestartAfter {
			haltUnsol()
			if !s.stopAndCheckDB("restart") {
				return
			}
			o := s.opts
			o.Dir = w.Dir
			if err := w.StartClient(nil, o); err != nil {
				res.Inconcl("client restart failed: " + err.Error())
				return
			}
			s.restart = true
			s.cached = map[chainhash.Hash]bool{}
			res.Count("client_restarts", 1)
			if !s.awaitReady() {
				_, _ = w.StopClient(30 * time.Second)
				return
			}
			startUnsol()
		}
		for pi, ph := range plan.Reorgs {
			if ph.After != i {
				continue
			}
			switch s.reorgPhase(pi, ph) {
			case phaseBlocked:
				aborted = true
			case phaseStopped:
				haltUnsol()
				return
			}
			if aborted {
				break
			}
		}
		if aborted {
			break
		}
	}
	haltUnsol()
	if aborted {
		// A call is still blocked inside the client: do not touch it further.
		return
	}
	if (plan.Lag > 0 || len(plan.LagSteps) > 0) && !s.lagPhase() {
		return
	}
	if !s.stopAndCheckDB("end") {
		return
	}
	d.Counters(res.Count)
	res.Count("events_logged", w.Log.Len())
	// Cross-check the peer-side record (which oracle 3 relies on) against the
	// network event log: every cfilter message the log saw leaving a peer must
	// have been booked by the director first.
	logged := int64(0)
	for _, e := range w.Log.Snapshot() {
		if e.Dir == "tx" && e.Cmd == "cfilter" {
			logged++
		}
	}
	if booked := d.Booked(); logged > booked {
		res.Inconcl(fmt.Sprintf("peer-side record incomplete: event log shows %d cfilter messages sent, director booked %d", logged, booked))
	}
	res.Count("cfilter_msgs_in_event_log", logged)
	res.Sample = map[string]any{"scenario": res.Name, "shape": plan.Describe(), "chain": plan.ChainLen,
		"planned_timeout_budget_s": plan.BudgetS, "calls": s.calls}
	if plan.Family != "" {
		res.Count("scenarios_of_family_"+plan.Family, 1)
		if plan.Fixed {
			res.Count("scenarios_fixed(seed-independent)", 1)
		}
	}
}

// awaitReady waits for the client to be synced to the tip and connected.
func (s *state) awaitReady() bool {
	if !l2.WaitFor(90*time.Second, func() bool { return s.w.SyncedTo(s.tip) }) {
		s.res.Inconcl("client did not sync to the honest tip within 90s")
		return false
	}
	l2.WaitFor(10*time.Second, func() bool { return int(s.w.Svc.ConnectedCount()) >= s.plan.NPeers })
	return true
}

// runRound issues the calls of a round and judges their results. ok=false
// means a call did not return (scenario abandoned).
func (s *state) runRound(idx int, rd Round) (ok, baselineFailed bool) {
	res, w, d := s.res, s.w, s.d
	targets := map[int32]bool{}
	for _, c := range rd.Calls {
		targets[c.Height] = true
	}
	d.BeginRound(idx, rd.Muts, targets)
	results := make([]callResult, len(rd.Calls))
	hashes := make([]chainhash.Hash, len(rd.Calls))
	for i, c := range rd.Calls {
		if c.Height >= 0 {
			hashes[i] = s.trunk[c.Height].Hash
		} else {
			rand.New(rand.NewSource(s.plan.Seed + int64(idx))).Read(hashes[i][:])
		}
	}
	start := make(chan struct{})
	done := make(chan int, len(rd.Calls))
	for i := range rd.Calls {
		i := i
		go func() {
			<-start
			t0 := time.Now()
			f, err := w.Svc.GetCFilter(hashes[i], wire.GCSFilterRegular, callOpts(rd.Calls[i])...)
			results[i] = callResult{f, err, time.Since(t0)}
			done <- i
		}()
	}
	close(start)
	watchdog := time.After(180 * time.Second)
	for range rd.Calls {
		select {
		case <-done:
		case <-watchdog:
			res.Inconcl("GetCFilter did not return within 180s (watchdog)")
			return false, false
		}
	}
	labels, pos, reqs := d.RoundServed()
	mut := "none-served"
	if len(labels) > 0 {
		mut = strings.Join(labels, "+")
	}
	posc := "-"
	if len(pos) > 0 {
		posc = strings.Join(pos, "+")
	}
	committed, cerr := l2.ReadFilterChain(w.Svc.RegFilterHeaders)
	if cerr != nil {
		res.Inconcl("committed filter headers unreadable: " + cerr.Error())
		return false, false
	}
	s.outs = s.outs[:0]
	if len(rd.Calls) > 0 {
		lc := rd.Calls[len(rd.Calls)-1]
		s.last = &lc
	}
	for i, c := range rd.Calls {
		r := results[i]
		res.Count("calls", 1)
		var node *chaingen.Node
		if c.Height >= 0 {
			node = s.trunk[c.Height]
		}
		good := 0
		if node != nil {
			good = d.Good(node.Hash)
		}
		outcome := ""
		wit := func() map[string]any {
			return map[string]any{"round": idx, "round_plan": rd, "call": c, "mutations_that_answered": labels,
				"requests_answered_in_round": reqs, "verifiable_deliveries_for_target_so_far": good,
				"error": fmt.Sprint(r.err), "filter_nil": r.f == nil}
		}
		shape := []string{mut, posc, capClass(c), c.Boundary}
		switch {
		case r.err == nil && r.f == nil:
			outcome = "nil-nil"
			s.violate(evid.Sig(append([]string{"c05/nil-filter-without-error"}, shape...)...),
				fmt.Sprintf("GetCFilter(height %d, %s) returned a nil filter and a nil error", c.Height, capClass(c)), wit())
		case r.err == nil:
			res.Count("successes", 1)
			src := "net"
			if reqs == 0 {
				src = "cache"
				if node != nil && !s.cached[node.Hash] && (s.inDB[node.Hash] || c.Height == 0) {
					src = "db"
				}
			} else if node != nil && s.cached[node.Hash] {
				src = "cache"
			}
			res.Count("successes_from_"+src, 1)
			outcome = "ok-" + src
			if node == nil {
				s.violate(evid.Sig(append([]string{"c05/filter-for-unknown-block"}, shape...)...),
					"GetCFilter returned a filter for a block hash that is not in the chain", wit())
				break
			}
			if why := verify(r.f, node, committed); why != "" {
				outcome = "ok-UNVERIFIED"
				s.violate(evid.Sig(append([]string{"c05/returned-unverified", src}, shape...)...),
					fmt.Sprintf("GetCFilter(height %d, %s) returned a filter that does not verify: %s", c.Height, capClass(c), why), wit())
			}
			if c.Height > 0 && good == 0 {
				s.violate(evid.Sig(append([]string{"c05/returned-without-verifiable-delivery", src}, shape...)...),
					fmt.Sprintf("GetCFilter(height %d) returned a filter although no peer ever sent a verifiable filter for that block", c.Height), wit())
			}
		default:
			res.Count("errors", 1)
			if good > 0 || c.Height == 0 {
				outcome = "err-despite-delivery"
				res.Count("errors_although_a_verifiable_filter_was_delivered", 1)
				if incomplete(rd.Muts) == 0 {
					res.Count("errors_with_all_peers_completing", 1)
				}
			} else {
				outcome = "err-nothing-verifiable"
				res.Count("errors_with_no_verifiable_delivery(required)", 1)
			}
			if idx == 0 {
				baselineFailed = true
			}
		}
		fp := fmt.Sprintf("mut=%s pos=%s batch=%s boundary=%s persist=%v conc=%v outcome=%s",
			mut, posc, capClass(c), c.Boundary, s.plan.Persist, rd.Concurrent, outcome)
		res.Mark(fp)
		s.outs = append(s.outs, outcome)
		s.calls = append(s.calls, fmt.Sprintf("r%d h=%d %s retries=%d [%s] -> %s (%.1fs)", idx, c.Height, capClass(c), c.Retries, mut, outcome, r.dur.Seconds()))
		if outcome == "ok-net" && mut != KHonest {
			res.Nontrivial = true
		}
	}
	return true, baselineFailed
}

// resolveLag turns the planned relation of a KLagShift answer into the shift
// for a target up blocks above the filter-header tip with lag blocks of lag,
// and normalises the relation (it is part of labels and signatures).
func resolveLag(specs []Spec, up, lag int32) []Spec {
	out := append([]Spec(nil), specs...)
	for i := range out {
		s := &out[i]
		if s.Kind != KLagShift {
			continue
		}
		switch s.Rel {
		case RelOneBelow:
			s.Shift = 1
		case RelLagDepth:
			s.Shift = lag
		case RelWithinLag:
			s.Shift = up - 1
		case RelBelowFilterTip:
			s.Shift = up + 1 + int32(i)%3
		default:
			s.Shift = up
		}
		if s.Shift < 1 {
			s.Shift = 1
		}
		switch {
		case s.Shift == up:
			s.Rel = RelToFilterTip
		case s.Shift < up:
			s.Rel = RelWithinLag
		default:
			s.Rel = RelBelowFilterTip
		}
	}
	return out
}

// lagPhase: the block-header chain moves (it grows, or its last blocks are
// replaced by a heavier branch) while the peers serve the new block headers
// but withhold their filter headers, so the client's block-header tip is above
// its filter-header tip. Asked for the filter of such a block the client has
// no committed header to verify anything against: the call must fail, and
// nothing for those blocks may be cached or persisted, whatever the peers
// answer (the block's true filter, the true filters of all new blocks pushed
// along, genuine filters of earlier blocks under the new blocks' hashes). The
// blocks below (reverse batches reach them) keep their committed headers:
// whatever is cached or persisted for them has to verify as always.
func (s *state) lagPhase() bool {
	w, d, res := s.w, s.d, s.res
	steps := s.plan.LagSteps
	if len(steps) == 0 {
		steps = []LagStep{{Grow: s.plan.Lag, Calls: s.plan.LagCalls, Muts: s.plan.LagMuts}}
	}
	var lag []*chaingen.Node // the peers' blocks above the client's filter-header tip (s.tip)
	ncall := 0
	for si, st := range steps {
		top := s.tip
		if len(lag) > 0 {
			top = lag[len(lag)-1]
		}
		var ann []*chaingen.Node
		afterReorg := false
		if st.Depth > 0 {
			// The last Depth blocks of the block-header chain are replaced.
			depth := int32(st.Depth)
			if depth > top.Height-2 {
				depth = top.Height - 2
			}
			fork := top.Ancestor(top.Height - depth)
			branch := w.G.Extend(fork, int(depth)+st.Extra, chaingen.PaceNormal)
			for i := 0; branch[len(branch)-1].CumWork.Cmp(top.CumWork) <= 0; i++ {
				if i >= 24 {
					res.Count("lag_family/steps_skipped(no_heavier_branch)", 1)
					return true
				}
				branch = append(branch, w.G.Extend(branch[len(branch)-1], 1, chaingen.PaceNormal)...)
			}
			if fork.Height < s.tip.Height {
				// Committed blocks are replaced too: their filter headers go
				// with them; the fork point becomes the filter-header tip.
				res.Count("lag_family/reorgs_rolling_back_committed_filter_headers", 1)
				s.tip, s.trunk = fork, fork.Path()
				d.SetChain(fork)
				lag = nil
			} else {
				lag = lag[:fork.Height-s.tip.Height]
			}
			lag = append(append([]*chaingen.Node(nil), lag...), branch...)
			ann, afterReorg = branch, true
			res.Count("lag_family/reorgs_while_filter_headers_withheld", 1)
		} else {
			ext := w.G.Extend(top, st.Grow, chaingen.PaceNormal)
			lag = append(append([]*chaingen.Node(nil), lag...), ext...)
			ann = ext
		}
		d.SetLag(lag)
		newTop := lag[len(lag)-1]
		for _, p := range w.Peers {
			p.View.SetTip(newTop)
		}
		for _, p := range w.Peers {
			if p.Conn() != nil && !p.Conn().Dead() {
				p.AnnounceHeaders(ann...)
			}
		}
		if !l2.WaitFor(30*time.Second, func() bool {
			hd, h, err := w.Svc.BlockHeaders.ChainTip()
			return err == nil && h == uint32(newTop.Height) && hd.BlockHash() == newTop.Hash
		}) {
			res.Count("lag_phase_skipped(headers_not_adopted)", 1)
			return true
		}
		if _, fh, err := w.Svc.RegFilterHeaders.ChainTip(); err != nil || fh != uint32(s.tip.Height) {
			res.Count("lag_phase_skipped(filter_tip_moved)", 1)
			return true
		}
		if si == 0 {
			res.Count("lag_phases", 1)
		}
		res.Count("lag_steps", 1)
		res.Count(fmt.Sprintf("lag_steps_with_lag_%d", len(lag)), 1)
		L := int32(len(lag))
		for i, c := range st.Calls {
			up := c.Up
			if up < 1 {
				up = c.Height - int32(s.plan.ChainLen)
			}
			if up < 1 {
				up = 1
			}
			if up > L {
				up = L
			}
			c.Up = up
			lagSafe(&c)
			up = c.Up
			node := lag[up-1]
			c.Height = node.Height
			switch {
			case up == L && L == 1:
				c.Boundary = "above-filter-tip:the-only"
			case up == L:
				c.Boundary = "above-filter-tip:top"
			case up == 1:
				c.Boundary = "above-filter-tip:first"
			default:
				c.Boundary = "above-filter-tip:middle"
			}
			if afterReorg {
				c.Boundary += "/after-reorg"
			}
			specs := make([]Spec, s.plan.NPeers)
			for j := range specs {
				specs[j] = Spec{Kind: KLagPush}
			}
			if i < len(st.Muts) && len(st.Muts[i]) == s.plan.NPeers {
				specs = resolveLag(st.Muts[i], up, L)
			}
			d.BeginRound(1000+ncall, specs, map[int32]bool{node.Height: true})
			ncall++
			type out struct {
				f   *gcs.Filter
				err error
			}
			ch := make(chan out, 1)
			t0 := time.Now()
			go func() {
				f, err := w.Svc.GetCFilter(node.Hash, wire.GCSFilterRegular, callOpts(c)...)
				ch <- out{f, err}
			}()
			var o out
			select {
			case o = <-ch:
			case <-time.After(180 * time.Second):
				res.Inconcl("GetCFilter did not return within 180s (watchdog, lag phase)")
				return false
			}
			res.Count("calls", 1)
			res.Count("lag_family/calls_above_filter_tip", 1)
			if w.Svc.ConnectedCount() == 0 {
				res.Count("lag_family/calls_ending_with_no_peer_connected", 1)
			}
			labels, pos, reqs := d.RoundServed()
			mut := "none-served"
			if len(labels) > 0 {
				mut = strings.Join(labels, "+")
			}
			posc := "outside"
			if len(pos) > 0 && strings.Join(pos, "+") != "-" {
				posc = strings.Join(pos, "+")
			}
			shifted := false
			for _, l := range labels {
				if strings.HasPrefix(l, KLagShift) {
					shifted = true
				}
			}
			if shifted {
				// An answer naming the block asked for and carrying an earlier
				// block's genuine filter actually went out during this call.
				res.Count("lag_family/calls_answered_with_earlier_blocks_filters", 1)
				res.Nontrivial = true
			}
			// The committed filter-header chain as it is NOW decides: had the
			// client committed a header for the block meanwhile, the result
			// would be judged against it like any other.
			committed, cerr := l2.ReadFilterChain(w.Svc.RegFilterHeaders)
			if cerr != nil {
				res.Inconcl("committed filter headers unreadable: " + cerr.Error())
				return false
			}
			outcome := "err-no-committed-header"
			switch {
			case o.err == nil && int(node.Height) < len(committed):
				outcome = "ok-header-committed-meanwhile"
				res.Count("lag_family/calls_whose_block_got_a_committed_header_meanwhile", 1)
				if why := verify(o.f, node, committed); why != "" {
					s.violate(evid.Sig("c05/returned-unverified", "net", mut, posc, capClass(c), c.Boundary),
						fmt.Sprintf("GetCFilter(height %d) returned a filter that does not verify: %s", node.Height, why),
						map[string]any{"call": c, "lag": L, "requests_answered": reqs})
				}
			case o.err == nil:
				outcome = "ok-UNVERIFIABLE"
				res.Count("successes", 1)
				s.violate(evid.Sig("c05/returned-above-committed-filter-tip", mut, capClass(c)),
					fmt.Sprintf("GetCFilter returned (filter nil=%v, nil error) for the block %d above the committed filter-header tip %d (lag %d): there is no committed header it could have been verified against",
						o.f == nil, up, s.tip.Height, L),
					map[string]any{"call": c, "lag": L, "blocks_above_filter_tip": up, "peer_answers": specs, "requests_answered": reqs,
						"after_reorg": afterReorg})
			default:
				res.Count("errors", 1)
				res.Count("errors_above_filter_tip(required)", 1)
			}
			res.Mark(fmt.Sprintf("mut=%s pos=%s batch=%s boundary=%s persist=%v conc=false outcome=%s",
				mut, posc, capClass(c), c.Boundary, s.plan.Persist, outcome))
			s.calls = append(s.calls, fmt.Sprintf("lag%d block=filtertip+%d %s retries=%d [%s] -> %s (%.1fs)", L,
				up, capClass(c), c.Retries, mut, outcome, time.Since(t0).Seconds()))
			// Cache entries keyed by blocks above the filter-header tip are
			// judged as such; the lower blocks of a reverse batch as always.
			s.checkCache(fmt.Sprintf("lag-step-%d-call-%d", si, i), Round{Pattern: "lag", Muts: specs, Calls: []Call{c}})
		}
	}
	return true
}

// checkCache verifies every entry of the filter cache (oracle 2, memory).
func (s *state) checkCache(when string, rd Round) {
	w, d := s.w, s.d
	committed, err := l2.ReadFilterChain(w.Svc.RegFilterHeaders)
	if err != nil {
		s.res.Inconcl("committed filter headers unreadable: " + err.Error())
		return
	}
	labels, _, _ := d.RoundServed()
	mut := strings.Join(labels, "+")
	if mut == "" {
		mut = "none-served"
	}
	if s.plan.Unsolicited {
		mut += "+unsolicited"
	}
	now := map[chainhash.Hash]bool{}
	n := int64(0)
	w.Svc.FilterCache.RangeFILO(func(k neutrino.FilterCacheKey, v *neutrino.CacheableFilter) bool {
		n++
		now[k.BlockHash] = true
		if s.badSeen[k.BlockHash] {
			return true // reported in the round that put it there
		}
		defer func(before int) {
			if s.vioTotal() > before {
				s.badSeen[k.BlockHash] = true
			}
		}(s.vioTotal())
		node := d.Node(k.BlockHash)
		wit := map[string]any{"when": when, "round_plan": rd, "cache_key_block": k.BlockHash.String(), "cache_key_type": k.FilterType}
		lagNode := d.LagNode(k.BlockHash)
		switch {
		case node == nil && lagNode != nil && int(lagNode.Height) >= len(committed):
			// A block of the current chain without committed filter header:
			// whatever is stored under it cannot have been verified.
			wit["height"], wit["committed_filter_tip"] = lagNode.Height, len(committed)-1
			s.violate(evid.Sig("c05/cached-above-committed-filter-tip", mut),
				fmt.Sprintf("the filter cache holds an entry for block height %d, above the committed filter-header tip %d: no committed header exists it could have been verified against",
					lagNode.Height, len(committed)-1), wit)
		case node == nil && lagNode != nil:
			var cf *gcs.Filter
			if v != nil {
				cf = v.Filter
			}
			if why := verify(cf, lagNode, committed); why != "" {
				wit["height"] = lagNode.Height
				s.violate(evid.Sig("c05/cached-unverified", mut),
					fmt.Sprintf("the filter cache holds, for block height %d, a filter that does not verify: %s", lagNode.Height, why), wit)
			}
		case node == nil:
			s.violate(evid.Sig("c05/cached-under-foreign-key", mut),
				"the filter cache holds an entry keyed by a hash that is no block of the chain", wit)
		case k.FilterType != filterdb.RegularFilter:
			s.violate(evid.Sig("c05/cached-under-wrong-type", mut), "the filter cache holds an entry of an unknown filter type", wit)
		case v == nil || v.Filter == nil:
			s.violate(evid.Sig("c05/cached-nil", mut), fmt.Sprintf("the filter cache holds a nil filter for height %d", node.Height), wit)
		case !d.OnChain(node):
			// A block of a branch that a re-org replaced: there is no committed
			// header for it any more. The entry was verified when its block was
			// on the committed chain (whose headers were the true ones), so all
			// that can still be said is that it is that block's true filter.
			s.res.Count("cache_entries_of_replaced_blocks", 1)
			if nb, err := v.Filter.NBytes(); err != nil || !bytes.Equal(nb, node.FilterBytes) {
				wit["height"] = node.Height
				s.violate(evid.Sig("c05/cached-unverified", "replaced-block", mut),
					fmt.Sprintf("the filter cache holds, for a replaced block of height %d, a filter that is not that block's filter", node.Height), wit)
			}
		default:
			if why := verify(v.Filter, node, committed); why != "" {
				wit["height"] = node.Height
				s.violate(evid.Sig("c05/cached-unverified", mut),
					fmt.Sprintf("the filter cache holds, for block height %d, a filter that does not verify: %s", node.Height, why), wit)
			}
		}
		return true
	})
	s.cached = now
	s.res.Count("cache_entries_verified", n)
}

// rawDBKeys enumerates the filter bucket directly (complete key set).
func (s *state) rawDBKeys() (keys []chainhash.Hash, vals [][]byte, err error) {
	if s.w.DB == nil {
		return nil, nil, fmt.Errorf("database closed")
	}
	err = walletdb.View(s.w.DB, func(tx walletdb.ReadTx) error {
		b := tx.ReadBucket([]byte("filter-store"))
		if b == nil {
			return fmt.Errorf("no filter-store bucket")
		}
		rb := b.NestedReadBucket([]byte("regular"))
		if rb == nil {
			return fmt.Errorf("no regular bucket")
		}
		return rb.ForEach(func(k, v []byte) error {
			var h chainhash.Hash
			if len(k) != chainhash.HashSize {
				return fmt.Errorf("key of %d bytes", len(k))
			}
			copy(h[:], k)
			keys = append(keys, h)
			vals = append(vals, append([]byte(nil), v...))
			return nil
		})
	})
	return
}

// stopAndCheckDB lets the batch writer drain, stops the service, verifies the
// whole filter database (oracle 2, disk) and closes the database.
func (s *state) stopAndCheckDB(when string) bool {
	w, d, res := s.w, s.d, s.res
	if s.plan.Persist {
		// Give the batch writer its chance (coverage only, no oracle).
		last, stable := -1, 0
		l2.WaitFor(5*time.Second, func() bool {
			keys, _, err := s.rawDBKeys()
			if err != nil {
				return true
			}
			if len(keys) == last {
				stable++
			} else {
				last, stable = len(keys), 0
			}
			time.Sleep(120 * time.Millisecond)
			return stable >= 5
		})
	}
	committed, err := l2.ReadFilterChain(w.Svc.RegFilterHeaders)
	if err != nil {
		res.Inconcl("committed filter headers unreadable: " + err.Error())
		return false
	}
	s.checkCache("before-stop-"+when, Round{})
	okStop, _ := w.StopService(60 * time.Second)
	if !okStop {
		res.Inconcl("Stop did not return within 60s (C17's subject)")
		return false
	}
	defer w.CloseDB()
	inDB := map[chainhash.Hash]bool{}
	n := int64(0)
	for _, node := range s.trunk {
		hash := node.Hash
		f, err := w.Svc.FilterDB.FetchFilter(&hash, filterdb.RegularFilter)
		wit := map[string]any{"when": when, "height": node.Height}
		switch {
		case err == filterdb.ErrFilterNotFound:
			continue
		case err != nil:
			wit["error"] = err.Error()
			s.violate(evid.Sig("c05/persisted-unreadable"),
				fmt.Sprintf("FilterDB.FetchFilter(height %d) fails: the stored bytes are not a filter", node.Height), wit)
		case f == nil:
			s.violate(evid.Sig("c05/persisted-empty"),
				fmt.Sprintf("FilterDB holds an empty (nil) filter for height %d", node.Height), wit)
		default:
			n++
			inDB[node.Hash] = true
			if why := verify(f, node, committed); why != "" {
				s.violate(evid.Sig("c05/persisted-unverified"),
					fmt.Sprintf("FilterDB holds, for block height %d, a filter that does not verify: %s", node.Height, why), wit)
			}
		}
	}
	// Blocks of the current chain above the committed filter-header tip (lag
	// phase): nothing can have been verified for them.
	for _, node := range d.LagNodes() {
		hash := node.Hash
		f, err := w.Svc.FilterDB.FetchFilter(&hash, filterdb.RegularFilter)
		if err == filterdb.ErrFilterNotFound {
			continue
		}
		wit := map[string]any{"when": when, "height": node.Height, "committed_filter_tip": len(committed) - 1, "error": fmt.Sprint(err)}
		if int(node.Height) >= len(committed) {
			s.violate(evid.Sig("c05/persisted-above-committed-filter-tip"),
				fmt.Sprintf("FilterDB holds an entry for block height %d, above the committed filter-header tip %d: no committed header exists it could have been verified against",
					node.Height, len(committed)-1), wit)
		} else if why := verify(f, node, committed); err != nil || why != "" {
			s.violate(evid.Sig("c05/persisted-unverified"),
				fmt.Sprintf("FilterDB holds, for block height %d, a filter that does not verify: %s", node.Height, why), wit)
		}
	}
	// Complete key set: nothing may be stored under a hash that is no block
	// of the chain (in particular none of the foreign hashes the peers used).
	keys, _, kerr := s.rawDBKeys()
	if kerr == nil {
		foreign := 0
		for _, k := range keys {
			node := d.Node(k)
			if node == nil && d.LagNode(k) != nil {
				continue // judged above
			}
			if node == nil {
				foreign++
				s.violate(evid.Sig("c05/persisted-under-foreign-key"),
					"FilterDB holds an entry keyed by a hash that is no block of the chain",
					map[string]any{"when": when, "key": k.String()})
				continue
			}
			if !d.OnChain(node) {
				// Persisted while its block was on the committed chain, replaced
				// by a re-org since: it can only be that block's true filter.
				k := k
				res.Count("db_entries_of_replaced_blocks", 1)
				f, err := w.Svc.FilterDB.FetchFilter(&k, filterdb.RegularFilter)
				var nb []byte
				if err == nil && f != nil {
					nb, err = f.NBytes()
				}
				if err != nil || !bytes.Equal(nb, node.FilterBytes) {
					s.violate(evid.Sig("c05/persisted-unverified", "replaced-block"),
						fmt.Sprintf("FilterDB holds, for a replaced block of height %d, something that is not that block's filter", node.Height),
						map[string]any{"when": when, "height": node.Height, "error": fmt.Sprint(err)})
				}
			}
		}
		res.Count("db_keys_enumerated", int64(len(keys)))
	} else {
		for _, h := range d.Foreign() {
			h := h
			if f, err := w.Svc.FilterDB.FetchFilter(&h, filterdb.RegularFilter); err == nil && f != nil {
				s.violate(evid.Sig("c05/persisted-under-foreign-key"),
					"FilterDB holds an entry keyed by a hash that is no block of the chain",
					map[string]any{"when": when, "key": h.String()})
			}
		}
	}
	if !s.plan.Persist && n > 1 {
		res.Count("db_entries_without_persist_option", n-1)
	}
	s.inDB = inDB
	res.Count("db_entries_verified", n)
	return true
}
