package c05

import (
	"fmt"
	"math/rand"
	"sort"
	"strings"
	"sync"
	"time"

	"github.com/btcsuite/btcd/chainhash/v2"
	"github.com/btcsuite/btcd/wire/v2"

	"verif/internal/chaingen"
	"verif/internal/evid"
	"verif/internal/l2"
	"verif/internal/netsim"
)

// The IN-FLIGHT RE-ORG family: the committed chain is re-organised WHILE a
// GetCFilter network fetch is outstanding. Every peer holds its answer to the
// getcfilters request; the honest chain's last 1-4 blocks (inside the requested
// range) are replaced by a heavier branch, which the peers announce; the
// scenario waits until the client reports the new tip (block AND filter
// headers of the new branch committed, checked against ground truth); then
// the held answers are released, each peer in its role:
//
//	relabel   the NEW chain's genuine filters under the OLD blocks' hashes
//	          (position-wise: the entry naming the old block at height h carries
//	          the filter of the new block at height h)
//	old       the old blocks' true filters under the old hashes (what was asked)
//	new       the new blocks' true filters under the new hashes (not asked for)
//	relabel+old / old+relabel   both entries per position, in that order
//
// Requests that arrive after the release (retries) are answered at once in the
// same role. The oracle is the property's: see judgeInflight.

// Roles of the in-flight family.
const (
	RoleRelabel    = "relabel(new-filter-under-old-hash)"
	RoleOld        = "old(old-filter-under-old-hash)"
	RoleNew        = "new(new-filter-under-new-hash)"
	RoleRelabelOld = "relabel+old"
	RoleOldRelabel = "old+relabel"
)

// InflightPlan is one scenario of the family: a pure function of (seed, j).
type InflightPlan struct {
	Seed     int64
	J        int
	Fixed    bool
	Preset   int
	Interval int
	ChainLen int // the tip before the re-org
	Depth    int // blocks replaced (the last Depth blocks)
	Extra    int // the new branch is Depth+Extra blocks long (made heavier if needed)
	Persist  bool
	Roles    []string // one per peer
	Call     Call     // absolute target height on the OLD chain
}

func (p InflightPlan) Describe() string {
	r := append([]string(nil), p.Roles...)
	sort.Strings(r)
	return fmt.Sprintf("inflight-reorg depth=%d extra=%d roles=%s batch=%s target=%s persist=%v",
		p.Depth, p.Extra, strings.Join(r, ","), capClass(p.Call), p.targetClass(), p.Persist)
}

func (p InflightPlan) targetClass() string {
	if int(p.Call.Height) > p.ChainLen-p.Depth {
		return "replaced-block"
	}
	return "below-fork"
}

// NumFixedInflight is the number of seed-independent scenarios of the family.
const NumFixedInflight = 1

// MakeInflightPlan derives scenario j of the family.
func MakeInflightPlan(seed int64, j int, quick bool) InflightPlan {
	if j < NumFixedInflight {
		// Chain of 109 blocks, forward batch of 10 from block 100 (heights
		// 100-109), the last 3 blocks (107-109) replaced by 4 new ones while
		// the answers are held; one peer relabels, one answers what was asked.
		return InflightPlan{Seed: 7_070_707, J: j, Fixed: true, Preset: 0, Interval: 8, ChainLen: 109, Depth: 3, Extra: 1,
			Persist: true, Roles: []string{RoleRelabel, RoleOld},
			Call: Call{Height: 100, Batch: "fwd", Cap: 10, Retries: 3, Boundary: "inflight/below-fork"}}
	}
	r := rand.New(rand.NewSource(seed*1_000_003 + int64(j)*32452843 + 90909))
	p := InflightPlan{Seed: seed*1_000_003 + 800_000 + int64(j), J: j}
	p.Preset = r.Intn(3)
	p.Interval = 4 + r.Intn(13)
	p.ChainLen = 90 + r.Intn(160)
	p.Depth = []int{1, 1, 2, 2, 3, 3, 4}[r.Intn(7)]
	p.Extra = r.Intn(2)
	p.Persist = r.Intn(2) == 0
	n := 1 + r.Intn(3)
	all := []string{RoleRelabel, RoleOld, RoleNew, RoleRelabelOld, RoleOldRelabel, RoleRelabel}
	for i := 0; i < n; i++ {
		p.Roles = append(p.Roles, all[r.Intn(len(all))])
	}
	// The shape needs a peer that relabels.
	has := false
	for _, ro := range p.Roles {
		has = has || strings.Contains(ro, "relabel")
	}
	if !has {
		p.Roles[r.Intn(n)] = []string{RoleRelabel, RoleRelabelOld, RoleOldRelabel}[r.Intn(3)]
	}
	tip, d := int32(p.ChainLen), int32(p.Depth)
	c := Call{Retries: 1 + r.Intn(2)}
	for _, ro := range p.Roles {
		if ro == RoleOld || ro == RoleOldRelabel || ro == RoleRelabelOld {
			c.Retries = 3 // somebody can complete the query: a retry reaches him
		}
	}
	switch r.Intn(5) {
	case 0: // unbatched, the target is a block that gets replaced
		c.Batch, c.Height = "none", tip-int32(r.Intn(int(d)))
	case 1, 2: // reverse batch down from a block that gets replaced
		c.Batch, c.Height, c.Cap = "rev", tip-int32(r.Intn(int(d))), int64(1+r.Intn(12))
	default: // forward batch from below (or inside) the replaced range into it
		start := tip - d + 1 - int32(r.Intn(9)) + int32(r.Intn(2))
		c.Batch, c.Height = "fwd", start
		c.Cap = int64(tip-d+1-start) + 1 + int64(r.Intn(int(d)+3))
		if c.Cap < 1 {
			c.Cap = 1
		}
	}
	p.Call = c
	p.Call.Boundary = "inflight/" + p.targetClass()
	return p
}

// inflightDirector answers getcfilters for the family (everything else is left
// to the Director underneath).
type inflightDirector struct {
	d     *Director
	roles []string
	mu    sync.Mutex
	hold  bool
	held  []heldReq
	old   []*chaingen.Node // the chain before the re-org (index = height)
	neu   []*chaingen.Node // the chain after it (nil before)
	late  int64            // requests answered at once after the release
}

type heldReq struct {
	p  *netsim.Peer
	gq *wire.MsgGetCFilters
}

// answer builds the peer's answer to gq in its role.
func (x *inflightDirector) answer(role string, gq *wire.MsgGetCFilters) []wire.Message {
	stop := x.d.Node(gq.StopHash)
	if stop == nil {
		return nil
	}
	var out []wire.Message
	msg := func(key, flt *chaingen.Node) {
		h := key.Hash
		out = append(out, wire.NewMsgCFilter(wire.GCSFilterRegular, &h, append([]byte(nil), flt.FilterBytes...)))
	}
	onOld := int(stop.Height) < len(x.old) && x.old[stop.Height] == stop
	if !onOld || x.neu == nil {
		// Asked for blocks of the current chain: the honest answer.
		path := stop.Path()
		for h := int32(gq.StartHeight); h <= stop.Height && h >= 0; h++ {
			msg(path[h], path[h])
		}
		return out
	}
	for h := int32(gq.StartHeight); h <= stop.Height && h >= 0; h++ {
		o := x.old[h]
		var n *chaingen.Node
		if int(h) < len(x.neu) {
			n = x.neu[h]
		}
		switch role {
		case RoleOld:
			msg(o, o)
		case RoleNew:
			if n != nil {
				msg(n, n)
			}
		case RoleRelabel:
			if n != nil {
				msg(o, n)
			}
		case RoleRelabelOld:
			if n != nil {
				msg(o, n)
			}
			msg(o, o)
		case RoleOldRelabel:
			msg(o, o)
			if n != nil {
				msg(o, n)
			}
		}
	}
	return out
}

func (x *inflightDirector) book(p *netsim.Peer, role string, gq *wire.MsgGetCFilters, out []wire.Message) {
	d := x.d
	idx := d.peerIdx[p.Addr]
	d.mu.Lock()
	d.reqs++
	d.roundReqs++
	d.served["inflight:"+role]++
	d.roundLabels[role]++
	d.note(fmt.Sprintf("peer%d REQ start=%d -> %s (%d msgs)", idx, gq.StartHeight, role, len(out)))
	d.mu.Unlock()
	d.record(idx, role, out, false)
}

func (x *inflightDirector) mutate(p *netsim.Peer, req wire.Message, honest []wire.Message) []wire.Message {
	gq, ok := req.(*wire.MsgGetCFilters)
	if !ok {
		return x.d.Mutate(p, req, honest)
	}
	x.mu.Lock()
	if x.hold {
		x.held = append(x.held, heldReq{p, gq})
		x.mu.Unlock()
		return nil // answered later, from the scenario's goroutine (release)
	}
	late := x.neu != nil
	if late {
		x.late++
	}
	x.mu.Unlock()
	role := x.roles[x.d.peerIdx[p.Addr]]
	if !late {
		role = "honest"
	}
	out := x.answer(role, gq)
	x.book(p, role, gq, out)
	return out
}

func (x *inflightDirector) heldCount() int {
	x.mu.Lock()
	defer x.mu.Unlock()
	return len(x.held)
}

// release ends the hold and sends every held request's answer.
func (x *inflightDirector) release(neu []*chaingen.Node) int {
	x.mu.Lock()
	x.hold, x.neu = false, neu
	held := x.held
	x.held = nil
	x.mu.Unlock()
	for _, h := range held {
		role := x.roles[x.d.peerIdx[h.p.Addr]]
		out := x.answer(role, h.gq)
		x.book(h.p, role, h.gq, out)
		for _, m := range out {
			_ = h.p.Send(m)
		}
	}
	return len(held)
}

// RunInflight executes one scenario of the in-flight re-org family.
func RunInflight(plan InflightPlan, name string, res *l2.Result) {
	res.Name = name
	res.Fingerprint = plan.Describe()
	w := l2.NewWorld(l2.Config{Seed: plan.Seed, Preset: plan.Preset, Interval: plan.Interval, SpacingSec: 4, GenesisAgo: 2 * time.Hour})
	defer w.Cleanup()
	ext := w.G.Extend(w.G.Genesis, plan.ChainLen, chaingen.PaceNormal)
	tip := ext[len(ext)-1]
	d := NewDirector(plan.Seed, tip)
	x := &inflightDirector{d: d, roles: plan.Roles, old: tip.Path()}
	for range plan.Roles {
		p := w.AddPeer(tip)
		d.Attach(p)
		p.Mutate = x.mutate
	}
	s := &state{plan: Plan{Seed: plan.Seed, K: plan.J, ChainLen: plan.ChainLen, NPeers: len(plan.Roles), Persist: plan.Persist,
		RestartAfter: -1, Family: "inflight", Fixed: plan.Fixed},
		w: w, d: d, res: res, tip: tip, trunk: tip.Path(),
		cached: map[chainhash.Hash]bool{}, inDB: map[chainhash.Hash]bool{}, vio: map[string]int{}, badSeen: map[chainhash.Hash]bool{}}
	s.opts = l2.ClientOpts{PersistToDisk: plan.Persist}
	d.BeginRound(-1, nil, nil)
	if err := w.StartClient(nil, s.opts); err != nil {
		res.Inconcl("client start failed: " + err.Error())
		return
	}
	if !s.awaitReady() {
		_, _ = w.StopClient(30 * time.Second)
		return
	}
	if v := w.ValidateStored(true); v != "" {
		res.Inconcl("precondition: honest sync did not commit the true headers: " + v)
		_, _ = w.StopClient(30 * time.Second)
		return
	}
	before, err := l2.ReadFilterChain(w.Svc.RegFilterHeaders)
	if err != nil {
		res.Inconcl("committed filter headers unreadable: " + err.Error())
		_, _ = w.StopClient(30 * time.Second)
		return
	}

	// The call, with every peer holding its answer.
	c := plan.Call
	X := s.trunk[c.Height]
	rd := Round{Pattern: "inflight-reorg", Calls: []Call{c}}
	d.BeginRound(0, nil, map[int32]bool{c.Height: true})
	x.mu.Lock()
	x.hold = true
	x.mu.Unlock()
	done := make(chan callResult, 1)
	go func() {
		t0 := time.Now()
		f, err := w.Svc.GetCFilter(X.Hash, wire.GCSFilterRegular, callOpts(c)...)
		done <- callResult{f, err, time.Since(t0)}
	}()
	if !l2.WaitFor(60*time.Second, func() bool { return x.heldCount() > 0 }) {
		res.Inconcl("in-flight family: no getcfilters request reached a peer within 60s")
		x.release(nil)
		select {
		case <-done:
			_, _ = w.StopClient(30 * time.Second)
		case <-time.After(120 * time.Second):
		}
		return
	}
	res.Count("inflight_family/calls_with_request_held_by_peer", 1)

	// The re-org, while the answers are held.
	depth := int32(plan.Depth)
	forkNode := tip.Ancestor(tip.Height - depth)
	pace := chaingen.PaceNormal
	if plan.Extra == 0 {
		pace = chaingen.PaceFast
	}
	branch := w.G.Extend(forkNode, int(depth)+plan.Extra, pace)
	for i := 0; branch[len(branch)-1].CumWork.Cmp(tip.CumWork) <= 0 && i < 24; i++ {
		branch = append(branch, w.G.Extend(branch[len(branch)-1], 1, chaingen.PaceNormal)...)
	}
	newTip := branch[len(branch)-1]
	adopted := s.switchChain(newTip, branch, "headers")
	var early *callResult
	select {
	case r := <-done:
		early = &r
	default:
	}
	if !adopted {
		res.Inconcl("in-flight family: the client did not adopt the heavier honest branch within 90s while a filter query was outstanding (C04's subject)")
		x.release(newTip.Path())
		if early == nil {
			select {
			case <-done:
			case <-time.After(120 * time.Second):
				return
			}
		}
		_, _ = w.StopClient(30 * time.Second)
		return
	}
	if v := w.ValidateStored(true); v != "" {
		res.Inconcl("in-flight family precondition: after the re-org the committed headers are not the true ones of the new branch (C03/C19's subject): " + v)
	}
	res.Count("inflight_family/reorgs_adopted_while_answers_held(block+filter_headers_of_new_branch_committed)", 1)
	res.Count(fmt.Sprintf("inflight_family/depth_%d", depth), 1)
	if early != nil {
		// The query gave up before the re-org was through (load): the shape
		// was not reached; what came back is still judged.
		res.Count("inflight_family/call_returned_before_release(shape_not_reached)", 1)
	}
	nrel := x.release(newTip.Path())
	res.Count("inflight_family/held_requests_released_after_reorg", int64(nrel))
	var r callResult
	if early != nil {
		r = *early
	} else {
		select {
		case r = <-done:
		case <-time.After(180 * time.Second):
			res.Inconcl("GetCFilter did not return within 180s (watchdog)")
			return
		}
	}
	s.judgeInflight(x, plan, rd, X, before, r, "net", early == nil)
	s.checkCache("inflight-after-call", rd)

	// The same question again (whatever the first call left behind), when it
	// can be answered without the network.
	if r.err == nil {
		c2 := c
		c2.Repeat, c2.Retries = true, 1
		t0 := time.Now()
		f, err := w.Svc.GetCFilter(X.Hash, wire.GCSFilterRegular, callOpts(c2)...)
		s.judgeInflight(x, plan, Round{Pattern: "inflight-reorg:repeat", Calls: []Call{c2}}, X, before, callResult{f, err, time.Since(t0)}, "repeat", false)
	}
	// The block that now sits at the target's height on the committed chain.
	if int(c.Height) < len(s.trunk) {
		nn := s.trunk[c.Height]
		c3 := Call{Height: c.Height, Batch: c.Batch, Cap: c.Cap, Retries: 2, Boundary: "inflight/new-chain-block-at-target-height"}
		rd3 := Round{Pattern: "inflight-reorg:new-chain", Calls: []Call{c3}}
		d.BeginRound(1, nil, map[int32]bool{c.Height: true})
		t0 := time.Now()
		f, err := w.Svc.GetCFilter(nn.Hash, wire.GCSFilterRegular, callOpts(c3)...)
		res.Count("calls", 1)
		committed, cerr := l2.ReadFilterChain(w.Svc.RegFilterHeaders)
		out := "err"
		switch {
		case cerr != nil:
			res.Inconcl("committed filter headers unreadable: " + cerr.Error())
		case err == nil:
			out = "ok"
			res.Count("inflight_family/new_chain_calls_ok", 1)
			if why := verify(f, nn, committed); why != "" {
				out = "ok-UNVERIFIED"
				s.violate(evid.Sig("c05/returned-unverified", "inflight-reorg/new-chain-call", capClass(c3)),
					fmt.Sprintf("after an in-flight re-org GetCFilter(height %d of the new chain, %s) returned a filter that does not verify: %s", c.Height, capClass(c3), why),
					map[string]any{"plan": plan, "round_plan": rd3})
			}
		default:
			res.Count("inflight_family/new_chain_calls_failed", 1)
		}
		s.calls = append(s.calls, fmt.Sprintf("new-chain h=%d %s -> %s (%.1fs)", c.Height, capClass(c3), out, time.Since(t0).Seconds()))
		s.checkCache("inflight-after-new-chain-call", rd3)
	}
	if !s.stopAndCheckDB("end") {
		return
	}
	d.Counters(res.Count)
	x.mu.Lock()
	res.Count("inflight_family/requests_answered_at_once_after_release(retries)", x.late)
	x.mu.Unlock()
	res.Count("events_logged", w.Log.Len())
	res.Sample = map[string]any{"scenario": res.Name, "shape": plan.Describe(), "plan": plan, "calls": s.calls}
	res.Count("scenarios_of_family_inflight", 1)
	if plan.Fixed {
		res.Count("scenarios_fixed(seed-independent)", 1)
	}
}

// judgeInflight judges what a GetCFilter call for block X of the OLD chain
// returned when the committed chain was re-organised during (or before) it.
// ORACLE (the property's): a returned filter must verify against the filter
// headers COMMITTED for X. X's committed headers existed at the start of the
// first call (before[]: X sat at its height on the committed chain, whose
// headers were the true ones) and, if X is below the fork, still exist after
// it (the store as read now, X still at its height in the block header store).
// A call that overlaps the re-org may be judged against either state; a filter
// that verifies against NEITHER was never verifiable for X. For a later call
// (repeat) only the present state counts when X is still on the chain; when X
// has been replaced there is no committed header for it any more, and what is
// served can only be the filter that was verified while X was committed.
func (s *state) judgeInflight(x *inflightDirector, plan InflightPlan, rd Round, X *chaingen.Node, before []chainhash.Hash, r callResult, kind string, overlapped bool) {
	res, w := s.res, s.w
	c := rd.Calls[0]
	res.Count("calls", 1)
	labels, _, reqs := s.d.RoundServed()
	mut := strings.Join(labels, "+")
	if mut == "" {
		mut = "none-served"
	}
	outcome := ""
	wit := func() map[string]any {
		return map[string]any{"plan": plan, "round_plan": rd, "target_height_on_old_chain": X.Height, "target_hash": X.Hash.String(),
			"answers_in_round": labels, "requests_answered_in_round": reqs, "error": fmt.Sprint(r.err), "filter_nil": r.f == nil,
			"call_overlapped_the_reorg": overlapped}
	}
	switch {
	case r.err == nil && r.f == nil:
		outcome = "nil-nil"
		s.violate(evid.Sig("c05/nil-filter-without-error", "inflight-reorg", kind, capClass(c)),
			fmt.Sprintf("GetCFilter(height %d, %s) returned a nil filter and a nil error", c.Height, capClass(c)), wit())
	case r.err == nil:
		res.Count("successes", 1)
		after, cerr := l2.ReadFilterChain(w.Svc.RegFilterHeaders)
		if cerr != nil {
			res.Inconcl("committed filter headers unreadable: " + cerr.Error())
			return
		}
		stillOn := false
		if hdr, err := w.Svc.BlockHeaders.FetchHeaderByHeight(uint32(X.Height)); err == nil && hdr.BlockHash() == X.Hash {
			stillOn = true
		}
		whyBefore := verifyCommitted(r.f, X.Height, before)
		whyNow := "the block is not on the committed chain any more"
		if stillOn {
			whyNow = verifyCommitted(r.f, X.Height, after)
		}
		switch {
		case stillOn && whyNow == "":
			outcome = "ok(verifies-against-committed-now)"
		case whyBefore == "":
			outcome = "ok(block-replaced;verifies-against-headers-committed-at-call-start)"
			res.Count("inflight_family/returned_for_replaced_block_the_filter_verified_while_it_was_committed", 1)
		default:
			outcome = "ok-UNVERIFIED"
			s.violate(evid.Sig("c05/returned-unverified", "inflight-reorg", kind, s.plan.Family, capClass(c), c.Boundary),
				fmt.Sprintf("the committed chain was re-organised while GetCFilter(old height %d, %s) was outstanding; the call returned for that block a filter that verifies neither against the filter headers committed for it when the call began (%s) nor against those committed now (%s)",
					c.Height, capClass(c), whyBefore, whyNow), wit())
		}
	default:
		res.Count("errors", 1)
		outcome = "err"
	}
	if kind == "net" && overlapped {
		res.Count("inflight_family/calls_answered_after_reorg_completed", 1)
		res.Nontrivial = true
	}
	res.Mark(fmt.Sprintf("inflight kind=%s mut=%s batch=%s boundary=%s depth=%d persist=%v outcome=%s", kind, mut, capClass(c), c.Boundary, plan.Depth, plan.Persist, outcome))
	s.calls = append(s.calls, fmt.Sprintf("%s h=%d %s retries=%d [%s] -> %s (%.1fs)", kind, c.Height, capClass(c), c.Retries, mut, outcome, r.dur.Seconds()))
}

// ScenariosAllInflight is ScenariosAll plus the in-flight re-org family, whose
// scenarios follow the nReset scenarios of the header-reset family.
func ScenariosAllInflight(quick bool, nBase, nReorg, nLag, nReset int) l2.ScenarioFunc {
	inner := ScenariosAll(quick, nBase, nReorg, nLag)
	return func(seed int64, k int, res *l2.Result) {
		if k < nBase+nReorg+nLag+nReset {
			inner(seed, k, res)
			return
		}
		j := k - nBase - nReorg - nLag - nReset
		RunInflight(MakeInflightPlan(seed, j, quick), fmt.Sprintf("c05-inflight-%d", j), res)
	}
}
