package c05

import (
	"bytes"
	"encoding/hex"
	"fmt"
	"time"

	"github.com/btcsuite/btcd/btcutil/v2/gcs"
	"github.com/btcsuite/btcd/btcutil/v2/gcs/builder"
	"github.com/btcsuite/btcd/chainhash/v2"
	"github.com/btcsuite/btcd/wire/v2"
	"github.com/btcsuite/btcwallet/walletdb"
	"github.com/lightninglabs/neutrino"
	"github.com/lightninglabs/neutrino/filterdb"
	"github.com/lightninglabs/neutrino/headerfs"

	"verif/internal/chaingen"
	"verif/internal/evid"
	"verif/internal/l2"
	"verif/internal/netsim"
)

// ScenariosAll is Scenarios plus the header-reset family, whose scenarios
// follow the nLag scenarios of the lag family (the first NumFixedReset of them
// do not depend on the seed).
func ScenariosAll(quick bool, nBase, nReorg, nLag int) l2.ScenarioFunc {
	inner := Scenarios(quick, nBase, nReorg)
	return func(seed int64, k int, res *l2.Result) {
		if k < nBase+nReorg+nLag {
			inner(seed, k, res)
			return
		}
		j := k - nBase - nReorg - nLag
		RunReset(MakeResetPlan(seed, j, quick), fmt.Sprintf("c05-reset-%d", j), res)
	}
}

// verifyCommitted checks a filter of the block at height h against the
// COMMITTED filter headers alone: MakeHeaderForFilter(f, committed[h-1]) ==
// committed[h]. (The headers a lone liar got committed are false; a filter that
// matches them is what the client is specified to return.)
func verifyCommitted(f *gcs.Filter, h int32, committed []chainhash.Hash) string {
	if f == nil {
		return "nil filter"
	}
	if int(h) >= len(committed) {
		return fmt.Sprintf("no committed filter header at height %d", h)
	}
	var prev chainhash.Hash
	if h > 0 {
		prev = committed[h-1]
	}
	hdr, err := builder.MakeHeaderForFilter(f, prev)
	if err != nil {
		return "MakeHeaderForFilter: " + err.Error()
	}
	if hdr != committed[h] {
		return fmt.Sprintf("MakeHeaderForFilter(filter, committed[%d]) != committed[%d]", h-1, h)
	}
	return ""
}

func filterBytes(f *gcs.Filter) []byte {
	if f == nil {
		return nil
	}
	b, _ := f.NBytes()
	return b
}

type resetState struct {
	plan      ResetPlan
	w         *l2.World
	res       *l2.Result
	trunk     []*chaingen.Node
	lieKind   string // the lie actually told
	gen       int
	shape     string                  // shape part of generation 2's signatures
	gen1Ret   map[int32][]byte        // what GetCFilter returned in generation 1, by height
	persist1  map[int32][]byte        // what the database held when generation 1 stopped
	commit1   []chainhash.Hash        // committed filter headers of generation 1
	resetSeen bool                    // generation 2 opened with its filter tip at 0
	reported  map[string]int          // witnesses per signature
	badCache  map[chainhash.Hash]bool // cache entries already reported
	calls     []string
	facts     map[string]any
}

func (s *resetState) violate(sig, what string, wit map[string]any) {
	s.reported[sig]++
	if s.reported[sig] > 2 {
		return
	}
	wit["scenario_facts"] = s.facts
	wit["plan"] = s.plan
	wit["event_log_tail"] = s.w.Log.Tail(30)
	s.res.Violate(sig, what, wit)
}

func (s *resetState) truth(h int32) chainhash.Hash { return s.trunk[h].FilterHeader }

func (s *resetState) getcfiltersSeen() int64 {
	n := int64(0)
	for _, e := range s.w.Log.Snapshot() {
		if e.Dir == "rx" && e.Cmd == "getcfilters" {
			n++
		}
	}
	return n
}

func (s *resetState) cacheKeys() map[chainhash.Hash]bool {
	m := map[chainhash.Hash]bool{}
	s.w.Svc.FilterCache.RangeFILO(func(k neutrino.FilterCacheKey, _ *neutrino.CacheableFilter) bool {
		m[k.BlockHash] = true
		return true
	})
	return m
}

// dbFilter reads the database entry of a block (nil, false: none).
func (s *resetState) dbFilter(n *chaingen.Node) (*gcs.Filter, bool, error) {
	h := n.Hash
	f, err := s.w.Svc.FilterDB.FetchFilter(&h, filterdb.RegularFilter)
	if err == filterdb.ErrFilterNotFound {
		return nil, false, nil
	}
	return f, err == nil, err
}

// bytesFacts relates returned / stored filter bytes to the filters the
// harness knows for the block.
func (s *resetState) bytesFacts(h int32, got []byte, wit map[string]any) {
	wit["filter_hex"] = hex.EncodeToString(got)
	wit["true_filter_hex"] = hex.EncodeToString(s.trunk[h].FilterBytes)
	wit["equals_true_filter"] = bytes.Equal(got, s.trunk[h].FilterBytes)
	if g1, ok := s.gen1Ret[h]; ok {
		wit["generation1_returned_filter_hex"] = hex.EncodeToString(g1)
		wit["equals_filter_returned_in_generation_1"] = bytes.Equal(got, g1)
	}
	if p1, ok := s.persist1[h]; ok {
		wit["equals_filter_persisted_in_generation_1"] = bytes.Equal(got, p1)
	}
}

// RunReset executes one scenario of the header-reset family.
func RunReset(plan ResetPlan, name string, res *l2.Result) {
	res.Name = name
	res.Fingerprint = plan.Describe()
	span := time.Duration(plan.ChainLen+400) * 6 * time.Second
	if span < 2*time.Hour {
		span = 2 * time.Hour
	}
	w := l2.NewWorld(l2.Config{Seed: plan.Seed, Preset: plan.Preset, Interval: plan.Interval, SpacingSec: 4, GenesisAgo: span})
	defer w.Cleanup()
	ext := w.G.Extend(w.G.Genesis, plan.ChainLen, chaingen.PaceNormal)
	tip := ext[len(ext)-1]
	s := &resetState{plan: plan, w: w, res: res, trunk: tip.Path(), gen: 1, gen1Ret: map[int32][]byte{},
		persist1: map[int32][]byte{}, reported: map[string]int{}, badCache: map[chainhash.Hash]bool{}, facts: map[string]any{}}
	res.Count("scenarios_of_family_reset", 1)
	if plan.Fixed {
		res.Count("scenarios_fixed(seed-independent)", 1)
	}

	// ---- generation 1: the liar is the only peer --------------------------
	s.lieKind = plan.LieKind
	if s.lieKind == netsim.LieOmitScript && netsim.OmittableScript(s.trunk[plan.L]) == nil {
		// no output script of this block occurs exactly once: add an element instead
		s.lieKind = netsim.LieExtraElem
		res.Count("reset_family/omit-script_impossible(extra-elem_instead)", 1)
	}
	liar := w.AddLiar(tip, netsim.Lie{Kind: s.lieKind, Height: plan.L})
	opts := l2.ClientOpts{PersistToDisk: true}
	if plan.SmallCache {
		opts.FilterCache = 700
	}
	if err := w.StartClient([]string{liar.Addr}, opts); err != nil {
		res.Inconcl("client start failed: " + err.Error())
		return
	}
	if !l2.WaitFor(90*time.Second, func() bool { return w.SyncedTo(tip) }) {
		res.Inconcl("generation 1: the client did not sync to the liar's tip within 90s")
		_, _ = w.StopClient(30 * time.Second)
		return
	}
	commit1, err := l2.ReadFilterChain(w.Svc.RegFilterHeaders)
	if err != nil || len(commit1) != len(s.trunk) {
		res.Inconcl(fmt.Sprintf("generation 1: committed filter headers unreadable or short (%d of %d): %v", len(commit1), len(s.trunk), err))
		_, _ = w.StopClient(30 * time.Second)
		return
	}
	s.commit1 = commit1
	lieCommitted := commit1[plan.L] != s.truth(plan.L)
	for h := int32(0); h < plan.L; h++ {
		if commit1[h] != s.truth(h) {
			res.Inconcl(fmt.Sprintf("generation 1: committed filter header %d (below the lie at %d) differs from the ground truth", h, plan.L))
			_, _ = w.StopClient(30 * time.Second)
			return
		}
	}
	s.facts["lie"] = fmt.Sprintf("%s at height %d", s.lieKind, plan.L)
	s.facts["generation1_false_headers_committed"] = lieCommitted
	s.facts["generation1_committed_header_at_L"] = commit1[plan.L].String()
	s.facts["true_header_at_L"] = s.truth(plan.L).String()
	if lieCommitted {
		res.Count("reset_family/generation1_lone_liar_headers_committed", 1)
	} else {
		res.Count("reset_family/generation1_lie_not_committed", 1)
	}
	for i, c := range plan.Gen1 {
		if !s.call(i, c) {
			return
		}
	}
	persisted, ok := s.stopAndReadDB()
	if !ok {
		return
	}
	lieInDB := false
	for h, b := range persisted {
		s.persist1[h] = b
		if h == plan.L && lieCommitted && !bytes.Equal(b, s.trunk[h].FilterBytes) {
			lieInDB = true
		}
	}
	res.Count("reset_family/filters_persisted_in_generation_1", int64(len(persisted)))
	if lieInDB {
		res.Count("reset_family/generation1_false_filter_persisted", 1)
	}
	s.facts["generation1_false_filter_of_L_persisted"] = lieInDB

	// ---- generation 2: honest peers, the operator's assertion -------------
	s.gen = 2
	w.Net.Refuse(liar.Addr, true)
	var honest []string
	for i := 0; i < plan.Honest; i++ {
		honest = append(honest, w.AddPeer(tip).Addr)
	}
	assert := &headerfs.FilterHeader{Height: uint32(plan.A)}
	if int(plan.A) < len(s.trunk) {
		assert.HeaderHash, assert.FilterHash = s.trunk[plan.A].Hash, s.truth(plan.A)
	} else {
		// above the tip there is no block yet: any value the operator may believe in
		assert.FilterHash = chainhash.DoubleHashH([]byte(fmt.Sprintf("reset-%d-%d", plan.Seed, plan.A)))
	}
	openTip := int64(-1)
	o2 := opts
	o2.Dir = w.Dir
	o2.AssertFilterHeader = assert
	o2.BeforeStart = func(svc *neutrino.ChainService) {
		if _, h, err := svc.RegFilterHeaders.ChainTip(); err == nil {
			openTip = int64(h)
		}
	}
	if err := w.StartClient(honest, o2); err != nil {
		res.Inconcl("generation 2: client start failed: " + err.Error())
		return
	}
	res.Count("client_restarts", 1)
	s.resetSeen = openTip == 0 && len(commit1) > 1
	s.facts["assertion"] = fmt.Sprintf("height %d (%s)", plan.A, plan.Assert)
	s.facts["generation2_filter_tip_when_opened"] = openTip
	s.facts["filter_header_store_reset"] = s.resetSeen
	if s.resetSeen {
		res.Count("reset_family/resets_observed(generation2_filter_tip_restarted_from_0)", 1)
		s.shape = "after-filter-header-reset"
	} else {
		res.Count("reset_family/restarts_without_reset/"+plan.Assert, 1)
		s.shape = "after-restart-without-reset"
	}
	if want := lieCommitted && plan.Resets(); want != s.resetSeen {
		// Whether the assertion resets the store is not this property's subject;
		// the scenario just did not take the shape it was planned for.
		res.Count("reset_family/reset_expectation_missed", 1)
	}
	if !l2.WaitFor(90*time.Second, func() bool { return w.SyncedTo(tip) }) {
		res.Inconcl("generation 2: the client did not (re-)sync to the tip within 90s")
		_, _ = w.StopClient(30 * time.Second)
		return
	}
	commit2, err := l2.ReadFilterChain(w.Svc.RegFilterHeaders)
	if err != nil {
		res.Inconcl("generation 2: committed filter headers unreadable: " + err.Error())
		_, _ = w.StopClient(30 * time.Second)
		return
	}
	if s.resetSeen {
		if v := w.ValidateStored(true); v != "" {
			res.Inconcl("generation 2 precondition: the re-sync from honest peers did not commit the true headers: " + v)
			_, _ = w.StopClient(30 * time.Second)
			return
		}
		s.facts["generation2_committed_headers_equal_ground_truth"] = true
	} else {
		same := len(commit2) == len(commit1)
		for i := 0; same && i < len(commit2); i++ {
			same = commit2[i] == commit1[i]
		}
		s.facts["generation2_committed_headers_equal_generation1"] = same
	}
	// Survey (counter only): what generation 1 persisted and the database still
	// holds, against the headers committed now.
	stale := int64(0)
	for h, b := range s.persist1 {
		f, found, err := s.dbFilter(s.trunk[h])
		if err != nil || !found || !bytes.Equal(filterBytes(f), b) {
			continue
		}
		if verifyCommitted(f, h, commit2) != "" {
			stale++
		}
	}
	res.Count("reset_family/filters_persisted_in_generation_1_that_no_longer_verify", stale)
	s.facts["generation1_filters_in_db_that_no_longer_verify"] = stale
	for i, c := range plan.Gen2 {
		if !s.call(i, c) {
			return
		}
	}
	if _, ok := s.stopAndReadDB(); !ok {
		return
	}
	res.Count("events_logged", w.Log.Len())
	res.Sample = map[string]any{"scenario": res.Name, "shape": plan.Describe(), "chain": plan.ChainLen, "lie_at": plan.L,
		"asserted_height": plan.A, "facts": s.facts, "calls": s.calls}
}

// call issues one GetCFilter and judges the result, then the cache. false:
// the call did not return (scenario abandoned).
func (s *resetState) call(i int, c Call) bool {
	w, res := s.w, s.res
	node := s.trunk[c.Height]
	src := "net"
	if s.cacheKeys()[node.Hash] {
		src = "cache"
	} else if _, found, _ := s.dbFilter(node); found {
		src = "db"
	}
	before := s.getcfiltersSeen()
	type out struct {
		f   *gcs.Filter
		err error
	}
	ch := make(chan out, 1)
	t0 := time.Now()
	go func() {
		f, err := w.Svc.GetCFilter(node.Hash, wire.GCSFilterRegular, callOpts(c)...)
		ch <- out{f, err}
	}()
	var o out
	select {
	case o = <-ch:
	case <-time.After(180 * time.Second):
		res.Inconcl(fmt.Sprintf("GetCFilter did not return within 180s (watchdog, reset family generation %d)", s.gen))
		return false
	}
	reqs := s.getcfiltersSeen() - before
	if src != "net" && reqs > 0 {
		src = "net" // evicted / written meanwhile: the peers were asked after all
	}
	res.Count("calls", 1)
	res.Count(fmt.Sprintf("reset_family/calls_generation_%d", s.gen), 1)
	committed, cerr := l2.ReadFilterChain(w.Svc.RegFilterHeaders)
	if cerr != nil {
		res.Inconcl("committed filter headers unreadable: " + cerr.Error())
		return false
	}
	outcome := ""
	wit := func() map[string]any {
		m := map[string]any{"generation": s.gen, "call_index": i, "call": c, "height": c.Height, "source": src,
			"getcfilters_requests_during_call": reqs, "error": fmt.Sprint(o.err),
			"true_header_prev": s.truth(c.Height - 1).String(), "true_header": s.truth(c.Height).String()}
		if int(c.Height) < len(committed) {
			m["committed_header_prev"], m["committed_header"] = committed[c.Height-1].String(), committed[c.Height].String()
			m["committed_headers_equal_true_headers_here"] = committed[c.Height-1] == s.truth(c.Height-1) && committed[c.Height] == s.truth(c.Height)
		}
		if o.f != nil {
			s.bytesFacts(c.Height, filterBytes(o.f), m)
		}
		return m
	}
	shape := s.shape
	if s.gen == 1 {
		shape = "lone-liar-generation"
	}
	switch {
	case o.err == nil && o.f == nil:
		outcome = "nil-nil"
		s.violate(evid.Sig("c05/nil-filter-without-error", shape, src, capClass(c), c.Boundary),
			fmt.Sprintf("GetCFilter(height %d, %s) returned a nil filter and a nil error", c.Height, capClass(c)), wit())
	case o.err == nil:
		res.Count("successes", 1)
		res.Count("successes_from_"+src, 1)
		outcome = "ok-" + src
		if s.gen == 1 {
			s.gen1Ret[c.Height] = filterBytes(o.f)
		} else if src == "db" {
			res.Count("reset_family/database_hits_served_in_generation_2", 1)
			if g1, ok := s.persist1[c.Height]; ok && bytes.Equal(g1, filterBytes(o.f)) {
				res.Count("reset_family/database_hits_of_generation_1_filters", 1)
				if s.facts["generation1_false_headers_committed"] == true {
					res.Nontrivial = true
				}
			}
		}
		if why := verifyCommitted(o.f, c.Height, committed); why != "" {
			outcome = "ok-UNVERIFIED"
			s.violate(evid.Sig("c05/returned-unverified", src, shape, c.Boundary),
				fmt.Sprintf("GetCFilter(height %d, %s) returned, from source %q, a filter that does not verify against the committed filter headers (%s): %s",
					c.Height, capClass(c), src, shape, why), wit())
		}
	default:
		res.Count("errors", 1)
		outcome = "err"
		if s.gen == 2 && !s.resetSeen {
			res.Count("reset_family/errors_without_reset(honest_filter_vs_false_committed_header_possible)", 1)
		}
	}
	res.Mark(fmt.Sprintf("family=reset gen=%d shape=%s lie=%s assert=%s batch=%s target=%s outcome=%s",
		s.gen, shape, s.lieKind, s.plan.Assert, capClass(c), c.Boundary, outcome))
	s.calls = append(s.calls, fmt.Sprintf("g%d h=%d %s retries=%d -> %s (%.1fs, %d getcfilters)", s.gen, c.Height, capClass(c),
		c.Retries, outcome, time.Since(t0).Seconds(), reqs))
	s.checkCache(fmt.Sprintf("generation-%d-after-call-%d", s.gen, i), committed, shape)
	return true
}

// checkCache: every cache entry verifies against the committed headers.
func (s *resetState) checkCache(when string, committed []chainhash.Hash, shape string) {
	n := int64(0)
	s.w.Svc.FilterCache.RangeFILO(func(k neutrino.FilterCacheKey, v *neutrino.CacheableFilter) bool {
		n++
		if s.badCache[k.BlockHash] {
			return true
		}
		node := s.w.G.Lookup(k.BlockHash)
		wit := map[string]any{"when": when, "cache_key_block": k.BlockHash.String()}
		switch {
		case node == nil || int(node.Height) >= len(s.trunk) || s.trunk[node.Height] != node:
			s.badCache[k.BlockHash] = true
			s.violate(evid.Sig("c05/cached-under-foreign-key", shape),
				"the filter cache holds an entry keyed by a hash that is no block of the chain", wit)
		case v == nil || v.Filter == nil:
			s.badCache[k.BlockHash] = true
			s.violate(evid.Sig("c05/cached-nil", shape), fmt.Sprintf("the filter cache holds a nil filter for height %d", node.Height), wit)
		default:
			if why := verifyCommitted(v.Filter, node.Height, committed); why != "" {
				s.badCache[k.BlockHash] = true
				wit["height"] = node.Height
				s.bytesFacts(node.Height, filterBytes(v.Filter), wit)
				s.violate(evid.Sig("c05/cached-unverified", shape, relToLie(node.Height, s.plan.L)),
					fmt.Sprintf("the filter cache holds, for block height %d, a filter that does not verify against the committed filter headers (%s): %s",
						node.Height, shape, why), wit)
			}
		}
		return true
	})
	s.res.Count("cache_entries_verified", n)
}

// stopAndReadDB lets the batch writer drain, stops the service, verifies every
// database entry the client can still serve against the filter headers that
// were committed when it stopped, and closes the database. It returns the
// stored filter bytes by height.
func (s *resetState) stopAndReadDB() (map[int32][]byte, bool) {
	w, res := s.w, s.res
	count := func() int {
		n := 0
		for _, node := range s.trunk {
			if _, found, _ := s.dbFilter(node); found {
				n++
			}
		}
		return n
	}
	// Coverage only, no oracle: give the batch writer (500 ms ticker) its chance.
	last, stable := -1, 0
	l2.WaitFor(6*time.Second, func() bool {
		n := count()
		if n == last {
			stable++
		} else {
			last, stable = n, 0
		}
		time.Sleep(120 * time.Millisecond)
		return stable >= 6
	})
	committed, err := l2.ReadFilterChain(w.Svc.RegFilterHeaders)
	if err != nil {
		res.Inconcl("committed filter headers unreadable: " + err.Error())
		return nil, false
	}
	shape := s.shape
	if s.gen == 1 {
		shape = "lone-liar-generation"
	}
	s.checkCache(fmt.Sprintf("generation-%d-before-stop", s.gen), committed, shape)
	if okStop, _ := w.StopService(60 * time.Second); !okStop {
		res.Inconcl("Stop did not return within 60s (C17's subject)")
		return nil, false
	}
	defer w.CloseDB()
	out := map[int32][]byte{}
	n := int64(0)
	for _, node := range s.trunk {
		f, found, err := s.dbFilter(node)
		wit := map[string]any{"when": fmt.Sprintf("generation %d stopped", s.gen), "height": node.Height}
		switch {
		case err != nil:
			wit["error"] = err.Error()
			s.violate(evid.Sig("c05/persisted-unreadable", shape),
				fmt.Sprintf("FilterDB.FetchFilter(height %d) fails: the stored bytes are not a filter", node.Height), wit)
		case !found:
		case f == nil:
			s.violate(evid.Sig("c05/persisted-empty", shape), fmt.Sprintf("FilterDB holds an empty (nil) filter for height %d", node.Height), wit)
		default:
			n++
			out[node.Height] = filterBytes(f)
			if why := verifyCommitted(f, node.Height, committed); why != "" {
				if node.Height > 0 {
					wit["committed_header_prev"], wit["true_header_prev"] = committed[node.Height-1].String(), s.truth(node.Height-1).String()
				}
				wit["committed_header"], wit["true_header"] = committed[node.Height].String(), s.truth(node.Height).String()
				s.bytesFacts(node.Height, out[node.Height], wit)
				s.violate(evid.Sig("c05/persisted-unverified", shape, relToLie(node.Height, s.plan.L)),
					fmt.Sprintf("after Stop FilterDB still serves, for block height %d, a filter that does not verify against the committed filter headers (%s): %s",
						node.Height, shape, why), wit)
			}
		}
	}
	// Complete key set: nothing under a hash that is no block of the chain.
	if w.DB != nil {
		keys := 0
		_ = walletdb.View(w.DB, func(tx walletdb.ReadTx) error {
			b := tx.ReadBucket([]byte("filter-store"))
			if b == nil {
				return nil
			}
			rb := b.NestedReadBucket([]byte("regular"))
			if rb == nil {
				return nil
			}
			return rb.ForEach(func(k, _ []byte) error {
				keys++
				var h chainhash.Hash
				copy(h[:], k)
				node := w.G.Lookup(h)
				if len(k) != chainhash.HashSize || node == nil || s.trunk[node.Height] != node {
					s.violate(evid.Sig("c05/persisted-under-foreign-key", shape),
						"FilterDB holds an entry keyed by a hash that is no block of the chain",
						map[string]any{"key": hex.EncodeToString(k)})
				}
				return nil
			})
		})
		res.Count("db_keys_enumerated", int64(keys))
	}
	res.Count("db_entries_verified", n)
	return out, true
}
