package c05

import (
	"fmt"
	"math/rand"
	"sort"
	"sync"
	"sync/atomic"
	"time"

	"github.com/btcsuite/btcd/btcutil/v2/gcs"
	"github.com/btcsuite/btcd/btcutil/v2/gcs/builder"
	"github.com/btcsuite/btcd/chainhash/v2"
	"github.com/btcsuite/btcd/wire/v2"

	"verif/internal/chaingen"
	"verif/internal/netsim"
)

// Director owns the per-round mutation scripts of all peers and the record of
// everything the peers sent (the peer-side half of the oracle).
type Director struct {
	// chain is the honest best chain the peers currently serve (index =
	// height, 0 = genesis). It is replaced as a whole by SetChain when the
	// honest chain grows or re-organises; peer goroutines only load it.
	chain atomic.Pointer[[]*chaingen.Node]
	// byHash knows every block that was EVER part of the honest chain (blocks
	// of replaced branches stay: a key naming one of them is not "foreign").
	// replaced maps a height to the block that the most recent re-organisation
	// replaced at that height.
	hmu      sync.RWMutex
	byHash   map[chainhash.Hash]*chaingen.Node
	replaced map[int32]*chaingen.Node
	peerIdx  map[string]int
	seed     int64
	cur      atomic.Pointer[roundState]
	reqSeq   atomic.Int64
	// unsolValid is the per-round allowance of VALID unsolicited filters: a
	// valid in-range filter counts as progress and re-arms the worker's
	// timeout, so an unbounded trickle would keep a failing query alive for
	// minutes (legitimate client behaviour, but unaffordable here).
	unsolValid atomic.Int32
	// validCeil (0 = none): unsolicited VALID filters are only sent for
	// heights up to it (the blocks above are the ones re-orgs will replace).
	validCeil atomic.Int32
	// lag: blocks above the client's filter-header tip whose filter headers
	// the peers withhold (lag phase).
	lag atomic.Pointer[[]*chaingen.Node]
	// lagBy: the blocks currently above the filter-header tip (under hmu).
	lagBy map[chainhash.Hash]*chaingen.Node

	mu          sync.Mutex
	good        map[chainhash.Hash]int // block -> verifiable cfilter messages handed to the wire
	badFor      map[chainhash.Hash]int // block -> non-verifiable messages naming that block
	foreign     map[chainhash.Hash]bool
	reqs        int64
	served      map[string]int64 // base kind -> requests answered
	roundLabels map[string]int
	roundPos    map[string]bool
	roundReqs   int
	msgsGood    int64
	msgsBad     int64
	lagNamed    int64 // messages naming a block above the client's filter-header tip
	unsolGood   int64
	unsolBad    int64
	recent      []string
}

type roundState struct {
	idx     int
	specs   []Spec
	targets map[int32]bool
}

// NewDirector builds a director for the chain ending in tip.
func NewDirector(seed int64, tip *chaingen.Node) *Director {
	d := &Director{byHash: map[chainhash.Hash]*chaingen.Node{}, replaced: map[int32]*chaingen.Node{}, lagBy: map[chainhash.Hash]*chaingen.Node{},
		peerIdx: map[string]int{}, seed: seed,
		good: map[chainhash.Hash]int{}, badFor: map[chainhash.Hash]int{}, foreign: map[chainhash.Hash]bool{},
		served: map[string]int64{}, roundLabels: map[string]int{}, roundPos: map[string]bool{}}
	d.SetChain(tip)
	return d
}

// SetChain makes the chain ending in tip the honest best chain. Its blocks are
// added to the set of known chain blocks; blocks of the previous chain that
// are not on the new one are remembered as replaced (they stay known).
func (d *Director) SetChain(tip *chaingen.Node) {
	path := tip.Path()
	d.hmu.Lock()
	if old := d.chain.Load(); old != nil {
		// Only the blocks replaced by the LATEST re-organisation are kept as
		// "the replaced block at that height" (pure growth replaces nothing).
		repl := map[int32]*chaingen.Node{}
		for h, n := range *old {
			if h >= len(path) || path[h] != n {
				repl[int32(h)] = n
			}
		}
		if len(repl) > 0 {
			d.replaced = repl
		}
	}
	for _, n := range path {
		d.byHash[n.Hash] = n
	}
	d.hmu.Unlock()
	d.chain.Store(&path)
}

// path returns the current honest chain (index = height).
func (d *Director) path() []*chaingen.Node { return *d.chain.Load() }

// OnChain reports whether n is a block of the current honest chain.
func (d *Director) OnChain(n *chaingen.Node) bool {
	p := d.path()
	return n != nil && int(n.Height) < len(p) && p[n.Height] == n
}

// Replaced returns the block a re-organisation most recently replaced at
// height h (nil if none).
func (d *Director) Replaced(h int32) *chaingen.Node {
	d.hmu.RLock()
	defer d.hmu.RUnlock()
	return d.replaced[h]
}

// SetValidCeil restricts unsolicited VALID filters to heights <= h.
func (d *Director) SetValidCeil(h int32) { d.validCeil.Store(h) }

// Attach installs the director on a peer.
func (d *Director) Attach(p *netsim.Peer) {
	d.peerIdx[p.Addr] = len(d.peerIdx)
	p.Mutate = d.Mutate
}

// Node returns the chain block with the given hash (nil if none).
func (d *Director) Node(h chainhash.Hash) *chaingen.Node {
	d.hmu.RLock()
	defer d.hmu.RUnlock()
	return d.byHash[h]
}

// BeginRound installs the mutations of a round.
func (d *Director) BeginRound(idx int, specs []Spec, targets map[int32]bool) {
	d.mu.Lock()
	d.roundLabels = map[string]int{}
	d.roundPos = map[string]bool{}
	d.roundReqs = 0
	d.mu.Unlock()
	d.unsolValid.Store(4)
	d.cur.Store(&roundState{idx: idx, specs: specs, targets: targets})
}

// RoundServed reports which mutation labels / position classes answered
// requests since BeginRound, and how many requests were answered.
func (d *Director) RoundServed() (labels []string, pos []string, reqs int) {
	d.mu.Lock()
	defer d.mu.Unlock()
	for l := range d.roundLabels {
		labels = append(labels, l)
	}
	for p := range d.roundPos {
		pos = append(pos, p)
	}
	sort.Strings(labels)
	sort.Strings(pos)
	return labels, pos, d.roundReqs
}

// Good returns how many verifiable filters for the block were handed to the
// wire by any peer so far.
func (d *Director) Good(h chainhash.Hash) int { d.mu.Lock(); defer d.mu.Unlock(); return d.good[h] }

// Recent returns the last recorded sends.
func (d *Director) Recent() []string {
	d.mu.Lock()
	defer d.mu.Unlock()
	return append([]string(nil), d.recent...)
}

// Verifies decides, from the generator's ground truth, whether a cfilter
// message is a verifiable filter of the chain block it names.
func (d *Director) Verifies(m *wire.MsgCFilter) (n *chaingen.Node, ok bool) {
	n = d.Node(m.BlockHash)
	if n == nil || m.FilterType != wire.GCSFilterRegular {
		return n, false
	}
	f, err := gcs.FromNBytes(builder.DefaultP, builder.DefaultM, m.Data)
	if err != nil {
		return n, false
	}
	var prev chainhash.Hash
	if n.Parent != nil {
		prev = n.Parent.FilterHeader
	}
	hdr, err := builder.MakeHeaderForFilter(f, prev)
	return n, err == nil && hdr == n.FilterHeader
}

func (d *Director) note(s string) {
	d.recent = append(d.recent, s)
	if len(d.recent) > 60 {
		d.recent = d.recent[len(d.recent)-60:]
	}
}

// record books every outgoing cfilter message (before it is written).
func (d *Director) record(peer int, label string, msgs []wire.Message, unsolicited bool) {
	d.mu.Lock()
	defer d.mu.Unlock()
	g, b := 0, 0
	for _, m := range msgs {
		cf, ok := m.(*wire.MsgCFilter)
		if !ok {
			continue
		}
		n, ok := d.Verifies(cf)
		switch {
		case ok:
			d.good[n.Hash]++
			g++
		case n != nil:
			d.badFor[n.Hash]++
			b++
			if len(msgs) <= 8 || b <= 3 {
				d.note(fmt.Sprintf("peer%d %s BAD type=%d names-height=%d len=%d", peer, label, cf.FilterType, n.Height, len(cf.Data)))
			}
		default:
			b++
			if ln := d.LagNode(cf.BlockHash); ln != nil {
				// A block above the client's filter-header tip: whatever the
				// message carries, the client has no committed header for it.
				d.lagNamed++
				if len(msgs) <= 8 || b <= 3 {
					d.note(fmt.Sprintf("peer%d %s UNVERIFIABLE names-height=%d (above the filter-header tip) len=%d", peer, label, ln.Height, len(cf.Data)))
				}
				break
			}
			d.foreign[cf.BlockHash] = true
			d.note(fmt.Sprintf("peer%d %s BAD foreign-hash len=%d", peer, label, len(cf.Data)))
		}
	}
	if unsolicited {
		d.unsolGood += int64(g)
		d.unsolBad += int64(b)
	} else {
		d.msgsGood += int64(g)
		d.msgsBad += int64(b)
	}
}

// Booked returns how many cfilter messages were booked in total.
func (d *Director) Booked() int64 {
	d.mu.Lock()
	defer d.mu.Unlock()
	return d.msgsGood + d.msgsBad + d.unsolGood + d.unsolBad
}

// Foreign returns the block hashes sent that name no block of the chain.
func (d *Director) Foreign() []chainhash.Hash {
	d.mu.Lock()
	defer d.mu.Unlock()
	var out []chainhash.Hash
	for h := range d.foreign {
		out = append(out, h)
	}
	return out
}

// Counters exports the measured peer-side numbers.
func (d *Director) Counters(add func(string, int64)) {
	d.mu.Lock()
	defer d.mu.Unlock()
	add("getcfilters_requests_answered", d.reqs)
	add("cfilter_msgs_sent_verifiable", d.msgsGood)
	add("cfilter_msgs_sent_unverifiable", d.msgsBad)
	add("unsolicited_msgs_sent_verifiable", d.unsolGood)
	add("unsolicited_msgs_sent_unverifiable", d.unsolBad)
	if d.lagNamed > 0 {
		add("cfilter_msgs_sent_naming_blocks_above_filter_tip", d.lagNamed)
	}
	for k, v := range d.served {
		add("served/"+k, v)
	}
}

// SetLag starts withholding the filter headers of the given new blocks: ns are
// ALL blocks of the peers' chain above the client's filter-header tip, lowest
// first. Blocks that were in the previous set and are not in this one were
// replaced by a re-org: they stay known as replaced blocks.
func (d *Director) SetLag(ns []*chaingen.Node) {
	ns = append([]*chaingen.Node(nil), ns...)
	d.hmu.Lock()
	old := d.lagBy
	d.lagBy = map[chainhash.Hash]*chaingen.Node{}
	for _, n := range ns {
		d.lagBy[n.Hash] = n
	}
	for h, n := range old {
		if d.lagBy[h] == nil {
			d.byHash[h] = n
		}
	}
	d.hmu.Unlock()
	d.lag.Store(&ns)
}

// LagNode returns the block with the given hash if it is one of the blocks
// above the client's filter-header tip (nil if not).
func (d *Director) LagNode(h chainhash.Hash) *chaingen.Node {
	d.hmu.RLock()
	defer d.hmu.RUnlock()
	return d.lagBy[h]
}

// LagNodes returns the blocks above the client's filter-header tip.
func (d *Director) LagNodes() []*chaingen.Node {
	if l := d.lag.Load(); l != nil {
		return *l
	}
	return nil
}

// lagShift builds a KLagShift answer: see the kind's description.
func (d *Director) lagShift(s Spec, gq *wire.MsgGetCFilters, entries []*wire.MsgCFilter, targets map[int32]bool, rng *rand.Rand) []wire.Message {
	lag := d.LagNodes()
	if len(lag) == 0 || s.Shift < 1 {
		out := make([]wire.Message, 0, len(entries))
		for _, e := range entries {
			out = append(out, e)
		}
		return out
	}
	full := lag[len(lag)-1].Path() // the peers' whole chain, index = height
	ftip := lag[0].Height - 1      // the client's filter-header tip
	top := int32(len(full) - 1)
	// The heights the answer names: the requested range and the block(s) the
	// caller asked for.
	hs := map[int32]bool{}
	for i := range entries {
		if x := int32(gq.StartHeight) + int32(i); x >= 1 && x <= top {
			hs[x] = true
		}
	}
	for x := range targets {
		if x >= 1 && x <= top {
			hs[x] = true
		}
	}
	var order []int32
	for x := range hs {
		order = append(order, x)
	}
	sort.Slice(order, func(i, j int) bool { return order[i] < order[j] })
	mk := func(x, src int32) *wire.MsgCFilter {
		if src < 0 {
			src = 0
		}
		hash := full[x].Hash
		return wire.NewMsgCFilter(wire.GCSFilterRegular, &hash, append([]byte(nil), full[src].FilterBytes...))
	}
	var out []wire.Message
	for _, x := range order {
		shifted := false
		switch s.Pos {
		case "all":
			shifted = true
		case "above":
			shifted = x > ftip
		default:
			shifted = targets[x]
		}
		if !shifted {
			out = append(out, mk(x, x))
			continue
		}
		switch s.Keep {
		case "before":
			out = append(out, mk(x, x-s.Shift), mk(x, x))
		case "after":
			out = append(out, mk(x, x), mk(x, x-s.Shift))
		default:
			out = append(out, mk(x, x-s.Shift))
		}
	}
	if s.Push {
		for _, n := range lag {
			out = append(out, mk(n.Height, n.Height))
		}
	}
	switch s.Order {
	case "shuffle":
		rng.Shuffle(len(out), func(i, j int) { out[i], out[j] = out[j], out[i] })
	case "reverse":
		for i, j := 0, len(out)-1; i < j; i, j = i+1, j-1 {
			out[i], out[j] = out[j], out[i]
		}
	}
	return out
}

func (d *Director) withheld(h chainhash.Hash) bool {
	if l := d.lag.Load(); l != nil {
		for _, n := range *l {
			if n.Hash == h {
				return true
			}
		}
	}
	return false
}

// Mutate is installed as netsim.Peer.Mutate.
func (d *Director) Mutate(p *netsim.Peer, req wire.Message, honest []wire.Message) []wire.Message {
	switch t := req.(type) {
	case *wire.MsgGetCFHeaders:
		if d.withheld(t.StopHash) {
			return nil
		}
	case *wire.MsgGetCFCheckpt:
		if d.withheld(t.StopHash) {
			return nil
		}
	}
	gq, ok := req.(*wire.MsgGetCFilters)
	if !ok {
		return honest
	}
	st := d.cur.Load()
	idx := d.peerIdx[p.Addr]
	spec := Spec{Kind: KHonest}
	targets := map[int32]bool{}
	if st != nil && idx < len(st.specs) {
		spec, targets = st.specs[idx], st.targets
	}
	var entries []*wire.MsgCFilter
	for _, m := range honest {
		if cf, ok := m.(*wire.MsgCFilter); ok {
			entries = append(entries, cf)
		}
	}
	seq := d.reqSeq.Add(1)
	rng := rand.New(rand.NewSource(d.seed*31 + seq*1009 + int64(idx)))
	var out []wire.Message
	switch {
	case spec.Kind == KLagPush:
		out = append(out, honest...)
		if l := d.lag.Load(); l != nil {
			for _, n := range *l {
				hash := n.Hash
				out = append(out, wire.NewMsgCFilter(wire.GCSFilterRegular, &hash, append([]byte(nil), n.FilterBytes...)))
			}
		}
	case spec.Kind == KLagShift:
		out = d.lagShift(spec, gq, entries, targets, rng)
	case len(entries) == 0:
		out = honest
	default:
		out = d.apply(spec, entries, int32(gq.StartHeight), targets, rng)
	}
	base := spec.Kind
	if spec.Kind == KCorrupt {
		base += ":" + spec.Corr
	}
	if spec.Kind == KLagShift {
		base += ":" + spec.Rel
	}
	d.mu.Lock()
	d.reqs++
	d.roundReqs++
	d.served[base]++
	d.roundLabels[spec.Label()]++
	d.roundPos[spec.PosClass()] = true
	d.note(fmt.Sprintf("peer%d REQ start=%d n=%d -> %s (%d msgs)", idx, gq.StartHeight, len(entries), spec.Label(), len(out)))
	d.mu.Unlock()
	d.record(idx, spec.Label(), out, false)
	if len(out) == 0 {
		return nil
	}
	return out
}

func clone(e *wire.MsgCFilter) *wire.MsgCFilter {
	c := *e
	c.Data = append([]byte(nil), e.Data...)
	return &c
}

func (d *Director) tipHeight() int32 { return int32(len(d.path()) - 1) }

// corrupt produces the corrupted version of the entry for height h in a
// response covering [start, stop].
func (d *Director) corrupt(e *wire.MsgCFilter, corr string, h, start, stop int32, rng *rand.Rand) *wire.MsgCFilter {
	c := clone(e)
	trunk := d.path()
	tip := int32(len(trunk) - 1)
	otherHeight := func(near bool) int32 {
		if near {
			if h+1 <= tip && (h-1 < 0 || rng.Intn(2) == 0) {
				return h + 1
			}
			return h - 1
		}
		for {
			o := int32(rng.Intn(int(tip) + 1))
			if o != h {
				return o
			}
		}
	}
	switch corr {
	case CBitflip:
		if len(c.Data) == 0 {
			c.Data = []byte{1}
			break
		}
		i := rng.Intn(len(c.Data))
		c.Data[i] ^= 1 << uint(rng.Intn(8))
	case CTruncate:
		if len(c.Data) > 0 {
			cut := 1
			if rng.Intn(2) == 0 && len(c.Data) > 2 {
				cut = 1 + rng.Intn(len(c.Data)-1)
			}
			c.Data = c.Data[:len(c.Data)-cut]
		}
	case CGarbage:
		n := len(c.Data)
		if rng.Intn(2) == 0 {
			n = 1 + rng.Intn(40)
		}
		c.Data = make([]byte, n)
		rng.Read(c.Data)
	case CEmpty:
		c.Data = []byte{}
	case CExtend:
		extra := make([]byte, 1+rng.Intn(3))
		rng.Read(extra)
		c.Data = append(c.Data, extra...)
	case CNChange:
		if len(c.Data) > 0 {
			if c.Data[0] < 0xfc && rng.Intn(2) == 0 {
				c.Data[0]++
			} else if c.Data[0] > 0 {
				c.Data[0]--
			} else {
				c.Data[0] = 1
			}
		}
	case COtherNear:
		c.Data = append([]byte(nil), trunk[otherHeight(true)].FilterBytes...)
	case COtherFar:
		c.Data = append([]byte(nil), trunk[otherHeight(false)].FilterBytes...)
	case CHashOutside:
		var cand []int32
		if start-1 >= 1 {
			cand = append(cand, start-1)
		}
		if stop+1 <= tip {
			cand = append(cand, stop+1)
		}
		for i := 0; i < 2; i++ {
			o := int32(1 + rng.Intn(int(tip)))
			if o < start || o > stop {
				cand = append(cand, o)
			}
		}
		if len(cand) == 0 {
			cand = append(cand, 0)
		}
		c.BlockHash = trunk[cand[rng.Intn(len(cand))]].Hash
	case CHashInside:
		if stop > start {
			o := start + int32(rng.Intn(int(stop-start+1)))
			if o == h {
				if o < stop {
					o++
				} else {
					o--
				}
			}
			c.BlockHash = trunk[o].Hash
		} else if h+1 <= tip {
			c.BlockHash = trunk[h+1].Hash
		} else {
			c.BlockHash = trunk[h-1].Hash
		}
	case CHashForeign:
		if rng.Intn(3) == 0 {
			c.BlockHash = trunk[0].Hash
		} else {
			rng.Read(c.BlockHash[:])
		}
	case CWrongType:
		c.FilterType = wire.FilterType([]byte{1, 2, 0x80, 0xff}[rng.Intn(4)])
	case COldBranch:
		// The VALID filter of the block a re-organisation replaced at this
		// height, under the hash of the block that took its place. Where no
		// block was replaced: the valid filter of the neighbouring block.
		if r := d.Replaced(h); r != nil && r.Hash != e.BlockHash {
			c.Data = append([]byte(nil), r.FilterBytes...)
		} else {
			c.Data = append([]byte(nil), trunk[otherHeight(true)].FilterBytes...)
		}
	}
	return c
}

func (d *Director) apply(s Spec, entries []*wire.MsgCFilter, start int32, targets map[int32]bool, rng *rand.Rand) []wire.Message {
	n := len(entries)
	stop := start + int32(n) - 1
	tpos := -1
	for i := 0; i < n; i++ {
		if targets[start+int32(i)] {
			tpos = i
			break
		}
	}
	if tpos < 0 {
		tpos = n / 2
	}
	var out []wire.Message
	add := func(m *wire.MsgCFilter) { out = append(out, m) }
	switch s.Kind {
	case KHonest, KShuffle, KReverse:
		for _, e := range entries {
			add(e)
		}
	case KDupAll:
		for _, e := range entries {
			add(e)
			add(clone(e))
		}
	case KDupSome:
		for _, e := range entries {
			add(e)
		}
		for k := 1 + rng.Intn(5); k > 0; k-- {
			e := entries[rng.Intn(n)]
			if k == 1 {
				e = entries[tpos]
			}
			at := rng.Intn(len(out) + 1)
			out = append(out, nil)
			copy(out[at+1:], out[at:])
			out[at] = clone(e)
		}
	case KDupTarget:
		add(clone(entries[tpos]))
		for _, e := range entries {
			add(e)
		}
		add(clone(entries[tpos]))
		add(clone(entries[tpos]))
	case KOmitTarget:
		for i, e := range entries {
			if i != tpos {
				add(e)
			}
		}
	case KOmitOthers:
		add(entries[tpos])
	case KOmitSome:
		skip := map[int]bool{}
		for k := 1 + rng.Intn(3); k > 0 && n > 1; k-- {
			i := rng.Intn(n)
			if i != tpos {
				skip[i] = true
			}
		}
		if len(skip) == 0 && n > 1 {
			skip[(tpos+1)%n] = true
		}
		for i, e := range entries {
			if !skip[i] {
				add(e)
			}
		}
	case KStaleBranch:
		// A peer whose filters are still those of the replaced branch: every
		// block of the range that took the place of another one gets that
		// block's valid filter; the rest of the range is answered honestly.
		for i, e := range entries {
			if r := d.Replaced(start + int32(i)); r != nil && r.Hash != e.BlockHash {
				c := clone(e)
				c.Data = append([]byte(nil), r.FilterBytes...)
				add(c)
			} else {
				add(e)
			}
		}
	case KSilence:
	case KWrongTypeAll:
		for _, e := range entries {
			c := clone(e)
			c.FilterType = 1
			add(c)
		}
	case KExtra:
		trunk := d.path()
		tip := int32(len(trunk) - 1)
		var before, after []*wire.MsgCFilter
		mk := func(h int32) *wire.MsgCFilter {
			nd := trunk[h]
			hash := nd.Hash
			return wire.NewMsgCFilter(wire.GCSFilterRegular, &hash, append([]byte(nil), nd.FilterBytes...))
		}
		for k := int32(1); k <= int32(1+rng.Intn(4)) && start-k >= 1; k++ {
			before = append(before, mk(start-k))
		}
		for k := int32(1); k <= int32(1+rng.Intn(4)) && stop+k <= tip; k++ {
			after = append(after, mk(stop+k))
		}
		// plus a corrupted outsider (a bit-flipped filter of a block outside the range)
		if len(before) > 0 {
			before = append(before, d.corrupt(before[0], CBitflip, start-1, start, stop, rng))
		}
		if len(after) > 0 {
			after = append(after, d.corrupt(after[0], CBitflip, stop+1, start, stop, rng))
		}
		for _, e := range before {
			add(e)
		}
		mid := n / 2
		for i, e := range entries {
			if i == mid && len(after) > 0 {
				add(after[0])
			}
			add(e)
		}
		for _, e := range after {
			add(e)
		}
		for _, e := range before {
			add(clone(e))
		}
	case KCorrupt:
		pos := tpos
		switch s.Pos {
		case "first":
			pos = 0
		case "last":
			pos = n - 1
		case "middle":
			pos = n / 2
		}
		bad := d.corrupt(entries[pos], s.Corr, start+int32(pos), start, stop, rng)
		for i, e := range entries {
			if i != pos {
				add(e)
				continue
			}
			switch s.Keep {
			case "before":
				add(bad)
				add(e)
			case "after":
				add(e)
				add(bad)
			default:
				add(bad)
			}
		}
	default:
		for _, e := range entries {
			add(e)
		}
	}
	order := s.Order
	if s.Kind == KShuffle {
		order = "shuffle"
	} else if s.Kind == KReverse {
		order = "reverse"
	}
	switch order {
	case "shuffle":
		rng.Shuffle(len(out), func(i, j int) { out[i], out[j] = out[j], out[i] })
	case "reverse":
		for i, j := 0, len(out)-1; i < j; i, j = i+1, j-1 {
			out[i], out[j] = out[j], out[i]
		}
	}
	return out
}

// RunUnsolicited sends cfilter messages nobody asked for at random times until
// stop is closed: valid filters (never for a planned target height, so that
// the "no verifiable delivery" rule stays sharp), corrupted filters naming the
// current targets, right filters under wrong hashes, foreign hashes.
func (d *Director) RunUnsolicited(stop <-chan struct{}, peers []*netsim.Peer, avoid map[int32]bool, seed int64) {
	rng := rand.New(rand.NewSource(seed ^ 0x5ca1ab1e))
	for {
		select {
		case <-stop:
			return
		case <-time.After(time.Duration(2+rng.Intn(30)) * time.Millisecond):
		}
		trunk := d.path()
		tip := int32(len(trunk) - 1)
		p := peers[rng.Intn(len(peers))]
		if p.Conn() == nil || p.Conn().Dead() {
			continue
		}
		var targets []int32
		if st := d.cur.Load(); st != nil {
			for h := range st.targets {
				if h >= 1 && h <= tip {
					targets = append(targets, h)
				}
			}
			sort.Slice(targets, func(i, j int) bool { return targets[i] < targets[j] })
		}
		pick := func() int32 {
			if len(targets) > 0 && rng.Intn(3) != 0 {
				t := targets[rng.Intn(len(targets))] + int32(rng.Intn(5)-2)
				if t >= 1 && t <= tip {
					return t
				}
			}
			return 1 + int32(rng.Intn(int(tip)))
		}
		var msgs []wire.Message
		for k := 1 + rng.Intn(3); k > 0; k-- {
			h := pick()
			nd := trunk[h]
			hash := nd.Hash
			e := wire.NewMsgCFilter(wire.GCSFilterRegular, &hash, append([]byte(nil), nd.FilterBytes...))
			switch rng.Intn(6) {
			case 0:
				if vc := d.validCeil.Load(); avoid[h] || (vc > 0 && h > vc) || d.unsolValid.Add(-1) < 0 {
					e = d.corrupt(e, CBitflip, h, h, h, rng)
				}
			case 1:
				e = d.corrupt(e, CBitflip, h, h, h, rng)
			case 2:
				e = d.corrupt(e, COtherNear, h, h, h, rng)
			case 3:
				e = d.corrupt(e, CHashInside, h, h, h, rng) // right filter under the neighbour's hash
			case 4:
				e = d.corrupt(e, CHashForeign, h, h, h, rng)
			default:
				e = d.corrupt(e, allCorr[rng.Intn(len(allCorr))], h, h, h, rng)
			}
			msgs = append(msgs, e)
		}
		d.record(d.peerIdx[p.Addr], "unsolicited", msgs, true)
		for _, m := range msgs {
			_ = p.Send(m)
		}
	}
}
