// Package c05 holds the L2 scenario of property C05 (a compact filter is
// returned, cached or persisted only if it matches the committed filter
// header). The scenario function is importable so that other programs (the
// race-detector check) can run the same workload.
package c05

import (
	"fmt"
	"math/rand"
	"sort"
)

// Mutation kinds of a peer's answer to one getcfilters request.
const (
	KHonest       = "honest"
	KShuffle      = "shuffle"
	KReverse      = "reverse"
	KDupAll       = "dup-all"
	KDupSome      = "dup-some"
	KDupTarget    = "dup-target"
	KOmitTarget   = "omit-target"
	KOmitOthers   = "omit-others"
	KOmitSome     = "omit-some"
	KSilence      = "silence"
	KCorrupt      = "corrupt"
	KExtra        = "extra"
	KWrongTypeAll = "wrong-type-all"
	// KLagPush (lag phase only): the honest answer plus the TRUE filters of
	// the blocks above the client's filter-header tip, which the client has
	// no committed header to verify against.
	KLagPush = "lag-push"
	// KStaleBranch (re-org family): the answer of a peer whose FILTERS are
	// still those of the branch a re-organisation replaced: for every block of
	// the range that took the place of another block, the valid filter of the
	// replaced block at that height under the new block's hash.
	KStaleBranch = "stale-branch"
	// KLagShift (lag phase only): an answer that names blocks above the
	// client's filter-header tip (which have no committed filter header) but
	// carries the GENUINE filters of earlier blocks: the entry for height x
	// carries the filter of block x-Shift. Pos says which entries of the answer
	// are shifted (target: only the block asked for; above: every block above
	// the filter-header tip; all: the whole range, i.e. the range moved down by
	// Shift blocks); the other entries are honest. The block asked for is always
	// named, also when the request on the wire does not cover it.
	KLagShift = "lag-shift"
)

// Relations between the shift of a KLagShift answer and the block asked for
// (Up blocks above the filter-header tip, L blocks of lag): the plan states the
// intent, the scenario resolves it to Spec.Shift when the heights are known.
const (
	RelToFilterTip    = "to-filter-tip"    // Shift = Up: the target carries the filter of the last block with a committed header
	RelOneBelow       = "one-below"        // Shift = 1: every entry carries its predecessor's filter
	RelLagDepth       = "lag-depth"        // Shift = L
	RelWithinLag      = "within-lag"       // 1 <= Shift < Up: the filter of another block without committed header
	RelBelowFilterTip = "below-filter-tip" // Shift > Up: the filter of a block below the filter-header tip
)

// Corruptions of one entry.
const (
	CBitflip     = "bitflip"      // one bit of the data flipped
	CTruncate    = "truncate"     // data cut short
	CGarbage     = "garbage"      // random bytes
	CEmpty       = "empty"        // no data at all
	CExtend      = "extend"       // trailing extra bytes
	CNChange     = "nchange"      // element count (first byte) changed
	COtherNear   = "other-near"   // the VALID filter of the neighbouring block under this block's hash
	COtherFar    = "other-far"    // the VALID filter of a distant block under this block's hash
	CHashOutside = "hash-outside" // the right filter under the hash of a block outside the requested range
	CHashInside  = "hash-inside"  // the right filter under the hash of another block inside the range
	CHashForeign = "hash-foreign" // the right filter under a hash that is no block of the chain / the genesis hash
	CWrongType   = "wrong-type"   // the right filter with another filter-type byte
	// COldBranch (re-org family only, not in allCorr): the VALID filter of the
	// block that a re-organisation replaced at this height, under this block's hash.
	COldBranch = "old-branch"
)

var allCorr = []string{CBitflip, CTruncate, CGarbage, CEmpty, CExtend, CNChange, COtherNear, COtherFar,
	CHashOutside, CHashInside, CHashForeign, CWrongType}

// Spec is what one peer does to its honest answer during one round.
type Spec struct {
	Kind  string
	Pos   string `json:",omitempty"` // corrupt: target | first | last | middle
	Corr  string `json:",omitempty"`
	Keep  string `json:",omitempty"` // corrupt: "" replace, "before" bad copy then the good entry, "after" good then bad
	Order string `json:",omitempty"` // "", shuffle, reverse: applied to the final stream
	// KLagShift: Rel is the planned relation (resolved to Shift, and normalised
	// to to-filter-tip / within-lag / below-filter-tip, at run time); Push adds
	// the TRUE filters of all blocks above the filter-header tip to the answer.
	Rel   string `json:",omitempty"`
	Shift int32  `json:",omitempty"`
	Push  bool   `json:",omitempty"`
}

// Label is the mutation kind used in fingerprints and counters.
func (s Spec) Label() string {
	l := s.Kind
	if s.Kind == KCorrupt {
		l += ":" + s.Corr
		if s.Keep != "" {
			l += "+good-" + s.Keep
		}
	}
	if s.Kind == KLagShift {
		l += ":" + s.Rel
		if s.Keep != "" {
			l += "+good-" + s.Keep
		}
		if s.Push {
			l += "+push"
		}
	}
	if s.Order != "" && s.Kind != KShuffle && s.Kind != KReverse {
		l += "~" + s.Order
	}
	return l
}

// PosClass is the position class for fingerprints.
func (s Spec) PosClass() string {
	switch s.Kind {
	case KCorrupt, KLagShift:
		return s.Pos
	case KDupTarget, KOmitTarget, KOmitOthers:
		return "target"
	case KSilence, KWrongTypeAll, KDupAll, KShuffle, KReverse:
		return "all"
	case KStaleBranch:
		return "reorged"
	case KExtra:
		return "outside"
	case KOmitSome, KDupSome:
		return "some"
	}
	return "-"
}

// Completes reports whether the answer still contains every verifiable entry
// of the range (so that the query can finish without a worker timeout).
func (s Spec) Completes() bool {
	switch s.Kind {
	case KHonest, KShuffle, KReverse, KDupAll, KDupSome, KDupTarget, KExtra:
		return true
	case KCorrupt:
		return s.Keep != ""
	}
	return false
}

// Call is one GetCFilter invocation.
type Call struct {
	Height   int32  // target height (-1: a hash the client does not know)
	Batch    string // none | fwd | rev
	Cap      int64  // MaxBatchSize (0 = option not passed)
	Retries  int    // NumRetries option (0 = not passed: the default of 8)
	Boundary string // boundary class of the target
	Repeat   bool   // a target an earlier call already asked for
	// Re-org family: the chain's height at execution time is only known then.
	// Rel: the target is the block Back below the tip of the best chain at the
	// time of the call (Height is filled in at run time). Twin: the call has
	// the shape (height, batching, cap) of the most recent call issued before
	// it, whatever chain that one was made on.
	Rel  bool  `json:",omitempty"`
	Back int32 `json:",omitempty"`
	Twin bool  `json:",omitempty"`
	// Lag family: the target is the block Up blocks above the client's
	// filter-header tip at the time of the call (Height is filled in then).
	Up int32 `json:",omitempty"`
}

// LagStep is one step of a lag phase: the block-header chain moves while the
// peers withhold the filter headers of its new blocks, so that afterwards the
// client's block-header tip is above its filter-header tip; then the Calls ask
// for blocks above the filter-header tip (Call.Up) while the peers answer
// with Muts[i] (one Spec per peer; nil = every peer pushes, KLagPush).
// Depth == 0: the chain grows by Grow blocks (the lag grows by Grow).
// Depth > 0: the last Depth blocks of the block-header chain (blocks without
// committed filter header first, then committed ones: their filter headers are
// rolled back with them) are replaced by a heavier branch of Depth+Extra
// blocks whose filter headers are withheld as well: the state a rollback
// leaves behind until the filter headers of the new branch arrive.
type LagStep struct {
	Grow  int      `json:",omitempty"`
	Depth int      `json:",omitempty"`
	Extra int      `json:",omitempty"`
	Calls []Call   `json:",omitempty"`
	Muts  [][]Spec `json:",omitempty"`
}

// ReorgPhase is one re-organisation of the honest chain between GetCFilter
// calls: the chain grows by Grow fresh blocks, the Pre rounds fetch filters on
// it, then the last Depth blocks are replaced by a heavier branch of at least
// Depth+Extra blocks which every peer announces, and once the client has
// committed the block and filter headers of the new branch the Post rounds ask
// for filters on it.
type ReorgPhase struct {
	After    int // executed after this round of Plan.Rounds (and after the restart tied to it)
	Grow     int // fresh blocks first (their filters cannot be cached yet)
	Pre      []Round
	Depth    int    // blocks of the best chain that get replaced
	Extra    int    // the new branch has Depth+Extra blocks, more if that is not yet heavier
	Fast     bool   // new branch mined with a faster pace (more work per block where the preset retargets)
	Announce string // headers | inv
	Post     []Round
}

// Round is a set of per-peer mutations plus the calls issued under them.
type Round struct {
	Muts       []Spec
	Calls      []Call
	Concurrent bool   `json:",omitempty"`
	Pattern    string // honest | same-adversary | one-honest | adversaries | post-restart
}

// Plan of one scenario: a pure function of (seed, k, tier).
type Plan struct {
	Seed         int64
	K            int
	Preset       int
	Interval     int
	ChainLen     int
	NPeers       int
	Persist      bool
	SmallCache   bool
	Unsolicited  bool
	RestartAfter int // restart the client on the same data dir after this round (-1: never)
	Rounds       []Round
	// Lag > 0: final phase in which the chain grows by Lag blocks whose
	// headers the peers serve while withholding their filter headers (block
	// header tip above filter header tip), then LagCalls ask for those blocks.
	// LagMuts[i] (optional) is what the peers answer during LagCalls[i].
	// LagSteps (lag family) replaces Lag/LagCalls by a sequence of steps.
	Lag      int       `json:",omitempty"`
	LagCalls []Call    `json:",omitempty"`
	LagMuts  [][]Spec  `json:",omitempty"`
	LagSteps []LagStep `json:",omitempty"`
	BudgetS  float64   // worst-case seconds of forced worker timeouts planned
	// Family: "" (mutation scripts on one fixed chain, optionally with re-org
	// phases woven in), "reorg" (re-org phases are the scenario) or "lag" (the
	// lag phase is the scenario).
	Family string       `json:",omitempty"`
	Fixed  bool         `json:",omitempty"` // seed-independent scenario
	Reorgs []ReorgPhase `json:",omitempty"`
}

// reorgReserve is the number of blocks below the initial tip inside which all
// re-org activity of a scenario stays (unsolicited VALID filters are only sent
// below it, so that "no verifiable delivery" stays sharp for re-orged blocks).
const reorgReserve = 64

// Targets returns every planned target height.
func (p Plan) Targets() map[int32]bool {
	m := map[int32]bool{}
	for _, r := range p.Rounds {
		for _, c := range r.Calls {
			m[c.Height] = true
		}
	}
	return m
}

// NumReorgCalls counts the calls planned inside re-org phases.
func (p Plan) NumReorgCalls() int {
	n := 0
	for _, ph := range p.Reorgs {
		for _, r := range ph.Pre {
			n += len(r.Calls)
		}
		for _, r := range ph.Post {
			n += len(r.Calls)
		}
	}
	return n
}

// NumCalls counts planned calls.
func (p Plan) NumCalls() int {
	n := 0
	for _, r := range p.Rounds {
		n += len(r.Calls)
	}
	return n
}

// callCost is the worst-case time a fetching call spends in worker timeouts
// (2 s doubling per retry, 30 s batch deadline checked when a result arrives)
// when b of p peers cannot complete the query and R tries are allowed.
func callCost(b, p, R int) float64 {
	if b == 0 {
		return 0
	}
	if R == 0 {
		R = 8
	}
	tries := b
	if b >= p || R < b {
		tries = R
	}
	t, to := 0.0, 2.0
	for j := 0; j < tries; j++ {
		t += to
		to *= 2
		if to > 32 {
			to = 32
		}
		if t >= 30 {
			break
		}
	}
	return t
}

func incomplete(muts []Spec) int {
	b := 0
	for _, m := range muts {
		if !m.Completes() {
			b++
		}
	}
	return b
}

type planner struct {
	r        *rand.Rand
	p        *Plan
	tip      int32
	budget   float64
	large    int // large batches so far
	maxLarge int
	prev     []Call
	bq       []string
	covered  [][2]int32 // height intervals probably in the client's cache (steering only)
}

// span is the height range a call asks the peers for.
func (pl *planner) span(c Call) (int32, int32) {
	size := int32(1000)
	if c.Cap > 0 && c.Cap < 1000 {
		size = int32(c.Cap)
	}
	lo, hi := c.Height, c.Height
	switch c.Batch {
	case "fwd":
		hi = lo + size - 1
	case "rev":
		lo = hi - size + 1
	}
	if lo < 1 {
		lo = 1
	}
	if hi > pl.tip {
		hi = pl.tip
	}
	return lo, hi
}

func (pl *planner) isCovered(h int32) bool {
	for _, iv := range pl.covered {
		if h >= iv[0] && h <= iv[1] {
			return true
		}
	}
	return false
}

// cover books the ranges of a round that probably ended up cached.
func (pl *planner) cover(rd Round) {
	if incomplete(rd.Muts) == len(rd.Muts) {
		return
	}
	for _, c := range rd.Calls {
		if c.Height < 1 {
			continue
		}
		lo, hi := pl.span(c)
		if pl.p.SmallCache && hi-lo > 30 {
			continue // evicted again by its own batch
		}
		pl.covered = append(pl.covered, [2]int32{lo, hi})
	}
	if pl.p.SmallCache && len(pl.covered) > 1 {
		pl.covered = pl.covered[len(pl.covered)-1:]
	}
}

func randSpec(r *rand.Rand, completingOnly bool) Spec {
	var s Spec
	x := r.Intn(100)
	switch {
	case x < 46:
		s.Kind = KCorrupt
		s.Pos = []string{"target", "target", "first", "last", "middle"}[r.Intn(5)]
		s.Corr = allCorr[r.Intn(len(allCorr))]
		s.Keep = []string{"", "", "before", "after"}[r.Intn(4)]
	case x < 51:
		s.Kind = KShuffle
	case x < 55:
		s.Kind = KReverse
	case x < 59:
		s.Kind = KDupAll
	case x < 64:
		s.Kind = KDupSome
	case x < 68:
		s.Kind = KDupTarget
	case x < 75:
		s.Kind = KOmitTarget
	case x < 81:
		s.Kind = KOmitOthers
	case x < 85:
		s.Kind = KOmitSome
	case x < 89:
		s.Kind = KSilence
	case x < 97:
		s.Kind = KExtra
	default:
		s.Kind = KWrongTypeAll
	}
	if r.Intn(4) == 0 {
		s.Order = []string{"shuffle", "reverse"}[r.Intn(2)]
	}
	if completingOnly && !s.Completes() {
		if s.Kind == KCorrupt {
			s.Keep = []string{"before", "after"}[r.Intn(2)]
		} else {
			s.Kind = []string{KShuffle, KReverse, KDupAll, KDupSome, KDupTarget, KExtra}[r.Intn(6)]
		}
	}
	return s
}

func (pl *planner) muts(completingOnly bool) ([]Spec, string) {
	r, n := pl.r, pl.p.NPeers
	out := make([]Spec, n)
	x := r.Intn(100)
	switch {
	case n == 1:
		if x < 12 {
			out[0] = Spec{Kind: KHonest}
			return out, "honest"
		}
		out[0] = randSpec(r, completingOnly)
		return out, "same-adversary"
	case x < 35:
		s := randSpec(r, completingOnly)
		for i := range out {
			out[i] = s
		}
		return out, "same-adversary"
	case x < 70:
		h := r.Intn(n)
		for i := range out {
			if i == h {
				out[i] = Spec{Kind: KHonest}
			} else {
				out[i] = randSpec(r, completingOnly)
			}
		}
		return out, "one-honest"
	case x < 92:
		for i := range out {
			out[i] = randSpec(r, completingOnly)
		}
		return out, "adversaries"
	}
	for i := range out {
		out[i] = Spec{Kind: KHonest}
	}
	return out, "honest"
}

func (pl *planner) height(class string) int32 {
	r, tip := pl.r, pl.tip
	switch class {
	case "h1":
		return 1
	case "h2":
		return 2
	case "tip":
		return tip
	case "tip-1":
		return tip - 1
	case "k1000":
		return 999 + int32(r.Intn(4))
	case "k2000":
		if tip >= 2004 {
			return 1999 + int32(r.Intn(4))
		}
		return 999 + int32(r.Intn(4))
	case "tip-1000":
		return tip - 1001 + int32(r.Intn(4))
	case "genesis":
		return 0
	case "unknown":
		return -1
	}
	return 3 + int32(r.Intn(int(tip)-4))
}

var boundaryClasses = []string{"h1", "h2", "tip", "tip-1", "k1000", "k2000", "tip-1000", "rand", "rand", "rand", "rand"}

func (pl *planner) nextBoundary() string {
	if len(pl.bq) == 0 {
		pl.bq = append([]string(nil), boundaryClasses...)
		pl.r.Shuffle(len(pl.bq), func(i, j int) { pl.bq[i], pl.bq[j] = pl.bq[j], pl.bq[i] })
	}
	b := pl.bq[0]
	pl.bq = pl.bq[1:]
	return b
}

func (pl *planner) batching(class string) (string, int64) {
	r := pl.r
	mode := []string{"none", "fwd", "fwd", "rev", "rev"}[r.Intn(5)]
	switch class {
	case "k1000", "k2000":
		if r.Intn(10) < 6 {
			mode = "rev"
		}
	case "tip-1000":
		if r.Intn(10) < 6 {
			mode = "fwd"
		}
	}
	if mode == "none" {
		if r.Intn(6) == 0 {
			return mode, int64(1 + r.Intn(50)) // MaxBatchSize without batching: ignored by the client
		}
		return mode, 0
	}
	var cp int64
	x := r.Intn(100)
	switch {
	case x < 22:
		cp = 0 // uncapped: 1000
	case x < 30:
		cp = []int64{1000, 1001, 5000, -3}[r.Intn(4)]
	case x < 36:
		cp = 999
	case x < 52:
		cp = int64(1 + r.Intn(3))
	case x < 88:
		cp = int64(5 + r.Intn(56))
	default:
		cp = int64(100 + r.Intn(300))
	}
	if cp <= 0 || cp >= 999 {
		if pl.large >= pl.maxLarge {
			cp = int64(5 + r.Intn(56))
		} else {
			pl.large++
		}
	}
	return mode, cp
}

func (pl *planner) fetchCall() Call {
	class := pl.nextBoundary()
	h := pl.height(class)
	// Steer towards heights the cache probably does not hold yet, so that
	// the peers' (mutated) answers are actually exercised.
	for try := 0; try < 12 && pl.isCovered(h); try++ {
		if try%2 == 1 {
			class = "rand"
		} else {
			class = pl.nextBoundary()
		}
		h = pl.height(class)
	}
	mode, cp := pl.batching(class)
	return Call{Height: h, Batch: mode, Cap: cp, Boundary: class}
}

// settle picks the retry option and charges the budget; when the budget
// cannot pay, the round's mutations are re-drawn from the completing kinds.
func (pl *planner) settle(rd *Round, allowDefaultBadOnly bool) {
	r, n := pl.r, pl.p.NPeers
	b := incomplete(rd.Muts)
	if b == 0 {
		return
	}
	choices := []int{0, 3, 2, 1, 1}
	r.Shuffle(len(choices), func(i, j int) { choices[i], choices[j] = choices[j], choices[i] })
	for _, R := range choices {
		if R == 0 && b >= n && !allowDefaultBadOnly {
			continue
		}
		cost := callCost(b, n, R) * float64(len(rd.Calls))
		if cost <= pl.budget {
			pl.budget -= cost
			pl.p.BudgetS += cost
			for i := range rd.Calls {
				rd.Calls[i].Retries = R
			}
			return
		}
	}
	for i := range rd.Muts {
		if !rd.Muts[i].Completes() {
			rd.Muts[i] = randSpec(r, true)
		}
	}
}

// MakePlan derives scenario k of the (seed, tier) case list.
func MakePlan(seed int64, k int, quick bool) Plan {
	r := rand.New(rand.NewSource(seed*1_000_003 + int64(k)*7919 + 505))
	p := Plan{Seed: seed*1_000_003 + int64(k), K: k, RestartAfter: -1}
	p.Preset = k % 3
	p.Interval = 4 + r.Intn(13)
	switch k % 4 {
	case 0:
		p.ChainLen = 1100 + r.Intn(200)
	case 1:
		p.ChainLen = 1996 + r.Intn(12)
	case 2:
		p.ChainLen = 2005 + r.Intn(596)
	default:
		p.ChainLen = 1100 + r.Intn(1501)
	}
	p.NPeers = []int{1, 1, 2, 2, 2, 3, 3}[r.Intn(7)]
	p.Persist = r.Intn(2) == 0
	p.SmallCache = r.Intn(3) == 0
	p.Unsolicited = r.Intn(2) == 0
	ncalls, budget := 15, 26.0
	if !quick {
		ncalls, budget = 25, 46.0
	}
	pl := &planner{r: r, p: &p, tip: int32(p.ChainLen), budget: budget, maxLarge: 2}
	if p.SmallCache {
		pl.maxLarge = 6
	}

	// Round 0: baseline, every peer honest (also the liveness precondition
	// of the scenario: if this fails nothing else is judged).
	base := Round{Pattern: "honest", Muts: make([]Spec, p.NPeers)}
	for i := range base.Muts {
		base.Muts[i] = Spec{Kind: KHonest}
	}
	base.Calls = []Call{{Height: 3 + int32(r.Intn(p.ChainLen-4)), Batch: "fwd", Cap: int64(2 + r.Intn(6)), Boundary: "rand"}}
	p.Rounds = append(p.Rounds, base)
	pl.prev = append(pl.prev, base.Calls[0])
	pl.cover(base)

	restartAt := -1
	if r.Intn(5) < 3 {
		restartAt = ncalls/3 + r.Intn(ncalls/3)
	}
	// One bad-only call with the DEFAULT retry count (≈30 s) in a third of
	// the scenarios, early, so that the rest of the budget is known.
	if k%3 == 1 {
		rd := Round{Pattern: "same-adversary", Muts: make([]Spec, p.NPeers)}
		s := randSpec(r, false)
		for !(!s.Completes() && (s.Kind != KCorrupt || s.Pos == "target") && s.Kind != KOmitOthers && s.Kind != KOmitSome) {
			s = randSpec(r, false)
		}
		for i := range rd.Muts {
			rd.Muts[i] = s
		}
		c := pl.fetchCall()
		rd.Calls = []Call{c}
		cost := callCost(p.NPeers, p.NPeers, 0)
		if quick && k%6 != 1 {
			// keep the quick tier inside its wall budget: the ≈30 s variant
			// only in scenarios 1, 7, 13
			rd.Calls[0].Retries = 3
			cost = callCost(p.NPeers, p.NPeers, 3)
		}
		pl.budget -= cost
		p.BudgetS += cost
		if pl.budget < 6 {
			pl.budget = 6
		}
		p.Rounds = append(p.Rounds, rd)
		pl.prev = append(pl.prev, c)
	}

	for p.NumCalls() < ncalls {
		if restartAt >= 0 && p.NumCalls() >= restartAt && p.RestartAfter < 0 {
			p.RestartAfter = len(p.Rounds) - 1
			if !p.Persist {
				pl.covered = nil
			}
			// Post-restart round: ask again for earlier targets (database
			// path when persisted, network otherwise).
			rd := Round{Pattern: "post-restart"}
			rd.Muts, _ = pl.muts(true)
			nrep := 2 + r.Intn(2)
			for i := 0; i < nrep && i < len(pl.prev); i++ {
				c := pl.prev[r.Intn(len(pl.prev))]
				if i == 0 {
					c = pl.prev[0]
				}
				if c.Height < 0 {
					continue
				}
				c.Repeat, c.Retries = true, 0
				if r.Intn(2) == 0 {
					c.Batch, c.Cap = "none", 0
				}
				rd.Calls = append(rd.Calls, c)
			}
			// each call of the round is issued sequentially
			for _, c := range rd.Calls {
				p.Rounds = append(p.Rounds, Round{Pattern: rd.Pattern, Muts: rd.Muts, Calls: []Call{c}})
			}
			continue
		}
		x := r.Intn(100)
		switch {
		case x < 58: // one fetching call under adversarial answers
			rd := Round{}
			rd.Muts, rd.Pattern = pl.muts(false)
			c := pl.fetchCall()
			if r.Intn(25) == 0 {
				c = Call{Height: []int32{0, -1}[r.Intn(2)], Batch: c.Batch, Cap: c.Cap, Boundary: "genesis"}
				if c.Height < 0 {
					c.Boundary = "unknown"
				}
			}
			rd.Calls = []Call{c}
			pl.settle(&rd, false)
			p.Rounds = append(p.Rounds, rd)
			pl.prev = append(pl.prev, c)
			pl.cover(rd)
		case x < 74: // a repeated call (cache path if the earlier one succeeded)
			rd := Round{}
			rd.Muts, rd.Pattern = pl.muts(false)
			c := pl.prev[r.Intn(len(pl.prev))]
			c.Repeat = true
			if r.Intn(2) == 0 {
				c.Batch, c.Cap = pl.batching(c.Boundary)
			}
			rd.Calls = []Call{c}
			pl.settle(&rd, false)
			p.Rounds = append(p.Rounds, rd)
			pl.cover(rd)
		default: // 2-4 concurrent callers with overlapping ranges
			rd := Round{Concurrent: true}
			rd.Muts, rd.Pattern = pl.muts(false)
			n := 2 + r.Intn(3)
			bc := pl.fetchCall()
			class, b := bc.Boundary, bc.Height
			offs := []int32{0, 1, -1, 5, 37, -20, 300, 0}
			r.Shuffle(len(offs), func(i, j int) { offs[i], offs[j] = offs[j], offs[i] })
			for i := 0; i < n; i++ {
				h := b + offs[i]
				cl := class
				if offs[i] != 0 {
					cl = "near-" + class
				}
				if h < 1 {
					h = 1
					cl = "h1"
				}
				if h > pl.tip {
					h = pl.tip
					cl = "tip"
				}
				mode, cp := pl.batching(class)
				if mode != "none" && (cp <= 0 || cp > 400) && r.Intn(3) != 0 {
					cp = int64(10 + r.Intn(300))
				}
				rd.Calls = append(rd.Calls, Call{Height: h, Batch: mode, Cap: cp, Boundary: cl})
			}
			if r.Intn(3) == 0 {
				// Twin requests: two callers with DIFFERENT targets whose
				// batches cover exactly the same range (forward from the low
				// end, reverse from the high end, same cap), so that they put
				// the same getcfilters message on the wire.
				cp := int64(2 + r.Intn(60))
				lo := b
				if lo < 1 {
					lo = 1
				}
				if hi := lo + int32(cp) - 1; hi <= pl.tip {
					rd.Calls[0] = Call{Height: lo, Batch: "fwd", Cap: cp, Boundary: "twin-low"}
					rd.Calls[1] = Call{Height: hi, Batch: "rev", Cap: cp, Boundary: "twin-high"}
				}
			}
			pl.settle(&rd, false)
			p.Rounds = append(p.Rounds, rd)
			pl.prev = append(pl.prev, rd.Calls...)
			pl.cover(rd)
		}
	}
	if k%4 == 2 {
		// Never more than 2: three blocks of lag make prepareCFiltersQuery
		// ask the header store for a ~4 GB buffer (uint32 wrap-around), which
		// the call survives with an error but 16 parallel children may not.
		p.Lag = 1 + r.Intn(2)
		modes := []string{"none", "fwd", "rev"}
		r.Shuffle(3, func(i, j int) { modes[i], modes[j] = modes[j], modes[i] })
		for i := 0; i < 2+r.Intn(2); i++ {
			c := Call{Height: int32(p.ChainLen + 1 + r.Intn(p.Lag)), Batch: modes[i], Retries: 1, Boundary: "above-filter-tip"}
			if c.Batch != "none" && r.Intn(2) == 0 {
				c.Cap = int64(2 + r.Intn(40))
			}
			p.LagCalls = append(p.LagCalls, c)
			p.BudgetS += 2
		}
		// What the peers answer during those calls, from its own generator (the
		// draws above do not depend on it).
		rl := rand.New(rand.NewSource(seed*1_000_003 + int64(k)*611953 + 70707))
		for i := range p.LagCalls {
			c := &p.LagCalls[i]
			c.Up = c.Height - int32(p.ChainLen)
			if c.Batch == "rev" && c.Cap > 0 && c.Cap < int64(c.Up) {
				c.Cap = int64(c.Up) // see lagSafe
			}
			muts, _ := lagMuts(rl, p.NPeers, c.Up, int32(p.Lag))
			p.LagMuts = append(p.LagMuts, muts)
		}
	}
	if k%3 != 1 && k%4 != 2 {
		// One re-org phase woven into the mutation scenario (not into the ones
		// that already carry a ≈30 s call or a lag phase). It is drawn from its
		// own generator, so the rounds above do not depend on it.
		rr := rand.New(rand.NewSource(seed*1_000_003 + int64(k)*104729 + 50505))
		budget := 7.0
		ph := genPhase(rr, p.NPeers, &budget)
		ph.After = len(p.Rounds) - 1
		if rr.Intn(2) == 0 {
			ph.After = rr.Intn(len(p.Rounds))
		}
		p.BudgetS += 7.0 - budget
		p.Reorgs = append(p.Reorgs, ph)
	}
	return p
}

// Describe is the scenario-level fingerprint.
func (p Plan) Describe() string {
	size := "1100-1999"
	if p.ChainLen >= 2000 {
		size = "2000+"
	} else if p.ChainLen < 1100 {
		size = "<1100"
	}
	pats := map[string]bool{}
	for _, r := range p.Rounds {
		pats[r.Pattern] = true
	}
	var ps []string
	for k := range pats {
		ps = append(ps, k)
	}
	sort.Strings(ps)
	out := fmt.Sprintf("peers=%d chain=%s persist=%v smallcache=%v unsolicited=%v restart=%v patterns=%v",
		p.NPeers, size, p.Persist, p.SmallCache, p.Unsolicited, p.RestartAfter >= 0, ps)
	if len(p.Reorgs) > 0 {
		var ds []string
		for _, ph := range p.Reorgs {
			ds = append(ds, fmt.Sprintf("g%dd%d+%d", ph.Grow, ph.Depth, ph.Extra))
		}
		out += fmt.Sprintf(" reorgs=%v", ds)
	}
	if p.Family != "" {
		out = "family=" + p.Family + " " + out
	}
	return out
}
