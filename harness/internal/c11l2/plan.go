// Package c11l2 is the network-simulation part of the C11 check: block
// subscriptions made through the complete client's public entry point
// (neutrino.RescanChainSource.Subscribe) at seeded moments with seeded best
// heights, while scripted peers make the chain grow and reorganise and withhold
// or release filter headers. The component part (package c11) drives the
// subscription manager over a harness notification source; this part observes
// the same property through everything ChainService puts between the block
// manager and a subscriber.
package c11l2

import (
	"fmt"
	"math/rand"
	"sort"
	"strings"
)

// Plan is one scenario: a pure function of (run seed, index).
type Plan struct {
	Seed     int64  // seed of the world (chain contents) and of run-time draws
	Fixed    string `json:",omitempty"` // name of a seed-independent scenario
	ChainLen int    // blocks the peers have when the client starts
	Peers    int
	// SyncSubs subscribe while the filter headers of the initial sync are
	// being committed (as soon as the filter-header store moved).
	SyncSubs []SubSpec `json:",omitempty"`
	Steps    []Step
}

// Step kinds.
const (
	KIdle  = "idle"  // nothing happens; subscribe
	KGrow  = "grow"  // the chain grows by N blocks
	KReorg = "reorg" // ordinary re-organisation of depth Depth (filter headers caught up)
	KLag   = "lag"   // the peers withhold filter headers while the chain grows by N and re-organises (Rounds); then release
)

// Step is one change of the honest chain with the subscriptions made around it.
type Step struct {
	Kind     string
	N        int    `json:",omitempty"` // grow/lag: blocks added; reorg: new branch length minus depth
	Depth    int    `json:",omitempty"` // reorg
	Announce string `json:",omitempty"` // "headers" (every new header, connecting) | "inv" (tip only)
	// Joiners subscribe concurrently with the change (grow, reorg) or while
	// the released filter-header batch is being dispatched (lag).
	Joiners []SubSpec `json:",omitempty"`
	// Subs subscribe at the step's quiescent moment: idle = now; grow/reorg
	// = right after the client adopted the change; lag = while the block
	// headers are ahead of the withheld filter headers, before any round.
	Subs []SubSpec `json:",omitempty"`
	// Rounds (lag): re-organisations adopted while the filter headers are
	// still withheld, each followed by subscriptions BEFORE the release.
	Rounds []Round `json:",omitempty"`
	// Cancel: subscriptions cancelled after the step was judged.
	Cancel int `json:",omitempty"`
}

// Round is a re-organisation of block headers while filter headers lag.
type Round struct {
	// Above: how many of the block headers above the filter-header tip the
	// new branch replaces (clamped to what is there; all of them when Below>0).
	Above int
	// Below: how many blocks at or below the filter-header tip it replaces too.
	Below int `json:",omitempty"`
	// Extra: the new branch is longer than what it replaces by this much.
	Extra int
	Subs  []SubSpec
}

// From classes: how a subscriber's best height is derived from the client's
// filter-header tip T at the moment it subscribes (and, after a
// re-organisation, the number R of block headers it removed).
const (
	FZero    = "zero"              // 0: no backlog asked for
	FOne     = "one"               // 1: the whole chain as backlog
	FTip     = "tip"               // T: empty backlog
	FNear    = "near-tip"          // T-1-(r mod 3)
	FDeep    = "deep"              // uniform in [1, T-1]
	FRemoved = "tip-minus-removed" // T-R-(r mod 3): as far below the tip as the re-organisation was deep, or a little more
)

// Reader kinds.
const (
	RFast = "fast"
	RSlow = "slow" // pauses between reads
	RLazy = "lazy" // starts reading only when the next judgement begins
)

// SubSpec describes one subscription.
type SubSpec struct {
	From   string
	R      int // run-time draw, resolved against the actual heights
	Reader string
}

func (s SubSpec) String() string { return s.From + "/" + s.Reader }

// Quick / thorough counts of this part.
const (
	NFixed = 3
)

// FromSeed returns scenario k of the run: the first NFixed are independent of
// the seed, the rest are drawn.
func FromSeed(seed int64, k int) Plan {
	switch k {
	case 0:
		return fixedReorgAboveFilterTip()
	case 1:
		return fixedReorgThroughFilterTip()
	case 2:
		return fixedBatchAndOrdinary()
	}
	return randomPlan(seed, k)
}

func sub(from string, r int, reader string) SubSpec { return SubSpec{From: from, R: r, Reader: reader} }

// fixedReorgAboveFilterTip: 40 blocks synced; the peers withhold filter
// headers; three more block headers are adopted; a four-block branch replaces
// exactly those three (the fork point is the filter-header tip); five clients
// subscribe with best heights 20, 37, 36, 39, 40 and 1 before any further block
// is connected; the peers release the filter headers.
func fixedReorgAboveFilterTip() Plan {
	return Plan{Seed: 11_000_001, Fixed: "reorg-above-filter-tip-then-subscribe", ChainLen: 40, Peers: 2,
		Steps: []Step{
			{Kind: KIdle, Subs: []SubSpec{sub(FDeep, 9, RFast)}}, // from 10
			{Kind: KLag, N: 3, Announce: "headers",
				Rounds: []Round{{Above: 3, Extra: 1, Subs: []SubSpec{
					sub(FDeep, 19, RFast),   // 20
					sub(FRemoved, 0, RFast), // 37
					sub(FRemoved, 1, RSlow), // 36
					sub(FNear, 0, RFast),    // 39
					sub(FTip, 0, RFast),     // 40
					sub(FOne, 0, RLazy),     // 1
				}}}},
			{Kind: KGrow, N: 1, Announce: "headers", Cancel: 2},
			{Kind: KIdle, Subs: []SubSpec{sub(FDeep, 4, RFast), sub(FZero, 0, RFast)}},
			{Kind: KGrow, N: 2, Announce: "inv"},
		}}
}

// fixedReorgThroughFilterTip: the lagging block headers are first partly
// replaced (fork point above the filter-header tip), then a branch forking two
// blocks BELOW the filter-header tip replaces everything; subscriptions after
// each; release; then an ordinary re-organisation with subscriptions right
// after it.
func fixedReorgThroughFilterTip() Plan {
	return Plan{Seed: 11_000_002, Fixed: "reorg-of-lagging-headers-then-through-filter-tip", ChainLen: 60, Peers: 3,
		Steps: []Step{
			{Kind: KLag, N: 4, Announce: "headers",
				Subs: []SubSpec{sub(FDeep, 30, RFast), sub(FTip, 0, RSlow)},
				Rounds: []Round{
					{Above: 2, Extra: 1, Subs: []SubSpec{sub(FOne, 0, RFast), sub(FRemoved, 0, RFast), sub(FDeep, 44, RLazy)}},
					{Above: 5, Below: 2, Extra: 1, Subs: []SubSpec{sub(FRemoved, 0, RFast), sub(FRemoved, 2, RFast), sub(FDeep, 12, RSlow), sub(FNear, 1, RFast)}},
				}},
			{Kind: KReorg, Depth: 2, N: 1, Announce: "headers",
				Joiners: []SubSpec{sub(FDeep, 3, RFast), sub(FDeep, 50, RFast)},
				Subs:    []SubSpec{sub(FRemoved, 0, RFast), sub(FNear, 0, RFast), sub(FDeep, 7, RLazy)}, Cancel: 3},
			{Kind: KGrow, N: 2, Announce: "headers"},
		}}
}

// fixedBatchAndOrdinary: a batch of 120 withheld filter headers is released
// while six clients subscribe; ordinary re-organisations and an idle phase
// follow.
func fixedBatchAndOrdinary() Plan {
	js := []SubSpec{}
	for i := 0; i < 8; i++ {
		js = append(js, sub(FDeep, 5+6*i, []string{RFast, RFast, RSlow}[i%3]))
	}
	return Plan{Seed: 11_000_003, Fixed: "subscribe-during-filter-header-batch", ChainLen: 50, Peers: 2,
		Steps: []Step{
			{Kind: KLag, N: 120, Announce: "headers", Joiners: js,
				Subs: []SubSpec{sub(FDeep, 24, RLazy)}},
			{Kind: KReorg, Depth: 4, N: 2, Announce: "inv",
				Joiners: []SubSpec{sub(FOne, 0, RFast), sub(FDeep, 100, RFast)},
				Subs:    []SubSpec{sub(FRemoved, 1, RFast), sub(FTip, 0, RFast)}, Cancel: 4},
			{Kind: KIdle, Subs: []SubSpec{sub(FDeep, 77, RFast), sub(FNear, 2, RSlow), sub(FZero, 0, RFast)}},
			{Kind: KReorg, Depth: 1, N: 1, Announce: "headers", Subs: []SubSpec{sub(FRemoved, 0, RFast)}},
		}}
}

func randomPlan(seed int64, k int) Plan {
	r := rand.New(rand.NewSource(seed*6_000_101 + int64(k)*104_729 + 11))
	p := Plan{Seed: seed*1_000_003 + int64(k) + 1_100_000}
	p.ChainLen = 30 + r.Intn(170)
	if r.Intn(7) == 0 {
		// Checkpointed initial filter-header sync: 1000-header batches.
		p.ChainLen = 1000 + r.Intn(120)
		for i := 0; i < 4; i++ {
			p.SyncSubs = append(p.SyncSubs, randSub(r, false, false))
		}
	}
	p.Peers = 1 + r.Intn(3)
	ann := func() string {
		if r.Intn(3) == 0 {
			return "inv"
		}
		return "headers"
	}
	subs := func(lo, hi int, removed, zero bool) []SubSpec {
		n := lo + r.Intn(hi-lo+1)
		out := make([]SubSpec, 0, n)
		for i := 0; i < n; i++ {
			out = append(out, randSub(r, removed, zero))
		}
		return out
	}
	// Every scenario holds the filter headers back at least once (each hold
	// costs one retry period of the client, about 4.5 s), at most twice.
	lags := 1 + r.Intn(2)
	nsteps := lags + 1 + r.Intn(3)
	lagAt := map[int]bool{}
	for len(lagAt) < lags {
		lagAt[r.Intn(nsteps)] = true
	}
	for i := 0; i < nsteps; i++ {
		var st Step
		switch {
		case lagAt[i]:
			st = Step{Kind: KLag, Announce: "headers"}
			if r.Intn(4) == 0 {
				// A large batch released while clients subscribe.
				st.N = 20 + r.Intn(140)
				st.Joiners = subs(3, 8, false, false)
				st.Subs = subs(0, 2, false, false)
				if r.Intn(2) == 0 {
					st.Rounds = []Round{{Above: 1 + r.Intn(st.N), Extra: 1 + r.Intn(2), Subs: subs(1, 3, true, false)}}
				}
			} else {
				st.N = 1 + r.Intn(6)
				st.Subs = subs(0, 2, false, true)
				nr := 1 + r.Intn(3)
				for j := 0; j < nr; j++ {
					rd := Round{Above: 1 + r.Intn(7), Extra: 1 + r.Intn(2), Subs: subs(1, 4, true, false)}
					if r.Intn(3) == 0 {
						rd.Below = 1 + r.Intn(4)
					}
					st.Rounds = append(st.Rounds, rd)
				}
				if r.Intn(3) == 0 {
					st.Joiners = subs(1, 3, false, false)
				}
			}
		default:
			switch r.Intn(5) {
			case 0:
				st = Step{Kind: KIdle, Subs: subs(1, 3, false, true)}
			case 1, 2:
				st = Step{Kind: KGrow, N: 1 + r.Intn(4), Announce: ann(), Joiners: subs(0, 3, false, false), Subs: subs(0, 2, false, false)}
			default:
				st = Step{Kind: KReorg, Depth: 1 + r.Intn(6), N: 1 + r.Intn(3), Announce: ann(),
					Joiners: subs(0, 3, false, false), Subs: subs(1, 3, true, false)}
			}
		}
		if r.Intn(3) == 0 {
			st.Cancel = 1 + r.Intn(3)
		}
		p.Steps = append(p.Steps, st)
	}
	return p
}

func randSub(r *rand.Rand, removed, zero bool) SubSpec {
	s := SubSpec{R: r.Intn(1 << 20)}
	switch x := r.Intn(10); {
	case x == 0 && zero:
		s.From = FZero
	case x == 1:
		s.From = FOne
	case x == 2:
		s.From = FTip
	case x <= 4:
		s.From = FNear
	case x <= 6 && removed:
		s.From = FRemoved
	default:
		s.From = FDeep
	}
	switch r.Intn(6) {
	case 0:
		s.Reader = RSlow
	case 1:
		s.Reader = RLazy
	default:
		s.Reader = RFast
	}
	return s
}

// Fingerprint is the normalised shape of a plan.
func (p Plan) Fingerprint() string {
	if p.Fixed != "" {
		return "c11l2|fixed|" + p.Fixed
	}
	kinds := []string{}
	for _, st := range p.Steps {
		k := st.Kind
		if st.Kind == KLag {
			if st.N >= 20 {
				k += "(batch)"
			}
			below, partial := false, false
			for _, rd := range st.Rounds {
				if rd.Below > 0 {
					below = true
				} else if rd.Above < st.N {
					partial = true
				}
			}
			k += fmt.Sprintf("r%d", len(st.Rounds))
			if below {
				k += "b"
			}
			if partial {
				k += "p"
			}
		}
		if len(st.Joiners) > 0 {
			k += "+j"
		}
		kinds = append(kinds, k)
	}
	sort.Strings(kinds)
	ln := "short"
	if p.ChainLen >= 1000 {
		ln = "checkpointed"
	}
	return fmt.Sprintf("c11l2|len=%s|peers=%d|%s", ln, p.Peers, strings.Join(kinds, ","))
}
