package c11l2

import (
	"fmt"
	"math"
	"math/rand"
	"runtime"
	"sort"
	"strings"
	"sync"
	"sync/atomic"
	"time"

	"github.com/btcsuite/btcd/chainhash/v2"
	"github.com/btcsuite/btcd/wire/v2"
	"github.com/lightninglabs/neutrino"
	"github.com/lightninglabs/neutrino/blockntfns"

	"verif/internal/chaingen"
	"verif/internal/l2"
	"verif/internal/netsim"
)

// item is one notification as read by a subscriber.
type item struct {
	conn bool
	h    uint32
	hash chainhash.Hash
}

// subscriber is a client of the public subscription entry point together with
// the model of what it holds: the committed chain up to its best height when it
// subscribed, then whatever its notifications make of it.
type subscriber struct {
	id     int
	spec   SubSpec
	from   uint32
	moment string
	sub    *blockntfns.Subscription

	mu          sync.Mutex
	items       []item
	chain       map[uint32]chainhash.Hash
	top         uint32
	anomaly     string // kind of the first replay anomaly
	anomalyText string
	redelivered int // connected events for a block already held (backlog/batch overlap)
	ignoredDisc int // disconnected events for a block never held (block headers above the filter tip)

	goOnce    sync.Once
	goCh      chan struct{} // lazy readers start when this is closed
	done      chan struct{} // the notification channel was closed
	cancelled bool
	reported  bool
	// As of the last judgement: notifications matched with the first
	// subscriber's stream, and backlog notifications before them.
	liveN, backlogN int
}

func (m *subscriber) release() { m.goOnce.Do(func() { close(m.goCh) }) }

func (m *subscriber) setAnomaly(kind, text string) {
	if m.anomaly == "" {
		m.anomaly, m.anomalyText = kind, text
	}
}

// apply replays one notification.
func (m *subscriber) apply(n blockntfns.BlockNtfn) {
	h := n.Height()
	hdr := n.Header()
	hash := hdr.BlockHash()
	m.mu.Lock()
	defer m.mu.Unlock()
	switch n.(type) {
	case *blockntfns.Connected:
		m.items = append(m.items, item{true, h, hash})
		if m.anomaly != "" {
			return
		}
		switch {
		case h <= m.top && m.chain[h] == hash:
			m.redelivered++
		case h == m.top+1:
			if prev, ok := m.chain[m.top]; ok && hdr.PrevBlock != prev {
				m.setAnomaly("connected-not-child", fmt.Sprintf("connected block at height %d does not build on the block the subscriber holds at height %d", h, m.top))
				return
			}
			m.chain[h] = hash
			m.top = h
		case h > m.top+1:
			m.setAnomaly("connected-skips-heights", fmt.Sprintf("connected event for height %d while the subscriber holds the chain up to height %d: the blocks at heights %d..%d were never delivered to it", h, m.top, m.top+1, h-1))
		default:
			m.setAnomaly("connected-over-held-block", fmt.Sprintf("connected event for another block at height %d while the subscriber holds the chain up to height %d (no disconnected event took that block away)", h, m.top))
		}
	case *blockntfns.Disconnected:
		m.items = append(m.items, item{false, h, hash})
		if m.anomaly != "" {
			return
		}
		switch {
		case h == m.top && m.chain[h] == hash:
			delete(m.chain, h)
			m.top = h - 1
		case h <= m.top && m.chain[h] == hash:
			m.setAnomaly("disconnected-below-tip", fmt.Sprintf("disconnected event for the held block at height %d which is not the subscriber's tip %d", h, m.top))
		default:
			m.ignoredDisc++
		}
	}
}

// summary writes a stream as runs: C21-37 D43-41 C41-44.
func summary(items []item, max int) string {
	var parts []string
	for i := 0; i < len(items); {
		j := i
		for j+1 < len(items) && items[j+1].conn == items[i].conn &&
			((items[i].conn && items[j+1].h == items[j].h+1) || (!items[i].conn && items[j+1].h+1 == items[j].h)) {
			j++
		}
		k := "D"
		if items[i].conn {
			k = "C"
		}
		if j == i {
			parts = append(parts, fmt.Sprintf("%s%d", k, items[i].h))
		} else {
			parts = append(parts, fmt.Sprintf("%s%d-%d", k, items[i].h, items[j].h))
		}
		i = j + 1
	}
	if len(parts) > max {
		parts = append([]string{fmt.Sprintf("...(%d runs)", len(parts)-max)}, parts[len(parts)-max:]...)
	}
	return strings.Join(parts, " ")
}

type runner struct {
	p   Plan
	w   *l2.World
	g   *chaingen.Gen
	res *l2.Result
	src *neutrino.RescanChainSource
	rng *rand.Rand

	// cur is the honest tip; at a quiescent point the client has committed it.
	cur *chaingen.Node
	// holdAbove: the peers stay silent when asked for the filter headers
	// (or filter checkpoints) up to a block above this height.
	holdAbove atomic.Int32
	withheld  atomic.Int64
	served    chan struct{} // signalled when a filter-header request was answered

	mu   sync.Mutex
	subs []*subscriber
	ref  *subscriber
	seen map[string]bool
}

func (x *runner) mutate(p *netsim.Peer, req wire.Message, honest []wire.Message) []wire.Message {
	var stop chainhash.Hash
	switch t := req.(type) {
	case *wire.MsgGetCFHeaders:
		stop = t.StopHash
	case *wire.MsgGetCFCheckpt:
		stop = t.StopHash
	default:
		return honest
	}
	if n := x.g.Lookup(stop); n != nil && n.Height > x.holdAbove.Load() {
		x.withheld.Add(1)
		return nil
	}
	select {
	case x.served <- struct{}{}:
	default:
	}
	return honest
}

func (x *runner) filterTip() (uint32, bool) {
	_, h, err := x.w.Svc.RegFilterHeaders.ChainTip()
	return h, err == nil
}

func (x *runner) blockTipIs(n *chaingen.Node) bool {
	hd, h, err := x.w.Svc.BlockHeaders.ChainTip()
	return err == nil && int32(h) == n.Height && hd.BlockHash() == n.Hash
}

// resolve turns a SubSpec into a best height given the filter-header tip T,
// the number of block headers the last re-organisation removed, and the highest
// height that is certain not to change while the subscription is made.
func resolve(s SubSpec, T uint32, removed int, safe uint32) uint32 {
	if s.From == FZero {
		return 0
	}
	var f int64
	switch s.From {
	case FOne:
		f = 1
	case FTip:
		f = int64(T)
	case FNear:
		f = int64(T) - 1 - int64(s.R%3)
	case FRemoved:
		f = int64(T) - int64(removed) - int64(s.R%3)
	default:
		if T >= 2 {
			f = 1 + int64(s.R)%int64(T-1)
		}
	}
	if f > int64(safe) {
		f = int64(safe)
	}
	if f < 1 {
		f = 1
	}
	return uint32(f)
}

// subscribe registers a client through the public entry point. path is the
// chain the client has committed at least up to height `safe`; T is the
// filter-header tip the best height is derived from.
func (x *runner) subscribe(spec SubSpec, T uint32, removed int, safe uint32, path []*chaingen.Node, moment string) *subscriber {
	from := resolve(spec, T, removed, safe)
	m := &subscriber{spec: spec, from: from, moment: moment, chain: map[uint32]chainhash.Hash{},
		goCh: make(chan struct{}), done: make(chan struct{})}
	// What the client holds when it subscribes: the committed chain up to its
	// best height (best height 0 = "no history wanted": whatever is committed
	// and announced now, i.e. up to the filter-header tip).
	hold := from
	if from == 0 {
		hold = T
	}
	if int(hold) >= len(path) {
		return nil
	}
	for h := uint32(0); h <= hold; h++ {
		m.chain[h] = path[h].Hash
	}
	m.top = hold
	sub, err := x.src.Subscribe(from)
	if err != nil {
		x.mu.Lock()
		x.res.Count("c11l2_subscribe_errors", 1)
		x.mu.Unlock()
		return nil
	}
	m.sub = sub
	x.mu.Lock()
	m.id = len(x.subs)
	x.subs = append(x.subs, m)
	x.res.Count("c11l2_subscriptions", 1)
	x.res.Count("c11l2_subscribed_at/"+moment, 1)
	if from != 0 {
		x.res.Count("c11l2_subscriptions_with_backlog_height", 1)
	}
	key := "c11l2/sub-at=" + moment + "/from=" + spec.From
	if !x.seen[key] {
		x.seen[key] = true
		x.res.Mark(key)
	}
	x.mu.Unlock()
	go func() {
		defer close(m.done)
		if spec.Reader == RLazy {
			<-m.goCh
		}
		n := 0
		for ntfn := range sub.Notifications {
			m.apply(ntfn)
			n++
			if spec.Reader == RSlow && n%3 == 0 {
				time.Sleep(150 * time.Microsecond)
			}
		}
	}()
	return m
}

func (x *runner) active() []*subscriber {
	x.mu.Lock()
	defer x.mu.Unlock()
	out := make([]*subscriber, 0, len(x.subs))
	for _, m := range x.subs {
		if !m.cancelled {
			out = append(out, m)
		}
	}
	return out
}

func (x *runner) witness(m *subscriber, committedTip uint32) map[string]any {
	m.mu.Lock()
	w := map[string]any{
		"plan": x.p,
		"subscriber": map[string]any{"id": m.id, "best_height_passed": m.from, "subscribed": m.moment, "reader": m.spec.Reader,
			"notifications_read": len(m.items), "stream": summary(m.items, 40), "holds_up_to": m.top,
			"redelivered_connected": m.redelivered, "disconnected_for_blocks_never_held": m.ignoredDisc},
		"committed_filter_header_tip": committedTip,
	}
	m.mu.Unlock()
	if x.ref != nil && x.ref != m {
		x.ref.mu.Lock()
		w["first_subscriber_stream_tail"] = summary(x.ref.items, 12)
		x.ref.mu.Unlock()
	}
	w["event_log_tail"] = x.w.Log.Tail(30)
	return w
}

func sigOf(rule string, m *subscriber, when string) string {
	return "c11/l2/" + rule + "/subscribed=" + m.moment + "/best-height=" + m.spec.From + "/judged-after=" + when
}

// judge: the client reports the honest tip as best block (block AND filter
// headers). Every live subscriber must, once its queue has drained, hold
// exactly the committed chain, and its stream must be a backlog (consecutive
// connected blocks from its best height + 1) followed by a suffix of what the
// first subscriber — registered before everyone else — was sent.
func (x *runner) judge(when string) bool {
	res := x.res
	chain, err := l2.ReadChain(x.w.Svc.BlockHeaders)
	ft, ok := x.filterTip()
	if err != nil || !ok || int(ft) != len(chain)-1 || int32(ft) != x.cur.Height || chain[ft].BlockHash() != x.cur.Hash {
		res.Inconcl("stores not at the honest tip at a judgement point")
		return false
	}
	committed := make([]chainhash.Hash, len(chain))
	for i := range chain {
		committed[i] = chain[i].BlockHash()
	}
	tip := committed[ft]
	subs := x.active()
	for _, m := range subs {
		m.release()
	}
	complete := func(m *subscriber) bool {
		m.mu.Lock()
		defer m.mu.Unlock()
		if m.anomaly != "" {
			return true
		}
		if m.top != ft || m.chain[ft] != tip {
			return false
		}
		if n := len(m.items); n > 0 {
			last := m.items[n-1]
			return last.conn && last.hash == tip
		}
		return true
	}
	// Typical: milliseconds. The deadline only bounds how long a verdict
	// "never arrived" waits; it decides nothing that arrives.
	l2.WaitFor(30*time.Second, func() bool {
		for _, m := range subs {
			if !complete(m) {
				return false
			}
		}
		return true
	})
	if !complete(x.ref) {
		res.Inconcl("the first subscriber (registered before any block was connected) did not reach the committed tip within 30 s")
		x.ref.mu.Lock()
		an := x.ref.anomaly
		x.ref.mu.Unlock()
		if an == "" {
			return false
		}
	}
	x.ref.mu.Lock()
	refItems := append([]item(nil), x.ref.items...)
	x.ref.mu.Unlock()
	for _, m := range subs {
		res.Count("c11l2_subscriber_states_judged", 1)
		if m.reported {
			continue
		}
		m.mu.Lock()
		an, text, top, items := m.anomaly, m.anomalyText, m.top, append([]item(nil), m.items...)
		bad, rule := "", ""
		switch {
		case an != "":
			rule, bad = "replay/"+an, text
		case top < ft:
			rule, bad = "replay/ends-below-committed-tip", fmt.Sprintf("30 s after the client committed height %d the subscriber has been sent the chain only up to height %d", ft, top)
		case top > ft:
			rule, bad = "replay/ends-above-committed-tip", fmt.Sprintf("the subscriber holds blocks up to height %d, the committed filter-header tip is %d", top, ft)
		default:
			for h := uint32(1); h <= ft; h++ {
				if m.chain[h] != committed[h] {
					rule, bad = "replay/holds-uncommitted-block", fmt.Sprintf("the subscriber's block at height %d is not the committed one", h)
					break
				}
			}
		}
		m.mu.Unlock()
		drained := len(items) == 0 || (items[len(items)-1].conn && items[len(items)-1].hash == tip)
		if bad == "" && drained {
			// Backlog-then-live: strip the longest common suffix with the first
			// subscriber's stream; what remains must be the backlog.
			l := 0
			for l < len(items) && l < len(refItems) && items[len(items)-1-l] == refItems[len(refItems)-1-l] {
				l++
			}
			pre := items[:len(items)-l]
			for i, it := range pre {
				if !it.conn || it.h != m.from+1+uint32(i) || m.from == 0 {
					rule = "stream/not-backlog-then-emitted-suffix"
					bad = fmt.Sprintf("the subscriber's stream is not a backlog from height %d followed by a suffix of the notifications sent to the first subscriber: item %d (%s) fits neither", m.from+1, i, summary(pre[i:i+1], 1))
					break
				}
			}
			m.liveN, m.backlogN = l, len(pre)
		}
		if len(items) > 0 {
			res.Nontrivial = true
		}
		if bad != "" {
			m.reported = true
			res.Violate(sigOf(rule, m, when),
				fmt.Sprintf("subscriber %d (Subscribe(%d) %s, %s reader, %d notifications read): %s", m.id, m.from, m.moment, m.spec.Reader, len(items), bad),
				x.witness(m, ft))
		}
	}
	return true
}

func (x *runner) setTips(n *chaingen.Node) {
	for _, p := range x.w.Peers {
		p.View.SetTip(n)
	}
}

// announce: every connected peer announces the new tip, either with every
// header from the fork point (as a peer asked for header announcements does)
// or by inv (the client then asks for the headers).
func (x *runner) announce(from *chaingen.Node, tip *chaingen.Node, how string) {
	var ann []*chaingen.Node
	if int(tip.Height-from.Height) <= wire.MaxBlockHeadersPerMsg {
		ann = tip.Path()[from.Height+1:]
	} else {
		ann = []*chaingen.Node{tip}
	}
	for _, p := range x.w.Peers {
		if c := p.Conn(); c == nil || c.Dead() {
			continue
		}
		if how == "inv" {
			p.AnnounceInv(tip)
		} else {
			p.AnnounceHeaders(ann...)
		}
	}
}

// joinDuring subscribes the given clients a few milliseconds apart while the
// client adopts a change; their best heights stay at or below `safe`.
func (x *runner) joinDuring(specs []SubSpec, T, safe uint32, path []*chaingen.Node, moment string) (stop func()) {
	if len(specs) == 0 {
		return func() {}
	}
	var wg sync.WaitGroup
	wg.Add(1)
	go func() {
		defer wg.Done()
		for j, s := range specs {
			x.subscribe(s, T, 0, safe, path, moment)
			time.Sleep(time.Duration(200+300*(j%4)) * time.Microsecond)
		}
	}()
	return wg.Wait
}

func (x *runner) settle(n *chaingen.Node, d time.Duration) bool {
	return l2.WaitFor(d, func() bool { return x.w.SyncedTo(n) })
}

func (x *runner) cancelSome(n int) {
	for i := 0; i < n; i++ {
		act := x.active()
		// Never the first subscriber (index 0): the others are compared with it.
		if len(act) <= 1 {
			return
		}
		m := act[1+x.rng.Intn(len(act)-1)]
		m.release()
		m.sub.Cancel()
		x.mu.Lock()
		m.cancelled = true
		x.mu.Unlock()
		select {
		case <-m.done:
			x.res.Count("c11l2_cancelled_and_closed", 1)
		case <-time.After(30 * time.Second):
			x.res.Inconcl("subscription channel not closed 30 s after Cancel returned")
		}
	}
}

// Run executes the plan and fills res.
func Run(p Plan, res *l2.Result) {
	res.Fingerprint = p.Fingerprint()
	w := l2.NewWorld(l2.Config{Seed: p.Seed, Preset: chaingen.PresetNoRetarget, SpacingSec: 4,
		GenesisAgo: time.Duration(p.ChainLen+500) * 6 * time.Second})
	defer w.Cleanup()
	x := &runner{p: p, w: w, g: w.G, res: res, rng: rand.New(rand.NewSource(p.Seed ^ 0xc11)),
		served: make(chan struct{}, 1), seen: map[string]bool{}}
	x.holdAbove.Store(math.MaxInt32)
	trunk := w.G.Extend(w.G.Genesis, p.ChainLen, chaingen.PaceNormal)
	x.cur = trunk[len(trunk)-1]
	for i := 0; i < p.Peers; i++ {
		w.AddPeer(x.cur).Mutate = x.mutate
	}
	if err := w.StartClient(nil, l2.ClientOpts{}); err != nil {
		res.Inconcl("client start: " + err.Error())
		return
	}
	stopped := false
	defer func() {
		if !stopped {
			_, _ = w.StopClient(60 * time.Second)
		}
	}()
	x.src = &neutrino.RescanChainSource{ChainService: w.Svc}
	// The first subscriber: registered before every other one, with best
	// height 0, so it is sent everything the others are sent live.
	x.ref = x.subscribe(SubSpec{From: FZero, Reader: RFast}, 0, 0, 0, x.cur.Path(), "client-start")
	if x.ref == nil {
		res.Inconcl("the first subscription failed")
		return
	}
	if len(p.SyncSubs) > 0 {
		// Subscribe while the filter headers of the initial sync are written.
		var T uint32
		l2.WaitFor(60*time.Second, func() bool {
			T, _ = x.filterTip()
			runtime.Gosched()
			return T > 0
		})
		if T > 0 {
			for _, s := range p.SyncSubs {
				x.subscribe(s, T, 0, T, x.cur.Path(), "during-initial-filter-header-sync")
			}
		}
	}
	if !x.settle(x.cur, 60*time.Second) {
		res.Inconcl("initial sync not reached")
		return
	}
	if !x.judge("initial-sync") {
		return
	}
	for si, st := range p.Steps {
		ok := true
		switch st.Kind {
		case KIdle:
			T := uint32(x.cur.Height)
			for _, s := range st.Subs {
				x.subscribe(s, T, 0, T, x.cur.Path(), "idle")
			}
			ok = x.judge(KIdle)
		case KGrow:
			ok = x.grow(st)
		case KReorg:
			ok = x.reorg(st)
		case KLag:
			ok = x.lag(st)
		}
		if !ok {
			res.Count("c11l2_scenarios_cut_short", 1)
			break
		}
		res.Count("c11l2_steps/"+st.Kind, 1)
		x.cancelSome(st.Cancel)
		_ = si
	}
	// Shutdown: every remaining channel is closed once Stop returned.
	x.mu.Lock()
	all := append([]*subscriber(nil), x.subs...)
	x.mu.Unlock()
	okStop, _ := w.StopClient(60 * time.Second)
	stopped = true
	if !okStop {
		res.Inconcl("Stop did not return in 60s")
	} else {
		for _, m := range all {
			m.release()
			select {
			case <-m.done:
				res.Count("c11l2_channels_closed_after_stop_or_cancel", 1)
			case <-time.After(30 * time.Second):
				res.Inconcl("a subscription channel was not closed 30 s after Stop returned")
			}
		}
	}
	var mid, ign int64
	for _, m := range all {
		m.mu.Lock()
		if m.redelivered > 0 {
			mid++
		}
		ign += int64(m.ignoredDisc)
		res.Count("c11l2_notifications_read", int64(len(m.items)))
		res.Count("c11l2_backlog_notifications_judged", int64(m.backlogN))
		res.Count("c11l2_live_notifications_matched_with_first_subscriber", int64(m.liveN))
		m.mu.Unlock()
	}
	res.Count("c11l2_subscribers_with_backlog_overlapping_live_batch", mid)
	res.Count("c11l2_disconnected_events_for_blocks_above_filter_tip_seen_by_subscribers", ign)
	res.Count("c11l2_filter_header_requests_withheld", x.withheld.Load())
	res.Count("c11l2_scenarios", 1)
	kinds := map[string]int{}
	for _, m := range all {
		kinds[m.moment]++
	}
	ks := []string{}
	for k, n := range kinds {
		ks = append(ks, fmt.Sprintf("%s=%d", k, n))
	}
	sort.Strings(ks)
	res.Sample = map[string]any{"plan": p, "subscriptions": ks, "first_subscriber_stream": func() string {
		x.ref.mu.Lock()
		defer x.ref.mu.Unlock()
		return summary(x.ref.items, 30)
	}()}
}

func (x *runner) grow(st Step) bool {
	old := x.cur
	T := uint32(old.Height)
	ext := x.g.Extend(old, st.N, chaingen.PaceNormal)
	nt := ext[len(ext)-1]
	x.setTips(nt)
	wait := x.joinDuring(st.Joiners, T, T, old.Path(), "during-growth")
	x.announce(old, nt, st.Announce)
	ok := x.settle(nt, 60*time.Second)
	wait()
	if !ok {
		x.res.Inconcl("client did not follow the honest chain within 60 s (C04's subject)")
		return false
	}
	x.cur = nt
	for _, s := range st.Subs {
		x.subscribe(s, uint32(nt.Height), st.N, uint32(nt.Height), nt.Path(), "right-after-growth")
	}
	return x.judge(KGrow)
}

func (x *runner) reorg(st Step) bool {
	old := x.cur
	d := st.Depth
	if int(old.Height) <= d+2 {
		d = 1
	}
	fork := old.Ancestor(old.Height - int32(d))
	br := x.g.Extend(fork, d+st.N, chaingen.PaceNormal)
	nt := br[len(br)-1]
	x.setTips(nt)
	wait := x.joinDuring(st.Joiners, uint32(fork.Height), uint32(fork.Height), old.Path(), "during-reorg")
	x.announce(fork, nt, st.Announce)
	ok := x.settle(nt, 60*time.Second)
	wait()
	if !ok {
		x.res.Inconcl("client did not follow the honest chain within 60 s (C04's subject)")
		return false
	}
	x.cur = nt
	x.res.Count("c11l2_reorgs_with_filter_headers_caught_up", 1)
	for _, s := range st.Subs {
		x.subscribe(s, uint32(nt.Height), d, uint32(nt.Height), nt.Path(), "right-after-reorg")
	}
	return x.judge(KReorg)
}

// lag: the peers withhold the filter headers of everything above the current
// tip; the block headers grow and re-organise meanwhile; clients subscribe
// after each change; then the peers answer again and the client catches up.
func (x *runner) lag(st Step) bool {
	res := x.res
	F := uint32(x.cur.Height)
	x.holdAbove.Store(int32(F))
	release := func() { x.holdAbove.Store(math.MaxInt32) }
	awaitBlocks := func(n *chaingen.Node) bool {
		return l2.WaitFor(40*time.Second, func() bool { return x.blockTipIs(n) })
	}
	filterTipIs := func(h uint32) bool {
		t, ok := x.filterTip()
		return ok && t == h
	}
	old := x.cur
	ext := x.g.Extend(old, st.N, chaingen.PaceNormal)
	nt := ext[len(ext)-1]
	x.setTips(nt)
	x.announce(old, nt, "headers")
	if !awaitBlocks(nt) {
		release()
		res.Inconcl("block headers not adopted within 40 s while filter headers were withheld")
		return false
	}
	if !filterTipIs(F) {
		release()
		res.Inconcl("filter-header tip moved although every peer withheld the filter headers")
		return false
	}
	x.cur = nt
	res.Count("c11l2_phases_with_block_headers_ahead_of_filter_headers", 1)
	for _, s := range st.Subs {
		x.subscribe(s, F, 0, F, x.cur.Path(), "block-headers-ahead-of-filter-headers")
	}
	for _, rd := range st.Rounds {
		lagging := int(x.cur.Height) - int(F)
		above, below := rd.Above, 0
		if above > lagging {
			above = lagging
		}
		if rd.Below > 0 {
			above, below = lagging, rd.Below
			if below > int(F)-2 {
				below = int(F) - 2
			}
			if below < 0 {
				below = 0
			}
		}
		removed := above + below
		if removed == 0 {
			continue
		}
		fork := x.cur.Ancestor(x.cur.Height - int32(removed))
		br := x.g.Extend(fork, removed+rd.Extra, chaingen.PaceNormal)
		nt := br[len(br)-1]
		x.setTips(nt)
		x.announce(fork, nt, "headers")
		if !awaitBlocks(nt) {
			release()
			res.Inconcl("re-organisation of block headers not adopted within 40 s while filter headers were withheld")
			return false
		}
		newF := F
		if uint32(fork.Height) < newF {
			newF = uint32(fork.Height)
		}
		if !filterTipIs(newF) {
			release()
			res.Inconcl("filter-header tip not where the re-organisation should have left it while filter headers were withheld")
			return false
		}
		F, x.cur = newF, nt
		moment := "after-reorg-of-all-headers-above-filter-tip"
		switch {
		case below > 0:
			moment = "after-reorg-through-filter-tip-while-lagging"
		case above < lagging:
			moment = "after-reorg-of-some-headers-above-filter-tip"
		}
		res.Count("c11l2_reorgs_while_filter_headers_lag/"+moment, 1)
		res.Count("c11l2_block_headers_above_filter_tip_disconnected", int64(above))
		for _, s := range rd.Subs {
			x.subscribe(s, F, removed, F, x.cur.Path(), moment)
		}
	}
	// Release. Clients may join while the batch is being dispatched: as soon
	// as a peer answered a filter-header request, watch the store's tip move.
	var jw sync.WaitGroup
	if len(st.Joiners) > 0 {
		select {
		case <-x.served:
		default:
		}
		jw.Add(1)
		path := x.cur.Path()
		go func() {
			defer jw.Done()
			select {
			case <-x.served:
			case <-time.After(60 * time.Second):
				return
			}
			deadline := time.Now().Add(5 * time.Second)
			for time.Now().Before(deadline) {
				if t, ok := x.filterTip(); ok && t != F {
					break
				}
				runtime.Gosched()
			}
			for _, s := range st.Joiners {
				x.subscribe(s, F, 0, F, path, "during-filter-header-batch")
			}
		}()
	}
	release()
	ok := x.settle(x.cur, 90*time.Second)
	jw.Wait()
	if !ok {
		res.Inconcl("client did not catch up with the released filter headers within 90 s")
		return false
	}
	return x.judge(KLag)
}
