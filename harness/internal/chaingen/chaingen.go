// Package chaingen is the seeded block-tree generator shared by the header,
// filter, block, rescan and utxo workloads. It owns a TREE of blocks and
// knows, for each node, whether it is valid and — if not — the single rule
// it breaks (labels from package ref).
package chaingen

import (
	"fmt"
	"math/big"
	"math/rand"
	"sync"
	"time"

	"github.com/btcsuite/btcd/blockchain"
	"github.com/btcsuite/btcd/btcutil/v2/gcs"
	"github.com/btcsuite/btcd/chaincfg/v2"
	"github.com/btcsuite/btcd/chainhash/v2"
	"github.com/btcsuite/btcd/wire/v2"

	"verif/internal/ref"
)

// Preset kinds of chain parameters.
const (
	PresetNoRetarget = iota // regtest-like: constant minimum difficulty
	PresetRetarget          // retarget every Interval blocks, factor 4, no min-difficulty rule
	PresetMinDiff           // retarget + ReduceMinDifficulty with a short reduction time
	NumPresets
)

// Node is one block of the tree.
type Node struct {
	Hdr    wire.BlockHeader
	Hash   chainhash.Hash
	Height int32
	Parent *Node
	// CumWork is the total work from genesis (exclusive) through this node.
	CumWork *big.Int
	// Rule is "" for a header valid w.r.t. its parent, else the broken rule.
	Rule string
	// ChainValid is true when this node and all its ancestors are valid.
	ChainValid bool

	// Block-level material (only when the generator has WithBlocks set).
	Block        *wire.MsgBlock
	PrevScripts  [][]byte // scripts of the outputs this block's inputs spend
	Filter       *gcs.Filter
	FilterBytes  []byte
	FilterHash   chainhash.Hash
	FilterHeader chainhash.Hash
}

// Gen is a seeded tree generator.
type Gen struct {
	P          *chaincfg.Params
	Rng        *rand.Rand
	Genesis    *Node
	Now        time.Time // the clock against which "too new" is judged
	WithBlocks bool
	Spacing    int64                    // seconds: TargetTimePerBlock
	ByHash     map[chainhash.Hash]*Node // guarded by mu: use Lookup outside the generator
	mu         sync.RWMutex
	MaxHashes  float64 // cap on expected hashes per header when steering difficulty
	Hashes     int64   // total hashes tried (cost counter)

	wallet *wallet // tx generation state (blocks.go)
}

// Config for NewGen.
type Config struct {
	Seed        int64
	Preset      int
	Interval    int       // blocks per retarget (ignored for PresetNoRetarget)
	GenesisTime time.Time // timestamp of the genesis header
	Now         time.Time
	Net         wire.BitcoinNet // 0 → a private magic derived from the seed
	WithBlocks  bool
	SpacingSec  int64 // TargetTimePerBlock in seconds (default 10)
	// OpaqueSpendPct (default 0: never) is the percentage of generated
	// transaction inputs from which txscript.ComputePkScript cannot recover
	// the spent script (see SpendShape in blocks.go).
	OpaqueSpendPct int
}

// NewGen builds parameters and a freshly mined genesis block.
func NewGen(c Config) *Gen {
	rng := rand.New(rand.NewSource(c.Seed))
	p := chaincfg.RegressionNetParams // value copy
	p.Name = fmt.Sprintf("verif-%d", c.Seed)
	if c.Net == 0 {
		c.Net = wire.BitcoinNet(0xe0000000 | uint32(rng.Int31()))
	}
	p.Net = c.Net
	p.Checkpoints = nil
	p.DNSSeeds = nil
	if c.SpacingSec <= 0 {
		c.SpacingSec = 10
	}
	if c.Interval < 2 {
		c.Interval = 8
	}
	p.TargetTimePerBlock = time.Duration(c.SpacingSec) * time.Second
	switch c.Preset {
	case PresetNoRetarget:
		p.PoWNoRetargeting = true
		p.ReduceMinDifficulty = true
		p.TargetTimespan = time.Duration(c.Interval) * p.TargetTimePerBlock
	case PresetRetarget:
		p.PoWNoRetargeting = false
		p.ReduceMinDifficulty = false
		p.RetargetAdjustmentFactor = 4
		p.TargetTimespan = time.Duration(c.Interval) * p.TargetTimePerBlock
	case PresetMinDiff:
		p.PoWNoRetargeting = false
		p.ReduceMinDifficulty = true
		p.MinDiffReductionTime = 2 * p.TargetTimePerBlock
		p.RetargetAdjustmentFactor = 4
		p.TargetTimespan = time.Duration(c.Interval) * p.TargetTimePerBlock
	}

	g := &Gen{
		P: &p, Rng: rng, Now: c.Now, WithBlocks: c.WithBlocks,
		Spacing: c.SpacingSec, ByHash: map[chainhash.Hash]*Node{},
		MaxHashes: 2048,
	}
	g.wallet = newWallet(rng)
	g.wallet.opaquePct = c.OpaqueSpendPct

	// Genesis: the regtest genesis block with our timestamp, re-mined.
	gb := *chaincfg.RegressionNetParams.GenesisBlock // copy (shares tx slice; never mutated)
	gb.Header.Timestamp = time.Unix(c.GenesisTime.Unix(), 0)
	gb.Header.Bits = p.PowLimitBits
	g.mine(&gb.Header)
	gh := gb.Header.BlockHash()
	p.GenesisBlock = &gb
	p.GenesisHash = &gh
	n := &Node{Hdr: gb.Header, Hash: gh, Height: 0, CumWork: new(big.Int), ChainValid: true}
	if c.WithBlocks {
		n.Block = &gb
		g.finishFilter(n, nil)
	}
	g.Genesis = n
	g.ByHash[gh] = n
	return g
}

// Lookup returns the node with the given hash (nil if unknown). Safe for
// concurrent use with the generator extending the tree.
func (g *Gen) Lookup(h chainhash.Hash) *Node {
	g.mu.RLock()
	defer g.mu.RUnlock()
	return g.ByHash[h]
}

// mine sets the nonce (and, if the nonce space is exhausted, bumps the
// merkle root) until the header hash meets the header's own target.
func (g *Gen) mine(h *wire.BlockHeader) {
	tgt := blockchain.CompactToBig(h.Bits)
	for {
		for n := uint32(0); n < 1<<31; n++ {
			h.Nonce = n
			g.Hashes++
			hash := h.BlockHash()
			if blockchain.HashToBig(&hash).Cmp(tgt) <= 0 {
				return
			}
		}
		h.Timestamp = h.Timestamp.Add(time.Second)
	}
}

// unmine sets a nonce whose hash is ABOVE the target.
func (g *Gen) unmine(h *wire.BlockHeader) {
	tgt := blockchain.CompactToBig(h.Bits)
	for n := uint32(0); ; n++ {
		h.Nonce = n
		hash := h.BlockHash()
		if blockchain.HashToBig(&hash).Cmp(tgt) > 0 {
			return
		}
	}
}

// Chain returns the headers from genesis through n.
func (n *Node) Chain() []wire.BlockHeader {
	out := make([]wire.BlockHeader, n.Height+1)
	for c := n; c != nil; c = c.Parent {
		out[c.Height] = c.Hdr
	}
	return out
}

// Path returns the nodes from genesis through n.
func (n *Node) Path() []*Node {
	out := make([]*Node, n.Height+1)
	for c := n; c != nil; c = c.Parent {
		out[c.Height] = c
	}
	return out
}

// Ancestor returns the ancestor at height h (nil if h > n.Height).
func (n *Node) Ancestor(h int32) *Node {
	if h > n.Height || h < 0 {
		return nil
	}
	c := n
	for c.Height > h {
		c = c.Parent
	}
	return c
}

// ForkPoint returns the last common ancestor of a and b.
func ForkPoint(a, b *Node) *Node {
	for a.Height > b.Height {
		a = a.Parent
	}
	for b.Height > a.Height {
		b = b.Parent
	}
	for a != b {
		a, b = a.Parent, b.Parent
	}
	return a
}

// Pace steers the timestamps (and so the difficulty) of an extension.
type Pace int

const (
	PaceNormal Pace = iota // spacing ≈ target
	PaceFast               // spacing ≈ target/4 or less → difficulty rises
	PaceSlow               // spacing ≈ 4×target → difficulty falls / min-diff rule kicks in
	PaceMixed              // random per block, occasionally non-monotonic (but above MTP)
	PaceBack               // every block goes back in time as far as the median-time rule allows
)

func (g *Gen) expectedHashes(bits uint32) float64 {
	t := new(big.Float).SetInt(blockchain.CompactToBig(bits))
	two256 := new(big.Float).SetInt(new(big.Int).Lsh(big.NewInt(1), 256))
	f, _ := new(big.Float).Quo(two256, t).Float64()
	return f
}

// nextTime picks a timestamp for the child of parent under a pace, always
// strictly after the median-time-past and never in the "too new" zone.
func (g *Gen) nextTime(chain []wire.BlockHeader, pace Pace) time.Time {
	parent := chain[len(chain)-1]
	mtp := ref.MedianTimePast(chain)
	sp := g.Spacing
	var d int64
	switch pace {
	case PaceNormal:
		d = sp
	case PaceFast:
		d = sp / 4
		if d < 1 {
			d = 1
		}
	case PaceSlow:
		d = sp*4 + 1
	case PaceBack:
		back := parent.Timestamp.Unix() - mtp.Unix()
		if back > 1 {
			d = -(back - 1)
		} else {
			d = 1
		}
	case PaceMixed:
		switch g.Rng.Intn(6) {
		case 0:
			d = 1
		case 1:
			d = sp*3 + 1
		case 2:
			// Non-monotonic: go back before the parent but stay above MTP.
			back := parent.Timestamp.Unix() - mtp.Unix()
			if back > 1 {
				d = -g.Rng.Int63n(back - 1)
				if d == 0 {
					d = 1
				}
			} else {
				d = 1
			}
		default:
			d = 1 + g.Rng.Int63n(2*sp)
		}
	}
	// Difficulty cap: if mining is getting expensive, slow down hard.
	if !g.P.PoWNoRetargeting && g.expectedHashes(parent.Bits) > g.MaxHashes {
		d = sp*4 + 1
	}
	ts := time.Unix(parent.Timestamp.Unix()+d, 0)
	if !ts.After(mtp) {
		ts = time.Unix(mtp.Unix()+1, 0)
	}
	return ts
}

// newNode links and indexes a node.
func (g *Gen) newNode(parent *Node, h wire.BlockHeader, rule string) *Node {
	n := &Node{
		Hdr: h, Hash: h.BlockHash(), Height: parent.Height + 1, Parent: parent,
		Rule: rule, ChainValid: parent.ChainValid && rule == "",
	}
	n.CumWork = new(big.Int).Add(parent.CumWork, blockchain.CalcWork(h.Bits))
	g.mu.Lock()
	g.ByHash[n.Hash] = n
	g.mu.Unlock()
	return n
}

// template builds a valid, mined child header of parent with timestamp ts.
func (g *Gen) template(parent *Node, chain []wire.BlockHeader, ts time.Time) wire.BlockHeader {
	h := wire.BlockHeader{
		Version:   0x20000000,
		PrevBlock: parent.Hash,
		Timestamp: ts,
		Bits:      ref.RequiredBits(g.P, chain, ts),
	}
	g.Rng.Read(h.MerkleRoot[:])
	return h
}

// Extend appends n valid blocks to parent and returns them.
func (g *Gen) Extend(parent *Node, n int, pace Pace) []*Node {
	chain := parent.Chain()
	out := make([]*Node, 0, n)
	for i := 0; i < n; i++ {
		ts := g.nextTime(chain, pace)
		h := g.template(parent, chain, ts)
		var nd *Node
		if g.WithBlocks {
			nd = g.buildBlock(parent, h, chain)
		} else {
			g.mine(&h)
			// Mining may bump the timestamp only after 2^31 nonces: never here.
			nd = g.newNode(parent, h, "")
		}
		out = append(out, nd)
		chain = append(chain, nd.Hdr)
		parent = nd
	}
	return out
}

// Invalid appends to parent one header that breaks exactly the named rule
// (and is otherwise valid). It returns nil when the rule cannot be broken at
// this position (e.g. no checkpoint at that height, min-difficulty bits
// cannot go easier).
func (g *Gen) Invalid(parent *Node, rule string) *Node {
	chain := parent.Chain()
	ts := g.nextTime(chain, PaceNormal)
	h := g.template(parent, chain, ts)
	switch rule {
	case ref.RuleLink:
		g.Rng.Read(h.PrevBlock[:])
		g.mine(&h)
	case ref.RulePoW:
		g.unmine(&h)
	case ref.RuleBitsRange:
		// Easier than the PoW limit.
		h.Bits = 0x2100ffff
		if blockchain.CompactToBig(h.Bits).Cmp(g.P.PowLimit) <= 0 {
			return nil
		}
		g.mine(&h)
	case ref.RuleBits:
		// Harder than required by a factor 2 (still in range), correctly mined
		// for the claimed bits — or, if required is not the limit, easier.
		want := blockchain.CompactToBig(h.Bits)
		var t *big.Int
		if g.Rng.Intn(2) == 0 || want.Cmp(g.P.PowLimit) >= 0 {
			t = new(big.Int).Rsh(want, 1)
		} else {
			t = new(big.Int).Lsh(want, 1)
			if t.Cmp(g.P.PowLimit) > 0 {
				t = new(big.Int).Set(g.P.PowLimit)
			}
		}
		nb := blockchain.BigToCompact(t)
		if nb == h.Bits {
			return nil
		}
		h.Bits = nb
		g.mine(&h)
	case ref.RuleMTP:
		mtp := ref.MedianTimePast(chain)
		h.Timestamp = time.Unix(mtp.Unix()-int64(g.Rng.Intn(3)), 0)
		h.Bits = ref.RequiredBits(g.P, chain, h.Timestamp)
		g.mine(&h)
	case ref.RuleFuture:
		h.Timestamp = time.Unix(g.Now.Unix()+3*3600+int64(g.Rng.Intn(3600)), 0)
		h.Bits = ref.RequiredBits(g.P, chain, h.Timestamp)
		g.mine(&h)
	case ref.RuleVersion:
		h.Version = 1
		g.mine(&h)
	default:
		panic("chaingen: unknown rule " + rule)
	}
	// Re-label through the reference validator so that the label is never
	// taken on faith (e.g. a future header in a min-diff chain).
	got := ref.CheckNext(g.P, chain, &h, g.Now)
	if got != rule {
		return nil
	}
	return g.newNode(parent, h, rule)
}

// InvalidAtMTP appends to parent one header whose timestamp EQUALS the
// median-time-past of its predecessors (the rule demands strictly after it)
// and which is otherwise valid; nil if the validator labels it differently.
func (g *Gen) InvalidAtMTP(parent *Node) *Node {
	chain := parent.Chain()
	h := g.template(parent, chain, g.nextTime(chain, PaceNormal))
	h.Timestamp = ref.MedianTimePast(chain)
	h.Bits = ref.RequiredBits(g.P, chain, h.Timestamp)
	g.mine(&h)
	if got := ref.CheckNext(g.P, chain, &h, g.Now); got != ref.RuleMTP {
		return nil
	}
	return g.newNode(parent, h, ref.RuleMTP)
}

// AllRules lists the single-rule breaks Invalid understands.
var AllRules = []string{
	ref.RuleLink, ref.RulePoW, ref.RuleBitsRange, ref.RuleBits,
	ref.RuleMTP, ref.RuleFuture, ref.RuleVersion,
}

// Headers returns pointers to the headers of nodes (for a wire.MsgHeaders).
func Headers(ns []*Node) []*wire.BlockHeader {
	out := make([]*wire.BlockHeader, len(ns))
	for i, n := range ns {
		h := n.Hdr
		out[i] = &h
	}
	return out
}

// SetCheckpoints installs header checkpoints at the given heights of the
// path ending at tip.
func (g *Gen) SetCheckpoints(tip *Node, heights ...int32) {
	g.P.Checkpoints = nil
	for _, h := range heights {
		n := tip.Ancestor(h)
		if n == nil {
			continue
		}
		hash := n.Hash
		g.P.Checkpoints = append(g.P.Checkpoints, chaincfg.Checkpoint{Height: h, Hash: &hash})
	}
}
