package chaingen

import (
	"bytes"
	"testing"
	"time"

	"github.com/btcsuite/btcd/blockchain"
	"github.com/btcsuite/btcd/btcutil/v2"
	"github.com/btcsuite/btcd/chaincfg/v2"
	"github.com/btcsuite/btcd/chainhash/v2"
	"github.com/btcsuite/btcd/txscript/v2"
	"github.com/btcsuite/btcd/wire/v2"
	"github.com/lightninglabs/neutrino"

	"verif/internal/ref"
)

// sliceCtx is a trivial slice-backed blockchain.HeaderCtx / ChainCtx used to
// cross-check ref.CheckNext against btcd's own validation.
type sliceCtx struct {
	chain []wire.BlockHeader
	h     int32
}

func (s *sliceCtx) Height() int32    { return s.h }
func (s *sliceCtx) Bits() uint32     { return s.chain[s.h].Bits }
func (s *sliceCtx) Timestamp() int64 { return s.chain[s.h].Timestamp.Unix() }
func (s *sliceCtx) Parent() blockchain.HeaderCtx {
	return s.RelativeAncestorCtx(1)
}
func (s *sliceCtx) RelativeAncestorCtx(d int32) blockchain.HeaderCtx {
	if s.h-d < 0 {
		return nil
	}
	return &sliceCtx{s.chain, s.h - d}
}

type chainCtx struct{ p *chaincfg.Params }

func (c chainCtx) ChainParams() *chaincfg.Params { return c.p }
func (c chainCtx) BlocksPerRetarget() int32      { return ref.BlocksPerRetarget(c.p) }
func (c chainCtx) MinRetargetTimespan() int64 {
	return int64(c.p.TargetTimespan/time.Second) / c.p.RetargetAdjustmentFactor
}
func (c chainCtx) MaxRetargetTimespan() int64 {
	return int64(c.p.TargetTimespan/time.Second) * c.p.RetargetAdjustmentFactor
}
func (c chainCtx) VerifyCheckpoint(int32, *chainhash.Hash) bool        { return true }
func (c chainCtx) FindPreviousCheckpoint() (blockchain.HeaderCtx, error) { return nil, nil }

type fixedTime struct{ t time.Time }

func (f fixedTime) AdjustedTime() time.Time          { return f.t }
func (f fixedTime) AddTimeSample(string, time.Time) {}
func (f fixedTime) Offset() time.Duration            { return 0 }

func btcdValid(p *chaincfg.Params, chain []wire.BlockHeader, h *wire.BlockHeader, now time.Time) bool {
	parent := &sliceCtx{chain, int32(len(chain) - 1)}
	if err := blockchain.CheckBlockHeaderContext(h, parent, 0, chainCtx{p}, true); err != nil {
		return false
	}
	return blockchain.CheckBlockHeaderSanity(h, p.PowLimit, fixedTime{now}, 0) == nil
}

func TestRefAgreesWithBtcd(t *testing.T) {
	now := time.Unix(1_780_000_000, 0)
	invalid := map[string]int{}
	for seed := int64(1); seed <= 12; seed++ {
		for preset := 0; preset < NumPresets; preset++ {
			g := NewGen(Config{Seed: seed, Preset: preset, Interval: 4 + int(seed%6),
				GenesisTime: now.Add(-20 * time.Hour), Now: now, SpacingSec: 6})
			tip := g.Genesis
			paces := []Pace{PaceNormal, PaceFast, PaceSlow, PaceMixed, PaceFast, PaceMixed}
			for _, pc := range paces {
				ns := g.Extend(tip, 25, pc)
				for _, n := range ns {
					ch := n.Parent.Chain()
					if r := ref.CheckNext(g.P, ch, &n.Hdr, now); r != "" {
						t.Fatalf("generated valid header fails ref: %s", r)
					}
					if !btcdValid(g.P, ch, &n.Hdr, now) {
						t.Fatalf("generated valid header fails btcd (seed %d preset %d h %d)", seed, preset, n.Height)
					}
				}
				tip = ns[len(ns)-1]
				for _, rule := range AllRules {
					bad := g.Invalid(tip, rule)
					if bad == nil {
						continue
					}
					invalid[rule]++
					if rule != ref.RuleLink && btcdValid(g.P, tip.Chain(), &bad.Hdr, now) {
						t.Fatalf("header invalid by %s accepted by btcd", rule)
					}
				}
			}
			if i, r := ref.CheckChain(g.P, tip.Chain(), now); r != "" {
				t.Fatalf("CheckChain: %d %s", i, r)
			}
		}
	}
	t.Logf("invalid headers cross-checked per rule: %v", invalid)
	for _, r := range AllRules {
		if invalid[r] == 0 {
			t.Fatalf("rule %s never generated", r)
		}
	}
}

func TestBlocksAndFilters(t *testing.T) {
	now := time.Unix(1_780_000_000, 0)
	g := NewGen(Config{Seed: 7, Preset: PresetNoRetarget, GenesisTime: now.Add(-10 * time.Hour),
		Now: now, WithBlocks: true})
	ns := g.Extend(g.Genesis, 300, PaceNormal)
	wit, nowit, spends := 0, 0, 0
	for _, n := range ns {
		b := btcutil.NewBlock(n.Block)
		if err := blockchain.CheckBlockSanity(b, g.P.PowLimit, fixedTime{now}); err != nil {
			t.Fatalf("sanity h=%d: %v", n.Height, err)
		}
		if err := blockchain.ValidateWitnessCommitment(b); err != nil {
			t.Fatalf("witness commitment h=%d: %v", n.Height, err)
		}
		if _, err := neutrino.VerifyBasicBlockFilter(n.Filter, b); err != nil {
			t.Fatalf("filter h=%d: %v", n.Height, err)
		}
		if n.Block.Header.BlockHash() != n.Hash {
			t.Fatal("hash mismatch")
		}
		if len(n.Block.Transactions[0].TxIn[0].Witness) > 0 {
			wit++
		} else {
			nowit++
		}
		spends += len(n.PrevScripts)
	}
	if wit == 0 || nowit == 0 || spends == 0 {
		t.Fatalf("coverage: wit=%d nowit=%d spends=%d", wit, nowit, spends)
	}
	t.Logf("blocks with/without witness commitment: %d/%d, spends %d, hashes %d", wit, nowit, spends, g.Hashes)
}

// TestOpaqueSpendShapes pins which input shapes txscript.ComputePkScript
// rejects / gets wrong, and that ForceSpend places them.
func TestOpaqueSpendShapes(t *testing.T) {
	g := NewGen(Config{Seed: 5, GenesisTime: time.Unix(1_700_000_000, 0), Now: time.Unix(1_702_000_000, 0), WithBlocks: true})
	tr := g.Extend(g.Genesis, 8, PaceNormal)
	tip := tr[len(tr)-1]
	us := g.Utxos(tip)
	if len(us) < len(OpaqueShapes) {
		t.Fatalf("only %d utxos", len(us))
	}
	for i, sh := range OpaqueShapes {
		g.ForceSpend(us[i], sh)
	}
	n := g.Extend(tip, 1, PaceNormal)[0]
	for i, sh := range OpaqueShapes {
		var in *wire.TxIn
		for _, tx := range n.Block.Transactions[1:] {
			for _, ti := range tx.TxIn {
				if ti.PreviousOutPoint == us[i].Op {
					in = ti
				}
			}
		}
		if in == nil {
			t.Fatalf("shape %d: forced spend not in block", sh)
		}
		pk, err := txscript.ComputePkScript(in.SignatureScript, in.Witness)
		switch sh {
		case SpendKeyPath:
			if err != nil || bytes.Equal(pk.Script(), us[i].Script) {
				t.Fatalf("key-path shape: err=%v, script equal=%v", err, err == nil)
			}
		default:
			if err == nil {
				t.Fatalf("shape %d: ComputePkScript recovered a script", sh)
			}
		}
	}
	// Default: every input recoverable.
	for _, b := range tr {
		pi := 0
		for _, tx := range b.Block.Transactions[1:] {
			for _, ti := range tx.TxIn {
				pk, err := txscript.ComputePkScript(ti.SignatureScript, ti.Witness)
				if err != nil || !bytes.Equal(pk.Script(), b.PrevScripts[pi]) {
					t.Fatalf("default input not recoverable: %v", err)
				}
				pi++
			}
		}
	}
}
