package chaingen

import (
	"math/rand"

	"github.com/btcsuite/btcd/address/v2"
	"github.com/btcsuite/btcd/blockchain"
	"github.com/btcsuite/btcd/btcutil/v2"
	"github.com/btcsuite/btcd/btcutil/v2/gcs/builder"
	"github.com/btcsuite/btcd/chainhash/v2"
	"github.com/btcsuite/btcd/txscript/v2"
	"github.com/btcsuite/btcd/wire/v2"
)

// Key is a synthetic "key": a 33-byte compressed-pubkey-shaped blob whose
// hash160 defines a P2WPKH and a P2PKH script. No signatures are ever
// verified by a light client, so witnesses carry random signature bytes; what
// matters is that txscript.ComputePkScript recovers the spent script from
// the witness / signature script, as neutrino's filter verification does.
type Key struct {
	Pub    []byte
	P2WPKH []byte
	P2PKH  []byte
}

// Utxo is a spendable output known to the generator on some branch.
type Utxo struct {
	Op     wire.OutPoint
	Script []byte
	Value  int64
	Key    int  // index into Keys (-1: not ours)
	Legacy bool // P2PKH
}

type wallet struct {
	rng  *rand.Rand
	Keys []Key
	// utxos per node (branch-local view).
	views map[*Node][]Utxo
	ctr   uint32

	// opaquePct (Config.OpaqueSpendPct, default 0 = never, no extra random
	// draws) is the share of generated inputs whose spent script cannot be
	// recovered from the input itself; forced are spends queued by
	// Gen.ForceSpend for the next block built.
	opaquePct int
	forced    []forcedSpend
}

// SpendShape says how the input spending an output looks.
type SpendShape int

const (
	// SpendRecoverable: P2WPKH witness / P2PKH signature script from which
	// txscript.ComputePkScript recovers the spent script (the only shape
	// produced unless asked otherwise).
	SpendRecoverable SpendShape = iota
	// SpendEmpty: empty signature script and empty witness (an
	// anyone-can-spend output, an unsigned transaction): ComputePkScript
	// returns an error.
	SpendEmpty
	// SpendNonPush: a signature script that is not push-only (starts with
	// OP_NOP), no witness: ComputePkScript returns an error.
	SpendNonPush
	// SpendTruncPush: a signature script whose last push announces more
	// bytes than follow (does not parse): ComputePkScript returns an error.
	SpendTruncPush
	// SpendKeyPath: a single 64-byte witness element (taproot key-path
	// look): ComputePkScript "recovers" a P2WSH script that is not the one
	// spent.
	SpendKeyPath
	NumSpendShapes
)

// OpaqueShapes are the shapes from which the spent script cannot be (rightly)
// recovered.
var OpaqueShapes = []SpendShape{SpendEmpty, SpendNonPush, SpendTruncPush, SpendKeyPath}

type forcedSpend struct {
	op    wire.OutPoint
	shape SpendShape
}

// ForceSpend queues a spend of u with the given input shape: the next block
// built by this generator on a parent whose UTXO view holds u contains a
// transaction (right after the coinbase) spending it. Filters stay correct:
// they are built from the previous-output scripts the generator knows itself.
func (g *Gen) ForceSpend(u Utxo, shape SpendShape) {
	g.wallet.forced = append(g.wallet.forced, forcedSpend{op: u.Op, shape: shape})
}

func hash160(b []byte) []byte { return address.Hash160(b) }

func newWallet(rng *rand.Rand) *wallet {
	w := &wallet{rng: rng, views: map[*Node][]Utxo{}}
	for i := 0; i < 16; i++ {
		pub := make([]byte, 33)
		rng.Read(pub)
		pub[0] = 0x02 + byte(i&1)
		h := hash160(pub)
		p2w := append([]byte{txscript.OP_0, 20}, h...)
		p2p := append([]byte{txscript.OP_DUP, txscript.OP_HASH160, 20}, h...)
		p2p = append(p2p, txscript.OP_EQUALVERIFY, txscript.OP_CHECKSIG)
		w.Keys = append(w.Keys, Key{Pub: pub, P2WPKH: p2w, P2PKH: p2p})
	}
	return w
}

// Keys exposes the generator's key pool (tests choose which to watch).
func (g *Gen) Keys() []Key { return g.wallet.Keys }

// Utxos returns the generator's spendable outputs as of node n.
func (g *Gen) Utxos(n *Node) []Utxo { return g.wallet.views[n] }

func (w *wallet) fakeSig() []byte {
	s := make([]byte, 71)
	w.rng.Read(s)
	s[0] = 0x30
	s[70] = 0x01
	return s
}

// spend builds the input for u.
func (w *wallet) spend(u Utxo) *wire.TxIn {
	if w.opaquePct > 0 && w.rng.Intn(100) < w.opaquePct {
		return w.spendShaped(u, OpaqueShapes[w.rng.Intn(len(OpaqueShapes))])
	}
	return w.spendShaped(u, SpendRecoverable)
}

// spendShaped builds the input for u with the given shape.
func (w *wallet) spendShaped(u Utxo, shape SpendShape) *wire.TxIn {
	in := wire.NewTxIn(&u.Op, nil, nil)
	k := w.Keys[u.Key]
	switch shape {
	case SpendEmpty:
		return in
	case SpendNonPush:
		sb := txscript.NewScriptBuilder().AddOp(txscript.OP_NOP).AddData(w.fakeSig()).AddData(k.Pub)
		in.SignatureScript, _ = sb.Script()
		return in
	case SpendTruncPush:
		sb := txscript.NewScriptBuilder().AddData(w.fakeSig())
		in.SignatureScript, _ = sb.Script()
		in.SignatureScript = append(in.SignatureScript, txscript.OP_DATA_33, k.Pub[0], k.Pub[1])
		return in
	case SpendKeyPath:
		in.Witness = wire.TxWitness{w.fakeSig()[:64]}
		return in
	}
	if u.Legacy {
		sb := txscript.NewScriptBuilder().AddData(w.fakeSig()).AddData(k.Pub)
		in.SignatureScript, _ = sb.Script()
	} else {
		in.Witness = wire.TxWitness{w.fakeSig(), k.Pub}
	}
	return in
}

// randScript returns (script, keyIndex, legacy). keyIndex -1 = foreign script.
func (w *wallet) randScript() ([]byte, int, bool) {
	if w.rng.Intn(16) == 0 {
		// Foreign script that does not parse (a push announcing more bytes
		// than follow) or is nonsense: BIP158 still commits to it (only
		// empty and OP_RETURN scripts are left out of a basic filter).
		s := make([]byte, 3+w.rng.Intn(9))
		w.rng.Read(s)
		switch w.rng.Intn(3) {
		case 0:
			s[0] = txscript.OP_DATA_32
		case 1:
			s[0] = txscript.OP_PUSHDATA2
		default:
			s[0] = txscript.OP_IF
		}
		return s, -1, false
	}
	switch w.rng.Intn(10) {
	case 0, 1: // foreign P2WPKH
		s := make([]byte, 22)
		w.rng.Read(s)
		s[0], s[1] = txscript.OP_0, 20
		return s, -1, false
	case 2: // ours, legacy
		i := w.rng.Intn(len(w.Keys))
		return w.Keys[i].P2PKH, i, true
	default:
		i := w.rng.Intn(len(w.Keys))
		return w.Keys[i].P2WPKH, i, false
	}
}

// buildBlock creates a full block on parent from header template h (bits,
// time, prev set), mines it and computes its filter.
func (g *Gen) buildBlock(parent *Node, h wire.BlockHeader, chain []wire.BlockHeader) *Node {
	w := g.wallet
	view := append([]Utxo(nil), w.views[parent]...)
	blk := &wire.MsgBlock{}
	var prevScripts [][]byte

	// Coinbase.
	w.ctr++
	cb := wire.NewMsgTx(2)
	cbIn := wire.NewTxIn(&wire.OutPoint{Index: 0xffffffff}, nil, nil)
	sb := txscript.NewScriptBuilder().AddInt64(int64(parent.Height + 1)).AddInt64(int64(w.ctr))
	cbIn.SignatureScript, _ = sb.Script()
	cb.AddTxIn(cbIn)
	cbScript, cbKey, cbLegacy := w.randScript()
	cb.AddTxOut(wire.NewTxOut(50_0000_0000, cbScript))
	blk.AddTransaction(cb)

	type pending struct {
		tx  *wire.MsgTx
		out []struct {
			key    int
			legacy bool
		}
	}
	var txs []pending

	forcedShape := SpendShape(-1) // >= 0: shape of every input of the next addTx
	addTx := func(ins []Utxo, nOut int, opret bool) *wire.MsgTx {
		tx := wire.NewMsgTx(2)
		var total int64
		for _, u := range ins {
			if forcedShape >= 0 {
				tx.AddTxIn(w.spendShaped(u, forcedShape))
			} else {
				tx.AddTxIn(w.spend(u))
			}
			prevScripts = append(prevScripts, u.Script)
			total += u.Value
		}
		p := pending{tx: tx}
		for i := 0; i < nOut; i++ {
			s, k, l := w.randScript()
			v := total / int64(nOut+1)
			if v <= 0 {
				v = 1000
			}
			tx.AddTxOut(wire.NewTxOut(v, s))
			p.out = append(p.out, struct {
				key    int
				legacy bool
			}{k, l})
		}
		if opret {
			d := make([]byte, 8)
			w.rng.Read(d)
			s, _ := txscript.NewScriptBuilder().AddOp(txscript.OP_RETURN).AddData(d).Script()
			tx.AddTxOut(wire.NewTxOut(0, s))
			p.out = append(p.out, struct {
				key    int
				legacy bool
			}{-2, false})
		}
		w.ctr++
		tx.LockTime = w.ctr // uniqueness
		txs = append(txs, p)
		return tx
	}

	take := func() (Utxo, bool) {
		if len(view) == 0 {
			return Utxo{}, false
		}
		i := w.rng.Intn(len(view))
		u := view[i]
		view = append(view[:i], view[i+1:]...)
		return u, true
	}

	// Spends queued by ForceSpend whose output is in this branch's view.
	if len(w.forced) > 0 {
		rest := w.forced[:0]
		for _, f := range w.forced {
			found := false
			for i, u := range view {
				if u.Op == f.op {
					view = append(view[:i], view[i+1:]...)
					forcedShape = f.shape
					addTx([]Utxo{u}, 1+w.rng.Intn(2), false)
					forcedShape = -1
					found = true
					break
				}
			}
			if !found {
				rest = append(rest, f)
			}
		}
		w.forced = rest
	}

	nTx := 0
	switch r := w.rng.Intn(10); {
	case r < 2:
		nTx = 0
	case r < 6:
		nTx = 1
	case r < 9:
		nTx = 2
	default:
		nTx = 4
	}
	for i := 0; i < nTx; i++ {
		u, ok := take()
		if !ok {
			break
		}
		ins := []Utxo{u}
		if w.rng.Intn(4) == 0 {
			if u2, ok := take(); ok {
				ins = append(ins, u2)
			}
		}
		tx := addTx(ins, 1+w.rng.Intn(3), w.rng.Intn(5) == 0)
		// Create-and-spend within the block.
		if w.rng.Intn(4) == 0 {
			p := txs[len(txs)-1]
			for oi, o := range p.out {
				if o.key >= 0 {
					th := tx.TxHash()
					cu := Utxo{
						Op:     wire.OutPoint{Hash: th, Index: uint32(oi)},
						Script: tx.TxOut[oi].PkScript, Value: tx.TxOut[oi].Value,
						Key: o.key, Legacy: o.legacy,
					}
					p.out[oi].key = -3 // consumed in-block
					txs[len(txs)-1] = p
					addTx([]Utxo{cu}, 1+w.rng.Intn(2), false)
					break
				}
			}
		}
	}

	// Witness commitment if any tx has witness data.
	hasWit := false
	for _, p := range txs {
		for _, in := range p.tx.TxIn {
			if len(in.Witness) > 0 {
				hasWit = true
			}
		}
		blk.AddTransaction(p.tx)
	}
	if hasWit {
		AddWitnessCommitment(blk)
	}
	utxs := make([]*btcutil.Tx, len(blk.Transactions))
	for i, tx := range blk.Transactions {
		utxs[i] = btcutil.NewTx(tx)
	}
	h.MerkleRoot = blockchain.CalcMerkleRoot(utxs, false)
	g.mine(&h)
	blk.Header = h

	n := g.newNode(parent, h, "")
	n.Block = blk
	n.PrevScripts = prevScripts

	// Record new utxos (ours only), bounded pool.
	if cbKey >= 0 {
		view = append(view, Utxo{
			Op:     wire.OutPoint{Hash: cb.TxHash(), Index: 0},
			Script: cbScript, Value: cb.TxOut[0].Value, Key: cbKey, Legacy: cbLegacy,
		})
	}
	for _, p := range txs {
		th := p.tx.TxHash()
		for oi, o := range p.out {
			if o.key >= 0 {
				view = append(view, Utxo{
					Op:     wire.OutPoint{Hash: th, Index: uint32(oi)},
					Script: p.tx.TxOut[oi].PkScript, Value: p.tx.TxOut[oi].Value,
					Key: o.key, Legacy: o.legacy,
				})
			}
		}
	}
	if len(view) > 48 {
		view = view[len(view)-48:]
	}
	w.views[n] = view
	g.finishFilter(n, prevScripts)
	return n
}

// AddWitnessCommitment gives the coinbase a 32-byte witness nonce and appends
// the BIP141 commitment output, replacing an existing one.
func AddWitnessCommitment(blk *wire.MsgBlock) {
	cb := blk.Transactions[0]
	nonce := make([]byte, blockchain.CoinbaseWitnessDataLen)
	cb.TxIn[0].Witness = wire.TxWitness{nonce}
	// Drop an earlier commitment output.
	outs := cb.TxOut[:0]
	for _, o := range cb.TxOut {
		if len(o.PkScript) >= 6 && o.PkScript[0] == txscript.OP_RETURN &&
			string(o.PkScript[2:6]) == string(blockchain.WitnessMagicBytes[2:6]) {
			continue
		}
		outs = append(outs, o)
	}
	cb.TxOut = outs
	utxs := make([]*btcutil.Tx, len(blk.Transactions))
	for i, tx := range blk.Transactions {
		utxs[i] = btcutil.NewTx(tx)
	}
	wroot := blockchain.CalcMerkleRoot(utxs, true)
	var pre [64]byte
	copy(pre[:32], wroot[:])
	copy(pre[32:], nonce)
	commit := chainhash.DoubleHashB(pre[:])
	script := append(append([]byte{}, blockchain.WitnessMagicBytes...), commit...)
	cb.AddTxOut(wire.NewTxOut(0, script))
}

// finishFilter computes the ground-truth BIP158 filter, its hash and the
// BIP157 filter header of n.
func (g *Gen) finishFilter(n *Node, prevScripts [][]byte) {
	f, err := builder.BuildBasicFilter(n.Block, prevScripts)
	if err != nil {
		panic(err)
	}
	n.Filter = f
	n.FilterBytes, _ = f.NBytes()
	n.FilterHash, _ = builder.GetFilterHash(f)
	var prev chainhash.Hash
	if n.Parent != nil {
		prev = n.Parent.FilterHeader
	} else {
		prev = n.Block.Header.PrevBlock
	}
	n.FilterHeader, _ = builder.MakeHeaderForFilter(f, prev)
}

// FilterHeaderFrom recomputes a BIP157 header from a filter hash and the
// previous header: dsha256(filterHash || prev).
func FilterHeaderFrom(filterHash, prev chainhash.Hash) chainhash.Hash {
	var b [64]byte
	copy(b[:32], filterHash[:])
	copy(b[32:], prev[:])
	return chainhash.DoubleHashH(b[:])
}
