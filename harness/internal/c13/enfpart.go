package c13

import (
	"encoding/json"
	"fmt"
	"os"
	"sort"
	"strings"
	"sync"
	"time"

	"verif/internal/evid"
	"verif/internal/l2"
)

// Floors of the enforcement half (quick tier measured: ≈13 scenario shapes +
// ≈25 per-peer outcome shapes, ≈30 bans, >100 connections opened after a ban).
const (
	EnforceMinDistinct = 14
	enforceMinBans     = 8
	enforceMinPostBan  = 20
	// Host family: offences judged that came from an IP already banned
	// through another port (the FIXED scenarios alone reach 6).
	enforceMinHostSecond = 2
	enfChildTimeout      = 400 * time.Second
)

// EnfTally is what the parent saw of the enforcement half.
type EnfTally struct {
	Distinct     int // distinct enf/ fingerprints (scenario shapes + per-peer outcome shapes)
	Nontrivial   int
	Bans         int64
	RequiredBans int64
	PostBanConns int64
	Scenarios    int64
	Planned      int // scenarios of this tier (after VERIF_SCALE)
	// Host family: scenarios that reported, and offences judged that were
	// committed from an IP already banned through another of its ports.
	HostScenarios int64
	HostSecond    int64
	HostPlanned   int
}

// enfClassic is the number of scenarios of the classic family in this tier
// (scenarios 0..enfClassic-1); the scenarios from there on belong to the
// family "several peers on one IP address" (enfhost.go). Set by EnforceCount.
var enfClassic = 16

// EnforceCount is the number of enforcement scenarios of a tier: the classic
// family followed by the host family (its first hostFixed scenarios are
// FIXED).
func EnforceCount(r *evid.Run) int {
	enfClassic = r.Pick(16, 150)
	return enfClassic + r.Pick(8, 40)
}

// EnforcementChild runs one scenario when this process is a scenario child
// (and never returns in that case).
func EnforcementChild(r *evid.Run) {
	if l2.IsChild() {
		l2.RunScenarios(r, EnforceCount(r), enfChildTimeout, EnforceScenario)
	}
}

// EnforcementOnly reports whether only the enforcement half was asked for.
func EnforcementOnly() bool { return *enfOnly || *enfOne >= 0 }

// EnforcementPart runs the scenario family (one child process each) and
// reports into r. It does not call r.Finish.
func EnforcementPart(r *evid.Run) EnfTally {
	r.Set("enf_rule", "enforcement part (engine L2, one child process per scenario): the complete real ChainService against scripted wire peers reached through Config.Dialer as ConnectPeers (permanent, so the connection manager redials them every 300 ms). "+
		"FIXED scenarios: 0 = a liar drops its connection after lying and answers the handshake of the redialled connection only once the client reports it banned (the ban lands mid-handshake); "+
		"1 = a peer whose filter CHECKPOINT is false while its cfheaders are true; 2 = a filter-header liar is the only peer during the initial sync, honest peers are admitted afterwards; 3 = a liar about an unparseable script; "+
		"4 = the only two peers announce two different false filter hashes for the same block (each serves the true filter, so each one's own two messages prove its announcement false), 5 = one such liar and a peer that announces the true hash and then answers no getcfilters/getdata: in both, two honest peers are admitted only once every peer of that first phase is banned (if that never happens they stay away and the liars-only phase is judged alone). "+
		"The others cycle through {services, liar-tip, liar-cp, bad-block, control, mixed, mixed-cp, liar-late, liar-batch, only-liars-then-honest (2-3 peers about one seeded height: wrong-hash liars, an unserved liar, a mute peer; 1-3 late honest/slow peers)}: chains of 100-400 blocks (at-tip filter-header path) or 1010-2200 with one block-header checkpoint at 1000 (checkpointed path), 1-3 honest peers plus, from the seed, peers without the CF / witness / both service bits, "+
		"provable filter-header liars (omit-script / wrong-hash / unserved at a height on the chain; also admitted late, so that only the false previous filter header shows), a consistent filter-checkpoint liar (provable lie below a checkpoint: false checkpoint and matching cfheaders), a batch liar (true checkpoints, false cfheaders, alone at first), "+
		"an invalid-block server (requested header, transactions altered: value / dropped tx / witness flip; the scenario then issues concurrent GetBlock calls), and honest-class peers: stale, slow, merely disconnecting; random first-connected peer; in 3/4 of the scenarios no peer serves block headers before all had their chance to connect (steering). "+
		"A peer already seen banned pushes: on any later connection on which the client lets it complete a handshake it at once announces an unknown block (inv). "+
		"Observed: IsBanned polled every ~4 ms (first sighting stamped with the event-log sequence), per-address connection records (open point, open/closed, events per connection), the ban store reopened after Stop. "+
		"Oracle: (a) missing-service peer whose version the client read => store record NoCompactFilters and IsBanned; (b) liar whose lie was sent while the client could see the conflict (an honest peer answered the same request / another peer, liar or not, answered the same request with a different hash for that block, being the first block the two answers differ about / honest checkpoints were known / the false previous filter header met the client's own true tip / its own true checkpoints) and the committed filter tip passed the height => InvalidFilterHeader/-Checkpoint, already in place when the initial sync completed if the lie was told before; at-tip liar not banned although the conflict was on the table in 3 or more rounds and the proof was served (the disputed block, or the liar's own filter not hashing to its announced hash); checkpoint-only liar not banned after 3 rounds of conflict resolution; bad-block server that promptly answered a getdata => InvalidBlock; "+
		"(c) no honest/stale/slow/disconnecting peer banned unless the log shows it left a request unanswered/late or dropped its own connection in a session with conflicts (then inconclusive); "+
		"(d) on connections the client dealt with after the ban was seen (opened later, or the peer's version sent later) the peer receives no request message at all, and no handshaken connection to a banned address is open after a 30 s watchdog (typical: ms); (e) an honest peer is still connected; IsBanned agrees with the reopened store. "+
		"distinct = scenario shape (kind x peer-mix multiset x path x first peer / steering) and per-peer outcome shape (class[:lie] x path x ban reason x what happened to later connections); non-trivial = at least one ban observed (control: synced with all peers up)")
	r.Set("enf_host_rule", "family 'several peers on one IP address' (the scenarios after the classic ones; enf_host_* counters): a host is one IP address (IPv4, IPv4 the client is told in IPv4-mapped spelling, IPv6, IPv6 told expanded) with 2-3 simulated peers on different ports, all connected at once and past the handshake, next to 2 honest peers on IPs of their own; 1-2 hosts. "+
		"The ports of a host misbehave at DIFFERENT moments, with offences of the existing vocabulary: an invalid block in answer to a GetBlock call's getdata (value / dropped tx / witness flip), a false filter hash (omit-script / wrong-hash / unserved) for the next announced block in answer to a getcfheaders request the honest peers answer too, a false filter checkpoint during a checkpointed initial sync (first offender only), service bits without witness / compact filters on a reconnect (only while the IP is not banned); interleaved with a port dropping its own connection, UnbanPeer (either spelling, any port's address, permanent or not) and a restart of the client on the same data directory. "+
		"FIXED: 0 = two ports of one IPv4 host, port 0 serves an invalid block, later port 1 does; 1 = three ports (told IPv4-mapped): missing services on a reconnect, then a false filter hash, then an invalid block; 2 = IPv6, two ports: false filter hash, unban by the other spelling, invalid block from the same port, invalid block from the other; 3 = invalid block, restart, unban, unserved false filter hash from the other port, invalid block. The others are seeded. "+
		"Oracle, per offender, once the client has judged the item (the GetBlock call during which the invalid block was served promptly has returned the true block / the client's committed filter headers passed the height of the false hash / it completed the initial sync / it closed the connection on which the version arrived): IsBanned is true; the connection on which the item was served is closed (if it is still open after a 30 s watchdog one more block is announced: a violation only if the client follows it to the tip with the connection still open); the ban store opened next to the client (not IsBanned's path) holds a record for the IP whose reason belongs to an offence a port of that IP committed since the ban was last lifted; IsBanned agrees with it for the bare IP, two more spellings and both spellings of every port; no connection to any port of the IP opened while the ban stands (from its sighting to the UnbanPeer call, across restarts) completes a handshake; after UnbanPeer nothing reports the address banned; the database reopened after Stop agrees with the model. "+
		"NOT judged, counted: whether a port that has not misbehaved is dropped when its IP is banned (the client keeps it), whether the recorded reason is that of the latest or of an earlier offence. Non-trivial = at least one offence judged that came from an IP already banned through another port.")
	r.Assume("enforcement part: the simulated peers implement the protocol subset of DESIGN appendix B; client knobs (QueryTimeout 1.5 s, ConnectionRetryInterval 300 ms) are the shortened exported configuration of engine L2; a connection 'carried a request' iff the peer-side log shows a non-handshake, non-ping message on it")
	r.Assume("enforcement part: a ban is timestamped by polling IsBanned, so a connection opened between the ban and its first sighting counts as opened before the ban (weaker, never wrong)")

	if *enfOne >= 0 {
		EnforceCount(r) // (sets the boundary between the two families)
		res := &l2.Result{Scenario: *enfOne}
		t0 := time.Now()
		EnforceScenario(r.Seed, *enfOne, res)
		res.WallS = time.Since(t0).Seconds()
		b, _ := json.MarshalIndent(res, "", " ")
		fmt.Println(string(b))
		os.Exit(0)
	}

	var (
		mu      sync.Mutex
		fps     = map[string]bool{}
		tally   EnfTally
		samples = map[int]any{} // the store half fills evid's sample slots: keep the enforcement samples apart
	)
	total := EnforceCount(r)
	cb := func(res *l2.Result) {
		mu.Lock()
		defer mu.Unlock()
		if res.Nontrivial {
			tally.Nontrivial++
			fps[res.Fingerprint] = true
		}
		for _, m := range res.Marks {
			if strings.HasPrefix(m, "enf/") {
				fps[m] = true
			}
		}
		if res.Sample != nil && (res.Scenario < 4 || res.Scenario >= enfClassic && res.Scenario < enfClassic+2) {
			samples[res.Scenario] = map[string]any{"scenario": res.Scenario, "name": res.Name, "fingerprint": res.Fingerprint,
				"wall_s": res.WallS, "marks": res.Marks, "observed": res.Sample}
		}
		tally.Bans += res.Counters["enf_bans_observed"]
		tally.RequiredBans += res.Counters["enf_required_bans_found"]
		tally.PostBanConns += res.Counters["enf_postban_connections"]
		tally.Scenarios += res.Counters["enf_scenarios"]
		tally.HostScenarios += res.Counters["enf_host_scenarios"]
		tally.HostSecond += res.Counters["enf_host_offences_judged_ip-already-banned-through-another-port"]
	}
	// The host family's scenarios mostly wait (query timeouts, redials): they
	// run on a pool of their own next to the classic ones instead of behind
	// them. The case list is the same either way.
	var hostKs []int
	for k := enfClassic; k < total; k++ {
		hostKs = append(hostKs, k)
	}
	var hostDone sync.WaitGroup
	hostDone.Add(1)
	go func() {
		defer hostDone.Done()
		l2.RunScenarioList(r, hostKs, 8, enfChildTimeout, cb)
	}()
	l2.RunScenariosCB(r, enfClassic, enfChildTimeout, EnforceScenario, cb)
	hostDone.Wait()
	tally.Distinct = len(fps)
	tally.Planned = total
	tally.HostPlanned = total - enfClassic
	list := make([]string, 0, len(fps))
	for k := range fps {
		list = append(list, k)
	}
	sort.Strings(list)
	if len(list) > 80 {
		list = list[:80]
	}
	r.Set("enf_fingerprints_seen_first80", list)
	var ss []any
	for _, k := range []int{0, 1, 2, 3, enfClassic, enfClassic + 1} {
		if v, ok := samples[k]; ok {
			ss = append(ss, v)
		}
	}
	r.Set("enf_samples", ss)
	r.Count("enf_distinct_nontrivial", int64(tally.Distinct))
	r.Count("enf_scenarios_nontrivial", int64(tally.Nontrivial))
	return tally
}

// EnforcementFloorMet says whether the enforcement half observed enough for
// the run to count; the text explains a miss.
func (t EnfTally) EnforcementFloorMet() (bool, string) {
	// The floors shrink with the scenario count (VERIF_SCALE runs).
	lim := func(floor, n int64) int64 {
		if n < floor {
			return n
		}
		return floor
	}
	n := int64(t.Planned)
	switch {
	case int64(t.Distinct) < lim(EnforceMinDistinct, n):
		return false, fmt.Sprintf("enforcement half: %d distinct non-trivial shapes < floor %d", t.Distinct, lim(EnforceMinDistinct, n))
	case t.Bans < lim(enforceMinBans, n/2):
		return false, fmt.Sprintf("enforcement half: %d bans observed < floor %d", t.Bans, lim(enforceMinBans, n/2))
	case t.PostBanConns < lim(enforceMinPostBan, n):
		return false, fmt.Sprintf("enforcement half: %d connections opened after a ban < floor %d", t.PostBanConns, lim(enforceMinPostBan, n))
	case t.HostSecond < lim(enforceMinHostSecond, int64(t.HostPlanned)):
		return false, fmt.Sprintf("enforcement half, several peers on one IP: %d offences judged that came from an already banned IP < floor %d (%d of %d scenarios reported)",
			t.HostSecond, lim(enforceMinHostSecond, int64(t.HostPlanned)), t.HostScenarios, t.HostPlanned)
	}
	return true, ""
}

// StoreOnly reports whether a store-part reproduction flag was given (then the
// enforcement half is skipped).
func StoreOnly() bool { return *onlySeq >= 0 || *timedOnly }
