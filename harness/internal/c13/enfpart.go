package c13

import (
	"encoding/json"
	"fmt"
	"os"
	"sort"
	"strings"
	"sync"
	"time"

	"verif/internal/evid"
	"verif/internal/l2"
)

// Floors of the enforcement half (quick tier measured: ≈13 scenario shapes +
// ≈25 per-peer outcome shapes, ≈30 bans, >100 connections opened after a ban).
const (
	EnforceMinDistinct = 14
	enforceMinBans     = 8
	enforceMinPostBan  = 20
	enfChildTimeout    = 400 * time.Second
)

// EnfTally is what the parent saw of the enforcement half.
type EnfTally struct {
	Distinct     int // distinct enf/ fingerprints (scenario shapes + per-peer outcome shapes)
	Nontrivial   int
	Bans         int64
	RequiredBans int64
	PostBanConns int64
	Scenarios    int64
}

// EnforceCount is the number of enforcement scenarios of a tier.
func EnforceCount(r *evid.Run) int { return r.Pick(14, 150) }

// EnforcementChild runs one scenario when this process is a scenario child
// (and never returns in that case).
func EnforcementChild(r *evid.Run) {
	if l2.IsChild() {
		l2.RunScenarios(r, EnforceCount(r), enfChildTimeout, EnforceScenario)
	}
}

// EnforcementOnly reports whether only the enforcement half was asked for.
func EnforcementOnly() bool { return *enfOnly || *enfOne >= 0 }

// EnforcementPart runs the scenario family (one child process each) and
// reports into r. It does not call r.Finish.
func EnforcementPart(r *evid.Run) EnfTally {
	r.Set("enf_rule", "enforcement part (engine L2, one child process per scenario): the complete real ChainService against scripted wire peers reached through Config.Dialer as ConnectPeers (permanent, so the connection manager redials them). "+
		"Scenario 0 is FIXED (a liar drops its connection after lying and completes the handshake of the redialled connection only once the client reports it banned: the ban lands mid-handshake); the others cycle through "+
		"{services, liar-tip, liar-cp, bad-block, control, mixed, mixed-cp}: chains of 100-400 blocks (at-tip filter-header path) or 1000-2200 (checkpointed path), 1-3 honest peers plus, from the seed, peers without the CF / witness / both service bits, "+
		"provable filter-header liars (omit-script / wrong-hash / unserved at a height on the chain), a consistent filter-checkpoint liar (provable lie below a checkpoint: false checkpoint and matching cfheaders), "+
		"an invalid-block server (requested header, transactions altered: value / dropped tx / witness flip; the scenario then issues concurrent GetBlock calls), and honest-class peers: stale, slow, merely disconnecting; random first-connected peer. "+
		"Observed: IsBanned polled every ~4 ms (first sighting stamped with the event-log sequence), per-address connection records (open point, open/closed, events per connection), the ban store reopened after Stop. "+
		"Oracle: (a) missing-service peer whose version the client read => store record NoCompactFilters and IsBanned; (b) liar whose lie was sent while an honest peer answered the same request (or honest checkpoints were known) and the committed filter tip passed the height => InvalidFilterHeader/-Checkpoint; bad-block server that promptly answered a getdata => InvalidBlock; "+
		"(c) no honest/stale/slow/disconnecting peer banned unless the log shows it left a request unanswered/late or dropped its own connection in a session with conflicts (then inconclusive); "+
		"(d) on connections opened after the ban was seen the peer receives no request message at all, and no handshaken connection to a banned address is open after a 30 s watchdog (typical: ms); (e) an honest peer is still connected; IsBanned agrees with the reopened store. "+
		"distinct = scenario shape (kind x peer-mix multiset x path x first peer) and per-peer outcome shape (class[:lie] x path x ban reason x what happened to later connections); non-trivial = at least one ban observed (control: synced with all peers up)")
	r.Assume("enforcement part: the simulated peers implement the protocol subset of DESIGN appendix B; client knobs (QueryTimeout 1.5 s, ConnectionRetryInterval 300 ms) are the shortened exported configuration of engine L2; a connection 'carried a request' iff the peer-side log shows a non-handshake, non-ping message on it")
	r.Assume("enforcement part: a ban is timestamped by polling IsBanned, so a connection opened between the ban and its first sighting counts as opened before the ban (weaker, never wrong)")

	if *enfOne >= 0 {
		res := &l2.Result{Scenario: *enfOne}
		t0 := time.Now()
		EnforceScenario(r.Seed, *enfOne, res)
		res.WallS = time.Since(t0).Seconds()
		b, _ := json.MarshalIndent(res, "", " ")
		fmt.Println(string(b))
		os.Exit(0)
	}

	var (
		mu    sync.Mutex
		fps   = map[string]bool{}
		tally EnfTally
	)
	l2.RunScenariosCB(r, EnforceCount(r), enfChildTimeout, EnforceScenario, func(res *l2.Result) {
		mu.Lock()
		defer mu.Unlock()
		if res.Nontrivial {
			tally.Nontrivial++
			fps[res.Fingerprint] = true
		}
		for _, m := range res.Marks {
			if strings.HasPrefix(m, "enf/") {
				fps[m] = true
			}
		}
		tally.Bans += res.Counters["enf_bans_observed"]
		tally.RequiredBans += res.Counters["enf_required_bans_found"]
		tally.PostBanConns += res.Counters["enf_postban_connections"]
		tally.Scenarios += res.Counters["enf_scenarios"]
	})
	tally.Distinct = len(fps)
	list := make([]string, 0, len(fps))
	for k := range fps {
		list = append(list, k)
	}
	sort.Strings(list)
	if len(list) > 80 {
		list = list[:80]
	}
	r.Set("enf_fingerprints_seen_first80", list)
	r.Count("enf_distinct_nontrivial", int64(tally.Distinct))
	r.Count("enf_scenarios_nontrivial", int64(tally.Nontrivial))
	return tally
}

// EnforcementFloorMet says whether the enforcement half observed enough for
// the run to count; the text explains a miss.
func (t EnfTally) EnforcementFloorMet() (bool, string) {
	switch {
	case t.Distinct < EnforceMinDistinct:
		return false, fmt.Sprintf("enforcement half: %d distinct non-trivial shapes < floor %d", t.Distinct, EnforceMinDistinct)
	case t.Bans < enforceMinBans:
		return false, fmt.Sprintf("enforcement half: %d bans observed < floor %d", t.Bans, enforceMinBans)
	case t.PostBanConns < enforceMinPostBan:
		return false, fmt.Sprintf("enforcement half: %d connections opened after a ban < floor %d", t.PostBanConns, enforceMinPostBan)
	}
	return true, ""
}

// StoreOnly reports whether a store-part reproduction flag was given (then the
// enforcement half is skipped).
func StoreOnly() bool { return *onlySeq >= 0 || *timedOnly }
