package c13

import (
	"flag"
	"fmt"
	"math/rand"
	"os"
	"runtime"
	"sort"
	"sync"

	"verif/internal/evid"
)

// -c13-seq N runs only sequence N of the tier (to reproduce a witness).
var (
	onlySeq   = flag.Int("c13-seq", -1, "C13 store part: run only this sequence index")
	timedOnly = flag.Bool("c13-timed-only", false, "C13 store part: run only the timed (2 s ban) set, in any tier")
)

// StoreMinDistinct is the floor on distinct non-trivial shapes the store part
// alone must reach in the quick tier (measured: > 2000).
const StoreMinDistinct = 800

const (
	regularOps = 500
	denseOps   = 60
	denseEvery = 6 // every 6th sequence is a dense one
)

// StorePart drives the real banman.Store and reports into r. It does not call
// r.Finish.
func StorePart(r *evid.Run) {
	r.Rule("store part: seeded sequences over the real banman.Store on a real bbolt file; " +
		"regular sequences = 500 ops (ban/unban/status/reopen) over 25 base addresses x 9 spellings x family-length masks " +
		"(nil, full, byte-aligned, odd, /0) x all 5 reasons x durations away from the clock (negative, zero, hours, decades), " +
		"with Status compared against the model after each op for every spelling of the touched network plus sampled other " +
		"networks, and for EVERY spelling of EVERY touched (address, mask) at sweeps and at the end; every 6th sequence is dense " +
		"(4 addresses, 60 ops, full sweep after ~82% of ops). Some ops are followed by no comparison so that lapsed records stay " +
		"physically in the file. Distinct = (op kind, spelling kind, family, mask class, duration class of the ban in force, " +
		"first-touch-after-reopen); non-trivial = a ban, or an unban/status that meets a record, or a reopen with records. " +
		"A concurrent set bans a network (whose lapsed earlier record is still in the file) while 1-3 goroutines query its status: the ban must be in force once all calls returned. " +
		"Thorough adds real 2 s bans judged only clearly inside (<1 s) or outside (>3.2 s) the ban on the monotonic clock.")
	r.Assume("net/netip decides which spellings denote one IP address (IPv4-mapped IPv6 = the IPv4 address, Addr.Unmap) and the canonical prefix of (address, mask)")
	r.Assume("walletdb/bbolt Close+Open is a faithful close and reopen of the database; no crash is injected here (C08)")
	r.Assume("re-banning a network replaces reason and expiry (last ban counts); unbanning an absent network is a silent no-op; Status is per exact (network, mask) record — read off banman/store.go")
	r.Assume("the process wall clock is not stepped by more than 60 s during a run (expiry sanity rule); the timed set detects steps > 200 ms and goes inconclusive")

	if err := selfCheckSpellings(); err != nil {
		fmt.Fprintf(os.Stderr, "C13 harness bug: %v\n", err)
		r.Inconclusive("harness: spelling generator is wrong: " + err.Error())
		return
	}

	base := os.Getenv("VERIF_SCRATCH")
	if base == "" {
		d, err := os.MkdirTemp("", "verif-c13-")
		if err != nil {
			r.Inconclusive("no scratch directory: " + err.Error())
			return
		}
		base = d
		defer os.RemoveAll(base)
	}
	dir, err := os.MkdirTemp(base, "c13-store-")
	if err != nil {
		r.Inconclusive("no scratch directory: " + err.Error())
		return
	}
	defer os.RemoveAll(dir)

	// Timed set first (thorough only), while the disk is quiet.
	nTimed := r.Pick(0, 30)
	if *timedOnly {
		nTimed = 30
	}
	if nTimed > 0 && *onlySeq < 0 {
		runTimedSet(r, dir, nTimed)
	}
	if *timedOnly {
		return
	}

	if *onlySeq < 0 {
		runConcurrentSet(r, dir, r.Pick(120, 1500))
	}

	nSeq := r.Pick(60, 1500)
	workers := 4 * runtime.NumCPU() // the store fsyncs on every call: I/O bound
	if workers > 64 {
		workers = 64
	}
	if workers > nSeq {
		workers = nSeq
	}

	var (
		mu        sync.Mutex
		spellings = map[string]bool{}
		kinds     = map[string]bool{}
	)
	jobs := make(chan int)
	var wg sync.WaitGroup
	for w := 0; w < workers; w++ {
		wg.Add(1)
		go func() {
			defer wg.Done()
			for idx := range jobs {
				st := runOne(r, dir, idx)
				mu.Lock()
				for k := range st.spellings {
					spellings[k] = true
				}
				for k := range st.kinds {
					kinds[k] = true
				}
				mu.Unlock()
			}
		}()
	}
	for idx := 0; idx < nSeq; idx++ {
		if *onlySeq >= 0 && idx != *onlySeq {
			continue
		}
		jobs <- idx
	}
	close(jobs)
	wg.Wait()

	r.Count("spellings_exercised", int64(len(spellings)))
	r.Count("spellings_possible", int64(len(baseAddrs)*len(v4Kinds)))
	r.Count("base_addresses", int64(len(baseAddrs)))
	ks := make([]string, 0, len(kinds))
	for k := range kinds {
		ks = append(ks, k)
	}
	sort.Strings(ks)
	r.Set("spelling_kinds_exercised", ks)
}

func runOne(r *evid.Run, dir string, idx int) *seqStats {
	dense := idx%denseEvery == denseEvery-1
	n := regularOps
	if dense {
		n = denseOps
	}
	ops, universe := genSequence(r.Seed, idx, dense, n)
	st := &seqStats{ops: map[string]int64{}, fps: map[string]bool{},
		spellings: map[string]bool{}, kinds: map[string]bool{}}
	s := &seqRunner{r: r, seed: r.Seed, idx: idx, dense: dense, ops: ops,
		model: NewBans(), seenP: map[pair]bool{}, st: st,
		rng: rand.New(rand.NewSource(mix(r.Seed, int64(idx)+500_000)))}
	s.run(dir)

	// One evaluation per sequence; its op shapes go to the distinct set.
	kind := "regular"
	if dense {
		kind = "dense"
	}
	r.Case(fmt.Sprintf("sequence/%s/reopens=%s/records-at-end=%s", kind, bucket(int(st.reopens)), bucket(len(s.model.m))),
		len(st.fps) > 0)
	for fp := range st.fps {
		r.Mark(fp)
	}
	for k, v := range st.ops {
		r.Count("ops_"+k, v)
	}
	r.Count("status_comparisons", st.comparisons)
	r.Count("comparisons_expect_banned", st.expBanned)
	r.Count("comparisons_expect_lapsed", st.expLapsed)
	r.Count("comparisons_expect_no_record", st.expAbsent)
	r.Count("comparisons_first_touch_after_reopen", st.cmpFirstAfterReopen)
	r.Count("reopens", st.reopens)
	r.Count("lapsed_unqueried_records_at_reopen", st.lapsedUnqueriedAtReopen)
	r.Count("bans_overwriting_a_record", st.overwrites)
	r.Count("unbans_of_absent_record", st.unbanAbsent)
	r.Count("expiry_checks", st.expiryChecks)
	if dense {
		r.Count("sequences_dense", 1)
	} else {
		r.Count("sequences_regular", 1)
	}
	if s.dead {
		r.Count("sequences_aborted", 1)
	}

	head := ops
	if len(head) > 10 {
		head = head[:10]
	}
	us := make([]string, len(universe))
	for i, u := range universe {
		us[i] = baseAddrs[u].String()
	}
	if dense || idx < 3 {
		if !dense {
			us = []string{fmt.Sprintf("all %d base addresses", len(baseAddrs))}
		}
		r.Sample(map[string]any{
			"sequence": idx, "dense": dense, "universe": us, "ops": len(ops),
			"first_ops": head, "status_comparisons": st.comparisons, "reopens": st.reopens,
			"distinct_op_shapes": len(st.fps),
		})
	}
	return st
}
